(* Executable checkers for the correspondence run of C19 (evaluated with vm_compute on what the harness
   observed on the implementation).  Imports no proofs.
   Enumerated tiers: the harness sends (size, first index, observations); [unrank] recomputes the expressions
   in the harness's enumeration order (harness/c19.go c19Alpha.unrank is the same function), Coq renders them
   itself ([flat]: Syn/Render.v pp + flatten), parses its own tokens, optimizes, generates and executes.
   Explicit cases carry the tokens of the real tokenizer and the source tree. *)
From P2 Require Import Base.Prelude Sem.Num Lex.Token Syn.Ast Syn.Parse Syn.Render Gen.Generic Gen.Instances
  Generated.ExampleCfg.
From P2 Require Lex.Tok.
Local Open Scope N_scope.

(* ---------- enumeration ---------- *)
(* al_bin2: further two-operand forms (calls with two arguments), enumerated after the binary operators *)
Record alpha := mkAlpha { al_leaves : list sexp; al_un : list (sexp -> sexp); al_bin : list str;
                          al_bin2 : list (sexp -> sexp -> sexp) }.
Definition al_nbin (al : alpha) : N := N.of_nat (length (al_bin al) + length (al_bin2 al)).

Fixpoint sumN (l : list N) : N := match l with [] => 0 | x :: r => x + sumN r end.
Fixpoint mul2 (a b : list N) : list N :=
  match a, b with x :: a', y :: b' => x * y :: mul2 a' b' | _, _ => [] end.

(* [c0; ...; cn]: number of expressions with exactly k operator nodes *)
Fixpoint counts (al : alpha) (n : nat) : list N :=
  match n with
  | O => [N.of_nat (length (al_leaves al))]
  | S m =>
      let cs := counts al m in
      cs ++ [N.of_nat (length (al_un al)) * last cs 0 + al_nbin al * sumN (mul2 cs (rev cs))]
  end.

Definition s_dummy : sexp := SName [].

Fixpoint unrank (al : alpha) (cs : list N) (fuel : nat) (n : nat) (i : N) {struct fuel} : sexp :=
  match fuel with
  | O => s_dummy
  | S f =>
      match n with
      | O => nth (N.to_nat i) (al_leaves al) s_dummy
      | S m =>
          let cu := nth m cs 0 in
          let nu := N.of_nat (length (al_un al)) in
          if i <? nu * cu then
            (nth (N.to_nat (i / cu)) (al_un al) (fun e => e)) (unrank al cs f m (i mod cu))
          else
            (fix go (ls : list nat) (i : N) : sexp :=
               match ls with
               | [] => s_dummy
               | l :: r =>
                   let cl := nth l cs 0 in
                   let cr := nth (m - l) cs 0 in
                   let blk := al_nbin al * cl * cr in
                   if i <? blk then
                     let rest := i mod (cl * cr) in
                     let k := N.to_nat (i / (cl * cr)) in
                     let x := unrank al cs f l (rest / cr) in
                     let y := unrank al cs f (m - l) (rest mod cr) in
                     if (k <? length (al_bin al))%nat then SBin (nth k (al_bin al) []) x y
                     else (nth (k - length (al_bin al)) (al_bin2 al) (fun a _ => a)) x y
                   else go r (i - blk)
               end) (seq 0 (S m)) (i - nu * cu)
      end
  end.

Definition nm (c : N) : sexp := SName [c].

Definition bool_alpha : alpha :=
  mkAlpha [nm 97; nm 98; nm 99; SName [116; 114; 117; 101]; SName [102; 97; 108; 115; 101]]
          (map (fun u => SUn (fst u)) ex_bool_unary)
          (map (fun o => fst (fst (fst o))) ex_bool_ops) [].

Definition float_alpha : alpha :=
  mkAlpha [nm 97; nm 98; SNum [50]; SNum [48; 46; 53]]
          [SUn [45]; fun e => SBin [47] e (SNum [50])]
          [[61]; [60]; [43]; [45]; [42]] [].

(* prefix-operator variants of the float table: prefix operators at every operand position *)
(* ... and calls of the functions of the variants: one-argument and two-argument forms of every registration API *)
Definition fn_sum : str := [115; 117; 109]. Definition fn_max : str := [109; 97; 120].
Definition fn_sum3 : str := [115; 117; 109; 51]. Definition fn_cnt : str := [99; 110; 116].
Definition fn_avg2 : str := [97; 118; 103; 50]. Definition fn_half : str := [104; 97; 108; 102].
Definition float_var_alpha (unary : list str) : alpha :=
  mkAlpha [nm 97; nm 98; SNum [50]]
          (map SUn unary ++ [fun e => SCall fn_sum [e]; fun e => SCall fn_half [e]])
          [[61]; [43]; [45]; [42]; [94]]
          [fun x y => SCall fn_sum [x; y]; fun x y => SCall fn_max [x; y]; fun x y => SCall fn_sum3 [x; y; SNum [50]];
           fun x y => SCall fn_cnt [x; y]; fun x y => SCall fn_avg2 [x; y]].

(* ---------- assignments ---------- *)
Definition bool_assigns : list (list bool) :=
  [[false; false; false]; [false; false; true]; [false; true; false]; [false; true; true];
   [true; false; false]; [true; false; true]; [true; true; false]; [true; true; true]].

Definition f_0 := fl_zero. Definition f_2 := FFin 1 1. Definition f_m15 := FFin (-3) (-1).
Definition f_05 := FFin 1 (-1). Definition f_m3 := FFin (-3) 0.
Definition float_assigns : list (list fl) :=
  [[f_0; f_2]; [f_0; f_05]; [f_0; f_m3]; [f_2; f_2]; [f_2; f_05]; [f_2; f_m3]; [f_m15; f_2]; [f_m15; f_05]; [f_m15; f_m3]].

(* ---------- model results ---------- *)
(* Generate once, evaluate on every assignment; None = Parse or Generate returned an error *)
Definition results {V} (cfg : gcfg V) (opt : bool) (args : list str) (ts : list tk) (assigns : list (list V))
  : option (list (option V)) :=
  match parse_opt cfg opt args ts with
  | POk g =>
      if gen_check cfg args g then
        Some (map (fun vals => match fst (exec cfg args g vals (length vals)) with
                               | XOk v => Some v
                               | _ => None
                               end) assigns)
      else None
  | _ => None
  end.

(* both optimizer settings from one parse (parse_opt differs only in the pass after of_ast) *)
Definition results2 {V} (cfg : gcfg V) (args : list str) (ts : list tk) (assigns : list (list V))
  : option (list (option V)) * option (list (option V)) :=
  match parse (pcfg_of cfg) (ids_of cfg args) ts with
  | POk a =>
      let g := of_ast cfg a in
      let ev := fun g => if gen_check cfg args g then
                           Some (map (fun vals => match fst (exec cfg args g vals (length vals)) with
                                                  | XOk v => Some v
                                                  | _ => None
                                                  end) assigns)
                         else None in
      (ev (opt_all cfg [] g), ev g)
  | _ => (None, None)
  end.

Definition spec_results {V} (cfg : gcfg V) (args : list str) (e : sexp) (assigns : list (list V)) : list (option V) :=
  map (fun vals => denote cfg (rho_of args vals) e) assigns.

Definition layout_of (i : N) : rt -> nat :=
  if N.even i then (fun _ => O) else (fun r => if is_atom r then O else 1%nat).

(* truth vector: bit i (from the left: assignment 0 is the lowest bit) *)
Fixpoint vec_of (l : list (option bool)) (bit : N) : option N :=
  match l with
  | [] => Some 0
  | Some b :: r => match vec_of r (2 * bit) with Some v => Some ((if b then bit else 0) + v) | None => None end
  | None :: _ => None
  end.

Definition opt_eqb {A} (eqb : A -> A -> bool) (a b : option A) : bool :=
  match a, b with Some x, Some y => eqb x y | None, None => true | _, _ => false end.

Fixpoint list_eqb {A} (eqb : A -> A -> bool) (a b : list A) : bool :=
  match a, b with
  | [], [] => true
  | x :: a', y :: b' => eqb x y && list_eqb eqb a' b'
  | _, _ => false
  end.

(* float: the model answers None when it cannot decide (inexact): such a position is not compared *)
Definition fl_pos_ok (m o : option fl) : bool :=
  match m with Some v => match o with Some w => fl_beq v w | None => false end | None => true end.

Fixpoint fl_list_ok (m o : list (option fl)) : bool :=
  match m, o with
  | [], [] => true
  | x :: m', y :: o' => fl_pos_ok x y && fl_list_ok m' o'
  | _, _ => false
  end.

Definition fl_res_ok (m o : option (list (option fl))) : bool :=
  match m, o with
  | Some lm, Some lo => fl_list_ok lm lo
  | None, None => true
  | _, _ => false
  end.

(* ---------- cases ---------- *)
(* CBoolEnum: [count] expressions from index [start] of the enumeration with n operator nodes; the observations
   (per expression: truth vector with the optimizer + 256 * truth vector without) travel as two running
   checksums h := (h * m + v + c) mod (2^31 - 1) - a literal per observation costs more to read than to check;
   the Go side compares every vector itself, and a replay of a block sends its expressions one by one;
   errs = the implementation answered with an error somewhere (never expected here).
   CBoolExpl: tokens of the real tokenizer (None: a let/if form the model renders itself), source tree,
   observations with / without the optimizer: 0 = Parse or Generate failed, else 1 + 2*(vector + 256*error mask). *)
Inductive c19_body :=
| CBoolEnum (flags : list bool) (n : nat) (start : N) (count : nat) (errs : bool) (h1 h2 : N)
| CBoolExpl (flags : list bool) (toks : option (list (N * str))) (src : sexp) (on off : N)
| CFloatEnum (flags : list bool) (n : nat) (idx : N) (on off : list Z)
| CFloatExpl (flags : list bool) (toks : option (list (N * str))) (src : sexp) (on off : list Z)
| CFloatText (flags : list bool) (text : list N) (tops kws : list str) (comments comfort : bool)
             (toks : list (N * str)) (src : sexp) (on off : list Z)
| CFloatVarEnum (unary : list str) (strict : bool) (flags : list bool) (n : nat) (idx : N) (on off : list Z)
| CFloatVarExpl (unary : list str) (strict : bool) (flags : list bool) (toks : option (list (N * str))) (src : sexp)
                (on off : list Z).

(* CFloatText: a CFloatExpl case of example/minimal.go that also carries its source TEXT (ASCII) and the tokenizer
   configuration Parser.Parse used (hook VerifTokenizerConfig: operator list, keywords, comment and COMFORT flag): the
   tokenizer model (Lex/Tok.v) must deliver the tokens the real tokenizer delivered - in particular the multiplication
   signs the comfort rule inserts into  2a ,  (a+1)(1-a) ,  2(a) ,  a b  - and src is the tree with EXPLICIT products. *)
Definition text_tcfg (tops kws : list str) (comments comfort : bool) : P2.Lex.Tok.tcfg :=
  P2.Lex.Tok.mkCfg tops [] kws comments comfort P2.Lex.Tok.MSimple
    (fun c => ((65 <=? c) && (c <=? 90)) || ((97 <=? c) && (c <=? 122))) (fun c => (48 <=? c) && (c <=? 57)).
Fixpoint tk_list_eqb (a b : list tk) : bool :=
  match a, b with
  | [], [] => true
  | x :: a', y :: b' => ttype_eqb (ktyp x) (ktyp y) && str_eqb (kimg x) (kimg y) && tk_list_eqb a' b'
  | _, _ => false
  end.

(* float observations travel as a flat list of integers, two per assignment: m and e of the value m*2^e;
   (0,1) = -0, (+-1,100001) = +-Inf, (0,100002) = NaN, (0,100003) = an error; [] = Parse/Generate failed *)
Definition fl_of_me (m e : Z) : option fl :=
  if (e =? 100003)%Z then None
  else if (e =? 100002)%Z then Some FNaN
  else if (e =? 100001)%Z then Some (FInf (m <? 0)%Z)
  else if (m =? 0)%Z then Some (if (e =? 1)%Z then FNegZero else fl_zero)
  else Some (FFin m e).

Fixpoint fl_obs_list (l : list Z) : list (option fl) :=
  match l with
  | m :: e :: r => fl_of_me m e :: fl_obs_list r
  | _ => []
  end.

Definition fl_obs (l : list Z) : option (list (option fl)) :=
  match l with [] => None | _ => Some (fl_obs_list l) end.

Definition c19_case := (N * c19_body)%type.
Definition c19_id (c : c19_case) : N := fst c.

Definition toks_of (l : list (N * str)) : list tk := map (fun p => (ttype_of_N (fst p), snd p)) l.

Definition case_toks {V} (cfg : gcfg V) (toks : option (list (N * str))) (src : sexp) : option (list tk) :=
  match toks with
  | Some l => Some (toks_of l)
  | None => flat cfg (fun _ => O) src
  end.

(* one enumerated bool expression: the model's packed observation vecOn + 256 * vecOff *)
Definition bool_model_packed (cfg : gcfg bool) (e : sexp) (idx : N) : option N :=
  match flat cfg (layout_of idx) e with
  | Some ts =>
      match results2 cfg bool_args ts bool_assigns with
      | (Some ron, Some roff) =>
          match vec_of ron 1, vec_of roff 1 with
          | Some von, Some voff => Some (von + 256 * voff)
          | _, _ => None
          end
      | _ => None
      end
  | None => None
  end.

Definition bool_spec_packed (cfg : gcfg bool) (e : sexp) : option N :=
  match vec_of (spec_results cfg bool_args e bool_assigns) 1 with
  | Some v => Some (v + 256 * v)
  | None => None
  end.

Definition optN_is (m : option N) (o : N) : bool := match m with Some v => v =? o | None => false end.

(* checksums of the packed values of [count] expressions from [idx]; a value the model cannot give (None)
   poisons the sums *)
Definition hmod : N := 2147483647.
Fixpoint enum_sums (f : N -> option N) (count : nat) (idx : N) (h1 h2 : N) : option (N * N) :=
  match count with
  | O => Some (h1, h2)
  | S c =>
      match f idx with
      | Some v => enum_sums f c (N.succ idx) ((h1 * 65599 + v + 1) mod hmod) ((h2 * 31337 + v + 7) mod hmod)
      | None => None
      end
  end.

Definition sums_are (r : option (N * N)) (h1 h2 : N) : bool :=
  match r with Some (a, b) => (a =? h1) && (b =? h2) | None => false end.

(* explicit bool observation of the model / the specification in the packed form *)
Fixpoint err_mask (l : list (option bool)) (bit : N) : N :=
  match l with
  | [] => 0
  | None :: r => bit + err_mask r (2 * bit)
  | Some _ :: r => err_mask r (2 * bit)
  end.
Fixpoint val_mask (l : list (option bool)) (bit : N) : N :=
  match l with
  | [] => 0
  | Some true :: r => bit + val_mask r (2 * bit)
  | _ :: r => val_mask r (2 * bit)
  end.
Definition pack_obs (r : option (list (option bool))) : N :=
  match r with
  | None => 0
  | Some l => 1 + 2 * (val_mask l 1 + 256 * err_mask l 1)
  end.

Definition c19_im (c : c19_case) : bool :=
  match snd c with
  | CBoolEnum flags n start count errs h1 h2 =>
      let cfg := with_flags flags bool_cfg in
      let cs := counts bool_alpha n in
      negb errs &&
      sums_are (enum_sums (fun idx => bool_model_packed cfg (unrank bool_alpha cs (S n) n idx) idx) count start 0 0) h1 h2
  | CBoolExpl flags toks src on off =>
      let cfg := with_flags flags bool_cfg in
      match case_toks cfg toks src with
      | Some ts =>
          let '(ron, roff) := results2 cfg bool_args ts bool_assigns in
          (pack_obs ron =? on) && (pack_obs roff =? off)
      | None => false
      end
  | CFloatEnum flags n idx on off =>
      let cfg := with_flags flags float_cfg in
      let e := unrank float_alpha (counts float_alpha n) (S n) n idx in
      match flat cfg (layout_of idx) e with
      | Some ts =>
          let '(ron, roff) := results2 cfg float_args ts float_assigns in
          fl_res_ok ron (fl_obs on) && fl_res_ok roff (fl_obs off)
      | None => false
      end
  | CFloatExpl flags toks src on off =>
      let cfg := with_flags flags float_cfg in
      match case_toks cfg toks src with
      | Some ts =>
          let '(ron, roff) := results2 cfg float_args ts float_assigns in
          fl_res_ok ron (fl_obs on) && fl_res_ok roff (fl_obs off)
      | None => false
      end
  | CFloatText flags text tops kws cm cf toks src on off =>
      let cfg := with_flags flags float_cfg in
      let ts := toks_of toks in
      tk_list_eqb (map untok (P2.Lex.Tok.tokenize (text_tcfg tops kws cm cf) text)) ts &&
      let '(ron, roff) := results2 cfg float_args ts float_assigns in
      fl_res_ok ron (fl_obs on) && fl_res_ok roff (fl_obs off)
  | CFloatVarEnum unary strict flags n idx on off =>
      let cfg := with_flags flags (float_var_cfg unary strict) in
      let al := float_var_alpha unary in
      let e := unrank al (counts al n) (S n) n idx in
      match flat cfg (layout_of idx) e with
      | Some ts =>
          let '(ron, roff) := results2 cfg float_args ts float_assigns in
          fl_res_ok ron (fl_obs on) && fl_res_ok roff (fl_obs off)
      | None => false
      end
  | CFloatVarExpl unary strict flags toks src on off =>
      let cfg := with_flags flags (float_var_cfg unary strict) in
      match case_toks cfg toks src with
      | Some ts =>
          let '(ron, roff) := results2 cfg float_args ts float_assigns in
          fl_res_ok ron (fl_obs on) && fl_res_ok roff (fl_obs off)
      | None => false
      end
  end.

(* the implementation's answers are the values the operators' own definitions give *)
Definition fl_spec_ok (s : list (option fl)) (o : option (list (option fl))) : bool :=
  match o with
  | Some lo => fl_list_ok s lo
  | None => forallb (fun x => match x with None => true | Some _ => false end) s
  end.

(* an error of the definitions on every assignment may also surface as a failing Generate *)
Definition bool_spec_ok (s : list (option bool)) (o : N) : bool :=
  (pack_obs (Some s) =? o) ||
  ((o =? 0) && forallb (fun x => match x with None => true | Some _ => false end) s).

Definition c19_is (c : c19_case) : bool :=
  match snd c with
  | CBoolEnum flags n start count errs h1 h2 =>
      let cfg := with_flags flags bool_cfg in
      let cs := counts bool_alpha n in
      negb errs &&
      sums_are (enum_sums (fun idx => bool_spec_packed cfg (unrank bool_alpha cs (S n) n idx)) count start 0 0) h1 h2
  | CBoolExpl flags _ src on off =>
      let s := spec_results (with_flags flags bool_cfg) bool_args src bool_assigns in
      bool_spec_ok s on && bool_spec_ok s off
  | CFloatEnum flags n idx on off =>
      let cfg := with_flags flags float_cfg in
      let s := spec_results cfg float_args (unrank float_alpha (counts float_alpha n) (S n) n idx) float_assigns in
      fl_spec_ok s (fl_obs on) && fl_spec_ok s (fl_obs off)
  | CFloatExpl flags _ src on off =>
      let s := spec_results (with_flags flags float_cfg) float_args src float_assigns in
      fl_spec_ok s (fl_obs on) && fl_spec_ok s (fl_obs off)
  | CFloatText flags _ _ _ _ _ _ src on off =>
      let s := spec_results (with_flags flags float_cfg) float_args src float_assigns in
      fl_spec_ok s (fl_obs on) && fl_spec_ok s (fl_obs off)
  | CFloatVarEnum unary strict flags n idx on off =>
      let cfg := with_flags flags (float_var_cfg unary strict) in
      let al := float_var_alpha unary in
      let s := spec_results cfg float_args (unrank al (counts al n) (S n) n idx) float_assigns in
      fl_spec_ok s (fl_obs on) && fl_spec_ok s (fl_obs off)
  | CFloatVarExpl unary strict flags _ src on off =>
      let s := spec_results (with_flags flags (float_var_cfg unary strict)) float_args src float_assigns in
      fl_spec_ok s (fl_obs on) && fl_spec_ok s (fl_obs off)
  end.
