(* Executable checkers of the correspondence run of C02 (constant folding is unobservable),
   evaluated with vm_compute on the cases the harness observed on the implementation.

   A case has the shape of a C01 case (Run/C01Run.v):
     T        the harness's own surface tree without annotations - calls of the harness functions
              tick(k,x) / ptick(k,x) (identity on x, used to COUNT evaluations on the implementation)
              are erased to x; the specification side evaluates Ref.eval on it;
     A        the AST the real parser built with the optimizer OFF (None: parse error);
     tuples   argument tuples with the implementation's outcome without and with the optimizer.
   c02_is   the reference outcome agrees with BOTH implementation outcomes (optimizer off and on);
   c02_im   the optimizer MODEL is faithful: Gen.run on (Opt.optimize flags A) agrees with the
            implementation's outcome WITH the optimizer, whenever the model can follow (no built-in
            outside the modelled pool applied to constants in the optimized tree).
   The call counts of tick (Generate time: 0; per evaluation: equal with and without optimizer) are
   compared by the harness on the implementation itself. *)
From P2 Require Import Base.Prelude Sem.Num Sem.Syntax Sem.Ops Sem.Lib Sem.Ref Sem.Gen Sem.Sim Sem.Opt
                       Sem.OptCfg Sem.Obs Sem.AstEq Generated.ValueCfg Run.C01Run.

(* some node of the tree (not looking into constants) satisfies p *)
Fixpoint ast_exists (p : ast -> bool) (a : ast) {struct a} : bool :=
  p a ||
  match a with
  | AConst _ | AIdent _ => false
  | ALet _ v b => ast_exists p v || ast_exists p b
  | AIf c t e => ast_exists p c || ast_exists p t || ast_exists p e
  | ASwitch v cases d =>
      ast_exists p v || ast_exists p d ||
      (fix go (l : list (ast * ast)) : bool :=
         match l with [] => false | (c, r) :: l' => ast_exists p c || ast_exists p r || go l' end) cases
  | ATry t c => ast_exists p t || ast_exists p c
  | AUnary _ x => ast_exists p x
  | AOp _ x y => ast_exists p x || ast_exists p y
  | AClosure _ body _ _ _ => ast_exists p body
  | AList l => (fix go (l : list ast) : bool := match l with [] => false | x :: l' => ast_exists p x || go l' end) l
  | AIndex l i => ast_exists p l || ast_exists p i
  | AMap m => (fix go (l : list (name * ast)) : bool := match l with [] => false | (_, x) :: l' => ast_exists p x || go l' end) m
  | AMember m _ => ast_exists p m
  | ACall f args =>
      ast_exists p f || (fix go (l : list ast) : bool := match l with [] => false | x :: l' => ast_exists p x || go l' end) args
  | AStatic _ args => (fix go (l : list ast) : bool := match l with [] => false | x :: l' => ast_exists p x || go l' end) args
  | AMethod r _ args =>
      ast_exists p r || (fix go (l : list ast) : bool := match l with [] => false | x :: l' => ast_exists p x || go l' end) args
  end.

(* the same, also looking into constants: the body of a closure constant (the closure-literal rule folds a
   closure whose body has been optimized), the elements of list and map constants *)
Fixpoint ast_exists_deep (p : ast -> bool) (a : ast) {struct a} : bool :=
  p a ||
  match a with
  | AConst v => val_exists_deep p v
  | AIdent _ => false
  | ALet _ v b => ast_exists_deep p v || ast_exists_deep p b
  | AIf c t e => ast_exists_deep p c || ast_exists_deep p t || ast_exists_deep p e
  | ASwitch v cases d =>
      ast_exists_deep p v || ast_exists_deep p d ||
      (fix go (l : list (ast * ast)) : bool :=
         match l with [] => false | (c, r) :: l' => ast_exists_deep p c || ast_exists_deep p r || go l' end) cases
  | ATry t c => ast_exists_deep p t || ast_exists_deep p c
  | AUnary _ x => ast_exists_deep p x
  | AOp _ x y => ast_exists_deep p x || ast_exists_deep p y
  | AClosure _ body _ _ _ => ast_exists_deep p body
  | AList l => (fix go (l : list ast) : bool := match l with [] => false | x :: l' => ast_exists_deep p x || go l' end) l
  | AIndex l i => ast_exists_deep p l || ast_exists_deep p i
  | AMap m => (fix go (l : list (name * ast)) : bool := match l with [] => false | (_, x) :: l' => ast_exists_deep p x || go l' end) m
  | AMember m _ => ast_exists_deep p m
  | ACall f args =>
      ast_exists_deep p f || (fix go (l : list ast) : bool := match l with [] => false | x :: l' => ast_exists_deep p x || go l' end) args
  | AStatic _ args => (fix go (l : list ast) : bool := match l with [] => false | x :: l' => ast_exists_deep p x || go l' end) args
  | AMethod r _ args =>
      ast_exists_deep p r || (fix go (l : list ast) : bool := match l with [] => false | x :: l' => ast_exists_deep p x || go l' end) args
  end
with val_exists_deep (p : ast -> bool) (v : value) {struct v} : bool :=
  match v with
  | VList l => (fix go (l : list value) : bool := match l with [] => false | x :: l' => val_exists_deep p x || go l' end) l
  | VMap m => (fix go (l : list (str * value)) : bool := match l with [] => false | (_, x) :: l' => val_exists_deep p x || go l' end) m
  | VClo _ body cap _ =>
      ast_exists_deep p body ||
      (fix go (l : list (name * value)) : bool := match l with [] => false | (_, x) :: l' => val_exists_deep p x || go l' end) cap
  | _ => false
  end.

Definition is_ident (a : ast) : bool := match a with AIdent _ => true | _ => false end.

(* ---------- the configuration of the harness's generator ---------- *)

(* value.New() as regenerated, plus the two functions the harness registers: tick (impure) and
   ptick (pure); neither is in the modelled pool, so the models answer `unsupported` where one is
   evaluated and the optimizer model leaves calls of them alone *)
Definition n_tick : name := [116; 105; 99; 107]%N.
Definition n_ptick : name := [112; 116; 105; 99; 107]%N.
Definition c02_flags : cfgflags :=
  let g := generated_flags in
  mkflags (f_ops g) (f_unary g) ((n_tick, false) :: (n_ptick, true) :: f_static g) (f_meth_impure g)
          (f_tobool g) (f_list g) (f_map g) (f_closure g) (f_method g) (f_fieldcheck g) (f_strict g).

Definition c02_fuel : nat := 400.

(* the REAL optimized AST as the harness dumped it (harness/c02.go c02DumpOn), or why it cannot be
   compared: 0 = no AST (parse error), 1 = parse error with the optimizer only, 2 = a closure constant
   that generated code computed at Generate time (opaque Go code), 3 = a constant list that cannot be
   forced, 4 = panic in the parser, 5 = constant of a type outside Sem/Syntax.v *)
Inductive real_opt :=
| RAst (b : ast)
| RNotComparable (reason : N).

Definition c02_case := (c01_case * real_opt)%type.
Definition c02_id (c : c02_case) : N := c01_id (fst c).

(* the AST the parser returns WITH the optimizer, according to the model *)
Definition c02_optimized (a : ast) : ast := optimize c02_flags value_methods c02_fuel a.

(* can the optimizer model follow the implementation on this tree? *)
Definition c02_followable (a' : ast) : bool := negb (ast_exists node_unmodelled a').

(* a node the model left alone because ITS evaluation at Generate time is undecided in the model (out of
   fuel, or outside the exact fragment: an inexact float result, an unmodelled corner of a built-in) while
   the implementation, which has neither limit, may have folded it.  After the optimizer model has run, a
   node whose operands are all constants and whose rule is enabled survives only when the computation
   failed (error: the implementation leaves it, too) or was undecided (this test). *)
Definition undecided {A} (r : res A) : bool := match r with OOF | Unsup => true | _ => false end.

Definition node_undecided (a : ast) : bool :=
  match a with
  | AOp op (AConst x) (AConst y) => undecided (calc op x y)
  | AUnary op (AConst x) => undecided (ucalc op x)
  | AIndex (AConst l) (AConst i) => undecided (access_list l i)
  | AMember (AConst m) k => undecided (access_map m k)
  | AStatic f args =>
      match all_const args with Some cs => undecided (run_static f cs) | None => false end
  | ACall (AConst cv) args =>
      match all_const args with
      | Some cs => undecided (gapp value_methods c02_fuel cv cs)
      | None => false
      end
  | AMethod (AConst rv) m args =>
      match all_const args with
      | Some cs => undecided (run_method (gapp value_methods c02_fuel) rv m cs)
      | None => false
      end
  | _ => false
  end.

(* ---------- the AST tie: Opt.optimize on the dumped unoptimized AST = the dumped optimized AST ----------

   0 = equal (ast_eqb: Leibniz equality, Sem/AstEqProofs.v), 1 = DIFFERS (the optimizer model is not the
   optimizer: counted as a disagreement of model and implementation), 2 = not comparable: the harness could
   not print the real tree (reason in the case), 3 = not comparable: the model cannot follow (a built-in
   outside the modelled pool applied to constants), 4 = not comparable: a fold whose computation the model
   cannot decide (fuel / inexact float) is left in the model's tree, 5 = no AST *)
Definition tie_class_of (oa' : option ast) (R : real_opt) : N :=
  match oa', R with
  | None, _ => 5
  | Some _, RNotComparable _ => 2
  | Some a', RAst b =>
      if ast_eqb a' b then 0
      else if ast_exists_deep node_unmodelled a' then 3
      else if ast_exists_deep node_undecided a' then 4
      else 1
  end%N.

Definition c02_model_tree (c : c02_case) : option ast :=
  let '((_, _, A, _, _, _), _) := c in
  match A with Some a => Some (c02_optimized a) | None => None end.

Definition c02_tie_class (c : c02_case) : N := tie_class_of (c02_model_tree c) (snd c).

(* model (optimizer + generator) = implementation with the optimizer, incl. WHEN an error is reported;
   oa' is the model-optimized tree (computed once per case) *)
Definition c02_im_outcome (c : c01_case) (oa' : option ast) : bool :=
  let '(_, _, _, names, (lazy, excl), tuples) := c in
  match oa' with
  | None => forallb (fun t : c01_tuple => let '(_, _, ion) := t in is_generr ion) tuples
  | Some a' =>
      if c02_followable a' then
        let acc := gen_check (S (ast_size a')) (map Some names) [] a' in
        forallb (fun t : c01_tuple =>
                   let '(args, _, ion) := t in
                   (* a program that redeclares a name (excluded by the property): a let whose value the
                      implementation folds but the model cannot (operation outside the exact model) stays a
                      Let in the model and is reported as a redeclaration there only - not comparable *)
                   if excl && negb acc && negb (is_generr ion) then true else
                   Bool.eqb (negb acc) (is_generr ion) &&
                   verdict_ok (compare_out lazy (Gen.run value_methods c02_fuel a' names args) ion)) tuples
      else true
  end.

(* the model of the implementation is the implementation: the outcomes of the model-optimized program AND
   the optimized tree itself, node by node (a tie that DIFFERS is a disagreement) *)
Definition c02_im (c : c02_case) : bool :=
  let oa' := c02_model_tree c in
  c02_im_outcome (fst c) oa' && negb (N.eqb (tie_class_of oa' (snd c)) 1).

(* the implementation satisfies the specification side: reference outcome = outcome without optimizer
   = outcome with optimizer *)
Definition c02_is (c : c02_case) : bool := c01_is (fst c).

(* ---------- counts for the evidence ---------- *)

Definition c02_m_verdicts (c : c02_case) : list verdict :=
  let '((_, _, A, names, (lazy, _), tuples), _) := c in
  match A with
  | None => []
  | Some a =>
      let a' := c02_optimized a in
      if c02_followable a' then
        map (fun t : c01_tuple => let '(args, _, ion) := t in
                                  compare_out lazy (Gen.run value_methods c02_fuel a' names args) ion) tuples
      else []
  end.

(* 1 = the model's optimizer rewrote the program and a variable survives (non-trivial),
   2 = rewrote it to a variable-free tree, 0 = left it unchanged / no AST *)
Definition c02_rewrite_class (c : c02_case) : N :=
  let '((_, _, A, _, _, _), _) := c in
  match A with
  | None => 0
  | Some a => let a' := c02_optimized a in
              if ast_eqb a' a then 0 else if ast_exists is_ident a' then 1 else 2
  end%N.

(* the hypothesis of theorem C02_optimize_sound_cfg on the program holds for the dumped AST: side_ok
   (first-order constants; a closure literal's own name is not among its OuterIdents) *)
Definition c02_theorem_applies (c : c02_case) : bool :=
  let '((_, _, A, _, _, _), _) := c in
  match A with
  | None => false
  | Some a => side_ok a
  end.

(* what the previous version of the theorem needed in addition: the implementation's optimizer agrees
   with the strict one on this program (no computed constant containing a closure is kept).  Counted
   only to show what the general theorem gained. *)
Definition c02_strict_coincides (c : c02_case) : bool :=
  let '((_, _, A, _, _, _), _) := c in
  match A with
  | None => false
  | Some a =>
      side_ok a &&
      ast_eqb (optimize value_flags value_methods c02_fuel a)
              (optimize (strict value_flags) value_methods c02_fuel a)
  end.

Definition c02_unfollowable (c : c02_case) : bool :=
  let '((_, _, A, _, _, _), _) := c in
  match A with None => false | Some a => negb (c02_followable (c02_optimized a)) end.

(* the REAL optimizer rewrote the program: the dumped optimized tree is not the dumped unoptimized one *)
Definition c02_real_rewrote (c : c02_case) : bool :=
  let '((_, _, A, _, _, _), R) := c in
  match A, R with
  | Some a, RAst b => negb (ast_eqb a b)
  | _, _ => false
  end.

(* [M compared; M unsupported; M out of fuel; M laziness; cases the optimizer model cannot follow;
    S compared (both optimizer settings agree with the reference); S unsupported; S out of fuel; S laziness;
    S excluded tuples (redeclaration); cases rewritten with a surviving variable; cases rewritten to a
    variable-free tree; cases inside the hypotheses of C02_optimize_sound_cfg (side_ok); cases that also
    satisfied the side condition of the previous theorem (strict = non-strict optimizer); AST tie: equal;
    differs; not comparable (dump); not comparable (unmodelled built-in); not comparable (fold undecided in the
    model); programs the REAL optimizer rewrote (among the dumped ones); of these with the tie equal; of these
    also inside side_ok, i.e. covered by C02_tied_ast_sound] *)
Definition c02_stats (cases : list c02_case) : list N :=
  let m := flat_map c02_m_verdicts cases in
  let s := c01_stats (map fst cases) in
  let tie := map (fun c => (c02_tie_class c, c02_real_rewrote c, c02_theorem_applies c)) cases in
  [ count is_agree m; count is_unsup m; count is_oof m; count is_lazy m;
    count c02_unfollowable cases;
    nth 4 s 0%N; nth 5 s 0%N; nth 6 s 0%N; nth 7 s 0%N; nth 8 s 0%N;
    count (fun c => N.eqb (c02_rewrite_class c) 1) cases;
    count (fun c => N.eqb (c02_rewrite_class c) 2) cases;
    count c02_theorem_applies cases;
    count c02_strict_coincides cases;
    count (fun f : N * bool * bool => N.eqb (fst (fst f)) 0) tie;
    count (fun f : N * bool * bool => N.eqb (fst (fst f)) 1) tie;
    count (fun f : N * bool * bool => N.eqb (fst (fst f)) 2) tie;
    count (fun f : N * bool * bool => N.eqb (fst (fst f)) 3) tie;
    count (fun f : N * bool * bool => N.eqb (fst (fst f)) 4) tie;
    count (fun f : N * bool * bool => snd (fst f)) tie;
    count (fun f : N * bool * bool => snd (fst f) && N.eqb (fst (fst f)) 0) tie;
    count (fun f : N * bool * bool => snd (fst f) && N.eqb (fst (fst f)) 0 && snd f) tie ].

(* for replays: specification outcome and the outcome of the optimized program in the model *)
Definition c02_explain (c : c02_case) : list (explained * explained) :=
  let '((_, T, A, names, _, tuples), _) := c in
  map (fun t : c01_tuple =>
         let '(args, _, _) := t in
         (explain (spec_out T names args),
          match A with
          | Some a => explain (Gen.run value_methods c02_fuel (c02_optimized a) names args)
          | None => EErr None
          end)) tuples.
