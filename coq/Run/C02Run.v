(* Executable checkers of the correspondence run of C02 (constant folding is unobservable),
   evaluated with vm_compute on the cases the harness observed on the implementation.

   A case has the shape of a C01 case (Run/C01Run.v):
     T        the harness's own surface tree without annotations - calls of the harness functions
              tick(k,x) / ptick(k,x) (identity on x, used to COUNT evaluations on the implementation)
              are erased to x; the specification side evaluates Ref.eval on it;
     A        the AST the real parser built with the optimizer OFF (None: parse error);
     tuples   argument tuples with the implementation's outcome without and with the optimizer.
   c02_is   the reference outcome agrees with BOTH implementation outcomes (optimizer off and on);
   c02_im   the optimizer MODEL is faithful: Gen.run on (Opt.optimize flags A) agrees with the
            implementation's outcome WITH the optimizer, whenever the model can follow (no built-in
            outside the modelled pool applied to constants in the optimized tree).
   The call counts of tick (Generate time: 0; per evaluation: equal with and without optimizer) are
   compared by the harness on the implementation itself. *)
From P2 Require Import Base.Prelude Sem.Num Sem.Syntax Sem.Ops Sem.Lib Sem.Ref Sem.Gen Sem.Sim Sem.Opt
                       Sem.OptCfg Sem.Obs Generated.ValueCfg Run.C01Run.

(* ---------- structural equality of ASTs and values (boolean, used for counting only) ---------- *)

Fixpoint names_eqb (a b : list name) : bool :=
  match a, b with
  | [], [] => true
  | x :: a', y :: b' => str_eqb x y && names_eqb a' b'
  | _, _ => false
  end.

Fixpoint ast_eqb (a b : ast) {struct a} : bool :=
  match a, b with
  | AConst v, AConst w => value_eqb v w
  | AIdent x, AIdent y => str_eqb x y
  | ALet x v1 b1, ALet y v2 b2 => str_eqb x y && ast_eqb v1 v2 && ast_eqb b1 b2
  | AIf c1 t1 e1, AIf c2 t2 e2 => ast_eqb c1 c2 && ast_eqb t1 t2 && ast_eqb e1 e2
  | ASwitch v1 cs1 d1, ASwitch v2 cs2 d2 =>
      ast_eqb v1 v2 && ast_eqb d1 d2 &&
      (fix go (l m : list (ast * ast)) : bool :=
         match l, m with
         | [], [] => true
         | (c, r) :: l', (c', r') :: m' => ast_eqb c c' && ast_eqb r r' && go l' m'
         | _, _ => false
         end) cs1 cs2
  | ATry t1 c1, ATry t2 c2 => ast_eqb t1 t2 && ast_eqb c1 c2
  | AUnary o1 x1, AUnary o2 x2 => str_eqb o1 o2 && ast_eqb x1 x2
  | AOp o1 x1 y1, AOp o2 x2 y2 => str_eqb o1 o2 && ast_eqb x1 x2 && ast_eqb y1 y2
  | AClosure ps1 b1 o1 r1 t1, AClosure ps2 b2 o2 r2 t2 =>
      names_eqb ps1 ps2 && ast_eqb b1 b2 && names_eqb o1 o2 && Bool.eqb r1 r2 && str_eqb t1 t2
  | AList l1, AList l2 =>
      (fix go (l m : list ast) : bool :=
         match l, m with
         | [], [] => true
         | x :: l', y :: m' => ast_eqb x y && go l' m'
         | _, _ => false
         end) l1 l2
  | AIndex l1 i1, AIndex l2 i2 => ast_eqb l1 l2 && ast_eqb i1 i2
  | AMap m1, AMap m2 =>
      (fix go (l m : list (name * ast)) : bool :=
         match l, m with
         | [], [] => true
         | (k, x) :: l', (k', y) :: m' => str_eqb k k' && ast_eqb x y && go l' m'
         | _, _ => false
         end) m1 m2
  | AMember m1 k1, AMember m2 k2 => ast_eqb m1 m2 && str_eqb k1 k2
  | ACall f1 a1, ACall f2 a2 =>
      ast_eqb f1 f2 &&
      (fix go (l m : list ast) : bool :=
         match l, m with
         | [], [] => true
         | x :: l', y :: m' => ast_eqb x y && go l' m'
         | _, _ => false
         end) a1 a2
  | AStatic f1 a1, AStatic f2 a2 =>
      str_eqb f1 f2 &&
      (fix go (l m : list ast) : bool :=
         match l, m with
         | [], [] => true
         | x :: l', y :: m' => ast_eqb x y && go l' m'
         | _, _ => false
         end) a1 a2
  | AMethod r1 n1 a1, AMethod r2 n2 a2 =>
      ast_eqb r1 r2 && str_eqb n1 n2 &&
      (fix go (l m : list ast) : bool :=
         match l, m with
         | [], [] => true
         | x :: l', y :: m' => ast_eqb x y && go l' m'
         | _, _ => false
         end) a1 a2
  | _, _ => false
  end
with value_eqb (v w : value) {struct v} : bool :=
  match v, w with
  | VInt x, VInt y => Z.eqb x y
  | VFloat x, VFloat y => fl_same x y
  | VStr x, VStr y => str_eqb x y
  | VBool x, VBool y => Bool.eqb x y
  | VList l1, VList l2 =>
      (fix go (l m : list value) : bool :=
         match l, m with
         | [], [] => true
         | x :: l', y :: m' => value_eqb x y && go l' m'
         | _, _ => false
         end) l1 l2
  | VMap m1, VMap m2 =>
      (fix go (l m : list (str * value)) : bool :=
         match l, m with
         | [], [] => true
         | (k, x) :: l', (k', y) :: m' => str_eqb k k' && value_eqb x y && go l' m'
         | _, _ => false
         end) m1 m2
  | VClo ps1 b1 c1 s1, VClo ps2 b2 c2 s2 =>
      names_eqb ps1 ps2 && ast_eqb b1 b2 && str_eqb s1 s2 &&
      (fix go (l m : list (name * value)) : bool :=
         match l, m with
         | [], [] => true
         | (k, x) :: l', (k', y) :: m' => str_eqb k k' && value_eqb x y && go l' m'
         | _, _ => false
         end) c1 c2
  | VErrText None, VErrText None => true
  | VErrText (Some s), VErrText (Some t) => str_eqb s t
  | _, _ => false
  end.

(* some node of the tree (not looking into constants) satisfies p *)
Fixpoint ast_exists (p : ast -> bool) (a : ast) {struct a} : bool :=
  p a ||
  match a with
  | AConst _ | AIdent _ => false
  | ALet _ v b => ast_exists p v || ast_exists p b
  | AIf c t e => ast_exists p c || ast_exists p t || ast_exists p e
  | ASwitch v cases d =>
      ast_exists p v || ast_exists p d ||
      (fix go (l : list (ast * ast)) : bool :=
         match l with [] => false | (c, r) :: l' => ast_exists p c || ast_exists p r || go l' end) cases
  | ATry t c => ast_exists p t || ast_exists p c
  | AUnary _ x => ast_exists p x
  | AOp _ x y => ast_exists p x || ast_exists p y
  | AClosure _ body _ _ _ => ast_exists p body
  | AList l => (fix go (l : list ast) : bool := match l with [] => false | x :: l' => ast_exists p x || go l' end) l
  | AIndex l i => ast_exists p l || ast_exists p i
  | AMap m => (fix go (l : list (name * ast)) : bool := match l with [] => false | (_, x) :: l' => ast_exists p x || go l' end) m
  | AMember m _ => ast_exists p m
  | ACall f args =>
      ast_exists p f || (fix go (l : list ast) : bool := match l with [] => false | x :: l' => ast_exists p x || go l' end) args
  | AStatic _ args => (fix go (l : list ast) : bool := match l with [] => false | x :: l' => ast_exists p x || go l' end) args
  | AMethod r _ args =>
      ast_exists p r || (fix go (l : list ast) : bool := match l with [] => false | x :: l' => ast_exists p x || go l' end) args
  end.

Definition is_ident (a : ast) : bool := match a with AIdent _ => true | _ => false end.

(* ---------- the configuration of the harness's generator ---------- *)

(* value.New() as regenerated, plus the two functions the harness registers: tick (impure) and
   ptick (pure); neither is in the modelled pool, so the models answer `unsupported` where one is
   evaluated and the optimizer model leaves calls of them alone *)
Definition n_tick : name := [116; 105; 99; 107]%N.
Definition n_ptick : name := [112; 116; 105; 99; 107]%N.
Definition c02_flags : cfgflags :=
  let g := generated_flags in
  mkflags (f_ops g) (f_unary g) ((n_tick, false) :: (n_ptick, true) :: f_static g) (f_meth_impure g)
          (f_tobool g) (f_list g) (f_map g) (f_closure g) (f_method g) (f_fieldcheck g) (f_strict g).

Definition c02_fuel : nat := 400.

Definition c02_case := c01_case.
Definition c02_id (c : c02_case) : N := c01_id c.

(* the AST the parser returns WITH the optimizer, according to the model *)
Definition c02_optimized (a : ast) : ast := optimize c02_flags value_methods c02_fuel a.

(* can the optimizer model follow the implementation on this tree? *)
Definition c02_followable (a' : ast) : bool := negb (ast_exists node_unmodelled a').

(* model (optimizer + generator) = implementation with the optimizer, incl. WHEN an error is reported *)
Definition c02_im (c : c02_case) : bool :=
  let '(_, _, A, names, (lazy, excl), tuples) := c in
  match A with
  | None => forallb (fun t : c01_tuple => let '(_, _, ion) := t in is_generr ion) tuples
  | Some a =>
      let a' := c02_optimized a in
      if c02_followable a' then
        let acc := gen_check (S (ast_size a')) (map Some names) [] a' in
        forallb (fun t : c01_tuple =>
                   let '(args, _, ion) := t in
                   (* a program that redeclares a name (excluded by the property): a let whose value the
                      implementation folds but the model cannot (operation outside the exact model) stays a
                      Let in the model and is reported as a redeclaration there only - not comparable *)
                   if excl && negb acc && negb (is_generr ion) then true else
                   Bool.eqb (negb acc) (is_generr ion) &&
                   verdict_ok (compare_out lazy (Gen.run value_methods c02_fuel a' names args) ion)) tuples
      else true
  end.

(* the implementation satisfies the specification side: reference outcome = outcome without optimizer
   = outcome with optimizer *)
Definition c02_is (c : c02_case) : bool := c01_is c.

(* ---------- counts for the evidence ---------- *)

Definition c02_m_verdicts (c : c02_case) : list verdict :=
  let '(_, _, A, names, (lazy, _), tuples) := c in
  match A with
  | None => []
  | Some a =>
      let a' := c02_optimized a in
      if c02_followable a' then
        map (fun t : c01_tuple => let '(args, _, ion) := t in
                                  compare_out lazy (Gen.run value_methods c02_fuel a' names args) ion) tuples
      else []
  end.

(* 1 = the model's optimizer rewrote the program and a variable survives (non-trivial),
   2 = rewrote it to a variable-free tree, 0 = left it unchanged / no AST *)
Definition c02_rewrite_class (c : c02_case) : N :=
  let '(_, _, A, _, _, _) := c in
  match A with
  | None => 0
  | Some a => let a' := c02_optimized a in
              if ast_eqb a' a then 0 else if ast_exists is_ident a' then 1 else 2
  end%N.

(* the hypothesis of theorem C02_optimize_sound_cfg on the program holds for the dumped AST: side_ok
   (first-order constants; a closure literal's own name is not among its OuterIdents) *)
Definition c02_theorem_applies (c : c02_case) : bool :=
  let '(_, _, A, _, _, _) := c in
  match A with
  | None => false
  | Some a => side_ok a
  end.

(* what the previous version of the theorem needed in addition: the implementation's optimizer agrees
   with the strict one on this program (no computed constant containing a closure is kept).  Counted
   only to show what the general theorem gained. *)
Definition c02_strict_coincides (c : c02_case) : bool :=
  let '(_, _, A, _, _, _) := c in
  match A with
  | None => false
  | Some a =>
      side_ok a &&
      ast_eqb (optimize value_flags value_methods c02_fuel a)
              (optimize (strict value_flags) value_methods c02_fuel a)
  end.

Definition c02_unfollowable (c : c02_case) : bool :=
  let '(_, _, A, _, _, _) := c in
  match A with None => false | Some a => negb (c02_followable (c02_optimized a)) end.

(* [M compared; M unsupported; M out of fuel; M laziness; cases the optimizer model cannot follow;
    S compared (both optimizer settings agree with the reference); S unsupported; S out of fuel; S laziness;
    S excluded tuples (redeclaration); cases rewritten with a surviving variable; cases rewritten to a
    variable-free tree; cases inside the hypotheses of C02_optimize_sound_cfg (side_ok); cases that also
    satisfied the side condition of the previous theorem (strict = non-strict optimizer)] *)
Definition c02_stats (cases : list c02_case) : list N :=
  let m := flat_map c02_m_verdicts cases in
  let s := c01_stats cases in
  [ count is_agree m; count is_unsup m; count is_oof m; count is_lazy m;
    count c02_unfollowable cases;
    nth 4 s 0%N; nth 5 s 0%N; nth 6 s 0%N; nth 7 s 0%N; nth 8 s 0%N;
    count (fun c => N.eqb (c02_rewrite_class c) 1) cases;
    count (fun c => N.eqb (c02_rewrite_class c) 2) cases;
    count c02_theorem_applies cases;
    count c02_strict_coincides cases ].

(* for replays: specification outcome and the outcome of the optimized program in the model *)
Definition c02_explain (c : c02_case) : list (explained * explained) :=
  let '(_, T, A, names, _, tuples) := c in
  map (fun t : c01_tuple =>
         let '(args, _, _) := t in
         (explain (spec_out T names args),
          match A with
          | Some a => explain (Gen.run value_methods c02_fuel (c02_optimized a) names args)
          | None => EErr None
          end)) tuples.
