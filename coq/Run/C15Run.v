(* Executable checkers used by the correspondence run of C15 (and the tokenizer half of C04):
   evaluated with vm_compute on the token streams the harness observed on the implementation. *)
From P2 Require Import Base.Prelude Lex.Token Lex.Tok.
From P2 Require Syn.Ast Syn.Parse Syn.ParsePos.
Local Open Scope N_scope.

(* configuration as data: operators, text operators, keywords, comments, comfort,
   and unicode.IsLetter / unicode.IsNumber restricted to the runes of the input (lists of members) *)
Definition c15_cfg := (list str * list (str * str) * list str * bool * bool * list N * list N)%type.

Definition memN (l : list N) (c : N) : bool := existsb (N.eqb c) l.

Definition cfg_of (d : c15_cfg) : tcfg :=
  let '(ops, tops, kws, cm, cf, letters, numbers) := d in
  mkCfg ops tops kws cm cf MSimple (memN letters) (memN numbers).

(* the per-configuration part is written once per case file *)
Definition mkc (k : list str * list (str * str) * list str) (cm cf : bool) (letters numbers : list N) : c15_cfg :=
  let '(ops, tops, kws) := k in (ops, tops, kws, cm, cf, letters, numbers).

(* a layout item as the generator describes it: a separator run, or a lexeme with the tokens it means.
   kind 1: the text must be the literal spelling of the (single) string token,
   kind 2: the text must be the quoted spelling of the (single) identifier token, kind 0: any other lexeme
   (kind 0 with empty text: the multiplication sign omitted in comfort mode) *)
Inductive ritem := RSep (l : list sep) | RLex (kind : N) (text : list N) (toks : list (N * str)).

Definition ptoks (l : list (N * str)) : list ptok := map (fun p => (ttype_of_N (fst p), snd p)) l.
Definition item_of (r : ritem) : item :=
  match r with RSep l => ISep l | RLex _ t toks => ILex t (ptoks toks) end.

Definition ritem_ok (cm : bool) (r : ritem) : bool :=
  match r with
  | RSep l => forallb (sep_ok cm) l
  | RLex 1 t [(13, s)] => str_eqb t (string_literal s) && negb (memN s 0)
  | RLex 2 t [(0, s)] => str_eqb t (quoted_ident s) && negb (memN s 0) && negb (memN s 39) && negb (memN s 10)
  | RLex 0 _ _ => true
  | _ => false
  end.

(* separators that run to the end of the input occur only at the very end *)
Fixpoint finals_last (l : list sep) (more : bool) : bool :=
  match l with
  | [] => true
  | x :: r => (negb (sep_final x) || (match r with [] => negb more | _ => false end)) && finals_last r more
  end.
Fixpoint layout_wf (l : list ritem) : bool :=
  match l with
  | [] => true
  | RSep s :: r => finals_last s (match r with [] => false | _ => true end) && layout_wf r
  | _ :: r => layout_wf r
  end.

(* what Parser.Parse did on the input (value configuration, every identifier known): kind 0 = an AST, 1 = an error,
   2 = a panic escaped, 3 = not observed (configuration without a parser); the line stored in the error + 1
   (VerifLine: errorWithLine.line; 0 = the error was built from TokenEof, whose line is -1); the number images of the
   input ParseNumber rejects; the parser tables (binary operators in priority order, prefix operators, string handler) *)
Definition c15_ptab := (list str * list str * bool)%type.
Definition c15_par := (N * N * list str * c15_ptab)%type.
Definition p_none : c15_ptab := ([], [], false).
Definition no_parse : c15_par := (3, 0, [], p_none).

Definition par15_cfg (bad : list str) (t : c15_ptab) : Parse.pcfg :=
  let '(ops, unary, strh) := t in
  Parse.mkPcfg ops unary (Some (fun img => if Parse.mem_str img bad then None else Some img))
               (if strh then Some (fun s => s) else None).

(* the identifier function the harness passes: every name is a variable *)
Definition any_ident : Parse.idents := [Parse.SMap []].

(* kind and line + 1 of the position-carrying parser model on the observed tokens *)
Definition par15_model (p : c15_par) (toks : list token) : N * N :=
  let '(_, _, bad, t) := p in
  match ParsePos.parse_pos (par15_cfg bad t) any_ident toks with
  | ParsePos.QOk _ => (0, 0)
  | ParsePos.QErr (Some l) => (1, l + 1)
  | ParsePos.QErr None => (1, 0)
  | ParsePos.QPanic => (2, 0)
  | ParsePos.QOOF => (4, 0)
  end.

(* id, configuration, layout (empty for the malformed stream), input runes (malformed stream only: the input
   of a layout case is the text of its layout), observed (type, image, line), what the parser did *)
Definition c15_case := (N * c15_cfg * list ritem * list N * list (N * str * N) * c15_par)%type.
Definition c15_id (c : c15_case) : N := let '(id, _, _, _, _, _) := c in id.

Definition obs_tokens (o : list (N * str * N)) : list token :=
  map (fun t => mkTok (ttype_of_N (fst (fst t))) (snd (fst t)) (snd t)) o.

Fixpoint toks_eqb (a b : list token) : bool :=
  match a, b with
  | [], [] => true
  | x :: a', y :: b' => token_eqb x y && toks_eqb a' b'
  | _, _ => false
  end.

Definition case_input (items : list ritem) (raw : list N) : list N :=
  match items with [] => raw | _ => layout_text (map item_of items) end.

(* model of the implementation = implementation: the scanner model yields exactly the observed token stream, and the
   position-carrying parser model (Syn/ParsePos.v), run on the observed tokens, gives the outcome kind Parser.Parse gave
   and - for an error - the line Parser.Parse stored in it *)
Definition c15_im (c : c15_case) : bool :=
  let '(_, d, items, raw, o, p) := c in
  let input := case_input items raw in
  match tokenize_fuel (length input + 2) (cfg_of d) input with
  | Some ts => toks_eqb ts (obs_tokens o)
               && (let '(pk, ln, _, _) := p in
                   (pk =? 3) || (let '(mk, ml) := par15_model p (obs_tokens o) in
                                 (mk =? pk) && ((negb (pk =? 1)) || (ml =? ln))))
  | None => false
  end.

(* implementation satisfies the specification side: the layout is well-formed and the
   observed tokens are exactly the tokens the layout denotes, each on the line its first rune is on.
   The malformed stream (no layout) has no specification beyond "the scanner returned", which the harness observed. *)
Definition c15_is (c : c15_case) : bool :=
  let '(_, d, items, input, o, _) := c in
  let '(_, _, _, cm, _, _, _) := d in
  match items with
  | [] => true
  | _ => forallb (ritem_ok cm) items && layout_wf items
         && toks_eqb (expect (map item_of items) 1) (obs_tokens o)
  end.
