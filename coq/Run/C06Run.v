(* Executable checkers used by the correspondence run of C06 (evaluated with vm_compute on the
   observations the harness made on the implementation under forced-parallel schedules). *)
From P2 Require Import Base.Prelude Conc.ParMap Conc.Pipeline.
Local Open Scope Z_scope.

Fixpoint zlist_eqb (a b : list Z) : bool :=
  match a, b with
  | [], [] => true
  | x :: a', y :: b' => Z.eqb x y && zlist_eqb a' b'
  | _, _ => false
  end.

Definition obs_eqb (a b : option (list Z)) : bool :=
  match a, b with
  | None, None => true
  | Some x, Some y => zlist_eqb x y
  | _, _ => false
  end.

(* id, (workers = runtime.NumCPU(), n of numbers(n), stages, terminal kind, terminal parameters),
   observation on the implementation: None = evaluation failed, Some l = canonical result *)
Definition c06_pipe := (N * Z * list pstage * tkind * sp)%type.
Definition c06_case := (N * c06_pipe * option (list Z))%type.
Definition c06_id (c : c06_case) : N := fst (fst c).

(* model of the implementation (protocol model under a seeded schedule) = implementation *)
Definition c06_im (c : c06_case) : bool :=
  let '(nw, n, stages, t, tp) := snd (fst c) in
  obs_eqb (pipe_par nw n stages t tp) (snd c).

(* implementation = strictly sequential specification *)
Definition c06_is (c : c06_case) : bool :=
  let '(nw, n, stages, t, tp) := snd (fst c) in
  obs_eqb (pipe_seq n stages t tp) (snd c).

(* ---- the lazy family: map / accept / number stages in front of a short-circuit consumer (Conc/LazyPipe.v) ---------- *)
From P2 Require Import Conc.LazyPipe.

Inductive lcons := LCFirst | LCTop (n : Z) | LCPresent (v : Z) | LCIndexWhere (v : Z) | LCSingle.

(* continue | stop with the canonical observation (None: the consumer itself reports an error) *)
Definition lc_fun (c : lcons) (l : list Z) : option (option (list Z)) :=
  match c with
  | LCFirst => match l with x :: _ => Some (Some [x]) | [] => None end
  | LCTop n => if Nat.leb (Z.to_nat n) (length l) then Some (Some l) else None
  | LCPresent v => if Z.eqb (last l 0) v then Some (Some [1]) else None
  | LCIndexWhere v => if Z.eqb (last l 0) v then Some (Some [Z.of_nat (length l) - 1]) else None
  | LCSingle => if Nat.leb 2 (length l) then Some None else None
  end.
(* the stream ended before the consumer had enough *)
Definition lc_end (c : lcons) (l : list Z) : option (list Z) :=
  match c with
  | LCFirst => None
  | LCTop _ => Some l
  | LCPresent _ => Some [0]
  | LCIndexWhere _ => Some [-1]
  | LCSingle => match l with [x] => Some [x] | _ => None end
  end.
Definition lc_obs (c : lcons) (L : list (res Z)) : option (list Z) :=
  match scan (lc_fun c) L with VResult r => r | VFail => None | VMore => lc_end c (ok_prefix L) end.

(* the schedule inputs of the run: the observed switch, NumCPU workers, a seeded schedule completed canonically;
   the consumer of the last stage is the short-circuit consumer, the inner stages are not stopped (the stop moments are
   inputs of the model: pipeline_par_early_stop_prefix covers every choice; the coupled run lazy_run costs
   (list length)^(stages) evaluations of the stop predicate) *)
Definition lazy_pp (nw : N) (p : sp) (l : list (res Z)) : par_params :=
  mkPP measure_items (psw p) (N.to_nat nw) (gen_sched (3 * length l) nw (pseed p)) [].
Definition lstage_pp (nw : N) (s : lstage) (items : list (res Z)) : par_params :=
  match s with
  | LMap p | LAccept p => lazy_pp nw p items
  | LScan _ _ => mkPP 0 false 1 [] []       (* runs on the goroutine that calls its yield: no schedule inputs *)
  end.
Fixpoint lazy_model (nw : N) (cstop : list (res Z) -> bool) (stages : list lstage) (items : list (res Z)) : list (res Z) :=
  match stages with
  | [] => items
  | [s] => fst (lstage_fin (mkLP (lstage_pp nw s items) cstop) s items)
  | s :: r => lazy_model nw cstop r (fst (lstage_fin (mkLP (lstage_pp nw s items) (fun _ => false)) s items))
  end.

(* id, (workers, n, stages, consumer), observation (None = evaluation failed) *)
Definition c06l_case := (N * (N * Z * list lstage * lcons) * option (list Z))%type.
Definition c06l_id (c : c06l_case) : N := fst (fst c).

Definition is_none {X} (o : option X) : bool := match o with None => true | Some _ => false end.

(* implementation = sequential specification, or "fails" where the sequential element sequence contains an error
   (pipeline_par_early_stop_eq_seq: an error of a read-ahead element may surface) *)
Definition c06l_is (c : c06l_case) : bool :=
  let '(nw, n, stages, k) := snd (fst c) in
  let S := lazy_seq stages (map (@ROk Z) (numbers n)) in
  obs_eqb (lc_obs k S) (snd c) || (is_none (snd c) && negb (noerr S)).

(* model under the seeded schedule = implementation; where the outcome depends on the schedule (an error behind the
   decisive element) both must be the sequential observation or "fails" *)
Definition c06l_im (c : c06l_case) : bool :=
  let '(nw, n, stages, k) := snd (fst c) in
  let src := map (@ROk Z) (numbers n) in
  let S := lazy_seq stages src in
  let M := lazy_model nw (cons_stop (lc_fun k)) stages src in
  obs_eqb (lc_obs k M) (snd c)
  || (negb (noerr S) && negb (is_none (lc_obs k S))
      && (obs_eqb (lc_obs k S) (snd c) || is_none (snd c))
      && (obs_eqb (lc_obs k S) (lc_obs k M) || is_none (lc_obs k M))).
