(* Executable checkers used by the correspondence run of C06 (evaluated with vm_compute on the
   observations the harness made on the implementation under forced-parallel schedules). *)
From P2 Require Import Base.Prelude Conc.ParMap Conc.Pipeline.
Local Open Scope Z_scope.

Fixpoint zlist_eqb (a b : list Z) : bool :=
  match a, b with
  | [], [] => true
  | x :: a', y :: b' => Z.eqb x y && zlist_eqb a' b'
  | _, _ => false
  end.

Definition obs_eqb (a b : option (list Z)) : bool :=
  match a, b with
  | None, None => true
  | Some x, Some y => zlist_eqb x y
  | _, _ => false
  end.

(* id, (workers = runtime.NumCPU(), n of numbers(n), stages, terminal kind, terminal parameters),
   observation on the implementation: None = evaluation failed, Some l = canonical result *)
Definition c06_pipe := (N * Z * list pstage * tkind * sp)%type.
Definition c06_case := (N * c06_pipe * option (list Z))%type.
Definition c06_id (c : c06_case) : N := fst (fst c).

(* model of the implementation (protocol model under a seeded schedule) = implementation *)
Definition c06_im (c : c06_case) : bool :=
  let '(nw, n, stages, t, tp) := snd (fst c) in
  obs_eqb (pipe_par nw n stages t tp) (snd c).

(* implementation = strictly sequential specification *)
Definition c06_is (c : c06_case) : bool :=
  let '(nw, n, stages, t, tp) := snd (fst c) in
  obs_eqb (pipe_seq n stages t tp) (snd c).
