(* Executable checkers of the correspondence run of C01 (and of the optimizer on/off comparison C02
   needs), evaluated with vm_compute on the cases the harness observed on the implementation.

   A case carries
     T        the program as the harness generated it: a surface tree WITHOUT parser annotations
              (closures: AClosure ps body [] false this) - the specification side evaluates
              Ref.eval on it, independent of the parser;
     A        the AST the REAL parser produced for the rendered text with the optimizer off, with the
              annotations the generator reads (OuterIdents, Recursive, ThisName, IsFunc); None when
              the parser rejected the text - the model of the implementation is Gen.run on it;
     names    the argument names handed to Generate;
     lazy     the program contains a lazy list stage (see Obs.compare_out);
     excl     the program redeclares a name inside one function body: excluded by the property
              (only model = implementation is checked);
     tuples   argument tuples with the implementation's outcome without and with the optimizer. *)
From P2 Require Import Base.Prelude Sem.Num Sem.Syntax Sem.Ops Sem.Lib Sem.Ref Sem.Gen Sem.Sim Sem.Obs Generated.ValueCfg.

Definition c01_fuel : nat := 400.

(* the constants of value.New(): pi = math.Pi exactly, true, false *)
Definition pi_val : fl := FFin 884279719003555 (-48).
Definition n_pi : name := [112; 105]%N.
Definition n_true : name := [116; 114; 117; 101]%N.
Definition n_false : name := [102; 97; 108; 115; 101]%N.
Definition consts : list (name * value) :=
  [(n_pi, VFloat pi_val); (n_true, VBool true); (n_false, VBool false)].

Definition c01_tuple := (list value * iout * iout)%type.     (* arguments, optimizer off, optimizer on *)
Definition c01_case := (N * ast * option ast * list name * (bool * bool) * list c01_tuple)%type.

Definition c01_id (c : c01_case) : N := let '(id, _, _, _, _, _) := c in id.

(* S: the reference semantics on the harness's own tree; arguments shadow constants *)
Definition spec_out (T : ast) (names : list name) (args : list value) : res value :=
  Ref.eval value_methods c01_fuel (combine names args ++ consts) T.

(* M: the generator model on the parser's AST; a parse error is a Generate error *)
Definition model_out (A : option ast) (names : list name) (args : list value) : res value :=
  match A with
  | Some a => Gen.run value_methods c01_fuel a names args
  | None => Err None
  end.

(* per tuple: M vs optimizer-off, S vs optimizer-off, S vs optimizer-on *)
Definition c01_verdicts (c : c01_case) : list (verdict * verdict * verdict) :=
  let '(_, T, A, names, (lazy, _), tuples) := c in
  map (fun t : c01_tuple =>
         let '(args, ioff, ion) := t in
         let s := spec_out T names args in
         (compare_out lazy (model_out A names args) ioff, compare_out lazy s ioff, compare_out lazy s ion))
      tuples.

(* Generate accepts the program: the parser accepted the text and gen_check the AST *)
Definition gen_accepts (A : option ast) (names : list name) : bool :=
  match A with
  | Some a => gen_check (S (ast_size a)) (map Some names) [] a
  | None => false
  end.

Definition is_generr (i : iout) : bool := match i with IGenErr _ => true | _ => false end.

(* model of the implementation = implementation (optimizer off) on all tuples; in addition the
   model predicts exactly WHEN the error is reported: Generate fails iff gen_check (or the parser)
   rejects *)
Definition c01_im (c : c01_case) : bool :=
  let '(_, _, A, names, (lazy, _), tuples) := c in
  forallb (fun t : c01_tuple =>
             let '(args, ioff, _) := t in
             Bool.eqb (negb (gen_accepts A names)) (is_generr ioff) &&
             verdict_ok (compare_out lazy (model_out A names args) ioff)) tuples.

(* the hypotheses of theorem C01_generated (Props/C01.v) on the AST the implementation built:
   1 = they hold (gen_check and side_ok): compiled = reference is a theorem for this AST;
   0 = the parser rejected the text; 2 = gen_check rejects (Generate error);
   3 = Generate accepts but side_ok fails (non-first-order constant or own name among the outer names) *)
Definition c01_hyp (c : c01_case) : N :=
  let '(_, _, A, names, _, _) := c in
  match A with
  | None => 0
  | Some a => if gen_accepts A names then (if side_ok a then 1 else 3) else 2
  end%N.

(* the implementation satisfies the specification side: the reference outcome agrees with BOTH
   implementation outcomes (so an optimizer on/off difference is a violation here too) *)
Definition c01_is (c : c01_case) : bool :=
  let '(_, T, _, names, (lazy, excl), tuples) := c in
  excl ||
  forallb (fun t : c01_tuple =>
             let '(args, ioff, ion) := t in
             let s := spec_out T names args in
             verdict_ok (compare_out lazy s ioff) && verdict_ok (compare_out lazy s ion)) tuples.

(* for replays: per tuple what the specification side and the model computed, as observations *)
Inductive explained :=
| EVal (v : oval)
| EErr (thrown : option str)
| ESkipped.

Definition explain (r : res value) : explained :=
  match r with
  | Ok v => EVal (obs_val v)
  | Err t => EErr t
  | Panic => EErr None
  | OOF | Unsup => ESkipped
  end.

(* (specification S, model M) per argument tuple *)
Definition c01_explain (c : c01_case) : list (explained * explained) :=
  let '(_, T, A, names, _, tuples) := c in
  map (fun t : c01_tuple => let '(args, _, _) := t in
                            (explain (spec_out T names args), explain (model_out A names args))) tuples.

(* ---- counts for the evidence ---- *)

Definition count {A} (p : A -> bool) (l : list A) : N := N.of_nat (length (filter p l)).

(* [M compared; M unsup; M out of fuel; M laziness; S compared (both outcomes agree); S unsup; S out of fuel;
    S laziness; S tuples of excluded programs] summed over the tuples of all cases, then per case:
   [hypotheses of C01_generated hold; Generate rejects; outside the side condition] *)
Definition c01_stats (cases : list c01_case) : list N :=
  let per := flat_map (fun c => let '(_, _, _, _, (_, excl), _) := c in
                                map (fun v => (excl, v)) (c01_verdicts c)) cases in
  let m := map (fun x => fst (fst (snd x))) per in
  let incl := filter (fun x => negb (fst x)) per in
  let s1 := map (fun x => snd (fst (snd x))) incl in
  let s2 := map (fun x => snd (snd x)) incl in
  [ count is_agree m; count is_unsup m; count is_oof m; count is_lazy m;
    count (fun x => is_agree (snd (fst (snd x))) && is_agree (snd (snd x))) incl;
    count is_unsup s1; count is_oof s1; (count is_lazy s1 + count is_lazy s2)%N;
    N.of_nat (length per - length incl);
    count (fun c => N.eqb (c01_hyp c) 1) cases;
    count (fun c => N.eqb (c01_hyp c) 0 || N.eqb (c01_hyp c) 2) cases;
    count (fun c => N.eqb (c01_hyp c) 3) cases ].

(* ---- table obligations: the hand-written arity tables of Sem/Lib.v agree with the regenerated ones ---- *)

Definition arity_agrees (ar : arity) (args : Z) : bool :=
  match ar with
  | Fixed n => (args =? Z.of_nat n)%Z
  | VarArgs => (args <? 0)%Z
  end.

(* every static function the model knows exists in value.New() with the modelled number of arguments *)
Definition static_table_ok (tbl : list (str * Z * bool)) (names : list name) : bool :=
  forallb (fun n =>
             match static_arity n with
             | Some ar =>
                 match find (fun e => str_eqb (fst (fst e)) n) tbl with
                 | Some e => arity_agrees ar (snd (fst e))
                 | None => false
                 end
             | None => false
             end) names.

Definition modelled_statics : list name :=
  [n_throw; n_string; n_isFloat; n_isInt; n_float; n_int; n_abs; n_sign; n_sqr; n_min; n_max;
   n_binAnd; n_binOr; n_numbers].

(* every modelled method exists in the method table of its type with the modelled number of
   arguments (the table counts the receiver) *)
Definition method_table_ok (tbl : list (N * list (str * Z * bool))) (recv : value) (tid : N) (names : list name) : bool :=
  match assocN tid tbl with
  | Some ms =>
      forallb (fun n =>
                 match method_arity recv n with
                 | Some (Fixed k) =>
                     match find (fun e => str_eqb (fst (fst e)) n) ms with
                     | Some e => (snd (fst e) =? Z.of_nat (S k))%Z
                     | None => false
                     end
                 | Some VarArgs =>
                     match find (fun e => str_eqb (fst (fst e)) n) ms with
                     | Some e => (snd (fst e) <? 0)%Z
                     | None => false
                     end
                 | None => false
                 end) names
  | None => false
  end.

Definition modelled_list_methods : list name :=
  [n_size; n_first; n_last; n_map; n_accept; n_reduce; n_mapReduce; n_sum; n_top; n_skip; n_append;
   n_reverse; n_indexWhere; n_present; n_single; n_min; n_max; n_mean; n_minMax; n_number; n_compact;
   n_combine; n_combine3; n_combineN; n_iir; n_iirCombine; n_cross; n_merge; n_visit; n_eval; n_set].
Definition modelled_map_methods : list name := [n_size; n_get; n_put; n_isAvail].

Definition c01_tables_ok : bool :=
  static_table_ok vcfg_statics modelled_statics &&
  method_table_ok vcfg_method_info (VList []) 5 modelled_list_methods &&
  method_table_ok vcfg_method_info (VMap []) 6 modelled_map_methods &&
  method_table_ok vcfg_method_info (VStr []) 3 ([n_len; n_string] ++ modelled_str_methods) &&
  method_table_ok vcfg_method_info (VClo [] (AConst (VInt 0)) [] []) 7 [n_args] &&
  method_table_ok vcfg_method_info (VInt 0) 1 [n_string] &&
  method_table_ok vcfg_method_info (VFloat fl_zero) 2 [n_string] &&
  method_table_ok vcfg_method_info (VBool true) 4 [n_string].
