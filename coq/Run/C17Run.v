(* Executable checkers used by the correspondence run of C17 (evaluated with vm_compute on the
   cases the harness observed on the implementation). *)
From P2 Require Import Base.Prelude Exp.Json Generated.Escapes.
Local Open Scope N_scope.

Fixpoint jv_eqb (a b : jv) {struct a} : bool :=
  match a, b with
  | JStr s, JStr t => str_eqb s t
  | JArr l, JArr m =>
      (fix go (l m : list jv) : bool :=
         match l, m with
         | [], [] => true
         | x :: l', y :: m' => jv_eqb x y && go l' m'
         | _, _ => false
         end) l m
  | JObj l, JObj m =>
      (fix go (l m : list (str * jv)) : bool :=
         match l, m with
         | [], [] => true
         | (k, x) :: l', (k', y) :: m' => str_eqb k k' && jv_eqb x y && go l' m'
         | _, _ => false
         end) l m
  | _, _ => false
  end.

(* id, the value as the exporter saw it, the bytes (as code points) the implementation produced *)
Definition c17_case := (N * xv * list N)%type.
Definition c17_id (c : c17_case) : N := fst (fst c).

(* model of the implementation = implementation *)
Definition c17_im (c : c17_case) : bool :=
  str_eqb (export json_tbl (snd (fst c))) (snd c).

(* implementation output satisfies the specification: the spec decoder accepts it and yields the value *)
Definition c17_is (c : c17_case) : bool :=
  match json_parse (snd c) with
  | Some j => jv_eqb j (jproj (snd (fst c)))
  | None => false
  end.

(* witness search used when the table obligation of Props/C17.v fails *)
Definition c17_bad_runes : list N := bad_entries json_tbl.
