(* Executable checkers used by the correspondence run of C18 (evaluated with vm_compute on the
   cases the harness observed on the implementation). *)
From P2 Require Import Base.Prelude Exp.Json Exp.Xml Exp.Html Generated.XmlEscapes.
Local Open Scope N_scope.

Fixpoint dval_eqb (a b : dval) {struct a} : bool :=
  match a, b with
  | DS s, DS t => str_eqb s t
  | DL l, DL m =>
      (fix go (l m : list dval) : bool :=
         match l, m with
         | [], [] => true
         | x :: l', y :: m' => dval_eqb x y && go l' m'
         | _, _ => false
         end) l m
  | DM l, DM m =>
      (fix go (l m : list (str * dval)) : bool :=
         match l, m with
         | [], [] => true
         | (k, x) :: l', (k', y) :: m' => str_eqb k k' && dval_eqb x y && go l' m'
         | _, _ => false
         end) l m
  | _, _ => false
  end.

Inductive c18_case :=
| KXml (id : N) (v : xval) (out : list N) (go : option node)
    (* the value as the exporter saw it, the bytes of export.XML(), encoding/xml's tree of those bytes *)
| KHtml (id : N) (m : option (N * bool * hval)) (raw : bool) (out : list N) (go : option (list node))
    (* input of the ToHtml core model if the case is inside the core (maxListSize, inlineStyle, value),
       whether caller-supplied raw HTML is present, the markup ToHtml returned, encoding/xml's forest *)
| KHtmlErr (id : N) (m : N * bool * hval).
    (* ToHtml returned an error (and no markup) on an input inside the core model *)

Definition c18_id (c : c18_case) : N :=
  match c with KXml id _ _ _ => id | KHtml id _ _ _ _ => id | KHtmlErr id _ => id end.

(* model of the implementation = implementation: the bytes, and the specification parser against encoding/xml *)
Definition c18_im (c : c18_case) : bool :=
  match c with
  | KXml _ v out go =>
      match xml_export xml_text_tbl xml_attr_tbl v with
      | Some o => str_eqb o out
      | None => false
      end &&
      match xml_parse out, go with
      | Some a, Some b => node_eqb a b
      | None, None => true
      | _, _ => false
      end
  | KHtml _ m _ out go =>
      match m with
      | Some (maxl, inln, hv) =>
          match to_html_doc xml_text_tbl xml_attr_tbl maxl inln hv with
          | HOk o _ => str_eqb o out
          | _ => false
          end
      | None => true
      end &&
      match xml_fragment out, go with
      | Some a, Some b => forest_eqb a b
      | None, None => true
      | _, _ => false
      end
  | KHtmlErr _ (maxl, inln, hv) =>
      match to_html_doc xml_text_tbl xml_attr_tbl maxl inln hv with
      | HError => true
      | _ => false
      end
  end.

(* the implementation's output satisfies the specification: the specification parser accepts it and
   (xml) a reader of the documented format gets the value back, (html) all names are ToHtml's constants *)
Definition c18_is (c : c18_case) : bool :=
  match c with
  | KXml _ v out _ =>
      match xml_parse out with
      | Some root =>
          match xml_decode root with
          | Some d => dval_eqb d (proj v)
          | None => false
          end
      | None => false
      end
  | KHtml _ _ raw out _ =>
      match xml_fragment out with
      | Some f => raw || forallb (names_in html_elems html_attrs) f
      | None => false
      end
  | KHtmlErr _ _ => true      (* whether an error was due is judged by the Go oracle (want_err) *)
  end.

(* witness search used when the table obligation of Props/C18.v fails *)
Definition c18_bad_runes : list N := xml_bad_entries xml_text_tbl xml_attr_tbl.
