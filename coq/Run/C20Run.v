(* Executable checkers used by the correspondence run of C20 (evaluated with vm_compute on the cases the
   harness observed on the implementation).  Imports definitions only, no proofs. *)
From Coq Require Import QArith Qround.
From P2 Require Import Base.Prelude Lib.Binning.
Local Open Scope N_scope.

(* a float64 as transported by the harness: sign, integer mantissa, sign of the exponent, |exponent|;
   value = (-1)^neg * m * 2^(+-e), exactly *)
Definition fl (neg : bool) (m : N) (eneg : bool) (e : N) : Q :=
  let z := (if neg then - Z.of_N m else Z.of_N m)%Z in
  if eneg then Qmake z (Z.to_pos (2 ^ Z.of_N e)) else inject_Z (z * 2 ^ Z.of_N e).
Definition zi (n : N) : Q := inject_Z (Z.of_N n).      (* small non-negative integers *)

(* observed result of collectBinning over one splitting: None = an error was returned;
   1-d: (descr is identical to the descr of the unsplit binning, values)
   2-d: (yDescr identical, all xd identical, rows)
   values/rows are transported as None when they are identical (float ==, entry by entry) to the values of
   the unsplit binning, which are in the case already (compression of the case file, nothing is dropped) *)
Definition obs_c1 := option (bool * option (list Q)).
Definition obs_c2 := option (bool * bool * option (list (list Q))).
Definition expand {A} (whole : A) (o : option A) : A := match o with Some v => v | None => whole end.

Definition obs_r1 := (list bdescr * list Q)%type.                      (* descr, values *)
Definition obs_r2 := (list bdescr * list (bdescr * list Q))%type.      (* yDescr, [(xd,row)] *)

(* the observers of one bin description d, evaluated in the language:
   avail  d.isAvail("min"), ("max"), ("str"), ("nokey"), ("str","min"), ("str","max")
   get    try d.get("min"), try d.get("max")        (None = error)
   mem    try d.min, try d.max                      (None = error)
   cont   "min"~d, "max"~d, "str"~d, "nokey"~d
   keys   keys of d.list() in order (0 str, 1 min, 2 max, 3 anything else); vals: the values listed for min, max
   size   d.size();  str: d.string() mentions "min:", "max:"
   eqs    d = d;  d = a plain map with exactly the entries the specification gives bin i *)
Inductive dobs := Dobs (avail : list bool) (get mem : option Q * option Q) (cont : list bool)
                       (keys : list N) (vals : option Q * option Q) (size : N) (str : bool * bool) (eqs : bool * bool).

Inductive c20_case :=
| C1 (id : N) (start size : Q) (count : N) (xs : list (Q * Q))
     (whole : list bdescr * list Q)                       (* list.binning(start,size,count,e->e.x,e->e.v) *)
     (splits : list (list N * obs_c1))                    (* part lengths, parts.map(p->p.binning(..)).collectBinning() *)
| C2 (id : N) (xstart xsize : Q) (xcount : N) (ystart ysize : Q) (ycount : N) (xs : list (Q * Q * Q))
     (whole : list bdescr * list (bdescr * list Q))       (* yDescr, [(xd,row)] of list.binning2d(...) *)
     (splits : list (list N * obs_c2))
| CM (id : N) (parts : list (Q * Q * N * list (Q * Q)))  (* every part binned with its own start,size,count *)
     (obs : option (list bdescr * list Q))                (* collectBinning over them: error or descr,values *)
(* histories on the same objects: every part is binned ONCE (snap = what each partial result showed at
   creation); then several collectBinning calls over selections (with repetition, any order) of these same
   partial results; after every call the collected result and what every partial result shows NOW
   (None = still identical to its snapshot) *)
| H1 (id : N) (start size : Q) (count : N) (parts : list (list (Q * Q)))
     (snap : list obs_r1)
     (steps : list (list N * option obs_r1 * list (option obs_r1)))
| H2 (id : N) (xstart xsize : Q) (xcount : N) (ystart ysize : Q) (ycount : N) (parts : list (list (Q * Q * Q)))
     (snap : list obs_r2)
     (steps : list (list N * option obs_r2 * list (option obs_r2)))
(* all map observers applied to the bin descriptions of one axis (index of the bin, observations) *)
| CD (id : N) (start size : Q) (count : N) (obs : list (N * dobs)).

Definition c20_id (c : c20_case) : N :=
  match c with
  | C1 id _ _ _ _ _ _ => id | C2 id _ _ _ _ _ _ _ _ _ => id | CM id _ _ => id
  | H1 id _ _ _ _ _ _ => id | H2 id _ _ _ _ _ _ _ _ _ => id | CD id _ _ _ _ => id
  end.

Fixpoint split_by {A} (lens : list N) (l : list A) : list (list A) :=
  match lens with
  | [] => []
  | n :: r => firstn (N.to_nat n) l :: split_by r (skipn (N.to_nat n) l)
  end.

Definition rows_of {X} (v : list (X * list Q)) : list (list Q) := map snd v.
Definition xds_of {X} (v : list (X * list Q)) : list X := map fst v.

(* ---------------- model of the implementation = implementation ---------------- *)

Definition im_split1 (a : axis) (xs : list (Q * Q)) (wd : list bdescr) (wv : list Q) (s : list N * obs_c1) : bool :=
  match collect1 (map (binning a) (split_by (fst s) xs)), snd s with
  | COk (d, v), Some (same, ov) => Bool.eqb (descrs_eqb d wd) same && leq_b v (expand wv ov)
  | CErr, None => true
  | _, _ => false
  end.

Definition im_split2 (ax ay : axis) (xs : list (Q * Q * Q)) (wy : list bdescr) (wx : list bdescr)
           (wrows : list (list Q)) (s : list N * obs_c2) : bool :=
  match collect2 (map (binning_2d ax ay) (split_by (fst s) xs)), snd s with
  | COk (d, v), Some (samey, samex, orows) =>
      Bool.eqb (descrs_eqb d wy) samey && Bool.eqb (descrs_eqb (xds_of v) wx) samex && leq2_b (rows_of v) (expand wrows orows)
  | CErr, None => true
  | _, _ => false
  end.

(* ---------------- histories and description observers: helpers ---------------- *)

Definition r1_eqb (a b : obs_r1) : bool := descrs_eqb (fst a) (fst b) && leq_b (snd a) (snd b).
Definition r2_eqb (a b : obs_r2) : bool :=
  descrs_eqb (fst a) (fst b) && descrs_eqb (xds_of (snd a)) (xds_of (snd b)) && leq2_b (rows_of (snd a)) (rows_of (snd b)).

Fixpoint all2 {A B} (f : A -> B -> bool) (l : list A) (m : list B) : bool :=
  match l, m with
  | [], [] => true
  | x :: l', y :: m' => f x y && all2 f l' m'
  | _, _ => false
  end.

Definition select {A} (d : A) (l : list A) (idxs : list N) : list A := map (fun i => nth (N.to_nat i) l d) idxs.

(* model side of a history: partial results are values, nothing can change them; every collect is computed
   from the binnings of the selected parts *)
Definition im_hist {E R} (bin : list E -> R) (coll : list R -> cres R) (eqb : R -> R -> bool)
           (parts : list (list E)) (snap : list R) (steps : list (list N * option R * list (option R))) : bool :=
  let m := map bin parts in
  all2 eqb m snap &&
  forallb (fun st => match st with
     | (idxs, o, re) =>
         match coll (select (bin []) m idxs), o with
         | COk r, Some r' => eqb r r'
         | CErr, None => true
         | _, _ => false
         end
         && Nat.eqb (length re) (length snap)
         && all2 (fun mi sr => eqb mi (expand (fst sr) (snd sr))) m (combine snap re)
     end) steps.

(* specification side of a history: every collected result is the binning of the concatenation of the
   selected parts, and every partial result still is (after every step) the binning of its own part *)
Definition is_hist {E R} (sp : list E -> R) (eqb : R -> R -> bool)
           (parts : list (list E)) (snap : list R) (steps : list (list N * option R * list (option R))) : bool :=
  all2 eqb snap (map sp parts) &&
  forallb (fun st => match st with
     | (idxs, o, re) =>
         match o with Some r => eqb r (sp (concat (select [] parts idxs))) | None => false end
         && Nat.eqb (length re) (length snap)
         && all2 (fun p sr => eqb (expand (fst sr) (snd sr)) (sp p)) parts (combine snap re)
     end) steps.

Definition spec_r1 (a : axis) (xs : list (Q * Q)) : obs_r1 :=
  (map (spec_descr a) (zrange (Z.to_nat (a_bins a))), spec_values a xs).
Definition spec_r2 (ax ay : axis) (xs : list (Q * Q * Q)) : obs_r2 :=
  (map (spec_descr ay) (zrange (Z.to_nat (a_bins ay))),
   combine (map (spec_descr ax) (zrange (Z.to_nat (a_bins ax)))) (spec_values2 ax ay xs)).

Definition oq_of (v : option bval) : option Q := match v with Some (BNum q) => Some q | _ => None end.
Definition is_some {A} (o : option A) : bool := match o with Some _ => true | None => false end.
Definition key_code (k : bkey) : N := match k with KStr => 0 | KMin => 1 | KMax => 2 | KOther => 3 end.

(* what the observers yield on the bin record, computed as the Go code computes them *)
Definition obs_of_bin (b : bin) (spec : list (bkey * bval)) : dobs :=
  Dobs [map_is_avail b [KMin]; map_is_avail b [KMax]; map_is_avail b [KStr]; map_is_avail b [KOther];
        map_is_avail b [KStr; KMin]; map_is_avail b [KStr; KMax]]
       (oq_of (map_get b KMin), oq_of (map_get b KMax))
       (oq_of (map_get b KMin), oq_of (map_get b KMax))
       [map_contains b KMin; map_contains b KMax; map_contains b KStr; map_contains b KOther]
       (map (fun kv => key_code (fst kv)) (bin_iter b))
       (oq_of (kv_get (bin_iter b) KMin), oq_of (kv_get (bin_iter b) KMax))
       (bin_size b)
       (is_some (kv_get (bin_iter b) KMin), is_some (kv_get (bin_iter b) KMax))
       (bin_equals_self b, bin_equals_kv b spec).

(* what they must yield on a map with exactly the entries the specification gives the bin *)
Definition obs_of_kv (l : list (bkey * bval)) : dobs :=
  let has k := is_some (kv_get l k) in
  Dobs [has KMin; has KMax; has KStr; has KOther; has KStr && has KMin; has KStr && has KMax]
       (oq_of (kv_get l KMin), oq_of (kv_get l KMax))
       (oq_of (kv_get l KMin), oq_of (kv_get l KMax))
       [has KMin; has KMax; has KStr; has KOther]
       (map (fun kv => key_code (fst kv)) l)
       (oq_of (kv_get l KMin), oq_of (kv_get l KMax))
       (N.of_nat (length l))
       (has KMin, has KMax)
       (true, true).

Definition bools_eqb (a b : list bool) : bool := all2 Bool.eqb a b.
Definition ns_eqb (a b : list N) : bool := all2 N.eqb a b.
Definition oq2_eqb (a b : option Q * option Q) : bool := oq_eqb (fst a) (fst b) && oq_eqb (snd a) (snd b).
Definition b2_eqb (a b : bool * bool) : bool := Bool.eqb (fst a) (fst b) && Bool.eqb (snd a) (snd b).

Definition dobs_eqb (x y : dobs) : bool :=
  match x, y with
  | Dobs a1 g1 m1 c1 k1 v1 s1 t1 e1, Dobs a2 g2 m2 c2 k2 v2 s2 t2 e2 =>
      bools_eqb a1 a2 && oq2_eqb g1 g2 && oq2_eqb m1 m2 && bools_eqb c1 c2 && ns_eqb k1 k2 && oq2_eqb v1 v2
      && N.eqb s1 s2 && b2_eqb t1 t2 && b2_eqb e1 e2
  end.

Definition c20_im (c : c20_case) : bool :=
  match c with
  | C1 _ start size count xs (od, ov) splits =>
      let a := new_axis start size count in
      let m := binning a xs in
      descrs_eqb (fst m) od && leq_b (snd m) ov && forallb (im_split1 a xs (fst m) ov) splits
  | C2 _ xs0 xz xc ys0 yz yc xs (oyd, ovals) splits =>
      let ax := new_axis xs0 xz xc in
      let ay := new_axis ys0 yz yc in
      let m := binning_2d ax ay xs in
      descrs_eqb (fst m) oyd && descrs_eqb (xds_of (snd m)) (xds_of ovals) && leq2_b (rows_of (snd m)) (rows_of ovals)
      && forallb (im_split2 ax ay xs (fst m) (xds_of (snd m)) (rows_of ovals)) splits
  | CM _ parts obs =>
      match collect1 (map (fun p => match p with (s, z, c, xs) => binning (new_axis s z c) xs end) parts), obs with
      | COk (d, v), Some (od, ov) => descrs_eqb d od && leq_b v ov
      | CErr, None => true
      | _, _ => false
      end
  | H1 _ start size count parts snap steps =>
      let a := new_axis start size count in
      im_hist (binning a) collect1 r1_eqb parts snap steps
  | H2 _ xs0 xz xc ys0 yz yc parts snap steps =>
      let ax := new_axis xs0 xz xc in
      let ay := new_axis ys0 yz yc in
      im_hist (binning_2d ax ay) collect2 r2_eqb parts snap steps
  | CD _ start size count obs =>
      let a := new_axis start size count in
      forallb (fun io => dobs_eqb (obs_of_bin (get_bin a (Z.of_N (fst io))) (spec_kv a (Z.of_N (fst io)))) (snd io)) obs
  end.

(* ---------------- implementation satisfies the specification side ---------------- *)

Definition count_true {A} (f : A -> bool) (l : list A) : nat := length (filter f l).

(* every element lies in exactly one of the described bins *)
Definition one_bin (ds : list bdescr) (v : Q) : bool := Nat.eqb (count_true (fun d => in_descr_b d v) ds) 1.

Definition is_split1 (ov : list Q) (s : list N * obs_c1) : bool :=
  match snd s with
  | Some (same, v) => same && leq_b (expand ov v) ov   (* collectBinning over the parts = binning of the whole *)
  | None => false
  end.

Definition is_split2 (orows : list (list Q)) (s : list N * obs_c2) : bool :=
  match snd s with
  | Some (samey, samex, rows) => samey && samex && leq2_b (expand orows rows) orows
  | None => false
  end.

Definition c20_is (c : c20_case) : bool :=
  match c with
  | C1 _ start size count xs (od, ov) splits =>
      let a := new_axis start size count in
      (* mass and additivity are demanded for every grid *)
      Qeq_bool (Qsum ov) (Qsum (map snd xs)) && forallb (is_split1 ov) splits
      && (if Qpos_b size then
            descrs_eqb od (map (spec_descr a) (zrange (Z.to_nat (a_bins a))))
            && leq_b ov (spec_values a xs)
            && forallb (fun e => one_bin od (fst e)) xs
          else true)
  | C2 _ xs0 xz xc ys0 yz yc xs (oyd, ovals) splits =>
      let ax := new_axis xs0 xz xc in
      let ay := new_axis ys0 yz yc in
      Qeq_bool (Qsum2 (rows_of ovals)) (Qsum (map snd xs)) && forallb (is_split2 (rows_of ovals)) splits
      && (if Qpos_b xz && Qpos_b yz then
            descrs_eqb oyd (map (spec_descr ay) (zrange (Z.to_nat (a_bins ay))))
            && descrs_eqb (xds_of ovals) (map (spec_descr ax) (zrange (Z.to_nat (a_bins ax))))
            && leq2_b (rows_of ovals) (spec_values2 ax ay xs)
            && forallb (fun e => one_bin (xds_of ovals) (fst (fst e)) && one_bin oyd (snd (fst e))) xs
          else true)
  | CM _ _ _ => true      (* parts binned on different grids: outside the property, correspondence only *)
  | H1 _ start size count parts snap steps =>
      let a := new_axis start size count in
      if Qpos_b size then is_hist (spec_r1 a) r1_eqb parts snap steps else true
  | H2 _ xs0 xz xc ys0 yz yc parts snap steps =>
      let ax := new_axis xs0 xz xc in
      let ay := new_axis ys0 yz yc in
      if Qpos_b xz && Qpos_b yz then is_hist (spec_r2 ax ay) r2_eqb parts snap steps else true
  | CD _ start size count obs =>
      let a := new_axis start size count in
      if Qpos_b size then forallb (fun io => dobs_eqb (obs_of_kv (spec_kv a (Z.of_N (fst io)))) (snd io)) obs else true
  end.
