(* Executable checkers used by the correspondence run of C20 (evaluated with vm_compute on the cases the
   harness observed on the implementation).  Imports definitions only, no proofs. *)
From Coq Require Import QArith Qround.
From P2 Require Import Base.Prelude Lib.Binning.
Local Open Scope N_scope.

(* a float64 as transported by the harness: sign, integer mantissa, sign of the exponent, |exponent|;
   value = (-1)^neg * m * 2^(+-e), exactly *)
Definition fl (neg : bool) (m : N) (eneg : bool) (e : N) : Q :=
  let z := (if neg then - Z.of_N m else Z.of_N m)%Z in
  if eneg then Qmake z (Z.to_pos (2 ^ Z.of_N e)) else inject_Z (z * 2 ^ Z.of_N e).
Definition zi (n : N) : Q := inject_Z (Z.of_N n).      (* small non-negative integers *)

(* observed result of collectBinning over one splitting: None = an error was returned;
   1-d: (descr is identical to the descr of the unsplit binning, values)
   2-d: (yDescr identical, all xd identical, rows)
   values/rows are transported as None when they are identical (float ==, entry by entry) to the values of
   the unsplit binning, which are in the case already (compression of the case file, nothing is dropped) *)
Definition obs_c1 := option (bool * option (list Q)).
Definition obs_c2 := option (bool * bool * option (list (list Q))).
Definition expand {A} (whole : A) (o : option A) : A := match o with Some v => v | None => whole end.

Inductive c20_case :=
| C1 (id : N) (start size : Q) (count : N) (xs : list (Q * Q))
     (whole : list bdescr * list Q)                       (* list.binning(start,size,count,e->e.x,e->e.v) *)
     (splits : list (list N * obs_c1))                    (* part lengths, parts.map(p->p.binning(..)).collectBinning() *)
| C2 (id : N) (xstart xsize : Q) (xcount : N) (ystart ysize : Q) (ycount : N) (xs : list (Q * Q * Q))
     (whole : list bdescr * list (bdescr * list Q))       (* yDescr, [(xd,row)] of list.binning2d(...) *)
     (splits : list (list N * obs_c2))
| CM (id : N) (parts : list (Q * Q * N * list (Q * Q)))  (* every part binned with its own start,size,count *)
     (obs : option (list bdescr * list Q)).               (* collectBinning over them: error or descr,values *)

Definition c20_id (c : c20_case) : N :=
  match c with C1 id _ _ _ _ _ _ => id | C2 id _ _ _ _ _ _ _ _ _ => id | CM id _ _ => id end.

Fixpoint split_by {A} (lens : list N) (l : list A) : list (list A) :=
  match lens with
  | [] => []
  | n :: r => firstn (N.to_nat n) l :: split_by r (skipn (N.to_nat n) l)
  end.

Definition rows_of {X} (v : list (X * list Q)) : list (list Q) := map snd v.
Definition xds_of {X} (v : list (X * list Q)) : list X := map fst v.

(* ---------------- model of the implementation = implementation ---------------- *)

Definition im_split1 (a : axis) (xs : list (Q * Q)) (wd : list bdescr) (wv : list Q) (s : list N * obs_c1) : bool :=
  match collect1 (map (binning a) (split_by (fst s) xs)), snd s with
  | COk (d, v), Some (same, ov) => Bool.eqb (descrs_eqb d wd) same && leq_b v (expand wv ov)
  | CErr, None => true
  | _, _ => false
  end.

Definition im_split2 (ax ay : axis) (xs : list (Q * Q * Q)) (wy : list bdescr) (wx : list bdescr)
           (wrows : list (list Q)) (s : list N * obs_c2) : bool :=
  match collect2 (map (binning_2d ax ay) (split_by (fst s) xs)), snd s with
  | COk (d, v), Some (samey, samex, orows) =>
      Bool.eqb (descrs_eqb d wy) samey && Bool.eqb (descrs_eqb (xds_of v) wx) samex && leq2_b (rows_of v) (expand wrows orows)
  | CErr, None => true
  | _, _ => false
  end.

Definition c20_im (c : c20_case) : bool :=
  match c with
  | C1 _ start size count xs (od, ov) splits =>
      let a := new_axis start size count in
      let m := binning a xs in
      descrs_eqb (fst m) od && leq_b (snd m) ov && forallb (im_split1 a xs (fst m) ov) splits
  | C2 _ xs0 xz xc ys0 yz yc xs (oyd, ovals) splits =>
      let ax := new_axis xs0 xz xc in
      let ay := new_axis ys0 yz yc in
      let m := binning_2d ax ay xs in
      descrs_eqb (fst m) oyd && descrs_eqb (xds_of (snd m)) (xds_of ovals) && leq2_b (rows_of (snd m)) (rows_of ovals)
      && forallb (im_split2 ax ay xs (fst m) (xds_of (snd m)) (rows_of ovals)) splits
  | CM _ parts obs =>
      match collect1 (map (fun p => match p with (s, z, c, xs) => binning (new_axis s z c) xs end) parts), obs with
      | COk (d, v), Some (od, ov) => descrs_eqb d od && leq_b v ov
      | CErr, None => true
      | _, _ => false
      end
  end.

(* ---------------- implementation satisfies the specification side ---------------- *)

Definition count_true {A} (f : A -> bool) (l : list A) : nat := length (filter f l).

(* every element lies in exactly one of the described bins *)
Definition one_bin (ds : list bdescr) (v : Q) : bool := Nat.eqb (count_true (fun d => in_descr_b d v) ds) 1.

Definition is_split1 (ov : list Q) (s : list N * obs_c1) : bool :=
  match snd s with
  | Some (same, v) => same && leq_b (expand ov v) ov   (* collectBinning over the parts = binning of the whole *)
  | None => false
  end.

Definition is_split2 (orows : list (list Q)) (s : list N * obs_c2) : bool :=
  match snd s with
  | Some (samey, samex, rows) => samey && samex && leq2_b (expand orows rows) orows
  | None => false
  end.

Definition c20_is (c : c20_case) : bool :=
  match c with
  | C1 _ start size count xs (od, ov) splits =>
      let a := new_axis start size count in
      (* mass and additivity are demanded for every grid *)
      Qeq_bool (Qsum ov) (Qsum (map snd xs)) && forallb (is_split1 ov) splits
      && (if Qpos_b size then
            descrs_eqb od (map (spec_descr a) (zrange (Z.to_nat (a_bins a))))
            && leq_b ov (spec_values a xs)
            && forallb (fun e => one_bin od (fst e)) xs
          else true)
  | C2 _ xs0 xz xc ys0 yz yc xs (oyd, ovals) splits =>
      let ax := new_axis xs0 xz xc in
      let ay := new_axis ys0 yz yc in
      Qeq_bool (Qsum2 (rows_of ovals)) (Qsum (map snd xs)) && forallb (is_split2 (rows_of ovals)) splits
      && (if Qpos_b xz && Qpos_b yz then
            descrs_eqb oyd (map (spec_descr ay) (zrange (Z.to_nat (a_bins ay))))
            && descrs_eqb (xds_of ovals) (map (spec_descr ax) (zrange (Z.to_nat (a_bins ax))))
            && leq2_b (rows_of ovals) (spec_values2 ax ay xs)
            && forallb (fun e => one_bin (xds_of ovals) (fst (fst e)) && one_bin oyd (snd (fst e))) xs
          else true)
  | CM _ _ _ => true      (* parts binned on different grids: outside the property, correspondence only *)
  end.
