From P2 Require Import Base.Prelude Base.PreludeProofs Exp.Json Exp.JsonProofs Exp.Xml Exp.XmlProofs Exp.Html.
From Coq Require Import Permutation.
Local Open Scope N_scope.

(* ====================================================================== *)
(*  unfolding equations of to_html                                        *)
(* ====================================================================== *)

Section Model.
Variable maxl : N.
Variable inline : bool.

Notation html := (to_html maxl inline).
Notation to_td := (to_td_with inline (to_html maxl inline)).
Notation cellf := (cell_with inline (to_html maxl inline)).

Lemma html_clo : forall v cls, html v SCloErr cls = None.
Proof. destruct v; reflexivity. Qed.

Lemma html_fmt : forall c cs f inner st cls, st <> SCloErr -> html (HFmt c cs f inner) st cls = html inner f cls.
Proof. intros. destruct st; try reflexivity. congruence. Qed.

Lemma html_fmtclo : forall c cs r inner st cls, st <> SCloErr -> html (HFmtClo c cs r inner) st cls = html r SNone cls.
Proof. intros. destruct st; try reflexivity. congruence. Qed.

Lemma html_lnk : forall l inner st cls, st <> SCloErr ->
  html (HLnk l inner) st cls =
  bind (html inner st cls) (fun o cls1 => Some (OOpen s_a :: OAttr s_href l :: o ++ [OClose], cls1)).
Proof. intros. destruct st; try reflexivity. congruence. Qed.

Lemma html_float : forall s st cls, st <> SCloErr -> html (HFloat s) st cls = Some ([OWrite s], cls).
Proof. intros. destruct st; try reflexivity. congruence. Qed.

Lemma html_file : forall name mime b64 size st cls, st <> SCloErr ->
  html (HFile name mime b64 size) st cls =
  Some ([OOpen s_a; OAttr s_href (file_href mime b64); OAttr s_download name; OWrite (file_text name size); OClose], cls).
Proof. intros. destruct st; try reflexivity. congruence. Qed.

Lemma html_str : forall s st cls, st <> SCloErr -> html (HS s) st cls = Some (html_string inline s st cls).
Proof. intros. destruct st; try reflexivity. congruence. Qed.

Lemma html_nil : forall st cls, st <> SCloErr -> html HNil st cls = Some ([OWrite s_nil], cls).
Proof. intros. destruct st; try reflexivity. congruence. Qed.

Lemma html_iter : forall st cls, html HErr st cls = None.
Proof. intros. destruct st; reflexivity. Qed.

Lemma html_item : forall r y st cls, html (HCell r y) st cls = html y st cls.
Proof. intros. destruct st; try reflexivity. destruct y; reflexivity. Qed.

Lemma html_map : forall l st cls, st <> SCloErr ->
  html (HM l) st cls =
  let '(a, cls0) := style_attr inline st cls in
  bind (map_rows (sort_keys (map (fun kv => (fst kv, to_td (snd kv))) l)) cls0) (fun rows clsN =>
  Some (OOpen s_table :: a ++ rows ++ [OClose], clsN)).
Proof. intros. destruct st; try reflexivity. congruence. Qed.

Lemma html_list : forall items st cls, st <> SCloErr ->
  html (HL items) st cls =
  if has_plain st then plain_each (fun x => html x SNone) items cls
  else match items with
       | [] => Some ([], cls)
       | first :: _ =>
           if is_err first then None else if is_nil first then Some ([], cls) else
           let '(a, cls0) := style_attr inline st cls in
           bind (if is_HL first then table_rows maxl (cellf (tf_of st)) items 1 cls0
                 else simple_rows maxl to_td items 1 cls0)
                (fun rows clsN => Some (OOpen s_table :: a ++ rows ++ [OClose], clsN))
       end.
Proof. intros. destruct st; try reflexivity. congruence. Qed.

Lemma cell_plain_eq : forall tf row col y cls, cell_plain (tf_lookup tf row col) = true ->
  cellf tf row col y cls = to_td y cls.
Proof.
  intros tf row col y cls H. unfold cell_with. destruct (tf_lookup tf row col) as [f|]; [|reflexivity].
  destruct f; try discriminate. reflexivity.
Qed.

Lemma cell_res_eq : forall tf row col r y cls, tf_lookup tf row col = Some SCloRes ->
  cellf tf row col (HCell r y) cls = to_td r cls.
Proof. intros tf row col r y cls H. unfold cell_with. rewrite H. reflexivity. Qed.

Lemma cell_fmt_eq : forall tf row col y cls f, tf_lookup tf row col = Some f -> f <> SCloId -> f <> SCloRes ->
  cellf tf row col y cls =
  let '(a, cls1) := style_attr inline f cls in
  bind (html y SNone cls1) (fun o cls2 => Some (OOpen s_td :: a ++ o ++ [OClose], cls2)).
Proof.
  intros tf row col y cls f H Hn Hr. unfold cell_with. rewrite H. destruct f; try reflexivity; congruence.
Qed.

(* ====================================================================== *)
(*  errors: a failing element inside the cut-offs makes the whole rendering fail   *)
(* ====================================================================== *)

Section LoopErr.
Variable td : hval -> list str -> res.

Lemma simple_rows_err : forall l n i cls e, nth_error l n = Some e -> N.of_nat n + i <= maxl ->
  (forall c, td e c = None) -> simple_rows maxl td l i cls = None.
Proof.
  induction l as [|x l IH]; intros n i cls e Hn Hi He; [destruct n; discriminate|].
  cbn [simple_rows]. assert (Hle : (i <=? maxl) = true) by (apply N.leb_le; lia). rewrite Hle.
  destruct (is_err x); [reflexivity|].
  destruct n as [|n].
  - inversion Hn; subst. rewrite He. reflexivity.
  - cbn [nth_error] in Hn. destruct (td x cls) as [[o cls1]|]; [|reflexivity]. cbn [bind].
    rewrite (IH n (i + 1) cls1 e Hn); [reflexivity| |exact He]. lia.
Qed.

(* the iteration fails: also at the first position past the cut-off *)
Lemma simple_rows_iter : forall l n i cls, nth_error l n = Some HErr -> N.of_nat n + i <= maxl + 1 ->
  simple_rows maxl td l i cls = None.
Proof.
  induction l as [|x l IH]; intros n i cls Hn Hi; [destruct n; discriminate|].
  cbn [simple_rows]. destruct n as [|n].
  - inversion Hn; subst. reflexivity.
  - cbn [nth_error] in Hn. destruct (is_err x); [reflexivity|].
    assert (Hle : (i <=? maxl) = true) by (apply N.leb_le; lia). rewrite Hle.
    destruct (td x cls) as [[o cls1]|]; [|reflexivity]. cbn [bind].
    rewrite (IH n (i + 1) cls1 Hn); [reflexivity|lia].
Qed.

End LoopErr.

Section TLoopErr.
Variable cell : N -> N -> hval -> list str -> res.

Lemma table_cells_err : forall row l n i cls e, nth_error l n = Some e -> N.of_nat n + i <= maxl ->
  (forall c, cell row (N.of_nat n + i) e c = None) -> table_cells maxl cell row l i cls = None.
Proof.
  intros row. induction l as [|x l IH]; intros n i cls e Hn Hi He; [destruct n; discriminate|].
  cbn [table_cells]. assert (Hle : (i <=? maxl) = true) by (apply N.leb_le; lia). rewrite Hle.
  destruct (is_err x); [reflexivity|].
  destruct n as [|n].
  - inversion Hn; subst. change (N.of_nat 0 + i) with i in He. rewrite He. reflexivity.
  - cbn [nth_error] in Hn. destruct (cell row i x cls) as [[o cls1]|]; [|reflexivity]. cbn [bind].
    rewrite (IH n (i + 1) cls1 e Hn); [reflexivity|lia|].
    intro c. replace (N.of_nat n + (i + 1)) with (N.of_nat (S n) + i) by lia. apply He.
Qed.

Lemma table_cells_iter : forall row l n i cls, nth_error l n = Some HErr -> N.of_nat n + i <= maxl + 1 ->
  table_cells maxl cell row l i cls = None.
Proof.
  intros row. induction l as [|x l IH]; intros n i cls Hn Hi; [destruct n; discriminate|].
  cbn [table_cells]. destruct n as [|n].
  - inversion Hn; subst. reflexivity.
  - cbn [nth_error] in Hn. destruct (is_err x); [reflexivity|].
    assert (Hle : (i <=? maxl) = true) by (apply N.leb_le; lia). rewrite Hle.
    destruct (cell row i x cls) as [[o cls1]|]; [|reflexivity]. cbn [bind].
    rewrite (IH n (i + 1) cls1 Hn); [reflexivity|lia].
Qed.

(* the row itself fails, whatever class list it starts with *)
Definition row_cells (row : N) (x : hval) (cls : list str) : res :=
  match x with
  | HL cols => table_cells maxl cell row cols 1 cls
  | _ => if 1 <=? maxl then cell row 1 x cls else Some (more_td, cls)
  end.

Lemma table_rows_err : forall l n i cls x, nth_error l n = Some x -> N.of_nat n + i <= maxl ->
  (forall c, row_cells (N.of_nat n + i) x c = None) -> table_rows maxl cell l i cls = None.
Proof.
  induction l as [|y l IH]; intros n i cls x Hn Hi Hx; [destruct n; discriminate|].
  cbn [table_rows]. assert (Hle : (i <=? maxl) = true) by (apply N.leb_le; lia). rewrite Hle.
  fold (row_cells i y cls). destruct (is_err y); [reflexivity|].
  destruct n as [|n].
  - inversion Hn; subst. change (N.of_nat 0 + i) with i in Hx. rewrite Hx. reflexivity.
  - cbn [nth_error] in Hn. destruct (row_cells i y cls) as [[o cls1]|]; [|reflexivity]. cbn [bind].
    rewrite (IH n (i + 1) cls1 x Hn); [reflexivity|lia|].
    intro c. replace (N.of_nat n + (i + 1)) with (N.of_nat (S n) + i) by lia. apply Hx.
Qed.

Lemma table_rows_iter : forall l n i cls, nth_error l n = Some HErr -> N.of_nat n + i <= maxl + 1 ->
  table_rows maxl cell l i cls = None.
Proof.
  induction l as [|y l IH]; intros n i cls Hn Hi; [destruct n; discriminate|].
  cbn [table_rows]. fold (row_cells i y cls). destruct n as [|n].
  - inversion Hn; subst. reflexivity.
  - cbn [nth_error] in Hn. destruct (is_err y); [reflexivity|].
    assert (Hle : (i <=? maxl) = true) by (apply N.leb_le; lia). rewrite Hle.
    destruct (row_cells i y cls) as [[o cls1]|]; [|reflexivity]. cbn [bind].
    rewrite (IH n (i + 1) cls1 Hn); [reflexivity|lia].
Qed.

End TLoopErr.

Lemma plain_each_err : forall each l cls e, In e l -> (forall c, each e c = None) -> plain_each each l cls = None.
Proof.
  intros each. induction l as [|x l IH]; intros cls e Hin He; [destruct Hin|].
  cbn [plain_each]. destruct (is_err x); [reflexivity|]. destruct Hin as [->|Hin].
  - rewrite He. reflexivity.
  - destruct (each x cls) as [[o cls1]|]; [|reflexivity]. cbn [bind]. rewrite (IH cls1 e Hin He). reflexivity.
Qed.

Lemma map_rows_err : forall l cls k f, In (k, f) l -> (forall c, f c = None) -> map_rows l cls = None.
Proof.
  induction l as [|[k0 f0] l IH]; intros cls k f Hin Hf; [destruct Hin|].
  cbn [map_rows]. destruct Hin as [E|Hin].
  - inversion E; subst. rewrite Hf. reflexivity.
  - destruct (f0 cls) as [[o cls1]|]; [|reflexivity]. cbn [bind]. rewrite (IH cls1 k f Hin Hf). reflexivity.
Qed.

Scheme fails_mut := Induction for fails Sort Prop
  with fails_td_mut := Induction for fails_td Sort Prop.
Combined Scheme fails_both from fails_mut, fails_td_mut.

Lemma sty_res_dec : forall st : sty, st = SCloRes \/ st <> SCloRes.
Proof. destruct st; [right|right|right|right|right|left|right]; congruence. Qed.

Lemma sty_dec : forall st : sty, st = SCloErr \/ st <> SCloErr.
Proof. destruct st; [right|right|right|left|right|right|right]; congruence. Qed.

Lemma nil_of_HL : forall v, is_HL v = true -> is_nil v = false.
Proof. destruct v; try discriminate; reflexivity. Qed.

(* the common start of the list cases: past the style, the plainList test and the look at the first element *)
Ltac list_start st Hs Hp H0 Hnil cls a cls0 :=
  destruct (sty_dec st) as [->|Hs]; [apply html_clo|];
  rewrite html_list by exact Hs; rewrite Hp;
  match goal with |- context [match ?items with [] => _ | _ => _ end] =>
    destruct items as [|?x0 ?items']; [discriminate|] end;
  cbn [nth_error] in H0; inversion H0; subst;
  match goal with |- context [is_err ?f] => destruct (is_err f); [reflexivity|] end;
  rewrite Hnil;
  destruct (style_attr inline st cls) as [a cls0].

Theorem fails_err :
  (forall v st, fails maxl v st -> forall cls, html v st cls = None) /\
  (forall d, fails_td maxl d -> forall cls, to_td d cls = None).
Proof.
  apply fails_both.
  - (* F_here *) intros v cls. apply html_clo.
  - (* F_iter *) intros st cls. apply html_iter.
  - (* F_item *) intros r y st _ IH cls. rewrite html_item. apply IH.
  - (* F_list_iter *) intros items first i st Hp H0 Hnil Hi Hle cls.
    list_start st Hs Hp H0 Hnil cls a cls0.
    destruct (is_HL first).
    + rewrite (table_rows_iter (cellf (tf_of st)) _ i 1 cls0 Hi); [reflexivity|lia].
    + rewrite (simple_rows_iter to_td _ i 1 cls0 Hi); [reflexivity|lia].
  - (* F_cell_iter *) intros items first r cols c st Hp H0 Hf Hr Hlt Hc Hcle cls.
    pose proof (nil_of_HL _ Hf) as Hnil. list_start st Hs Hp H0 Hnil cls a cls0. rewrite Hf.
    rewrite (table_rows_err (cellf (tf_of st)) _ r 1 cls0 (HL cols) Hr); [reflexivity|lia|].
    intro c0. unfold row_cells.
    apply (table_cells_iter (cellf (tf_of st)) (N.of_nat r + 1) cols c 1 c0 Hc). lia.
  - (* F_row_res *) intros items first r res y st Hp H0 Hf Hr Hlt Hlk _ IH cls.
    pose proof (nil_of_HL _ Hf) as Hnil. list_start st Hs Hp H0 Hnil cls a cls0. rewrite Hf.
    rewrite (table_rows_err (cellf (tf_of st)) _ r 1 cls0 (HCell res y) Hr); [reflexivity|lia|].
    intro c. unfold row_cells. assert (H1 : (1 <=? maxl) = true) by (apply N.leb_le; lia).
    rewrite H1. rewrite (cell_res_eq _ _ _ _ _ _ Hlk). apply IH.
  - (* F_cell_res *) intros items first r cols c res y st Hp H0 Hf Hr Hlt Hc Hclt Hlk _ IH cls.
    pose proof (nil_of_HL _ Hf) as Hnil. list_start st Hs Hp H0 Hnil cls a cls0. rewrite Hf.
    rewrite (table_rows_err (cellf (tf_of st)) _ r 1 cls0 (HL cols) Hr); [reflexivity|lia|].
    intro c0. unfold row_cells.
    apply (table_cells_err (cellf (tf_of st)) (N.of_nat r + 1) cols c 1 c0 (HCell res y) Hc); [lia|].
    intro c1. rewrite (cell_res_eq _ _ _ _ _ _ Hlk). apply IH.
  - (* F_fmt *) intros c cs f inner st _ IH cls. destruct (sty_dec st) as [->|Hs]; [apply html_clo|].
    rewrite html_fmt by exact Hs. apply IH.
  - (* F_lnk *) intros l inner st _ IH cls. destruct (sty_dec st) as [->|Hs]; [apply html_clo|].
    rewrite html_lnk by exact Hs. rewrite IH. reflexivity.
  - (* F_clo *) intros c cs r inner st _ IH cls. destruct (sty_dec st) as [->|Hs]; [apply html_clo|].
    rewrite html_fmtclo by exact Hs. apply IH.
  - (* F_map *) intros l k e st Hin _ IH cls. destruct (sty_dec st) as [->|Hs]; [apply html_clo|].
    rewrite html_map by exact Hs. destruct (style_attr inline st cls) as [a cls0].
    rewrite (map_rows_err _ cls0 k (to_td e)); [reflexivity| |exact IH].
    eapply Permutation_in; [apply sort_keys_perm|].
    apply in_map_iff. exists (k, e). split; [reflexivity|exact Hin].
  - (* F_plain *) intros items e st Hp Hin _ IH cls. destruct (sty_dec st) as [->|Hs]; [apply html_clo|].
    rewrite html_list by exact Hs. rewrite Hp. apply (plain_each_err _ items cls e Hin). exact IH.
  - (* F_list *) intros items first i e st Hp H0 Hf Hnil Hi Hlt _ IH cls.
    list_start st Hs Hp H0 Hnil cls a cls0. rewrite Hf.
    rewrite (simple_rows_err to_td _ i 1 cls0 e Hi); [reflexivity|lia|exact IH].
  - (* F_row *) intros items first r x st Hp H0 Hf Hr Hlt Hx Hlk _ IH cls.
    pose proof (nil_of_HL _ Hf) as Hnil. list_start st Hs Hp H0 Hnil cls a cls0. rewrite Hf.
    rewrite (table_rows_err (cellf (tf_of st)) _ r 1 cls0 x Hr); [reflexivity|lia|].
    intro c. unfold row_cells. assert (H1 : (1 <=? maxl) = true) by (apply N.leb_le; lia).
    destruct x; try discriminate; rewrite H1; rewrite (cell_plain_eq _ _ _ _ _ Hlk); apply IH.
  - (* F_row_fmt *) intros items first r x f st Hp H0 Hf Hr Hlt Hx Hlk Hnf Hnr _ IH cls.
    pose proof (nil_of_HL _ Hf) as Hnil. list_start st Hs Hp H0 Hnil cls a cls0. rewrite Hf.
    rewrite (table_rows_err (cellf (tf_of st)) _ r 1 cls0 x Hr); [reflexivity|lia|].
    intro c. unfold row_cells. assert (H1 : (1 <=? maxl) = true) by (apply N.leb_le; lia).
    destruct x; try discriminate; rewrite H1; rewrite (cell_fmt_eq _ _ _ _ _ f Hlk Hnf Hnr);
      destruct (style_attr inline f c) as [a1 c1]; rewrite IH; reflexivity.
  - (* F_cell *) intros items first r cols c y st Hp H0 Hf Hr Hlt Hc Hclt Hlk _ IH cls.
    pose proof (nil_of_HL _ Hf) as Hnil. list_start st Hs Hp H0 Hnil cls a cls0. rewrite Hf.
    rewrite (table_rows_err (cellf (tf_of st)) _ r 1 cls0 (HL cols) Hr); [reflexivity|lia|].
    intro c0. unfold row_cells.
    apply (table_cells_err (cellf (tf_of st)) (N.of_nat r + 1) cols c 1 c0 y Hc); [lia|].
    intro c1. rewrite (cell_plain_eq _ _ _ _ _ Hlk). apply IH.
  - (* F_cell_fmt *) intros items first r cols c y f st Hp H0 Hf Hr Hlt Hc Hclt Hlk Hnf Hnr _ IH cls.
    pose proof (nil_of_HL _ Hf) as Hnil. list_start st Hs Hp H0 Hnil cls a cls0. rewrite Hf.
    rewrite (table_rows_err (cellf (tf_of st)) _ r 1 cls0 (HL cols) Hr); [reflexivity|lia|].
    intro c0. unfold row_cells.
    apply (table_cells_err (cellf (tf_of st)) (N.of_nat r + 1) cols c 1 c0 y Hc); [lia|].
    intro c1. rewrite (cell_fmt_eq _ _ _ _ _ f Hlk Hnf Hnr). destruct (style_attr inline f c1) as [a1 c2]. rewrite IH. reflexivity.
  - (* T_list *) intros cs f inner Hl _ IH cls. cbn [to_td_with]. rewrite Hl. cbn [negb andb]. rewrite IH. reflexivity.
  - (* T_other *) intros cell cs f inner Hc _ IH cls. cbn [to_td_with]. rewrite Hc.
    destruct (style_attr inline f cls) as [a cls1]. rewrite IH. reflexivity.
  - (* T_clo_list *) intros cs r inner Hl _ IH cls. cbn [to_td_with]. rewrite Hl. cbn [negb andb]. rewrite IH. reflexivity.
  - (* T_clo_other *) intros cell cs r inner Hc _ IH cls. cbn [to_td_with]. rewrite Hc. rewrite IH. reflexivity.
  - (* T_item *) intros r y _ IH cls. cbn [to_td_with]. apply IH.
  - (* T_plain *) intros d Hd _ IH cls. destruct d; try discriminate; cbn [to_td_with]; rewrite IH; reflexivity.
Qed.

(* ====================================================================== *)
(*  the calls are those of a forest with constant names                   *)
(* ====================================================================== *)

Record okf (strict : bool) (f : list node) : Prop := mk_okf {
  ok_wf : forallb wf_node f = true;
  ok_names : forallb hnames f = true;
  ok_unm : strict = true -> unmixed_forest f = true }.

Definition okels (strict : bool) (f : list node) : Prop := okf strict f /\ forallb is_el f = true.

Definition seg (P : list node -> Prop) (r : res) : Prop :=
  match r with
  | None => True
  | Some (ops, _) => exists f, ops = flat_map ops_of f /\ P f
  end.

Definition attr_ops (a : list (str * str)) : list op := map (fun kv => OAttr (fst kv) (snd kv)) a.

Lemma okels_nil : forall s, okels s [].
Proof. intro s. split; [constructor; reflexivity|reflexivity]. Qed.

Lemma okf_nil : forall s, okf s [].
Proof. intro s. constructor; reflexivity. Qed.

Lemma okels_okf : forall s f, okels s f -> okf s f.
Proof. intros s f [H _]. exact H. Qed.

Lemma okels_app : forall s f1 f2, okels s f1 -> okels s f2 -> okels s (f1 ++ f2).
Proof.
  intros s f1 f2 [[W1 N1 U1] E1] [[W2 N2 U2] E2].
  assert (E : forallb is_el (f1 ++ f2) = true) by (rewrite forallb_app, E1, E2; reflexivity).
  split; [|exact E]. constructor.
  - rewrite forallb_app, W1, W2. reflexivity.
  - rewrite forallb_app, N1, N2. reflexivity.
  - intro Hs. specialize (U1 Hs). specialize (U2 Hs). unfold unmixed_forest in *.
    apply andb_true_iff in U1. apply andb_true_iff in U2. destruct U1 as [_ U1]. destruct U2 as [_ U2].
    rewrite E, orb_true_r, forallb_app, U1, U2. reflexivity.
Qed.

Lemma okf_app_weak : forall f1 f2, okf false f1 -> okf false f2 -> okf false (f1 ++ f2).
Proof.
  intros f1 f2 [W1 N1 _] [W2 N2 _]. constructor.
  - rewrite forallb_app, W1, W2. reflexivity.
  - rewrite forallb_app, N1, N2. reflexivity.
  - discriminate.
Qed.

Definition attrs_ok (a : list (str * str)) : Prop :=
  forallb (fun kv => xml_name (fst kv) && legal (snd kv)) a = true /\ nodup_keys a = true /\
  forallb (fun kv => mem_str (fst kv) html_attrs) a = true.

Lemma mk_el : forall s tag a kids, mem_str tag html_elems = true -> xml_name tag = true ->
  attrs_ok a -> okf s kids -> okels s [El tag a kids].
Proof.
  intros s tag a kids Ht Hn [A1 [A2 A3]] [W N U]. split; [|reflexivity]. constructor.
  - cbn [forallb wf_node]. rewrite Hn, A1, A2, W. reflexivity.
  - cbn [forallb]. unfold hnames at 1. cbn [names_in]. fold hnames. rewrite Ht, A3, N. reflexivity.
  - intro Hs. specialize (U Hs). unfold unmixed_forest in *. cbn [forallb is_tx is_el unmixed].
    rewrite U. reflexivity.
Qed.

Lemma ops_el : forall tag a kids,
  flat_map ops_of [El tag a kids] = OOpen tag :: attr_ops a ++ flat_map ops_of kids ++ [OClose].
Proof. intros. cbn [flat_map ops_of]. rewrite app_nil_r. reflexivity. Qed.

Lemma okf_txs : forall s l, forallb legal l = true -> okf s (map Tx l).
Proof.
  intros s l H. constructor.
  - induction l as [|x l IH]; [reflexivity|]. cbn [forallb] in H. apply andb_true_iff in H. destruct H as [Hx Hl].
    cbn [map forallb wf_node]. rewrite Hx, (IH Hl). reflexivity.
  - induction l as [|x l IH]; [reflexivity|]. cbn [forallb] in H. apply andb_true_iff in H. destruct H as [Hx Hl].
    cbn [map forallb]. rewrite (IH Hl). reflexivity.
  - intros _. unfold unmixed_forest.
    assert (T : forallb is_tx (map Tx l) = true) by (clear; induction l; [reflexivity|cbn [map forallb is_tx andb]; assumption]).
    assert (M : forallb unmixed (map Tx l) = true) by (clear; induction l; [reflexivity|cbn [map forallb unmixed andb]; assumption]).
    rewrite T, M. reflexivity.
Qed.

(* ---------- attribute lists ToHtml uses ---------- *)

Definition attr_shapes : list (list str) :=
  [[]; [s_style]; [s_class]; [s_colspan]; [s_colspan; s_style]; [s_colspan; s_class]; [s_href]; [s_href; s_target];
   [s_href; s_download]].

Lemma forallb_fst : forall (P : str -> bool) (a : list (str * str)),
  forallb (fun kv => P (fst kv)) a = forallb P (map fst a).
Proof. intros P a. induction a as [|x a IH]; [reflexivity|]. cbn [map forallb]. rewrite IH. reflexivity. Qed.

Lemma attrs_ok_shape : forall a, In (map fst a) attr_shapes -> forallb (fun kv => legal (snd kv)) a = true -> attrs_ok a.
Proof.
  intros a Hs Hl. unfold attrs_ok.
  assert (H1 : forallb (fun kv : str * str => xml_name (fst kv) && legal (snd kv)) a =
               forallb xml_name (map fst a) && forallb (fun kv => legal (snd kv)) a).
  { clear. induction a as [|x a IH]; [reflexivity|]. cbn [map forallb]. rewrite IH.
    destruct (xml_name (fst x)), (legal (snd x)), (forallb xml_name (map fst a)); reflexivity. }
  rewrite H1, Hl, (forallb_fst (fun k => mem_str k html_attrs)). rewrite andb_true_r.
  assert (H2 : nodup_keys a = true <-> NoDup (map fst a)) by apply nodup_keys_iff.
  unfold attr_shapes in Hs. cbn [In] in Hs.
  repeat (destruct Hs as [Hs|Hs]); try contradiction; rewrite <- Hs;
    (split; [vm_compute; reflexivity|]); (split; [|vm_compute; reflexivity]);
    apply H2; rewrite <- Hs; repeat constructor; cbn [In]; intuition discriminate.
Qed.

(* ---------- numbers are digits ---------- *)

Definition digit (c : N) : Prop := 48 <= c <= 57.

Lemma dec_f_digits : forall fuel n acc, Forall digit acc -> Forall digit (dec_f fuel n acc).
Proof.
  induction fuel as [|f IH]; intros n acc H; [exact H|].
  cbn [dec_f]. destruct (N.ltb_spec n 10).
  - constructor; [unfold digit; lia|exact H].
  - apply IH. constructor; [|exact H]. unfold digit. pose proof (N.mod_lt n 10 ltac:(lia)) as HM. remember (n mod 10) as m. clear Heqm. lia.
Qed.

Lemma digit_char : forall c, digit c -> is_xml_char c = true.
Proof.
  intros c [H1 H2]. unfold is_xml_char, in_rng.
  assert (A : (32 <=? c) = true) by (apply N.leb_le; lia).
  assert (B : (c <=? 55295) = true) by (apply N.leb_le; lia).
  rewrite A, B. cbn [andb]. rewrite !orb_true_r. reflexivity.
Qed.

Lemma legal_itoa : forall n, legal (itoa n) = true.
Proof.
  intro n. unfold legal, itoa. apply forallb_forall. intros c Hc.
  pose proof (dec_f_digits 40 n [] (Forall_nil _)) as F. rewrite Forall_forall in F.
  apply digit_char. apply F. exact Hc.
Qed.

(* ---------- styles ---------- *)

Lemma legal_flat_map : forall A (f : A -> list N) l, (forall x, In x l -> legal (f x) = true) ->
  legal (flat_map f l) = true.
Proof.
  intros A f. induction l as [|x l IH]; intro H; [reflexivity|].
  cbn [flat_map]. rewrite legal_app, (H x (or_introl eq_refl)), IH; [reflexivity|].
  intros y Hy. apply H. right. exact Hy.
Qed.

Lemma legal_replace_us : forall k, legal k = true -> legal (replace_us k) = true.
Proof.
  induction k as [|c k IH]; intro H; [reflexivity|].
  cbn [legal forallb] in H. apply andb_true_iff in H. destruct H as [Hc Hk].
  unfold replace_us. cbn [map]. change (legal ((if c =? 95 then 45 else c) :: replace_us k) = true).
  cbn [legal forallb]. fold (legal (replace_us k)). rewrite (IH Hk).
  destruct (c =? 95); [reflexivity|rewrite Hc; reflexivity].
Qed.

Lemma css_legal : forall (l : list (str * str)) s,
  forallb (fun kv => legal (fst kv) && legal (snd kv)) l = true ->
  match l with
  | [] => None
  | _ => Some (flat_map (fun kv : str * str => fst kv ++ 58 :: snd kv ++ [59])
                        (sort_keys (map (fun kv => (replace_us (fst kv), snd kv)) l)))
  end = Some s -> legal s = true.
Proof.
  intros l s Hl Hs. destruct l as [|p l']; [discriminate|]. inversion Hs; subst. clear Hs.
  apply legal_flat_map. intros [k v] Hin.
  assert (Hin' : In (k, v) (map (fun kv : str * str => (replace_us (fst kv), snd kv)) (p :: l')))
    by (eapply Permutation_in; [apply Permutation_sym, sort_keys_perm|exact Hin]).
  apply in_map_iff in Hin'. destruct Hin' as [[k0 v0] [E Hin0]]. cbn [fst snd] in E.
  injection E as E1 E2. subst k v.
  rewrite forallb_forall in Hl. specialize (Hl _ Hin0). cbn [fst snd] in Hl.
  apply andb_true_iff in Hl. destruct Hl as [Lk Lv]. cbn [fst snd].
  rewrite legal_app, (legal_replace_us k0 Lk). cbn [andb].
  change (legal (58 :: v0 ++ [59]) = true). cbn [legal forallb]. fold (legal (v0 ++ [59])).
  rewrite legal_app, Lv. reflexivity.
Qed.

Lemma style_str_legal : forall st s, legal_sty st = true -> style_str st = Some s -> legal s = true.
Proof.
  intros st s Hl Hs. destruct st as [|x|l| | | |l tf]; cbn [style_str] in Hs; try discriminate.
  - inversion Hs; subst. exact Hl.
  - apply (css_legal l s Hl Hs).
  - cbn [legal_sty] in Hl. apply andb_true_iff in Hl. destruct Hl as [Hl _]. apply (css_legal l s Hl Hs).
Qed.

Lemma style_attr_spec : forall st cls, legal_sty st = true ->
  exists a, fst (style_attr inline st cls) = attr_ops a /\ forallb (fun kv => legal (snd kv)) a = true /\
            (map fst a = [] \/ map fst a = [s_style] \/ map fst a = [s_class]).
Proof.
  intros st cls Hl. unfold style_attr. destruct (style_str st) as [s|] eqn:Es.
  - pose proof (style_str_legal st s Hl Es) as Ls. destruct inline.
    + exists [(s_style, s)]. cbn [fst attr_ops map snd forallb]. rewrite Ls. auto.
    + unfold class_name. destruct (index_of s cls 0) as [i|].
      * exists [(s_class, 99 :: itoa i)]. cbn [fst attr_ops map snd forallb].
        change (legal (99 :: itoa i)) with (is_xml_char 99 && legal (itoa i)). rewrite legal_itoa. auto.
      * exists [(s_class, 99 :: itoa (N.of_nat (length cls)))]. cbn [fst attr_ops map snd forallb].
        change (legal (99 :: itoa (N.of_nat (length cls)))) with (is_xml_char 99 && legal (itoa (N.of_nat (length cls)))).
        rewrite legal_itoa. auto.
  - exists []. cbn. auto.
Qed.

(* ---------- elements ToHtml builds ---------- *)

Lemma tag_ok : forall tag, In tag html_elems -> mem_str tag html_elems = true /\ xml_name tag = true.
Proof.
  intros tag H. unfold html_elems in H. cbn [In] in H.
  repeat (destruct H as [H|H]); try contradiction; subst tag; split; vm_compute; reflexivity.
Qed.

Lemma el_ok : forall s tag a kids, In tag html_elems -> In (map fst a) attr_shapes ->
  forallb (fun kv => legal (snd kv)) a = true -> okf s kids -> okels s [El tag a kids].
Proof.
  intros s tag a kids Ht Ha Hl Hk. destruct (tag_ok tag Ht) as [T1 T2].
  apply mk_el; [exact T1|exact T2|apply attrs_ok_shape; assumption|exact Hk].
Qed.

Ltac in_elems := unfold html_elems; cbn [In]; tauto.
Ltac in_shapes := unfold attr_shapes; cbn [In map fst]; tauto.

Definition numcell (i : N) : node := El s_td [] (map Tx [itoa i; [46]]).
Definition morecell : node := El s_td [] (map Tx [s_more]).

Lemma numcell_ok : forall s i, okels s [numcell i].
Proof.
  intros. apply el_ok; [in_elems|in_shapes|reflexivity|].
  apply okf_txs. cbn [forallb]. rewrite legal_itoa. reflexivity.
Qed.

Lemma morecell_ok : forall s, okels s [morecell].
Proof. intros. apply el_ok; [in_elems|in_shapes|reflexivity|]. apply okf_txs. reflexivity. Qed.

Lemma more_td_ops : more_td = flat_map ops_of [morecell].
Proof. reflexivity. Qed.

Lemma okels_cons : forall s x f, okels s [x] -> okels s f -> okels s (x :: f).
Proof. intros s x f H1 H2. change (x :: f) with ([x] ++ f). apply okels_app; assumption. Qed.

Lemma tr_ok : forall s cells, okels s cells -> okels s [El s_tr [] cells].
Proof. intros. apply el_ok; [in_elems|in_shapes|reflexivity|apply okels_okf; assumption]. Qed.

Section LoopSeg.
Variable strict : bool.
Variable td : hval -> list str -> res.

Lemma simple_rows_seg : forall l, (forall x, In x l -> forall c, seg (okels strict) (td x c)) ->
  forall i cls, seg (okels strict) (simple_rows maxl td l i cls).
Proof.
  induction l as [|x l IH]; intros H i cls.
  - exists []. split; [reflexivity|apply okels_nil].
  - cbn [simple_rows]. destruct (is_err x); [exact I|]. destruct (i <=? maxl).
    + pose proof (H x (or_introl eq_refl) cls) as Hx.
      destruct (td x cls) as [[o cls1]|]; [|exact I]. cbn [bind].
      pose proof (IH (fun y Hy => H y (or_intror Hy)) (i + 1) cls1) as Hr.
      destruct (simple_rows maxl td l (i + 1) cls1) as [[os cls2]|]; [|exact I]. cbn [bind seg] in *.
      destruct Hx as [fo [Eo Ho]]. destruct Hr as [fos [Eos Hos]]. subst o os.
      exists (El s_tr [] (numcell i :: fo) :: fos). split.
      * cbn [flat_map ops_of map app]. norm_app. reflexivity.
      * apply okels_cons; [|exact Hos]. apply tr_ok. apply okels_cons; [apply numcell_ok|exact Ho].
    + exists [El s_tr [] [numcell i; morecell]]. split; [reflexivity|].
      apply tr_ok. apply okels_cons; [apply numcell_ok|apply morecell_ok].
Qed.

End LoopSeg.

Section TLoopSeg.
Variable strict : bool.
Variable cell : N -> N -> hval -> list str -> res.

Lemma table_cells_seg : forall row l, (forall x, In x l -> forall col c, seg (okels strict) (cell row col x c)) ->
  forall i cls, seg (okels strict) (table_cells maxl cell row l i cls).
Proof.
  intros row. induction l as [|x l IH]; intros H i cls.
  - exists []. split; [reflexivity|apply okels_nil].
  - cbn [table_cells]. destruct (is_err x); [exact I|]. destruct (i <=? maxl).
    + pose proof (H x (or_introl eq_refl) i cls) as Hx.
      destruct (cell row i x cls) as [[o cls1]|]; [|exact I]. cbn [bind].
      pose proof (IH (fun y Hy => H y (or_intror Hy)) (i + 1) cls1) as Hr.
      destruct (table_cells maxl cell row l (i + 1) cls1) as [[os cls2]|]; [|exact I]. cbn [bind seg] in *.
      destruct Hx as [fo [Eo Ho]]. destruct Hr as [fos [Eos Hos]]. subst o os.
      exists (fo ++ fos). split; [rewrite flat_map_app; reflexivity|apply okels_app; assumption].
    + exists [morecell]. split; [reflexivity|apply morecell_ok].
Qed.

Lemma table_rows_seg : forall l, (forall x, In x l -> forall row c, seg (okels strict) (row_cells cell row x c)) ->
  forall i cls, seg (okels strict) (table_rows maxl cell l i cls).
Proof.
  induction l as [|x l IH]; intros H i cls.
  - exists []. split; [reflexivity|apply okels_nil].
  - cbn [table_rows]. fold (row_cells cell i x cls). destruct (is_err x); [exact I|]. destruct (i <=? maxl).
    + pose proof (H x (or_introl eq_refl) i cls) as Hx.
      destruct (row_cells cell i x cls) as [[o cls1]|]; [|exact I]. cbn [bind].
      pose proof (IH (fun y Hy => H y (or_intror Hy)) (i + 1) cls1) as Hr.
      destruct (table_rows maxl cell l (i + 1) cls1) as [[os cls2]|]; [|exact I]. cbn [bind seg] in *.
      destruct Hx as [fo [Eo Ho]]. destruct Hr as [fos [Eos Hos]]. subst o os.
      exists (El s_tr [] fo :: fos). split.
      * cbn [flat_map ops_of map app]. norm_app. reflexivity.
      * apply okels_cons; [|exact Hos]. apply tr_ok. exact Ho.
    + exists [El s_tr [] [morecell]]. split; [reflexivity|]. apply tr_ok. apply morecell_ok.
Qed.

Lemma row_cells_seg : forall x,
  (forall row col c, seg (okels strict) (cell row col x c)) ->
  (forall cols, x = HL cols -> forall y, In y cols -> forall row col c, seg (okels strict) (cell row col y c)) ->
  forall row c, seg (okels strict) (row_cells cell row x c).
Proof.
  intros x H1 H2 row c. unfold row_cells.
  destruct x; try (destruct (1 <=? maxl); [apply H1|exists [morecell]; split; [reflexivity|apply morecell_ok]]).
  apply table_cells_seg. intros y Hy col c0. apply (H2 _ eq_refl y Hy).
Qed.

End TLoopSeg.

Lemma map_rows_seg : forall strict l,
  (forall k f, In (k, f) l -> legal k = true /\ forall c, seg (okels strict) (f c)) ->
  forall cls, seg (okels strict) (map_rows l cls).
Proof.
  intros strict. induction l as [|[k f] l IH]; intros H cls.
  - exists []. split; [reflexivity|apply okels_nil].
  - cbn [map_rows]. destruct (H k f (or_introl eq_refl)) as [Lk Hf]. specialize (Hf cls).
    destruct (f cls) as [[o cls1]|]; [|exact I]. cbn [bind].
    pose proof (IH (fun k' f' Hin => H k' f' (or_intror Hin)) cls1) as Hr.
    destruct (map_rows l cls1) as [[os cls2]|]; [|exact I]. cbn [bind seg] in *.
    destruct Hf as [fo [Eo Ho]]. destruct Hr as [fos [Eos Hos]]. subst o os.
    exists (El s_tr [] (El s_td [] (map Tx [k; [58]]) :: fo) :: fos). split.
    + cbn [flat_map ops_of map app]. norm_app. reflexivity.
    + apply okels_cons; [|exact Hos]. apply tr_ok. apply okels_cons; [|exact Ho].
      apply el_ok; [in_elems|in_shapes|reflexivity|]. apply okf_txs. cbn [forallb]. rewrite Lk. reflexivity.
Qed.

Lemma plain_each_seg : forall each l, (forall x, In x l -> forall c, seg (okf false) (each x c)) ->
  forall cls, seg (okf false) (plain_each each l cls).
Proof.
  intros each. induction l as [|x l IH]; intros H cls.
  - exists []. split; [reflexivity|apply okf_nil].
  - cbn [plain_each]. destruct (is_err x); [exact I|]. pose proof (H x (or_introl eq_refl) cls) as Hx.
    destruct (each x cls) as [[o cls1]|]; [|exact I]. cbn [bind].
    pose proof (IH (fun y Hy => H y (or_intror Hy)) cls1) as Hr.
    destruct (plain_each each l cls1) as [[os cls2]|]; [|exact I]. cbn [bind seg] in *.
    destruct Hx as [fo [Eo Ho]]. destruct Hr as [fos [Eos Hos]]. subst o os.
    exists (fo ++ fos). split; [rewrite flat_map_app; reflexivity|apply okf_app_weak; assumption].
Qed.

(* ---------- strings ---------- *)

Lemma link_ok : forall s h, legal h = true ->
  okels s [El s_a [(s_href, h); (s_target, s_blank)] (map Tx [s_Link])].
Proof.
  intros. apply el_ok; [in_elems|in_shapes| |apply okf_txs; reflexivity].
  cbn [forallb snd]. rewrite H. reflexivity.
Qed.

Lemma html_string_seg : forall strict s st cls, legal s = true -> legal_sty st = true ->
  seg (okf strict) (Some (html_string inline s st cls)).
Proof.
  intros strict s st cls Ls Lst. unfold html_string.
  assert (LK : forall h, legal h = true ->
            seg (okf strict) (Some ([OOpen s_a; OAttr s_href h; OAttr s_target s_blank; OWrite s_Link; OClose], cls))).
  { intros h Hh. exists [El s_a [(s_href, h); (s_target, s_blank)] (map Tx [s_Link])].
    split; [reflexivity|apply okels_okf, link_ok; exact Hh]. }
  destruct (strip s_http s) as [r1|] eqn:E1; [apply LK; exact Ls|].
  destruct (strip s_https s) as [r2|] eqn:E2; [apply LK; exact Ls|].
  destruct (strip s_host s) as [r3|] eqn:E3.
  - apply LK. apply strip_some in E3. subst s. rewrite legal_app in Ls. apply andb_true_iff in Ls. tauto.
  - destruct (style_str st) as [ss|] eqn:Es.
    + destruct (style_attr_spec st cls Lst) as [a [Ea [La Sa]]].
      destruct (style_attr inline st cls) as [ao cls']. cbn [fst] in Ea. subst ao.
      exists [El s_span a (map Tx [s])]. split; [rewrite ops_el; reflexivity|].
      apply okels_okf. apply el_ok; [in_elems| |exact La|apply okf_txs; cbn [forallb]; rewrite Ls; reflexivity].
      unfold attr_shapes. cbn [In]. destruct Sa as [->|[->| ->]]; tauto.
    + exists (map Tx [s]). split; [reflexivity|]. apply okf_txs. cbn [forallb]. rewrite Ls. reflexivity.
Qed.

(* ---------- the induction over values ---------- *)

Fixpoint hval_ind' (P : hval -> Prop)
  (HS_ : forall s, P (HS s)) (HF_ : forall s, P (HFloat s))
  (HL_ : forall l, Forall P l -> P (HL l))
  (HM_ : forall l, Forall (fun kv => P (snd kv)) l -> P (HM l))
  (HFm : forall c cs st v, P v -> P (HFmt c cs st v))
  (HLk : forall l v, P v -> P (HLnk l v))
  (HFi : forall name mime b64 size, P (HFile name mime b64 size))
  (HFc : forall c cs r v, P r -> P v -> P (HFmtClo c cs r v))
  (HNi : P HNil) (HEr : P HErr) (HCe : forall r y, P r -> P y -> P (HCell r y))
  (v : hval) : P v :=
  match v with
  | HS s => HS_ s
  | HFloat s => HF_ s
  | HL l => HL_ l ((fix go (l : list hval) : Forall P l :=
                      match l with [] => Forall_nil _ | x :: r => Forall_cons _ (hval_ind' P HS_ HF_ HL_ HM_ HFm HLk HFi HFc HNi HEr HCe x) (go r) end) l)
  | HM l => HM_ l ((fix go (l : list (str * hval)) : Forall (fun kv => P (snd kv)) l :=
                      match l with [] => Forall_nil _ | x :: r => Forall_cons _ (hval_ind' P HS_ HF_ HL_ HM_ HFm HLk HFi HFc HNi HEr HCe (snd x)) (go r) end) l)
  | HFmt c cs st v => HFm c cs st v (hval_ind' P HS_ HF_ HL_ HM_ HFm HLk HFi HFc HNi HEr HCe v)
  | HLnk l v => HLk l v (hval_ind' P HS_ HF_ HL_ HM_ HFm HLk HFi HFc HNi HEr HCe v)
  | HFile name mime b64 size => HFi name mime b64 size
  | HFmtClo c cs r v => HFc c cs r v (hval_ind' P HS_ HF_ HL_ HM_ HFm HLk HFi HFc HNi HEr HCe r) (hval_ind' P HS_ HF_ HL_ HM_ HFm HLk HFi HFc HNi HEr HCe v)
  | HNil => HNi
  | HErr => HEr
  | HCell r y => HCe r y (hval_ind' P HS_ HF_ HL_ HM_ HFm HLk HFi HFc HNi HEr HCe r) (hval_ind' P HS_ HF_ HL_ HM_ HFm HLk HFi HFc HNi HEr HCe y)
  end.

(* toHtml *)
Definition Ph (v : hval) : Prop :=
  forall strict st cls, legal_h v = true -> legal_sty st = true ->
    (strict = true -> pfree v = true /\ has_plain st = false) ->
    seg (okf strict) (html v st cls).

(* toTD *)
Definition Qh (v : hval) : Prop :=
  forall strict cls, legal_h v = true -> (strict = true -> pfree v = true) ->
    seg (okels strict) (to_td v cls).

(* the value a table-format closure returns for an item, in a cell *)
Definition Rh (v : hval) : Prop := forall r y, v = HCell r y -> Qh r.

Definition PQ (v : hval) : Prop :=
  Ph v /\ Qh v /\ (forall cols, v = HL cols -> forall y, In y cols -> Ph y /\ Qh y /\ Rh y) /\ Rh v.

Lemma seg_clo : forall P v cls, seg P (html v SCloErr cls).
Proof. intros. rewrite html_clo. exact I. Qed.

(* a cell around a value that is not a Format *)
Lemma td_plain : forall d, (match d with HFmt _ _ _ _ | HFmtClo _ _ _ _ | HCell _ _ => false | _ => true end) = true -> Ph d -> Qh d.
Proof.
  intros d Hd HP strict cls Ll Hs.
  assert (E : to_td d cls = bind (html d SNone cls) (fun o cls1 => Some (OOpen s_td :: o ++ [OClose], cls1)))
    by (destruct d; try discriminate; reflexivity).
  rewrite E. specialize (HP strict SNone cls Ll eq_refl (fun H => conj (Hs H) eq_refl)).
  destruct (html d SNone cls) as [[o cls1]|]; [|exact I]. cbn [bind seg] in *.
  destruct HP as [f [Eo Hf]]. subst o. exists [El s_td [] f]. split; [rewrite ops_el; reflexivity|].
  apply el_ok; [in_elems|in_shapes|reflexivity|exact Hf].
Qed.

Lemma td_fmt : forall cell cs fs inner, Ph inner -> Qh (HFmt cell cs fs inner).
Proof.
  intros cell cs fs inner HP strict cls Ll Hs.
  cbn [legal_h] in Ll. apply andb_true_iff in Ll. destruct Ll as [Lf Li].
  assert (Hs' : strict = true -> pfree inner = true /\ has_plain fs = false).
  { intro H. specialize (Hs H). cbn [pfree] in Hs. apply andb_true_iff in Hs. destruct Hs as [A B].
    apply negb_true_iff in A. auto. }
  cbn [to_td_with].
  set (span := if 1 <? cs then [OAttr s_colspan (itoa cs)] else []).
  assert (Hspan : exists sa, span = attr_ops sa /\ forallb (fun kv => legal (snd kv)) sa = true /\
                             (map fst sa = [] \/ map fst sa = [s_colspan])).
  { unfold span. destruct (1 <? cs).
    - exists [(s_colspan, itoa cs)]. cbn [attr_ops map fst snd forallb]. rewrite legal_itoa. auto.
    - exists []. cbn. auto. }
  destruct Hspan as [sa [Esa [Lsa Ssa]]]. rewrite Esa.
  destruct (is_HL inner && negb cell).
  - specialize (HP strict fs cls Li Lf Hs').
    destruct (html inner fs cls) as [[o cls1]|]; [|exact I]. cbn [bind seg] in *.
    destruct HP as [f [Eo Hf]]. subst o. exists [El s_td sa f]. split; [rewrite ops_el; reflexivity|].
    apply el_ok; [in_elems| |exact Lsa|exact Hf].
    unfold attr_shapes. cbn [In]. destruct Ssa as [->| ->]; tauto.
  - destruct (style_attr_spec fs cls Lf) as [a [Ea [La Sa]]].
    destruct (style_attr inline fs cls) as [ao cls1]. cbn [fst] in Ea. subst ao.
    specialize (HP strict SNone cls1 Li eq_refl (fun H => conj (proj1 (Hs' H)) eq_refl)).
    destruct (html inner SNone cls1) as [[o cls2]|]; [|exact I]. cbn [bind seg] in *.
    destruct HP as [f [Eo Hf]]. subst o. exists [El s_td (sa ++ a) f]. split.
    + rewrite ops_el. unfold attr_ops. rewrite map_app. norm_app. reflexivity.
    + apply el_ok; [in_elems| | |exact Hf].
      * rewrite map_app. unfold attr_shapes. cbn [In].
        destruct Ssa as [->| ->]; destruct Sa as [->|[->| ->]]; cbn [app]; tauto.
      * rewrite forallb_app, Lsa, La. reflexivity.
Qed.

Lemma td_fmtclo : forall cell cs r inner, Ph r -> Ph inner -> Qh (HFmtClo cell cs r inner).
Proof.
  intros cell cs r inner HPr HPi strict cls Ll Hs.
  cbn [legal_h] in Ll. apply andb_true_iff in Ll. destruct Ll as [Lr Li].
  assert (Hs' : strict = true -> pfree r = true /\ pfree inner = true).
  { intro H. specialize (Hs H). cbn [pfree] in Hs. apply andb_true_iff in Hs. exact Hs. }
  cbn [to_td_with].
  set (span := if 1 <? cs then [OAttr s_colspan (itoa cs)] else []).
  assert (Hspan : exists sa, span = attr_ops sa /\ forallb (fun kv => legal (snd kv)) sa = true /\
                             (map fst sa = [] \/ map fst sa = [s_colspan])).
  { unfold span. destruct (1 <? cs).
    - exists [(s_colspan, itoa cs)]. cbn [attr_ops map fst snd forallb]. rewrite legal_itoa. auto.
    - exists []. cbn. auto. }
  destruct Hspan as [sa [Esa [Lsa Ssa]]]. rewrite Esa.
  assert (K : forall x, Ph x -> legal_h x = true -> (strict = true -> pfree x = true) ->
              seg (okels strict) (bind (html x SNone cls) (fun o cls1 => Some (OOpen s_td :: attr_ops sa ++ o ++ [OClose], cls1)))).
  { intros x HP Lx Px. specialize (HP strict SNone cls Lx eq_refl (fun H => conj (Px H) eq_refl)).
    destruct (html x SNone cls) as [[o cls1]|]; [|exact I]. cbn [bind seg] in *.
    destruct HP as [f [Eo Hf]]. subst o. exists [El s_td sa f]. split; [rewrite ops_el; reflexivity|].
    apply el_ok; [in_elems| |exact Lsa|exact Hf].
    unfold attr_shapes. cbn [In]. destruct Ssa as [->| ->]; tauto. }
  destruct (is_HL inner && negb cell).
  - apply K; [exact HPr|exact Lr|]. intro H. apply (Hs' H).
  - apply K; [exact HPi|exact Li|]. intro H. apply (Hs' H).
Qed.

Lemma td_item : forall r y, Qh y -> Qh (HCell r y).
Proof.
  intros r y HQ strict cls Ll Hs. cbn [to_td_with].
  cbn [legal_h] in Ll. apply andb_true_iff in Ll. destruct Ll as [_ Ly].
  apply HQ; [exact Ly|]. intro H. specialize (Hs H). cbn [pfree] in Hs. apply andb_true_iff in Hs. tauto.
Qed.

Lemma assoc_some_in : forall A k (l : list (str * A)) v, assoc k l = Some v -> exists k', In (k', v) l.
Proof.
  induction l as [|[k0 v0] l IH]; intros v H; [discriminate|]. cbn [assoc] in H.
  destruct (str_eqb k k0).
  - inversion H; subst. exists k0. left. reflexivity.
  - destruct (IH v H) as [k' Hin]. exists k'. right. exact Hin.
Qed.

Lemma tf_lookup_in : forall tf row col f, tf_lookup tf row col = Some f -> exists k, In (k, f) tf.
Proof.
  intros tf row col f H. unfold tf_lookup in H.
  destruct (assoc (114 :: itoa row ++ 99 :: itoa col) tf) eqn:E1; [inversion H; subst; eapply assoc_some_in; exact E1|].
  destruct (assoc (114 :: itoa row) tf) eqn:E2; [inversion H; subst; eapply assoc_some_in; exact E2|].
  destruct (assoc (99 :: itoa col) tf) eqn:E3; [inversion H; subst; eapply assoc_some_in; exact E3|].
  eapply assoc_some_in. exact H.
Qed.

Lemma tf_legal : forall st, legal_sty st = true -> forallb (fun kv => legal_sty (snd kv)) (tf_of st) = true.
Proof.
  intros st H. destruct st; try reflexivity. cbn [legal_sty] in H. apply andb_true_iff in H. destruct H as [_ H]. exact H.
Qed.

(* a table cell: with a format for its position the cell carries the format, the content is the item; with a
   succeeding closure the cell is that of the value recorded at the item *)
Lemma cell_seg : forall tf y, forallb (fun kv => legal_sty (snd kv)) tf = true -> Ph y -> Qh y -> Rh y ->
  forall strict row col c, legal_h y = true -> (strict = true -> pfree y = true) ->
  seg (okels strict) (cellf tf row col y c).
Proof.
  intros tf y Ltf HP HQ HR strict row col c Ly Hs.
  destruct (cell_plain (tf_lookup tf row col)) eqn:Ecp; [rewrite (cell_plain_eq _ _ _ _ _ Ecp); apply HQ; assumption|].
  destruct (tf_lookup tf row col) as [f|] eqn:E; [|discriminate].
  assert (Hnf : f <> SCloId) by (intro; subst; discriminate).
  destruct (sty_res_dec f) as [->|Hnr].
  { unfold cell_with. rewrite E.
    destruct y; try (apply HQ; assumption).
    cbn [legal_h] in Ly. apply andb_true_iff in Ly. destruct Ly as [Lr _].
    apply (HR _ _ eq_refl strict c Lr). intro H. specialize (Hs H). cbn [pfree] in Hs.
    apply andb_true_iff in Hs. tauto. }
  rewrite (cell_fmt_eq _ _ _ _ _ f E Hnf Hnr).
  destruct (tf_lookup_in tf row col f E) as [k Hin].
  rewrite forallb_forall in Ltf. pose proof (Ltf _ Hin) as Lf. cbn [snd] in Lf.
  destruct (style_attr_spec f c Lf) as [a [Ea [La Sa]]].
  destruct (style_attr inline f c) as [ao cls1]. cbn [fst] in Ea. subst ao.
  specialize (HP strict SNone cls1 Ly eq_refl (fun H => conj (Hs H) eq_refl)).
  destruct (html y SNone cls1) as [[o cls2]|]; [|exact I]. cbn [bind seg] in *.
  destruct HP as [fo [Eo Hf]]. subst o. exists [El s_td a fo]. split; [rewrite ops_el; reflexivity|].
  apply el_ok; [in_elems| |exact La|exact Hf].
  unfold attr_shapes. cbn [In]. destruct Sa as [->|[->| ->]]; tauto.
Qed.

Theorem html_seg : forall v, PQ v.
Proof.
  induction v as [s|s|items IH|l IH|c cs fs inner IH|lk inner IH|name mime b64 size|c cs r inner IHr IHi| | |r y IHr IHy] using hval_ind'.
  - (* string / int / bool *)
    assert (HP : Ph (HS s)).
    { intros strict st cls Ll Lst Hs. destruct (sty_dec st) as [->|Hn]; [apply seg_clo|].
      rewrite html_str by exact Hn. apply html_string_seg; assumption. }
    split; [exact HP|]. split; [apply td_plain; [reflexivity|exact HP]|split; discriminate].
  - (* float *)
    assert (HP : Ph (HFloat s)).
    { intros strict st cls Ll Lst Hs. destruct (sty_dec st) as [->|Hn]; [apply seg_clo|].
      rewrite html_float by exact Hn. exists (map Tx [s]). split; [reflexivity|].
      apply okf_txs. cbn [forallb]. cbn [legal_h] in Ll. rewrite Ll. reflexivity. }
    split; [exact HP|]. split; [apply td_plain; [reflexivity|exact HP]|split; discriminate].
  - (* list *)
    assert (HQ : forall y, In y items -> Qh y).
    { rewrite Forall_forall in IH. intros y Hy. apply (IH y Hy). }
    assert (HR : forall x, In x items -> forall cols, x = HL cols -> forall y, In y cols -> Ph y /\ Qh y /\ Rh y).
    { rewrite Forall_forall in IH. intros x Hx. apply (IH x Hx). }
    assert (HP : Ph (HL items)).
    { intros strict st cls Ll Lst Hs. destruct (sty_dec st) as [->|Hn]; [apply seg_clo|].
      rewrite html_list by exact Hn. cbn [legal_h] in Ll. rewrite forallb_forall in Ll.
      destruct (has_plain st) eqn:Ep.
      - destruct strict; [destruct (Hs eq_refl) as [_ F]; discriminate|].
        apply plain_each_seg. intros x Hx c0. rewrite Forall_forall in IH.
        apply (proj1 (IH x Hx) false SNone c0 (Ll x Hx) eq_refl). discriminate.
      - destruct items as [|first rest]; [exists []; split; [reflexivity|apply okf_nil]|].
        destruct (is_err first); [exact I|].
        destruct (is_nil first); [exists []; split; [reflexivity|apply okf_nil]|].
        destruct (style_attr_spec st cls Lst) as [a [Ea [La Sa]]].
        destruct (style_attr inline st cls) as [ao cls0]. cbn [fst] in Ea. subst ao.
        assert (Hpf : strict = true -> forall x, In x (first :: rest) -> pfree x = true).
        { intros H x Hx. destruct (Hs H) as [A _]. cbn [pfree] in A. rewrite forallb_forall in A. apply A. exact Hx. }
        assert (TD : forall x, In x (first :: rest) -> forall c0, seg (okels strict) (to_td x c0)).
        { intros x Hx c0. apply (HQ x Hx strict c0 (Ll x Hx)). intro H. apply Hpf; assumption. }
        pose proof (tf_legal st Lst) as Ltf.
        assert (ROWS : seg (okels strict) (if is_HL first then table_rows maxl (cellf (tf_of st)) (first :: rest) 1 cls0
                                           else simple_rows maxl to_td (first :: rest) 1 cls0)).
        { destruct (is_HL first).
          - apply table_rows_seg. intros x Hx. apply row_cells_seg.
            + intros row col c0. rewrite Forall_forall in IH.
              apply (cell_seg (tf_of st) x Ltf (proj1 (IH x Hx)) (HQ x Hx) (proj2 (proj2 (proj2 (IH x Hx)))) strict row col c0 (Ll x Hx)).
              intro H. apply Hpf; assumption.
            + intros cols Ex y Hy row col c0. subst x.
              pose proof (Ll _ Hx) as Lx. cbn [legal_h] in Lx. rewrite forallb_forall in Lx.
              destruct (HR _ Hx cols eq_refl y Hy) as [Py [Qy Ry]].
              apply (cell_seg (tf_of st) y Ltf Py Qy Ry strict row col c0 (Lx y Hy)).
              intro H. pose proof (Hpf H _ Hx) as Px. cbn [pfree] in Px. rewrite forallb_forall in Px. apply Px. exact Hy.
          - apply simple_rows_seg. exact TD. }
        destruct (if is_HL first then table_rows maxl (cellf (tf_of st)) (first :: rest) 1 cls0
                  else simple_rows maxl to_td (first :: rest) 1 cls0) as [[rows clsN]|]; [|exact I].
        cbn [bind seg] in *. destruct ROWS as [fr [Er Hr]]. subst rows.
        exists [El s_table a fr]. split; [rewrite ops_el; reflexivity|].
        apply okels_okf. apply el_ok; [in_elems| |exact La|apply okels_okf; exact Hr].
        unfold attr_shapes. cbn [In]. destruct Sa as [->|[->| ->]]; tauto. }
    split; [exact HP|]. split; [apply td_plain; [reflexivity|exact HP]|].
    split; [|discriminate].
    intros cols E y Hy. inversion E; subst cols. rewrite Forall_forall in IH.
    split; [apply (IH y Hy)|split; [apply HQ; exact Hy|apply (proj2 (proj2 (proj2 (IH y Hy))))]].
  - (* map *)
    assert (HP : Ph (HM l)).
    { intros strict st cls Ll Lst Hs. destruct (sty_dec st) as [->|Hn]; [apply seg_clo|].
      rewrite html_map by exact Hn. cbn [legal_h] in Ll. rewrite forallb_forall in Ll.
      destruct (style_attr_spec st cls Lst) as [a [Ea [La Sa]]].
      destruct (style_attr inline st cls) as [ao cls0]. cbn [fst] in Ea. subst ao.
      assert (ROWS : seg (okels strict) (map_rows (sort_keys (map (fun kv => (fst kv, to_td (snd kv))) l)) cls0)).
      { apply map_rows_seg. intros k f Hin.
        assert (Hin' : In (k, f) (map (fun kv : str * hval => (fst kv, to_td (snd kv))) l))
          by (eapply Permutation_in; [apply Permutation_sym, sort_keys_perm|exact Hin]).
        apply in_map_iff in Hin'. destruct Hin' as [[k0 e] [E He]]. cbn [fst snd] in E. injection E as E1 E2. subst k f.
        specialize (Ll _ He). cbn [fst snd] in Ll. apply andb_true_iff in Ll. destruct Ll as [Lk Le].
        split; [exact Lk|]. intro c0. rewrite Forall_forall in IH.
        apply (proj1 (proj2 (IH _ He)) strict c0 Le).
        intro H. destruct (Hs H) as [A _]. cbn [pfree] in A. rewrite forallb_forall in A. apply (A _ He). }
      destruct (map_rows (sort_keys (map (fun kv => (fst kv, to_td (snd kv))) l)) cls0) as [[rows clsN]|]; [|exact I].
      cbn [bind seg] in *. destruct ROWS as [fr [Er Hr]]. subst rows.
      exists [El s_table a fr]. split; [rewrite ops_el; reflexivity|].
      apply okels_okf. apply el_ok; [in_elems| |exact La|apply okels_okf; exact Hr].
      unfold attr_shapes. cbn [In]. destruct Sa as [->|[->| ->]]; tauto. }
    split; [exact HP|]. split; [apply td_plain; [reflexivity|exact HP]|split; discriminate].
  - (* Format *)
    destruct IH as [IP _].
    assert (HP : Ph (HFmt c cs fs inner)).
    { intros strict st cls Ll Lst Hs. destruct (sty_dec st) as [->|Hn]; [apply seg_clo|].
      rewrite html_fmt by exact Hn. cbn [legal_h] in Ll. apply andb_true_iff in Ll. destruct Ll as [Lf Li].
      apply IP; [exact Li|exact Lf|]. intro H. destruct (Hs H) as [A _]. cbn [pfree] in A.
      apply andb_true_iff in A. destruct A as [A B]. apply negb_true_iff in A. auto. }
    split; [exact HP|]. split; [apply td_fmt; exact IP|split; discriminate].
  - (* Link *)
    destruct IH as [IP _].
    assert (HP : Ph (HLnk lk inner)).
    { intros strict st cls Ll Lst Hs. destruct (sty_dec st) as [->|Hn]; [apply seg_clo|].
      rewrite html_lnk by exact Hn. cbn [legal_h] in Ll. apply andb_true_iff in Ll. destruct Ll as [Lk Li].
      specialize (IP strict st cls Li Lst Hs).
      destruct (html inner st cls) as [[o cls1]|]; [|exact I]. cbn [bind seg] in *.
      destruct IP as [f [Eo Hf]]. subst o. exists [El s_a [(s_href, lk)] f]. split; [rewrite ops_el; reflexivity|].
      apply okels_okf. apply el_ok; [in_elems|in_shapes| |exact Hf]. cbn [forallb snd]. rewrite Lk. reflexivity. }
    split; [exact HP|]. split; [apply td_plain; [reflexivity|exact HP]|split; discriminate].
  - (* File *)
    assert (HP : Ph (HFile name mime b64 size)).
    { intros strict st cls Ll Lst Hs. destruct (sty_dec st) as [->|Hn]; [apply seg_clo|].
      rewrite html_file by exact Hn. cbn [legal_h] in Ll.
      apply andb_true_iff in Ll. destruct Ll as [Ll Lsz]. apply andb_true_iff in Ll. destruct Ll as [Ll Lb].
      apply andb_true_iff in Ll. destruct Ll as [Ln Lm].
      assert (Lh : legal (file_href mime b64) = true).
      { unfold file_href. rewrite !legal_app, Lb. destruct mime; [reflexivity|]. rewrite Lm. reflexivity. }
      assert (Lt : legal (file_text name size) = true).
      { unfold file_text. rewrite !legal_app, Ln, Lsz. reflexivity. }
      exists [El s_a [(s_href, file_href mime b64); (s_download, name)] (map Tx [file_text name size])].
      split; [reflexivity|]. apply okels_okf. apply el_ok; [in_elems|in_shapes| |].
      - cbn [forallb snd]. rewrite Lh, Ln. reflexivity.
      - apply okf_txs. cbn [forallb]. rewrite Lt. reflexivity. }
    split; [exact HP|]. split; [apply td_plain; [reflexivity|exact HP]|split; discriminate].
  - (* Format with a closure style that succeeds *)
    destruct IHr as [IPr _]. destruct IHi as [IPi _].
    assert (HP : Ph (HFmtClo c cs r inner)).
    { intros strict st cls Ll Lst Hs. destruct (sty_dec st) as [->|Hn]; [apply seg_clo|].
      rewrite html_fmtclo by exact Hn. cbn [legal_h] in Ll. apply andb_true_iff in Ll. destruct Ll as [Lr Li].
      apply IPr; [exact Lr|reflexivity|]. intro H. destruct (Hs H) as [A _]. cbn [pfree] in A.
      apply andb_true_iff in A. destruct A as [A B]. auto. }
    split; [exact HP|]. split; [apply td_fmtclo; assumption|split; discriminate].
  - (* nil *)
    assert (HP : Ph HNil).
    { intros strict st cls Ll Lst Hs. destruct (sty_dec st) as [->|Hn]; [apply seg_clo|].
      rewrite html_nil by exact Hn. exists (map Tx [s_nil]). split; [reflexivity|].
      apply okf_txs. reflexivity. }
    split; [exact HP|]. split; [apply td_plain; [reflexivity|exact HP]|split; discriminate].
  - (* the iteration fails *)
    assert (HP : Ph HErr).
    { intros strict st cls Ll Lst Hs. rewrite html_iter. exact I. }
    split; [exact HP|]. split; [apply td_plain; [reflexivity|exact HP]|split; discriminate].
  - (* an item with the recorded result of a table-format closure *)
    destruct IHy as [IPy [IQy _]]. destruct IHr as [_ [IQr _]].
    assert (HP : Ph (HCell r y)).
    { intros strict st cls Ll Lst Hs. rewrite html_item.
      cbn [legal_h] in Ll. apply andb_true_iff in Ll. destruct Ll as [_ Ly].
      apply IPy; [exact Ly|exact Lst|]. intro H. destruct (Hs H) as [A B]. cbn [pfree] in A.
      apply andb_true_iff in A. tauto. }
    split; [exact HP|]. split; [apply td_item; exact IQy|]. split; [discriminate|].
    intros r0 y0 E. inversion E; subst. exact IQr.
Qed.

End Model.

(* ====================================================================== *)
(*  the statements used by Props/C18.v                                    *)
(* ====================================================================== *)

(* every value of the modelled core: the calls are balanced (those of a forest), all names are ToHtml's
   constants, attribute names unique, all strings legal, and the writer runs to the end with nothing open *)
Theorem html_wellformed : forall tt ta maxl inline v, legal_h v = true ->
  match to_html (eff_max maxl) inline v SNone [] with
  | None => to_html_doc tt ta maxl inline v = HError
  | Some (ops, cls) =>
      exists f out, ops = flat_map ops_of f /\ tree_of ops = Some f /\
        forallb wf_node f = true /\ forallb hnames f = true /\
        to_html_doc tt ta maxl inline v = HOk out cls
  end.
Proof.
  intros tt ta maxl inline v Ll. unfold to_html_doc. fold (eff_max maxl).
  pose proof (proj1 (html_seg (eff_max maxl) inline v) false SNone [] Ll eq_refl ltac:(discriminate)) as H.
  destruct (to_html (eff_max maxl) inline v SNone []) as [[ops cls]|]; [|reflexivity].
  cbn [seg] in H. destruct H as [f [E [W Nm _]]]. subst ops.
  destruct (run_forest_ok (html_cfg tt ta) f) as [out [st [R _]]].
  exists f, out. rewrite R. repeat split; try assumption. apply tree_of_forest.
Qed.

(* canonical forms keep the names *)
Lemma canon_names : forall f, forallb hnames f = true -> forallb hnames (canon_forest f) = true.
Proof.
  intros f Nm. unfold canon_forest. destruct (forallb is_tx f).
  - unfold tx_join. destruct (tx_concat f); reflexivity.
  - assert (CN : forall n, hnames n = true -> hnames (canon n) = true).
    { induction n as [s|name a kids IH] using node_ind'; intro Hn; [reflexivity|].
      unfold hnames in *. cbn [names_in canon] in *. apply andb_true_iff in Hn. destruct Hn as [Hn Hk]. rewrite Hn. cbn [andb].
      destruct (forallb is_tx kids).
      - unfold tx_join. destruct (tx_concat kids); reflexivity.
      - rewrite forallb_forall in *. rewrite Forall_forall in IH. intros x Hx.
        apply in_map_iff in Hx. destruct Hx as [y [Ey Hy]]. subst x. apply IH; [exact Hy|apply Hk; exact Hy]. }
    rewrite forallb_forall in *. intros x Hx. apply in_map_iff in Hx. destruct Hx as [y [Ey Hy]]. subst x.
    apply CN. apply Nm. exact Hy.
Qed.

(* the exact side condition of the injection statement, on the forest of the calls: for EVERY legal value (plainList
   included) whose rendering succeeds, if no element of the forest of the calls has both character data and
   element children, and the top level has not both (unmixed_forest), the markup parses back to exactly that
   forest - every string given to Write / Attr is decoded exactly, every name is one of ToHtml's constants *)
Theorem html_no_injection_unmixed : forall tt ta, xml_table_ok tt ta = true ->
  forall maxl inline v, legal_h v = true ->
  match to_html (eff_max maxl) inline v SNone [] with
  | None => to_html_doc tt ta maxl inline v = HError
  | Some (ops, cls) =>
      exists f out, ops = flat_map ops_of f /\ forallb hnames f = true /\
        to_html_doc tt ta maxl inline v = HOk out cls /\
        (unmixed_forest f = true ->
         xml_fragment out = Some (canon_forest f) /\ forallb hnames (canon_forest f) = true)
  end.
Proof.
  intros tt ta Hok maxl inline v Ll. unfold to_html_doc. fold (eff_max maxl).
  pose proof (proj1 (html_seg (eff_max maxl) inline v) false SNone [] Ll eq_refl ltac:(discriminate)) as H.
  destruct (to_html (eff_max maxl) inline v SNone []) as [[ops cls]|]; [|reflexivity].
  cbn [seg] in H. destruct H as [f [E [W Nm _]]]. subst ops.
  destruct (run_forest_ok (html_cfg tt ta) f) as [out [st [R _]]].
  exists f, out. rewrite R. repeat split; try assumption.
  - destruct (forest_wellformed tt ta Hok true true f H W) as [out' [st' [R' P]]].
    change (cfg tt ta true true) with (html_cfg tt ta) in R'. rewrite R in R'. inversion R'; subst. exact P.
  - apply canon_names. exact Nm.
Qed.

(* without plainList: the markup parses back to exactly the forest of the calls - every string given to
   Write / Attr is decoded exactly, every name is one of ToHtml's constants *)
Theorem html_no_injection_partial : forall tt ta, xml_table_ok tt ta = true ->
  forall maxl inline v, legal_h v = true -> pfree v = true ->
  match to_html (eff_max maxl) inline v SNone [] with
  | None => to_html_doc tt ta maxl inline v = HError
  | Some (ops, cls) =>
      exists f out, ops = flat_map ops_of f /\ forallb hnames f = true /\
        to_html_doc tt ta maxl inline v = HOk out cls /\
        xml_fragment out = Some (canon_forest f) /\ forallb hnames (canon_forest f) = true
  end.
Proof.
  intros tt ta Hok maxl inline v Ll Hp. unfold to_html_doc. fold (eff_max maxl).
  pose proof (proj1 (html_seg (eff_max maxl) inline v) true SNone [] Ll eq_refl (fun _ => conj Hp eq_refl)) as H.
  destruct (to_html (eff_max maxl) inline v SNone []) as [[ops cls]|]; [|reflexivity].
  cbn [seg] in H. destruct H as [f [E [W Nm U]]]. subst ops. specialize (U eq_refl).
  destruct (forest_wellformed tt ta Hok true true f U W) as [out [st [R P]]].
  change (cfg tt ta true true) with (html_cfg tt ta) in R.
  exists f, out. rewrite R. repeat split; try assumption. apply canon_names. exact Nm.
Qed.

(* a failing closure style reached inside the maxListSize cut-offs gives an error - whatever was
   rendered before it, and whatever the cut-off flag says afterwards *)
Theorem html_errors : forall tt ta maxl inline v, fails (eff_max maxl) v SNone ->
  to_html_doc tt ta maxl inline v = HError.
Proof.
  intros tt ta maxl inline v H. unfold to_html_doc. fold (eff_max maxl).
  rewrite (proj1 (fails_err (eff_max maxl) inline) v SNone H []). reflexivity.
Qed.
