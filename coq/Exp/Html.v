(* Model of the core of export.ToHtml (value/export/html.go): the calls it issues on the XMLWriter
   (AvoidShort, PrettyPrint) for scalars, floats (their text is taken as given), lists as numbered
   tables and lists of lists as tables with the maxListSize cut-off, the "plainList" style, maps,
   Format wrappers with string / css-map styles in both style modes (inline style attribute, or
   class names c0, c1, ... with the class list), Cell and ColSpan in table cells, Link wrappers and
   the http:// https:// host: link forms of strings.
   Not modelled (covered by the correspondence run only): custom renderers, closure styles, table
   formats (style key "table"), File values, nil, ToHtmlInterface values, error returns. *)
From P2 Require Import Base.Prelude Exp.Json Exp.Xml.
Local Open Scope N_scope.

Inductive sty :=
| SNone
| SStr (s : str)
| SMap (l : list (str * str)).      (* css map: key, value as text (String / strconv.Itoa of an Int) *)

Inductive hval :=
| HS (s : str)                      (* any scalar but Float, through ToString *)
| HFloat (s : str)                  (* NewFormattedFloat(f, 6).Unicode(), taken as given *)
| HL (l : list hval)
| HM (l : list (str * hval))        (* entries in iteration order *)
| HFmt (cell : bool) (colspan : N) (style : sty) (v : hval)
| HLnk (link : str) (v : hval).

Definition s_table : str := [116; 97; 98; 108; 101].
Definition s_tr : str := [116; 114].
Definition s_td : str := [116; 100].
Definition s_a : str := [97].
Definition s_span : str := [115; 112; 97; 110].
Definition s_href : str := [104; 114; 101; 102].
Definition s_target : str := [116; 97; 114; 103; 101; 116].
Definition s_blank : str := [95; 98; 108; 97; 110; 107].
Definition s_style : str := [115; 116; 121; 108; 101].
Definition s_class : str := [99; 108; 97; 115; 115].
Definition s_colspan : str := [99; 111; 108; 115; 112; 97; 110].
Definition s_Link : str := [76; 105; 110; 107].
Definition s_more : str := [109; 111; 114; 101; 46; 46; 46].
Definition s_plainList : str := [112; 108; 97; 105; 110; 76; 105; 115; 116].
Definition s_http : str := [104; 116; 116; 112; 58; 47; 47].
Definition s_https : str := [104; 116; 116; 112; 115; 58; 47; 47].
Definition s_host : str := [104; 111; 115; 116; 58].

(* strconv.Itoa for non-negative numbers *)
Fixpoint dec_f (fuel : nat) (n : N) (acc : list N) : list N :=
  match fuel with
  | O => acc
  | S f => if n <? 10 then (48 + n) :: acc else dec_f f (n / 10) ((48 + n mod 10) :: acc)
  end.
Definition itoa (n : N) : str := dec_f 40 n [].

Definition replace_us (k : str) : str := map (fun c => if c =? 95 then 45 else c) k.

(* toStyleStr *)
Definition style_str (st : sty) : option str :=
  match st with
  | SNone => None
  | SStr s => Some s
  | SMap l =>
      match l with
      | [] => None
      | _ =>
          Some (flat_map (fun kv => fst kv ++ 58 :: snd kv ++ [59])
                         (sort_keys (map (fun kv => (replace_us (fst kv), snd kv)) l)))
      end
  end.

(* hasKey(style, "plainList") *)
Definition has_plain (st : sty) : bool :=
  match st with
  | SNone => false
  | SStr s => str_eqb s s_plainList
  | SMap l => existsb (fun kv => str_eqb (fst kv) s_plainList) l
  end.

Fixpoint index_of (s : str) (l : list str) (i : N) : option N :=
  match l with
  | [] => None
  | x :: r => if str_eqb s x then Some i else index_of s r (i + 1)
  end.

(* getClassName: the class list in order of first use *)
Definition class_name (s : str) (cls : list str) : str * list str :=
  match index_of s cls 0 with
  | Some i => (99 :: itoa i, cls)
  | None => (99 :: itoa (N.of_nat (length cls)), cls ++ [s])
  end.

(* the attribute a style becomes: style="..." or class="cN" *)
Definition style_attr (inline : bool) (st : sty) (cls : list str) : list op * list str :=
  match style_str st with
  | Some s =>
      if inline then ([OAttr s_style s], cls)
      else let '(c, cls') := class_name s cls in ([OAttr s_class c], cls')
  | None => ([], cls)
  end.

(* writeHtmlString *)
Definition html_string (inline : bool) (s : str) (st : sty) (cls : list str) : list op * list str :=
  let link h := [OOpen s_a; OAttr s_href h; OAttr s_target s_blank; OWrite s_Link; OClose] in
  match strip s_http s, strip s_https s with
  | Some _, _ | _, Some _ => (link s, cls)
  | None, None =>
      match strip s_host s with
      | Some r => (link r, cls)
      | None =>
          match style_str st with
          | Some _ =>
              let '(a, cls') := style_attr inline st cls in
              (OOpen s_span :: a ++ [OWrite s; OClose], cls')
          | None => ([OWrite s], cls)
          end
      end
  end.

Definition more_td : list op := [OOpen s_td; OWrite s_more; OClose].

Section ToHtml.
Variable maxl : N.
Variable inline : bool.

Definition is_HL (v : hval) : bool := match v with HL _ => true | _ => false end.

(* toHtml(v, style) and toTD(d); the class list is threaded through *)
Fixpoint to_html (v : hval) (st : sty) (cls : list str) {struct v} : list op * list str :=
  let to_td (d : hval) (cls : list str) : list op * list str :=
    match d with
    | HFmt cell cs fst_ inner =>
        let span := if 1 <? cs then [OAttr s_colspan (itoa cs)] else [] in
        if is_HL inner && negb cell then
          let '(o, cls1) := to_html inner fst_ cls in
          (OOpen s_td :: span ++ o ++ [OClose], cls1)
        else
          let '(a, cls1) := style_attr inline fst_ cls in
          let '(o, cls2) := to_html inner SNone cls1 in
          (OOpen s_td :: span ++ a ++ o ++ [OClose], cls2)
    | _ =>
        let '(o, cls1) := to_html d SNone cls in
        (OOpen s_td :: o ++ [OClose], cls1)
    end in
  match v with
  | HFmt _ _ f inner => to_html inner f cls
  | HLnk l inner =>
      let '(o, cls1) := to_html inner st cls in
      (OOpen s_a :: OAttr s_href l :: o ++ [OClose], cls1)
  | HFloat s => ([OWrite s], cls)
  | HS s => html_string inline s st cls
  | HM l =>
      let '(a, cls0) := style_attr inline st cls in
      let '(rows, clsN) :=
        (fix rows (l : list (str * (list str -> list op * list str))) (cls : list str) : list op * list str :=
           match l with
           | [] => ([], cls)
           | (k, f) :: r =>
               let '(o, cls1) := f cls in
               let '(os, cls2) := rows r cls1 in
               (OOpen s_tr :: OOpen s_td :: OWrite k :: OWrite [58] :: OClose :: o ++ OClose :: os, cls2)
           end)
          (sort_keys (map (fun kv => (fst kv, to_td (snd kv))) l)) cls0 in
      (OOpen s_table :: a ++ rows ++ [OClose], clsN)
  | HL items =>
      if has_plain st then
        (fix each (l : list hval) (cls : list str) : list op * list str :=
           match l with
           | [] => ([], cls)
           | x :: r =>
               let '(o, cls1) := to_html x SNone cls in
               let '(os, cls2) := each r cls1 in
               (o ++ os, cls2)
           end) items cls
      else
        match items with
        | [] => ([], cls)
        | first :: _ =>
            let '(a, cls0) := style_attr inline st cls in
            if is_HL first then
              (* tableExporter *)
              let '(rows, clsN) :=
                (fix rows (l : list hval) (row : N) (cls : list str) : list op * list str :=
                   match l with
                   | [] => ([], cls)
                   | x :: r =>
                       if row <=? maxl then
                         let '(cells, cls1) :=
                           match x with
                           | HL cols =>
                               (fix cells (c : list hval) (col : N) (cls : list str) : list op * list str :=
                                  match c with
                                  | [] => ([], cls)
                                  | y :: c' =>
                                      if col <=? maxl then
                                        let '(o, cls1) := to_td y cls in
                                        let '(os, cls2) := cells c' (col + 1) cls1 in
                                        (o ++ os, cls2)
                                      else (more_td, cls)
                                  end) cols 1 cls
                           | _ => if 1 <=? maxl then to_td x cls else (more_td, cls)
                           end in
                         let '(os, cls2) := rows r (row + 1) cls1 in
                         (OOpen s_tr :: cells ++ OClose :: os, cls2)
                       else (OOpen s_tr :: more_td ++ [OClose], cls)
                   end) items 1 cls0 in
              (OOpen s_table :: a ++ rows ++ [OClose], clsN)
            else
              (* simpleListExporter *)
              let '(rows, clsN) :=
                (fix rows (l : list hval) (i : N) (cls : list str) : list op * list str :=
                   match l with
                   | [] => ([], cls)
                   | x :: r =>
                       let num := [OOpen s_td; OWrite (itoa i); OWrite [46]; OClose] in
                       if i <=? maxl then
                         let '(o, cls1) := to_td x cls in
                         let '(os, cls2) := rows r (i + 1) cls1 in
                         (OOpen s_tr :: num ++ o ++ OClose :: os, cls2)
                       else (OOpen s_tr :: num ++ more_td ++ [OClose], cls)
                   end) items 1 cls0 in
              (OOpen s_table :: a ++ rows ++ [OClose], clsN)
        end
  end.

End ToHtml.

Definition html_cfg (tt ta : esc_table) : wcfg := mkCfg true true tt ta.

(* ToHtml(v, maxListSize, nil, inlineStyle): markup and the styles of the class list *)
Definition to_html_doc (tt ta : esc_table) (maxl : N) (inline : bool) (v : hval) : option (list N * list str) :=
  let '(ops, cls) := to_html (if maxl <? 1 then 1 else maxl) inline v SNone [] in
  match run (html_cfg tt ta) w_init ops with
  | Some (out, _) => Some (out, cls)
  | None => None
  end.

(* the constant element and attribute names of ToHtml *)
Definition html_elems : list str := [s_table; s_tr; s_td; s_a; s_span].
Definition html_attrs : list str := [s_href; s_target; s_style; s_class; s_colspan; [100; 111; 119; 110; 108; 111; 97; 100]].

Definition mem_str (s : str) (l : list str) : bool := existsb (str_eqb s) l.

Fixpoint names_in (es ats : list str) (n : node) : bool :=
  match n with
  | Tx _ => true
  | El name a kids =>
      mem_str name es && forallb (fun kv => mem_str (fst kv) ats) a && forallb (names_in es ats) kids
  end.
