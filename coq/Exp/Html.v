(* Model of export.ToHtml (value/export/html.go): the calls it issues on the XMLWriter
   (AvoidShort, PrettyPrint) for scalars, floats (their text is taken as given), lists as numbered
   tables and lists of lists as tables with the maxListSize cut-off, the plainList style, maps,
   Format wrappers with string / css-map styles in both style modes (inline style attribute, or
   class names c0, c1, ... with the class list), Cell and ColSpan in table cells, Link wrappers, the
   http:// https:// host: link forms of strings, File values (data: link with download name; base64 and
   the size text are taken as given), table formats (style key table: rNcM, rN, cN, all with constant
   styles, identity closures and failing closures, which tableExporter.format swallows), and closure styles
   of Format: failing (SCloErr, also a panicking closure: ToHtml recovers it into an error) and
   succeeding (HFmtClo: the value the closure returns for the wrapped value is part of the case).
   Also: nil (HNil: the text nil; a list whose first element is nil is rendered as nothing at all - the
   dummy list exporter), lists whose iteration fails at some position (HErr: the iterator yields an error
   instead of an element; the loops return that error before they look at the cut-off), and table-format
   closures with one or three arguments that succeed with any value (SCloRes; the value the closure returns
   for a cell item travels with the item: HCell).
   Not modelled (covered by the correspondence run only): custom renderers (raw HTML: by definition they
   can inject), ToHtmlInterface values, table-format closures that panic. *)
From P2 Require Import Base.Prelude Exp.Json Exp.Xml.
Local Open Scope N_scope.

Inductive sty :=
| SNone
| SStr (s : str)
| SMap (l : list (str * str))      (* css map: key, value as text (String / strconv.Itoa of an Int) *)
| SCloErr                           (* a closure style with one argument whose evaluation returns an error *)
| SCloId                            (* a closure with one argument that returns its argument *)
| SCloRes                           (* as a table format: a closure with one or three arguments that succeeds; the
                                       value it returns for an item is recorded at the item (HCell) *)
| STab (css : list (str * str)) (tf : list (str * sty)).
    (* a map style with the key table: css entries as in SMap, and the table format map
       (keys rNcM, rN, cN, all; values: styles for the cells of a list of lists) *)

Inductive hval :=
| HS (s : str)                      (* any scalar but Float, through ToString *)
| HFloat (s : str)                  (* NewFormattedFloat(f, 6).Unicode(), taken as given *)
| HL (l : list hval)
| HM (l : list (str * hval))        (* entries in iteration order *)
| HFmt (cell : bool) (colspan : N) (style : sty) (v : hval)
| HLnk (link : str) (v : hval)
| HFmtClo (cell : bool) (colspan : N) (r : hval) (v : hval)
    (* Format whose style is a closure with one argument that succeeds: r is the value the closure returns
       for v (given with the case; the closure itself is the expression language's business) *)
| HFile (name mime b64 size : str)  (* export.File: name, MimeType, base64 of the data and the byteSize text (both Go's) *)
| HNil                              (* the nil value *)
| HErr                              (* as a list element: the iteration of the (lazy) list fails at this position *)
| HCell (r : hval) (y : hval).
    (* the item y of a table (an element of a row, or a row that is not a list) together with r, the value a
       succeeding table-format closure (SCloRes) returns for it; everywhere else it is y *)

Definition s_table : str := [116; 97; 98; 108; 101].
Definition s_tr : str := [116; 114].
Definition s_td : str := [116; 100].
Definition s_a : str := [97].
Definition s_span : str := [115; 112; 97; 110].
Definition s_href : str := [104; 114; 101; 102].
Definition s_target : str := [116; 97; 114; 103; 101; 116].
Definition s_blank : str := [95; 98; 108; 97; 110; 107].
Definition s_style : str := [115; 116; 121; 108; 101].
Definition s_class : str := [99; 108; 97; 115; 115].
Definition s_colspan : str := [99; 111; 108; 115; 112; 97; 110].
Definition s_download : str := [100; 111; 119; 110; 108; 111; 97; 100].
Definition s_data : str := [100; 97; 116; 97; 58].                                   (* data: *)
Definition s_b64 : str := [59; 98; 97; 115; 101; 54; 52; 44].                        (* ;base64, *)
Definition s_octet : str :=                                                           (* application/octet-stream *)
  [97;112;112;108;105;99;97;116;105;111;110;47;111;99;116;101;116;45;115;116;114;101;97;109].
Definition s_File : str := [70; 105; 108; 101; 58; 32].                              (* File:  *)
Definition file_href (mime b64 : str) : str :=
  s_data ++ (match mime with [] => s_octet | _ => mime end) ++ s_b64 ++ b64.
Definition file_text (name size : str) : str := s_File ++ name ++ [32; 40] ++ size ++ [41].
Definition s_Link : str := [76; 105; 110; 107].
Definition s_nil : str := [110; 105; 108].
Definition s_more : str := [109; 111; 114; 101; 46; 46; 46].
Definition s_plainList : str := [112; 108; 97; 105; 110; 76; 105; 115; 116].
Definition s_http : str := [104; 116; 116; 112; 58; 47; 47].
Definition s_https : str := [104; 116; 116; 112; 115; 58; 47; 47].
Definition s_host : str := [104; 111; 115; 116; 58].

(* strconv.Itoa for non-negative numbers *)
Fixpoint dec_f (fuel : nat) (n : N) (acc : list N) : list N :=
  match fuel with
  | O => acc
  | S f => if n <? 10 then (48 + n) :: acc else dec_f f (n / 10) ((48 + n mod 10) :: acc)
  end.
Definition itoa (n : N) : str := dec_f 40 n [].

Definition replace_us (k : str) : str := map (fun c => if c =? 95 then 45 else c) k.

(* toStyleStr *)
Definition style_str (st : sty) : option str :=
  match st with
  | SNone | SCloErr | SCloId | SCloRes => None
  | SStr s => Some s
  | SMap l | STab l _ =>              (* the table entry is a map: not part of the style string *)
      match l with
      | [] => None
      | _ =>
          Some (flat_map (fun kv => fst kv ++ 58 :: snd kv ++ [59])
                         (sort_keys (map (fun kv => (replace_us (fst kv), snd kv)) l)))
      end
  end.

(* hasKey(style, "plainList") *)
Definition has_plain (st : sty) : bool :=
  match st with
  | SNone | SCloErr | SCloId | SCloRes => false
  | SStr s => str_eqb s s_plainList
  | SMap l | STab l _ => existsb (fun kv => str_eqb (fst kv) s_plainList) l
  end.

(* tableExporter.open: the table format of a style *)
Definition tf_of (st : sty) : list (str * sty) :=
  match st with STab _ tf => tf | _ => [] end.

(* the cell at (row, col) is rendered as toTD(item): no format, or an identity closure *)
Definition cell_plain (o : option sty) : bool :=
  match o with None | Some SCloId => true | Some _ => false end.

(* tableExporter.format: r<row>c<col>, then r<row>, then c<col>, then all *)
Definition tf_lookup (tf : list (str * sty)) (row col : N) : option sty :=
  match assoc (114 :: itoa row ++ 99 :: itoa col) tf with
  | Some f => Some f
  | None =>
      match assoc (114 :: itoa row) tf with
      | Some f => Some f
      | None =>
          match assoc (99 :: itoa col) tf with
          | Some f => Some f
          | None => assoc [97; 108; 108] tf
          end
      end
  end.

Fixpoint index_of (s : str) (l : list str) (i : N) : option N :=
  match l with
  | [] => None
  | x :: r => if str_eqb s x then Some i else index_of s r (i + 1)
  end.

(* getClassName: the class list in order of first use *)
Definition class_name (s : str) (cls : list str) : str * list str :=
  match index_of s cls 0 with
  | Some i => (99 :: itoa i, cls)
  | None => (99 :: itoa (N.of_nat (length cls)), cls ++ [s])
  end.

(* the attribute a style becomes: style="..." or class="cN" *)
Definition style_attr (inline : bool) (st : sty) (cls : list str) : list op * list str :=
  match style_str st with
  | Some s =>
      if inline then ([OAttr s_style s], cls)
      else let '(c, cls') := class_name s cls in ([OAttr s_class c], cls')
  | None => ([], cls)
  end.

(* writeHtmlString *)
Definition html_string (inline : bool) (s : str) (st : sty) (cls : list str) : list op * list str :=
  let link h := [OOpen s_a; OAttr s_href h; OAttr s_target s_blank; OWrite s_Link; OClose] in
  match strip s_http s, strip s_https s with
  | Some _, _ | _, Some _ => (link s, cls)
  | None, None =>
      match strip s_host s with
      | Some r => (link r, cls)
      | None =>
          match style_str st with
          | Some _ =>
              let '(a, cls') := style_attr inline st cls in
              (OOpen s_span :: a ++ [OWrite s; OClose], cls')
          | None => ([OWrite s], cls)
          end
      end
  end.

Definition more_td : list op := [OOpen s_td; OWrite s_more; OClose].

(* the outcome of toHtml: the calls issued and the class list; None = toHtml returns an error *)
Definition res : Type := option (list op * list str).

Definition bind (r : res) (k : list op -> list str -> res) : res :=
  match r with
  | Some (o, cls) => k o cls
  | None => None
  end.

Definition is_HL (v : hval) : bool := match v with HL _ => true | _ => false end.
Definition is_nil (v : hval) : bool := match v with HNil => true | _ => false end.
Definition is_err (v : hval) : bool := match v with HErr => true | _ => false end.

(* the loops of toHtml over list elements; [td] is toTD, [each] toHtml with no style.
   An error of an element ends the loop with that error before the cut-off flag is looked at; an error of the
   iteration itself (HErr) ends it before the element counts at all. *)
Section Loops.
Variable maxl : N.
Variable td : hval -> list str -> res.

(* simpleListExporter.add for the elements of a list *)
Fixpoint simple_rows (l : list hval) (i : N) (cls : list str) : res :=
  match l with
  | [] => Some ([], cls)
  | x :: r =>
      let num := [OOpen s_td; OWrite (itoa i); OWrite [46]; OClose] in
      if is_err x then None else
      if i <=? maxl then
        bind (td x cls) (fun o cls1 =>
        bind (simple_rows r (i + 1) cls1) (fun os cls2 =>
        Some (OOpen s_tr :: num ++ o ++ OClose :: os, cls2)))
      else Some (OOpen s_tr :: num ++ more_td ++ [OClose], cls)
  end.

End Loops.

Section TableLoops.
Variable maxl : N.
Variable cell : N -> N -> hval -> list str -> res.     (* toTD(format(row, col, item)) *)

(* the cells of one table row *)
Fixpoint table_cells (row : N) (c : list hval) (col : N) (cls : list str) : res :=
  match c with
  | [] => Some ([], cls)
  | y :: c' =>
      if is_err y then None else
      if col <=? maxl then
        bind (cell row col y cls) (fun o cls1 =>
        bind (table_cells row c' (col + 1) cls1) (fun os cls2 =>
        Some (o ++ os, cls2)))
      else Some (more_td, cls)
  end.

(* tableExporter.add for the rows of a table *)
Fixpoint table_rows (l : list hval) (row : N) (cls : list str) : res :=
  match l with
  | [] => Some ([], cls)
  | x :: r =>
      if is_err x then None else
      if row <=? maxl then
        bind (match x with
              | HL cols => table_cells row cols 1 cls
              | _ => if 1 <=? maxl then cell row 1 x cls else Some (more_td, cls)
              end) (fun cells cls1 =>
        bind (table_rows r (row + 1) cls1) (fun os cls2 =>
        Some (OOpen s_tr :: cells ++ OClose :: os, cls2)))
      else Some (OOpen s_tr :: more_td ++ [OClose], cls)
  end.

End TableLoops.

(* the elements of a plainList *)
Section Plain.
Variable each : hval -> list str -> res.
Fixpoint plain_each (l : list hval) (cls : list str) : res :=
  match l with
  | [] => Some ([], cls)
  | x :: r =>
      if is_err x then None else
      bind (each x cls) (fun o cls1 =>
      bind (plain_each r cls1) (fun os cls2 =>
      Some (o ++ os, cls2)))
  end.
End Plain.

(* the rows of a map: key cell, value cell (already applied to the value, waiting for the class list) *)
Fixpoint map_rows (l : list (str * (list str -> res))) (cls : list str) : res :=
  match l with
  | [] => Some ([], cls)
  | (k, f) :: r =>
      bind (f cls) (fun o cls1 =>
      bind (map_rows r cls1) (fun os cls2 =>
      Some (OOpen s_tr :: OOpen s_td :: OWrite k :: OWrite [58] :: OClose :: o ++ OClose :: os, cls2)))
  end.

Section ToHtml.
Variable maxl : N.
Variable inline : bool.

(* toTD(d), given toHtml *)
Section TD.
Variable html : hval -> sty -> list str -> res.
Fixpoint to_td_with (d : hval) (cls : list str) {struct d} : res :=
  match d with
  | HFmt cell cs fst_ inner =>
      let span := if 1 <? cs then [OAttr s_colspan (itoa cs)] else [] in
      if is_HL inner && negb cell then
        bind (html inner fst_ cls) (fun o cls1 => Some (OOpen s_td :: span ++ o ++ [OClose], cls1))
      else
        let '(a, cls1) := style_attr inline fst_ cls in
        bind (html inner SNone cls1) (fun o cls2 => Some (OOpen s_td :: span ++ a ++ o ++ [OClose], cls2))
  | HFmtClo cell cs r inner =>
      let span := if 1 <? cs then [OAttr s_colspan (itoa cs)] else [] in
      if is_HL inner && negb cell then       (* toHtml(inner, closure) = toHtml(closure(inner), nil) *)
        bind (html r SNone cls) (fun o cls1 => Some (OOpen s_td :: span ++ o ++ [OClose], cls1))
      else                                   (* a closure gives no style string; it is not evaluated *)
        bind (html inner SNone cls) (fun o cls1 => Some (OOpen s_td :: span ++ o ++ [OClose], cls1))
  | HCell _ y => to_td_with y cls            (* the recorded closure result is not part of the item *)
  | _ => bind (html d SNone cls) (fun o cls1 => Some (OOpen s_td :: o ++ [OClose], cls1))
  end.
End TD.

(* toTD(format(row, col, item)): with a format f for the cell, format returns Format{item, f, Cell: true} *)
Definition cell_with (html : hval -> sty -> list str -> res) (tf : list (str * sty)) (row col : N)
  (y : hval) (cls : list str) : res :=
  match tf_lookup tf row col with
  | None | Some SCloId => to_td_with html y cls      (* a closure format returns its result: here the item *)
  | Some SCloRes =>                                  (* ... here the value recorded at the item *)
      match y with
      | HCell r _ => to_td_with html r cls
      | _ => to_td_with html y cls
      end
  | Some f =>
      let '(a, cls1) := style_attr inline f cls in
      bind (html y SNone cls1) (fun o cls2 => Some (OOpen s_td :: a ++ o ++ [OClose], cls2))
  end.

(* toHtml(v, style); the class list is threaded through *)
Fixpoint to_html (v : hval) (st : sty) (cls : list str) {struct v} : res :=
  match st with
  | SCloErr => None                                  (* cl.Eval(st, v) fails: return err *)
  | _ =>
  let to_td := to_td_with to_html in
  match v with
  | HFmt _ _ f inner => to_html inner f cls
  | HFmtClo _ _ r _ => to_html r SNone cls           (* res := cl.Eval(st, v); return toHtml(res, nil) *)
  | HLnk l inner =>
      bind (to_html inner st cls) (fun o cls1 => Some (OOpen s_a :: OAttr s_href l :: o ++ [OClose], cls1))
  | HFloat s => Some ([OWrite s], cls)
  | HFile name mime b64 size =>
      Some ([OOpen s_a; OAttr s_href (file_href mime b64); OAttr s_download name;
             OWrite (file_text name size); OClose], cls)
  | HS s => Some (html_string inline s st cls)
  | HNil => Some ([OWrite s_nil], cls)               (* the style is not looked at *)
  | HErr => None
  | HCell _ y => to_html y st cls
  | HM l =>
      let '(a, cls0) := style_attr inline st cls in
      bind (map_rows (sort_keys (map (fun kv => (fst kv, to_td (snd kv))) l)) cls0) (fun rows clsN =>
      Some (OOpen s_table :: a ++ rows ++ [OClose], clsN))
  | HL items =>
      if has_plain st then plain_each (fun x => to_html x SNone) items cls
      else
        match items with
        | [] => Some ([], cls)
        | first :: _ =>
            if is_err first then None                   (* the iteration fails before a list exporter exists *)
            else if is_nil first then Some ([], cls)    (* createListExporter: dummy, whose add ends the loop *)
            else
            let '(a, cls0) := style_attr inline st cls in
            bind (if is_HL first then table_rows maxl (cell_with to_html (tf_of st)) items 1 cls0   (* tableExporter *)
                  else simple_rows maxl to_td items 1 cls0)                   (* simpleListExporter *)
                 (fun rows clsN => Some (OOpen s_table :: a ++ rows ++ [OClose], clsN))
        end
  end
  end.

End ToHtml.

Definition html_cfg (tt ta : esc_table) : wcfg := mkCfg true true tt ta.

Inductive hout :=
| HOk (out : list N) (cls : list str)     (* markup and the styles of the class list *)
| HError                                  (* ToHtml returns an error (and no markup) *)
| HPanic.                                 (* the writer panics (recovered by ToHtml into an error) *)

(* ToHtml(v, maxListSize, nil, inlineStyle) *)
Definition to_html_doc (tt ta : esc_table) (maxl : N) (inline : bool) (v : hval) : hout :=
  match to_html (if maxl <? 1 then 1 else maxl) inline v SNone [] with
  | None => HError
  | Some (ops, cls) =>
      match run (html_cfg tt ta) w_init ops with
      | Some (out, _) => HOk out cls
      | None => HPanic
      end
  end.

(* the constant element and attribute names of ToHtml *)
Definition html_elems : list str := [s_table; s_tr; s_td; s_a; s_span].
Definition html_attrs : list str := [s_href; s_target; s_style; s_class; s_colspan; s_download].

Definition mem_str (s : str) (l : list str) : bool := existsb (str_eqb s) l.

Fixpoint names_in (es ats : list str) (n : node) : bool :=
  match n with
  | Tx _ => true
  | El name a kids =>
      mem_str name es && forallb (fun kv => mem_str (fst kv) ats) a && forallb (names_in es ats) kids
  end.

(* ====================================================================== *)
(*  Specification side                                                    *)
(* ====================================================================== *)

(* element and attribute names are ToHtml's constants *)
Definition hnames : node -> bool := names_in html_elems html_attrs.

(* if maxListSize < 1 { maxListSize = 1 } *)
Definition eff_max (maxl : N) : N := if maxl <? 1 then 1 else maxl.

(* all strings of the value (texts, keys, link targets, style strings, css keys and values) are legal XML characters *)
Fixpoint legal_sty (st : sty) : bool :=
  match st with
  | SNone | SCloErr | SCloId | SCloRes => true
  | SStr s => legal s
  | SMap l => forallb (fun kv => legal (fst kv) && legal (snd kv)) l
  | STab l tf => forallb (fun kv => legal (fst kv) && legal (snd kv)) l &&
                 forallb (fun kv => legal_sty (snd kv)) tf
  end.

Fixpoint legal_h (v : hval) : bool :=
  match v with
  | HS s | HFloat s => legal s
  | HL l => forallb legal_h l
  | HM l => forallb (fun kv => legal (fst kv) && legal_h (snd kv)) l
  | HFmt _ _ st v => legal_sty st && legal_h v
  | HLnk l v => legal l && legal_h v
  | HFmtClo _ _ r v => legal_h r && legal_h v
  | HFile name mime b64 size => legal name && legal mime && legal b64 && legal size
  | HNil | HErr => true
  | HCell r y => legal_h r && legal_h y
  end.

(* no plainList style anywhere: plainList writes list elements side by side, i.e. mixed content, into which
   PrettyPrint puts its line breaks and indentation *)
Fixpoint pfree (v : hval) : bool :=
  match v with
  | HS _ | HFloat _ | HFile _ _ _ _ | HNil | HErr => true
  | HCell r y => pfree r && pfree y
  | HL l => forallb pfree l
  | HM l => forallb (fun kv => pfree (snd kv)) l
  | HFmt _ _ st v => negb (has_plain st) && pfree v
  | HLnk _ v => pfree v
  | HFmtClo _ _ r v => pfree r && pfree v
  end.

(* when rendering must fail: toHtml(v, st) reaches, within the maxListSize cut-offs, a value whose style is a
   failing closure, or the iteration of a list yields an error (HErr) before the loop has ended: up to and
   including the first element past the cut-off, which the iterator has to produce before the exporter can
   answer more...  A list whose first element is nil is not rendered at all (nothing in it is reached).
   [fails v st]: toHtml(v, st);  [fails_td d]: toTD(d). *)
Section Fails.
Variable maxl : N.

Inductive fails : hval -> sty -> Prop :=
| F_here : forall v, fails v SCloErr
| F_iter : forall st, fails HErr st
| F_item : forall r y st, fails y st -> fails (HCell r y) st
| F_list_iter : forall items first i st, has_plain st = false ->
    nth_error items 0 = Some first -> is_nil first = false ->
    nth_error items i = Some HErr -> N.of_nat i <= maxl -> fails (HL items) st
| F_cell_iter : forall items first r cols c st, has_plain st = false ->
    nth_error items 0 = Some first -> is_HL first = true ->
    nth_error items r = Some (HL cols) -> N.of_nat r < maxl ->
    nth_error cols c = Some HErr -> N.of_nat c <= maxl -> fails (HL items) st
| F_row_res : forall items first r res y st, has_plain st = false ->
    nth_error items 0 = Some first -> is_HL first = true ->
    nth_error items r = Some (HCell res y) -> N.of_nat r < maxl ->
    tf_lookup (tf_of st) (N.of_nat r + 1) 1 = Some SCloRes -> fails_td res -> fails (HL items) st
| F_cell_res : forall items first r cols c res y st, has_plain st = false ->
    nth_error items 0 = Some first -> is_HL first = true ->
    nth_error items r = Some (HL cols) -> N.of_nat r < maxl ->
    nth_error cols c = Some (HCell res y) -> N.of_nat c < maxl ->
    tf_lookup (tf_of st) (N.of_nat r + 1) (N.of_nat c + 1) = Some SCloRes -> fails_td res -> fails (HL items) st
| F_fmt : forall c cs f inner st, fails inner f -> fails (HFmt c cs f inner) st
| F_lnk : forall l inner st, fails inner st -> fails (HLnk l inner) st
| F_clo : forall c cs r inner st, fails r SNone -> fails (HFmtClo c cs r inner) st
| F_map : forall l k e st, In (k, e) l -> fails_td e -> fails (HM l) st
| F_plain : forall items e st, has_plain st = true -> In e items -> fails e SNone -> fails (HL items) st
| F_list : forall items first i e st, has_plain st = false ->
    nth_error items 0 = Some first -> is_HL first = false -> is_nil first = false ->
    nth_error items i = Some e -> N.of_nat i < maxl -> fails_td e -> fails (HL items) st
| F_row : forall items first r x st, has_plain st = false ->
    nth_error items 0 = Some first -> is_HL first = true ->
    nth_error items r = Some x -> N.of_nat r < maxl -> is_HL x = false ->
    cell_plain (tf_lookup (tf_of st) (N.of_nat r + 1) 1) = true -> fails_td x -> fails (HL items) st
| F_row_fmt : forall items first r x f st, has_plain st = false ->
    nth_error items 0 = Some first -> is_HL first = true ->
    nth_error items r = Some x -> N.of_nat r < maxl -> is_HL x = false ->
    tf_lookup (tf_of st) (N.of_nat r + 1) 1 = Some f -> f <> SCloId -> f <> SCloRes -> fails x SNone -> fails (HL items) st
| F_cell : forall items first r cols c y st, has_plain st = false ->
    nth_error items 0 = Some first -> is_HL first = true ->
    nth_error items r = Some (HL cols) -> N.of_nat r < maxl ->
    nth_error cols c = Some y -> N.of_nat c < maxl ->
    cell_plain (tf_lookup (tf_of st) (N.of_nat r + 1) (N.of_nat c + 1)) = true -> fails_td y -> fails (HL items) st
| F_cell_fmt : forall items first r cols c y f st, has_plain st = false ->
    nth_error items 0 = Some first -> is_HL first = true ->
    nth_error items r = Some (HL cols) -> N.of_nat r < maxl ->
    nth_error cols c = Some y -> N.of_nat c < maxl ->
    tf_lookup (tf_of st) (N.of_nat r + 1) (N.of_nat c + 1) = Some f -> f <> SCloId -> f <> SCloRes -> fails y SNone -> fails (HL items) st
with fails_td : hval -> Prop :=
| T_list : forall cs f inner, is_HL inner = true -> fails inner f -> fails_td (HFmt false cs f inner)
| T_other : forall cell cs f inner, is_HL inner && negb cell = false -> fails inner SNone ->
    fails_td (HFmt cell cs f inner)
| T_clo_list : forall cs r inner, is_HL inner = true -> fails r SNone -> fails_td (HFmtClo false cs r inner)
| T_clo_other : forall cell cs r inner, is_HL inner && negb cell = false -> fails inner SNone ->
    fails_td (HFmtClo cell cs r inner)
| T_item : forall r y, fails_td y -> fails_td (HCell r y)
| T_plain : forall d, (match d with HFmt _ _ _ _ | HFmtClo _ _ _ _ | HCell _ _ => false | _ => true end) = true ->
    fails d SNone -> fails_td d.

End Fails.
