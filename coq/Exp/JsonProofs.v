From P2 Require Import Base.Prelude Base.PreludeProofs Exp.Json.
From Coq Require Import Permutation.
Local Open Scope N_scope.

(* ---------- one escaped character decodes, whatever follows ---------- *)

Lemma form_ok_unesc1 : forall c o r, form_ok c o = true -> unesc1 (o ++ r) = TChar c r.
Proof.
  intros c o r H. unfold form_ok in H.
  destruct o as [|x1 [|x2 [|x3 [|x4 [|x5 [|x6 [|x7 o]]]]]]]; try discriminate.
  - (* raw *)
    repeat (apply andb_true_iff in H; destruct H as [H ?]).
    apply N.eqb_eq in H. subst x1. simpl.
    repeat match goal with Hn : negb _ = true |- _ => apply negb_true_iff in Hn; rewrite Hn end.
    reflexivity.
  - (* two-character escape *)
    repeat (apply andb_true_iff in H; destruct H as [H ?]).
    apply N.eqb_eq in H. subst x1.
    match goal with Hn : negb _ = true |- _ => apply negb_true_iff in Hn end.
    destruct (simple_escape x2) as [y|] eqn:E; [|discriminate].
    match goal with He : (y =? c) = true |- _ => apply N.eqb_eq in He; subst y end.
    cbn [app unesc1]. change (92 =? 34) with false. change (92 =? 92) with true. cbv iota.
    match goal with Hn : (x2 =? 117) = false |- _ => rewrite Hn end. rewrite E. reflexivity.
  - (* \uXXXX *)
    repeat (apply andb_true_iff in H; destruct H as [H ?]).
    apply N.eqb_eq in H. subst x1.
    match goal with He : (x2 =? 117) = true |- _ => apply N.eqb_eq in He; subst x2 end.
    destruct (hex4 x3 x4 x5 x6) as [y|] eqn:E; [|discriminate].
    match goal with Hx : _ && _ && _ = true |- _ =>
      apply andb_true_iff in Hx; destruct Hx as [Hx1 Hl];
      apply andb_true_iff in Hx1; destruct Hx1 as [Hc Hh] end.
    apply N.eqb_eq in Hc. subst y. apply negb_true_iff in Hl, Hh.
    cbn [app unesc1]. change (92 =? 34) with false. change (92 =? 92) with true.
    change (117 =? 117) with true. cbv iota. rewrite E, Hl, Hh. reflexivity.
Qed.

Lemma unesc1_quote : forall r, unesc1 (quote :: r) = TEnd r.
Proof. reflexivity. Qed.

(* ---------- the table obligation gives form_ok for every code point ---------- *)

Lemma assocN_in : forall A c (tbl : list (N * A)) o, assocN c tbl = Some o -> In (c, o) tbl.
Proof.
  induction tbl as [|[k v] tbl IH]; simpl; intros o H; [discriminate|].
  destruct (N.eqb_spec c k) as [->|]; [inversion H; auto|right; auto].
Qed.

Lemma in_nrange : forall count start x, (start <= x)%N -> (x < start + N.of_nat count)%N -> In x (nrange start count).
Proof.
  induction count as [|n IH]; intros start x H1 H2; simpl; [lia|].
  destruct (N.eq_dec start x) as [->|Hne]; [left; reflexivity|right]. apply IH; lia.
Qed.

Lemma table_ok_form : forall tbl, json_table_ok tbl = true -> forall c, form_ok c (esc tbl c) = true.
Proof.
  intros tbl H c. unfold json_table_ok in H. apply andb_true_iff in H. destruct H as [H1 H2].
  rewrite forallb_forall in H1, H2. unfold esc.
  destruct (assocN c tbl) as [o|] eqn:E.
  - apply assocN_in in E. apply (H1 (c, o) E).
  - simpl.
    assert (Hn : ~ In c must_escape).
    { intro Hin. specialize (H2 c Hin). rewrite E in H2. discriminate. }
    rewrite N.eqb_refl. simpl.
    destruct (N.eqb_spec c 34) as [->|]; [exfalso; apply Hn; left; reflexivity|].
    destruct (N.eqb_spec c 92) as [->|]; [exfalso; apply Hn; right; left; reflexivity|].
    destruct (N.ltb_spec c 32) as [Hlt|]; [|reflexivity].
    exfalso. apply Hn. right. right. apply in_nrange; simpl; lia.
Qed.

(* ---------- strings ---------- *)

Lemma parse_str_f_esc : forall tbl, json_table_ok tbl = true ->
  forall s r acc fuel, (fuel > length s)%nat ->
  parse_str_f fuel (esc_str tbl s ++ quote :: r) acc = Some (rev acc ++ s, r).
Proof.
  intros tbl Hok. induction s as [|c s IH]; intros r acc fuel Hf.
  - destruct fuel as [|f]; [simpl in Hf; lia|]. simpl. rewrite app_nil_r. reflexivity.
  - destruct fuel as [|f]; [simpl in Hf; lia|].
    unfold esc_str. cbn [flat_map]. rewrite <- app_assoc. cbn [parse_str_f].
    rewrite (form_ok_unesc1 c _ _ (table_ok_form tbl Hok c)).
    fold (esc_str tbl s). rewrite IH by (simpl in Hf; lia).
    simpl. repeat rewrite <- app_assoc. reflexivity.
Qed.

Lemma esc_nonempty : forall tbl, json_table_ok tbl = true -> forall c, (length (esc tbl c) >= 1)%nat.
Proof.
  intros tbl H c. pose proof (table_ok_form tbl H c) as F.
  destruct (esc tbl c); simpl in *; [discriminate|lia].
Qed.

Lemma esc_str_length : forall tbl, json_table_ok tbl = true -> forall s, (length s <= length (esc_str tbl s))%nat.
Proof.
  intros tbl H. induction s as [|c s IH]; simpl; [lia|]. rewrite app_length.
  pose proof (esc_nonempty tbl H c). lia.
Qed.

Theorem json_string_roundtrip_cfg : forall tbl, json_table_ok tbl = true ->
  forall s r, parse_str (esc_str tbl s ++ quote :: r) = Some (s, r).
Proof.
  intros tbl H s r. unfold parse_str.
  rewrite (parse_str_f_esc tbl H s r []); [reflexivity|].
  rewrite app_length. pose proof (esc_str_length tbl H s). simpl. lia.
Qed.

(* ---------- sorting ---------- *)

Lemma ins_key_map : forall A B (f : A -> B) k v l,
  ins_key k (f v) (map (fun kv => (fst kv, f (snd kv))) l) =
  map (fun kv => (fst kv, f (snd kv))) (ins_key k v l).
Proof.
  induction l as [|[k' v'] l IH]; simpl; [reflexivity|].
  destruct (str_leb k k'); simpl; [reflexivity|]. rewrite IH. reflexivity.
Qed.

Lemma sort_keys_map : forall A B (f : A -> B) l,
  sort_keys (map (fun kv => (fst kv, f (snd kv))) l) =
  map (fun kv => (fst kv, f (snd kv))) (sort_keys l).
Proof.
  induction l as [|[k v] l IH]; simpl; [reflexivity|]. rewrite IH. apply ins_key_map.
Qed.

Lemma ins_key_perm : forall A k (v : A) l, Permutation ((k, v) :: l) (ins_key k v l).
Proof.
  induction l as [|[k' v'] l IH]; simpl; [apply Permutation_refl|].
  destruct (str_leb k k'); [apply Permutation_refl|].
  eapply perm_trans; [apply perm_swap|]. apply perm_skip. exact IH.
Qed.

Lemma sort_keys_perm : forall A (l : list (str * A)), Permutation l (sort_keys l).
Proof.
  induction l as [|[k v] l IH]; simpl; [apply perm_nil|].
  eapply perm_trans; [apply perm_skip; exact IH|]. apply ins_key_perm.
Qed.

(* ---------- values ---------- *)

Lemma skip_ws_nonws : forall c r, is_ws c = false -> skip_ws (c :: r) = c :: r.
Proof. intros c r H. simpl. rewrite H. reflexivity. Qed.

(* fuel needed by [parse] on the export of v *)
Fixpoint need (v : xv) : nat :=
  match v with
  | XS _ => 1
  | XL l => S (length l + fold_right (fun x a => Nat.max (need x) a) 0%nat l)
  | XM l => S (length l + fold_right (fun kv a => Nat.max (need (snd kv)) a) 0%nat l)
  | XW _ w => need w
  end.

Lemma parse_mono : forall f m s res, parse f m s = Some res -> forall f', (f' >= f)%nat -> parse f' m s = Some res.
Proof.
  induction f as [|f IH]; intros m s res H f' Hf; [discriminate|].
  destruct f' as [|f']; [lia|]. assert (Hf' : (f' >= f)%nat) by lia.
  cbn [parse] in *.
  destruct m as [|acc|acc].
  - destruct (skip_ws s) as [|c r]; [discriminate|].
    destruct (c =? 34); [exact H|].
    destruct (c =? 91).
    { destruct (skip_ws r) as [|c2 r2]; [discriminate|]. destruct (c2 =? 93); [exact H|]. eapply IH; eassumption. }
    destruct (c =? 123); [|exact H].
    destruct (skip_ws r) as [|c2 r2]; [discriminate|]. destruct (c2 =? 125); [exact H|]. eapply IH; eassumption.
  - destruct (parse f MVal s) as [[v r]|] eqn:E; [|discriminate].
    rewrite (IH _ _ _ E f' Hf').
    destruct (skip_ws r) as [|c r2]; [discriminate|].
    destruct (c =? 44); [eapply IH; eassumption|exact H].
  - destruct (skip_ws s) as [|c r]; [discriminate|].
    destruct (c =? 34); [|discriminate].
    destruct (parse_str r) as [[k r1]|]; [|discriminate].
    destruct (skip_ws r1) as [|c1 r2]; [discriminate|].
    destruct (c1 =? 58); [|discriminate].
    destruct (parse f MVal r2) as [[v r3]|] eqn:E; [|discriminate].
    rewrite (IH _ _ _ E f' Hf').
    destruct (skip_ws r3) as [|c3 r4]; [discriminate|].
    destruct (c3 =? 44); [eapply IH; eassumption|exact H].
Qed.

Lemma sep_concat_cons2 : forall p q r, sep_concat (p :: q :: r) = p ++ comma :: sep_concat (q :: r).
Proof. reflexivity. Qed.

Lemma sep_concat_cons_ne : forall p l, l <> [] -> sep_concat (p :: l) = p ++ comma :: sep_concat l.
Proof. intros p [|q r] H; [congruence|reflexivity]. Qed.

Lemma sep_concat_one : forall p, sep_concat [p] = p.
Proof. reflexivity. Qed.

Arguments sep_concat : simpl never.
Arguments export : simpl never.
Arguments need : simpl never.

Section Export.
Variable tbl : esc_table.
Hypothesis Hok : json_table_ok tbl = true.

Lemma json_string_parse : forall s r, parse_str (esc_str tbl s ++ quote :: r) = Some (s, r).
Proof. apply json_string_roundtrip_cfg. exact Hok. Qed.

(* the export of any value starts with a non-blank character *)
Lemma export_head3 : forall v, exists c r, export tbl v = c :: r /\ is_ws c = false /\ (c =? 93) = false.
Proof.
  induction v as [s|l|l|b w IH]; try (simpl; eexists; eexists; (split; [reflexivity|split; reflexivity])).
  exact IH.
Qed.

Lemma export_head : forall v, exists c r, export tbl v = c :: r /\ is_ws c = false.
Proof. intro v. destruct (export_head3 v) as [c [r [E [W _]]]]. exists c, r. split; assumption. Qed.

Definition val_ok (v : xv) : Prop :=
  forall rest, parse (need v) MVal (export tbl v ++ rest) = Some (jproj v, rest).

(* array elements: after "[" with accumulated acc *)
Lemma elems_ok : forall l, Forall val_ok l -> l <> [] ->
  forall fuel acc rest,
  (fuel >= length l + fold_right (fun x a => Nat.max (need x) a) 0 l)%nat ->
  parse fuel (MElems acc) (sep_concat (map (export tbl) l) ++ 93 :: rest)
  = Some (JArr (rev acc ++ map jproj l), rest).
Proof.
  induction l as [|x l IH]; intros HF Hne fuel acc rest Hfuel; [congruence|].
  inversion HF as [|? ? Hx Hl]; subst.
  cbn [length fold_right] in Hfuel.
  destruct fuel as [|f]; [lia|].
  destruct l as [|y l'].
  - cbn [map]. rewrite sep_concat_one. cbn [parse].
    rewrite (parse_mono _ _ _ _ (Hx (93 :: rest)) f) by lia.
    replace (skip_ws (93 :: rest)) with (93 :: rest) by reflexivity.
    change (93 =? 44) with false. change (93 =? 93) with true. cbv iota.
    simpl. repeat rewrite <- app_assoc. reflexivity.
  - rewrite (map_cons (export tbl)). rewrite sep_concat_cons_ne by (cbn [map]; discriminate).
    rewrite <- app_assoc. cbn [app parse].
    rewrite (parse_mono _ _ _ _ (Hx _) f) by lia.
    match goal with |- context [skip_ws (comma :: ?t)] =>
      replace (skip_ws (comma :: t)) with (comma :: t) by reflexivity end.
    change (comma =? 44) with true. cbv iota.
    transitivity (Some (JArr (rev (jproj x :: acc) ++ map jproj (y :: l')), rest)).
    + apply IH; [exact Hl|discriminate|]. cbn [length fold_right] in *. lia.
    + simpl. repeat rewrite <- app_assoc. reflexivity.
Qed.

Lemma parse_members_step : forall f acc k ex tail,
  parse (S f) (MMembers acc) (json_string tbl k ++ colon :: ex ++ tail) =
  match parse f MVal (ex ++ tail) with
  | Some (v, r3) =>
      match skip_ws r3 with
      | c3 :: r4 =>
          if c3 =? 44 then parse f (MMembers ((k, v) :: acc)) r4
          else if c3 =? 125 then Some (JObj (rev ((k, v) :: acc)), r4)
          else None
      | [] => None
      end
  | None => None
  end.
Proof.
  intros. unfold json_string. cbn [app]. rewrite <- app_assoc. cbn [app].
  cbn [parse]. change (skip_ws (quote :: ?x)) with (quote :: x).
  replace (skip_ws (quote :: esc_str tbl k ++ quote :: colon :: ex ++ tail))
    with (quote :: esc_str tbl k ++ quote :: colon :: ex ++ tail) by reflexivity.
  change (quote =? 34) with true. cbv iota.
  rewrite json_string_parse.
  replace (skip_ws (colon :: ex ++ tail)) with (colon :: ex ++ tail) by reflexivity.
  change (colon =? 58) with true. cbv iota. reflexivity.
Qed.

Lemma members_ok : forall (l : list (str * xv)), Forall (fun kv => val_ok (snd kv)) l -> l <> [] ->
  forall fuel acc rest,
  (fuel >= length l + fold_right (fun kv a => Nat.max (need (snd kv)) a) 0 l)%nat ->
  parse fuel (MMembers acc)
        (sep_concat (map (fun kv => json_string tbl (fst kv) ++ colon :: snd kv)
                         (map (fun kv => (fst kv, export tbl (snd kv))) l)) ++ 125 :: rest)
  = Some (JObj (rev acc ++ map (fun kv => (fst kv, jproj (snd kv))) l), rest).
Proof.
  induction l as [|[k x] l IH]; intros HF Hne fuel acc rest Hfuel; [congruence|].
  inversion HF as [|? ? Hx Hl]; subst. cbn [snd] in Hx.
  cbn [length fold_right snd] in Hfuel.
  destruct fuel as [|f]; [lia|].
  set (g := fun kv : str * xv => (fst kv, export tbl (snd kv))).
  set (h := fun kv : str * list N => json_string tbl (fst kv) ++ colon :: snd kv).
  destruct l as [|y l'].
  - cbn [map]. rewrite sep_concat_one. unfold h, g. cbn [fst snd].
    rewrite <- app_assoc. cbn [app]. rewrite parse_members_step.
    rewrite (parse_mono _ _ _ _ (Hx (125 :: rest)) f) by lia.
    replace (skip_ws (125 :: rest)) with (125 :: rest) by reflexivity.
    change (125 =? 44) with false. change (125 =? 125) with true. cbv iota.
    simpl. repeat rewrite <- app_assoc. reflexivity.
  - rewrite (map_cons g), (map_cons h).
    rewrite sep_concat_cons_ne by (cbn [map]; discriminate).
    unfold h at 1, g at 1. cbn [fst snd].
    rewrite <- !app_assoc. cbn [app]. rewrite parse_members_step.
    rewrite (parse_mono _ _ _ _ (Hx _) f) by lia.
    match goal with |- context [skip_ws (comma :: ?t)] =>
      replace (skip_ws (comma :: t)) with (comma :: t) by reflexivity end.
    change (comma =? 44) with true. cbv iota.
    transitivity (Some (JObj (rev ((k, jproj x) :: acc) ++ map (fun kv => (fst kv, jproj (snd kv))) (y :: l')), rest)).
    + apply IH; [exact Hl|discriminate|]. cbn [length fold_right] in *. lia.
    + simpl. repeat rewrite <- app_assoc. reflexivity.
Qed.

(* custom induction over nested values *)
Fixpoint xv_rect' (P : xv -> Prop)
  (HS : forall s, P (XS s))
  (HL : forall l, Forall P l -> P (XL l))
  (HM : forall l, Forall (fun kv => P (snd kv)) l -> P (XM l))
  (HW : forall b w, P w -> P (XW b w))
  (v : xv) : P v :=
  match v with
  | XS s => HS s
  | XL l => HL l ((fix go (l : list xv) : Forall P l :=
                     match l with [] => Forall_nil _ | x :: r => Forall_cons _ (xv_rect' P HS HL HM HW x) (go r) end) l)
  | XM l => HM l ((fix go (l : list (str * xv)) : Forall (fun kv => P (snd kv)) l :=
                     match l with [] => Forall_nil _ | x :: r => Forall_cons _ (xv_rect' P HS HL HM HW (snd x)) (go r) end) l)
  | XW b w => HW b w (xv_rect' P HS HL HM HW w)
  end.

Lemma need_max_perm : forall (l l' : list (str * xv)), Permutation l l' ->
  fold_right (fun kv a => Nat.max (need (snd kv)) a) 0%nat l =
  fold_right (fun kv a => Nat.max (need (snd kv)) a) 0%nat l'.
Proof. induction 1; cbn [fold_right]; lia. Qed.

Theorem export_parses : forall v, val_ok v.
Proof.
  induction v as [s|l IH|l IH|b w IH] using xv_rect'; intro rest; [| | |exact (IH rest)].
  - (* scalar *)
    unfold export, json_string, need. cbn [app]. rewrite <- app_assoc. cbn [app parse].
    replace (skip_ws (quote :: esc_str tbl s ++ quote :: rest))
      with (quote :: esc_str tbl s ++ quote :: rest) by reflexivity.
    change (quote =? 34) with true. cbv iota. rewrite json_string_parse. reflexivity.
  - (* list *)
    destruct l as [|x l'].
    + reflexivity.
    + unfold export; fold (export tbl). unfold need; fold need. unfold jproj; fold jproj.
      match goal with |- context [parse (S ?F0)] => remember F0 as F1 eqn:EF1 end.
      cbn [app parse]. rewrite <- app_assoc. cbn [app].
      match goal with |- context [skip_ws (91 :: ?t)] =>
        replace (skip_ws (91 :: t)) with (91 :: t) by reflexivity end.
      change (91 =? 34) with false. change (91 =? 91) with true. cbv iota.
      destruct (export_head3 x) as [c [r [Hc [Hw Hc93]]]].
      assert (Hhd : exists t, sep_concat (map (export tbl) (x :: l')) ++ 93 :: rest = c :: t /\ (c =? 93) = false).
      { destruct l' as [|y l''].
        - cbn [map]. rewrite sep_concat_one, Hc. eexists. split; [reflexivity|exact Hc93].
        - rewrite !map_cons, sep_concat_cons2, Hc. eexists. split; [reflexivity|exact Hc93]. }
      destruct Hhd as [t [Ht Hn]].
      rewrite Ht. rewrite (skip_ws_nonws c t Hw). rewrite Hn. rewrite <- Ht.
      subst F1. apply (elems_ok (x :: l') IH ltac:(discriminate)). lia.
  - (* map *)
    destruct l as [|x l'].
    + reflexivity.
    + unfold export; fold (export tbl). unfold need; fold need. unfold jproj; fold jproj.
      rewrite (sort_keys_map _ _ (export tbl)), (sort_keys_map _ _ jproj).
      assert (Hp := sort_keys_perm _ (x :: l')).
      rewrite (need_max_perm _ _ Hp), (Permutation_length Hp).
      assert (HF : Forall (fun kv => val_ok (snd kv)) (sort_keys (x :: l'))).
      { rewrite Forall_forall in *. intros kv Hin. apply IH. eapply Permutation_in; [apply Permutation_sym; exact Hp|exact Hin]. }
      assert (Hne : sort_keys (x :: l') <> []).
      { intro E. rewrite E in Hp. apply Permutation_sym, Permutation_nil in Hp. discriminate. }
      destruct (sort_keys (x :: l')) as [|[k0 x0] s'] eqn:Es; [congruence|].
      match goal with |- context [parse (S ?F0)] => remember F0 as F1 eqn:EF1 end.
      cbn [app parse]. rewrite <- app_assoc. cbn [app].
      match goal with |- context [skip_ws (123 :: ?t)] =>
        replace (skip_ws (123 :: t)) with (123 :: t) by reflexivity end.
      change (123 =? 34) with false. change (123 =? 91) with false. change (123 =? 123) with true. cbv iota.
      assert (Hhd : exists t, sep_concat (map (fun kv => json_string tbl (fst kv) ++ colon :: snd kv)
                 (map (fun kv => (fst kv, export tbl (snd kv))) ((k0, x0) :: s'))) ++ 125 :: rest = quote :: t).
      { destruct s' as [|y s''].
        - cbn [map]. rewrite sep_concat_one. eexists. reflexivity.
        - rewrite !map_cons, sep_concat_cons2. eexists. reflexivity. }
      destruct Hhd as [t Ht]. rewrite Ht.
      replace (skip_ws (quote :: t)) with (quote :: t) by reflexivity.
      change (quote =? 125) with false. cbv iota. rewrite <- Ht.
      subst F1. apply (members_ok _ HF Hne). lia.
Qed.

End Export.

(* ---------- the whole document ---------- *)

Lemma export_len2 : forall tbl v, (length (export tbl v) >= 2)%nat.
Proof.
  intros tbl v. induction v as [s|l|l|b w IH]; [| | |exact IH];
    unfold export; fold (export tbl); unfold json_string; cbn [length];
    rewrite app_length; cbn [length]; lia.
Qed.

Lemma need_le_length : forall tbl v, (need v <= length (export tbl v))%nat.
Proof.
  intros tbl. induction v as [s|l IH|l IH|b w IH] using xv_rect'; [| | |exact IH].
  - pose proof (export_len2 tbl (XS s)). unfold need. lia.
  - unfold need; fold need. unfold export; fold (export tbl). cbn [length]. rewrite app_length. cbn [length].
    assert (H : (length l + fold_right (fun x a => Nat.max (need x) a) 0 l <= S (length (sep_concat (map (export tbl) l))))%nat).
    { induction l as [|x l IHl]; [simpl; lia|].
      inversion IH as [|? ? Hx Hl]; subst. specialize (IHl Hl). cbn [fold_right length].
      pose proof (export_len2 tbl x).
      destruct l as [|y l'].
      - cbn [map fold_right length]. rewrite sep_concat_one. lia.
      - rewrite (map_cons (export tbl)). rewrite sep_concat_cons_ne by (cbn [map]; discriminate).
        rewrite app_length. cbn [length]. cbn [fold_right length] in IHl |- *. lia. }
    lia.
  - unfold need; fold need. unfold export; fold (export tbl). cbn [length]. rewrite app_length. cbn [length].
    rewrite (sort_keys_map _ _ (export tbl)).
    rewrite (need_max_perm _ _ (sort_keys_perm _ l)), (Permutation_length (sort_keys_perm _ l)).
    assert (IH' : Forall (fun kv => (need (snd kv) <= length (export tbl (snd kv)))%nat) (sort_keys l)).
    { rewrite Forall_forall in *. intros kv Hin. apply IH.
      eapply Permutation_in; [apply Permutation_sym, sort_keys_perm|exact Hin]. }
    generalize dependent (sort_keys l). clear IH l. intros l IH.
    set (g := fun kv : str * xv => (fst kv, export tbl (snd kv))).
    set (h := fun kv : str * list N => json_string tbl (fst kv) ++ colon :: snd kv).
    assert (H : (length l + fold_right (fun kv a => Nat.max (need (snd kv)) a) 0 l <=
                 S (length (sep_concat (map h (map g l)))))%nat).
    { induction l as [|x l IHl]; [simpl; lia|].
      inversion IH as [|? ? Hx Hl]; subst. specialize (IHl Hl). cbn [fold_right length].
      pose proof (export_len2 tbl (snd x)).
      destruct l as [|y l'].
      - cbn [map fold_right length]. rewrite sep_concat_one. unfold h, g. cbn [fst snd].
        rewrite app_length. cbn [length]. lia.
      - rewrite (map_cons g), (map_cons h). rewrite sep_concat_cons_ne by (cbn [map]; discriminate).
        rewrite app_length. cbn [length]. unfold h at 1, g at 1. cbn [fst snd].
        rewrite app_length. cbn [length]. cbn [fold_right length] in IHl |- *.
        change (snd (g x)) with (export tbl (snd x)). lia. }
    lia.
Qed.

Theorem json_export_roundtrip : forall tbl, json_table_ok tbl = true ->
  forall v, json_parse (export tbl v) = Some (jproj v).
Proof.
  intros tbl Hok v. unfold json_parse.
  pose proof (export_parses tbl Hok v []) as H. rewrite app_nil_r in H.
  rewrite (parse_mono _ _ _ _ H (S (length (export tbl v)))).
  - reflexivity.
  - pose proof (need_le_length tbl v). lia.
Qed.

(* the decoded object has exactly the keys of the map, each with its value *)
Theorem jproj_keys_perm : forall l,
  Permutation (map (fun kv => (fst kv, jproj (snd kv))) l)
              (match jproj (XM l) with JObj m => m | _ => [] end).
Proof. intro l. cbn [jproj]. apply sort_keys_perm. Qed.

(* ---------- Format / Link wrappers are transparent ---------- *)

Theorem export_wrap : forall tbl ws v, export tbl (wrap ws v) = export tbl v.
Proof. intros tbl ws v. induction ws as [|b ws IH]; [reflexivity|exact IH]. Qed.

Theorem jproj_wrap : forall ws v, jproj (wrap ws v) = jproj v.
Proof. intros ws v. induction ws as [|b ws IH]; [reflexivity|exact IH]. Qed.

Theorem export_strip : forall tbl v, export tbl (strip_wrappers v) = export tbl v.
Proof.
  intros tbl. induction v as [s|l IH|l IH|b w IH] using xv_rect'.
  - reflexivity.
  - unfold strip_wrappers; fold strip_wrappers. unfold export; fold (export tbl). do 3 f_equal.
    rewrite map_map. apply map_ext_in. intros x Hx. rewrite Forall_forall in IH. apply IH. exact Hx.
  - unfold strip_wrappers; fold strip_wrappers. unfold export; fold (export tbl). do 5 f_equal.
    rewrite map_map. apply map_ext_in. intros x Hx. rewrite Forall_forall in IH. cbn [fst snd].
    rewrite (IH x Hx). reflexivity.
  - exact IH.
Qed.
