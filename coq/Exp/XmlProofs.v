From P2 Require Import Base.Prelude Exp.Json Exp.Xml.
