From P2 Require Import Base.Prelude Base.PreludeProofs Exp.Json Exp.JsonProofs Exp.Xml.
From Coq Require Import Permutation.
Local Open Scope N_scope.

(* ====================================================================== *)
(*  boolean tests on code points as arithmetic facts                      *)
(* ====================================================================== *)

Ltac b2p H :=
  unfold is_name_start, is_name_char, is_space, is_xml_char, is_alpha_, is_digit_dash_dot, in_rng in H;
  repeat first
    [ rewrite orb_true_iff in H | rewrite andb_true_iff in H | rewrite orb_false_iff in H
    | rewrite andb_false_iff in H | rewrite negb_true_iff in H | rewrite negb_false_iff in H
    | rewrite N.eqb_eq in H | rewrite N.eqb_neq in H | rewrite N.leb_le in H | rewrite N.leb_gt in H
    | rewrite N.ltb_lt in H | rewrite N.ltb_ge in H ].

Ltac b2g :=
  unfold is_name_start, is_name_char, is_space, is_xml_char, is_alpha_, is_digit_dash_dot, in_rng;
  repeat first
    [ rewrite orb_true_iff | rewrite andb_true_iff | rewrite orb_false_iff
    | rewrite andb_false_iff | rewrite negb_true_iff | rewrite negb_false_iff
    | rewrite N.eqb_eq | rewrite N.eqb_neq | rewrite N.leb_le | rewrite N.leb_gt
    | rewrite N.ltb_lt | rewrite N.ltb_ge ].

Ltac norm_app := cbn [app]; repeat (rewrite <- app_assoc; cbn [app]).

Lemma eqb_false_of_ne : forall a b : N, a <> b -> (a =? b) = false.
Proof. intros. apply N.eqb_neq. assumption. Qed.

Lemma name_start_is_name_char : forall c, is_name_start c = true -> is_name_char c = true.
Proof. intros c H. unfold is_name_char. rewrite H. reflexivity. Qed.

Lemma name_char_facts : forall c, is_name_char c = true ->
  c <> 32 /\ c <> 9 /\ c <> 10 /\ c <> 13 /\ c <> 62 /\ c <> 47 /\ c <> 61 /\ c <> 60 /\ c <> 34.
Proof. intros c H. repeat split; intro; subst c; vm_compute in H; discriminate. Qed.

Lemma name_char_not_space : forall c, is_name_char c = true -> is_space c = false.
Proof.
  intros c H. pose proof (name_char_facts c H) as F. unfold is_space.
  rewrite !eqb_false_of_ne by lia. reflexivity.
Qed.

(* ====================================================================== *)
(*  strip, numbers, references                                            *)
(* ====================================================================== *)

Lemma strip_app : forall p r, strip p (p ++ r) = Some r.
Proof. induction p as [|a p IH]; intro r; simpl; [reflexivity|]. rewrite N.eqb_refl. apply IH. Qed.

Lemma strip_some : forall p s r, strip p s = Some r -> s = p ++ r.
Proof.
  induction p as [|a p IH]; intros s r H; simpl in H.
  - inversion H. reflexivity.
  - destruct s as [|b s]; [discriminate|].
    destruct (N.eqb_spec a b) as [->|]; [|discriminate]. simpl. f_equal. apply IH. exact H.
Qed.

Lemma number_app : forall base s acc v t rest,
  number base s acc = Some (v, t) -> number base (s ++ rest) acc = Some (v, t ++ rest).
Proof.
  intros base. induction s as [|c s IH]; intros acc v t rest H; simpl in H; [discriminate|].
  simpl. destruct (c =? 59).
  - inversion H. reflexivity.
  - destruct (digit_val base c); [|discriminate]. apply IH. exact H.
Qed.

Lemma entry_ok_decode : forall c o, entry_ok c o = true ->
  exists r, o = 38 :: r /\ forall rest, decode_ref (r ++ rest) = Some (c, rest).
Proof.
  intros c o H. unfold entry_ok in H. apply orb_true_iff in H. destruct H as [H|H].
  - unfold named_refs in H. cbn [existsb fst snd] in H.
    repeat (apply orb_true_iff in H; destruct H as [H|H]);
      try discriminate;
      apply andb_true_iff in H; destruct H as [H1 H2];
      apply str_eqb_eq in H1; apply N.eqb_eq in H2; subst c o;
      eexists; (split; [reflexivity|]); intro rest; reflexivity.
  - destruct (strip [38; 35; 120] o) as [r|] eqn:E; [|discriminate].
    apply strip_some in E. subst o.
    destruct r as [|c0 r']; [discriminate|].
    apply andb_true_iff in H. destruct H as [Hh H].
    destruct (number 16 (c0 :: r') 0) as [[v t]|] eqn:En; [|discriminate].
    destruct t; [|discriminate].
    apply andb_true_iff in H. destruct H as [Hv Hx]. apply N.eqb_eq in Hv. subst v.
    exists (35 :: 120 :: c0 :: r'). split; [reflexivity|]. intro rest.
    unfold decode_ref. cbn [app]. change (35 =? 35) with true. change (120 =? 120) with true. cbv iota.
    unfold char_ref. unfold is_hex in Hh. unfold digit_val at 1. change (16 =? 16) with true. cbv iota.
    destruct (hexval c0); [|discriminate].
    change (c0 :: r' ++ rest) with ((c0 :: r') ++ rest).
    rewrite (number_app _ _ _ _ _ rest En). rewrite Hx. reflexivity.
Qed.

(* ====================================================================== *)
(*  one escaped character is read back                                    *)
(* ====================================================================== *)

Lemma assocN_in' : forall A c (tbl : list (N * A)) o, assocN c tbl = Some o -> In (c, o) tbl.
Proof. exact assocN_in. Qed.

Section Tables.
Variables tt ta : esc_table.
Hypothesis Hok : xml_table_ok tt ta = true.

Lemma tables_split :
  (forall c o, assocN c tt = Some o -> entry_ok c o = true) /\
  (forall c, In c must_escape_text -> assocN c tt <> None) /\
  (forall c o, assocN c ta = Some o -> entry_ok c o = true) /\
  (forall c, In c must_escape_attr -> assocN c ta <> None).
Proof.
  unfold xml_table_ok in Hok.
  apply andb_true_iff in Hok. destruct Hok as [H123 H4].
  apply andb_true_iff in H123. destruct H123 as [H12 H3].
  apply andb_true_iff in H12. destruct H12 as [H1 H2].
  rewrite forallb_forall in H1, H2, H3, H4.
  repeat split.
  - intros c o E. apply (H1 (c, o)). apply assocN_in. exact E.
  - intros c Hin E. specialize (H2 c Hin). unfold has_entry in H2. rewrite E in H2. discriminate.
  - intros c o E. apply (H3 (c, o)). apply assocN_in. exact E.
  - intros c Hin E. specialize (H4 c Hin). unfold has_entry in H4. rewrite E in H4. discriminate.
Qed.

(* character data: the head of the escape is not '<' and text_char gives the character back *)
Lemma text_esc : forall c rest, is_xml_char c = true ->
  exists x r, esc tt c ++ rest = x :: r /\ (x =? 60) = false /\ text_char x r = Some (c, rest).
Proof.
  intros c rest Hc. destruct tables_split as [T1 [T2 _]]. unfold esc.
  destruct (assocN c tt) as [o|] eqn:E.
  - destruct (entry_ok_decode c o (T1 c o E)) as [r [-> Hd]].
    exists 38, (r ++ rest). split; [reflexivity|]. split; [reflexivity|].
    unfold text_char. change (38 =? 38) with true. cbv iota. apply Hd.
  - exists c, rest. split; [reflexivity|].
    assert (N38 : c <> 38) by (intro; subst; apply (T2 38); [simpl; tauto|exact E]).
    assert (N60 : c <> 60) by (intro; subst; apply (T2 60); [simpl; tauto|exact E]).
    assert (N62 : c <> 62) by (intro; subst; apply (T2 62); [simpl; tauto|exact E]).
    assert (N13 : c <> 13) by (intro; subst; apply (T2 13); [simpl; tauto|exact E]).
    split; [apply eqb_false_of_ne; exact N60|].
    unfold text_char. rewrite !eqb_false_of_ne by assumption. rewrite Hc. reflexivity.
Qed.

(* attribute values: the head is not the quote and attr_char gives the character back *)
Lemma attr_esc : forall c rest, is_xml_char c = true ->
  exists x r, esc ta c ++ rest = x :: r /\ (x =? 34) = false /\ attr_char x r = Some (c, rest).
Proof.
  intros c rest Hc. destruct tables_split as [_ [_ [T1 T2]]]. unfold esc.
  destruct (assocN c ta) as [o|] eqn:E.
  - destruct (entry_ok_decode c o (T1 c o E)) as [r [-> Hd]].
    exists 38, (r ++ rest). split; [reflexivity|]. split; [reflexivity|].
    unfold attr_char. change (38 =? 38) with true. cbv iota. apply Hd.
  - exists c, rest. split; [reflexivity|].
    assert (N38 : c <> 38) by (intro; subst; apply (T2 38); [simpl; tauto|exact E]).
    assert (N60 : c <> 60) by (intro; subst; apply (T2 60); [simpl; tauto|exact E]).
    assert (N34 : c <> 34) by (intro; subst; apply (T2 34); [simpl; tauto|exact E]).
    assert (N9 : c <> 9) by (intro; subst; apply (T2 9); [simpl; tauto|exact E]).
    assert (N10 : c <> 10) by (intro; subst; apply (T2 10); [simpl; tauto|exact E]).
    assert (N13 : c <> 13) by (intro; subst; apply (T2 13); [simpl; tauto|exact E]).
    split; [apply eqb_false_of_ne; exact N34|].
    unfold attr_char. rewrite !eqb_false_of_ne by assumption. cbn [orb]. rewrite Hc. reflexivity.
Qed.

Lemma esc_nonempty_t : forall c, is_xml_char c = true -> (1 <= length (esc tt c))%nat.
Proof.
  intros c Hc. destruct (text_esc c [] Hc) as [x [r [E _]]]. rewrite app_nil_r in E. rewrite E. simpl. lia.
Qed.

Lemma esc_nonempty_a : forall c, is_xml_char c = true -> (1 <= length (esc ta c))%nat.
Proof.
  intros c Hc. destruct (attr_esc c [] Hc) as [x [r [E _]]]. rewrite app_nil_r in E. rewrite E. simpl. lia.
Qed.

Lemma esc_str_len_t : forall s, legal s = true -> (length s <= length (esc_str tt s))%nat.
Proof.
  induction s as [|c s IH]; intro H; [simpl; lia|].
  cbn [legal forallb] in H. apply andb_true_iff in H. destruct H as [Hc Hs].
  unfold esc_str in *. cbn [flat_map length]. rewrite app_length.
  pose proof (esc_nonempty_t c Hc). specialize (IH Hs). lia.
Qed.

Lemma esc_str_len_a : forall s, legal s = true -> (length s <= length (esc_str ta s))%nat.
Proof.
  induction s as [|c s IH]; intro H; [simpl; lia|].
  cbn [legal forallb] in H. apply andb_true_iff in H. destruct H as [Hc Hs].
  unfold esc_str in *. cbn [flat_map length]. rewrite app_length.
  pose proof (esc_nonempty_a c Hc). specialize (IH Hs). lia.
Qed.

(* ---------- a whole attribute value ---------- *)

Lemma attval_str : forall s rest acc fuel, legal s = true -> (length s < fuel)%nat ->
  attval fuel (esc_str ta s ++ 34 :: rest) acc = Some (rev acc ++ s, rest).
Proof.
  induction s as [|c s IH]; intros rest acc fuel Hl Hf.
  - destruct fuel as [|f]; [simpl in Hf; lia|]. simpl. rewrite app_nil_r. reflexivity.
  - destruct fuel as [|f]; [simpl in Hf; lia|].
    simpl in Hl. apply andb_true_iff in Hl. destruct Hl as [Hc Hs].
    unfold esc_str. cbn [flat_map]. rewrite <- app_assoc.
    destruct (attr_esc c (flat_map (esc ta) s ++ 34 :: rest) Hc) as [x [r [E [Hq Ha]]]].
    rewrite E. cbn [attval]. rewrite Hq, Ha.
    fold (esc_str ta s). rewrite IH by (try assumption; simpl in Hf; lia).
    simpl. rewrite <- app_assoc. reflexivity.
Qed.


(* ====================================================================== *)
(*  names                                                                 *)
(* ====================================================================== *)

Definition stops (rest : list N) : Prop :=
  match rest with [] => True | c :: _ => is_name_char c = false end.

Lemma take_name_app : forall n rest, forallb is_name_char n = true -> stops rest ->
  take_name (n ++ rest) = (n, rest).
Proof.
  induction n as [|c n IH]; intros rest Hn Hs.
  - destruct rest as [|c r]; [reflexivity|]. simpl in Hs. simpl. rewrite Hs. reflexivity.
  - cbn [forallb] in Hn. apply andb_true_iff in Hn. destruct Hn as [Hc Hn].
    cbn [app take_name]. rewrite Hc. rewrite (IH rest Hn Hs). reflexivity.
Qed.

Lemma read_name_app : forall n rest, xml_name n = true -> stops rest ->
  read_name (n ++ rest) = Some (n, rest).
Proof.
  intros n rest Hn Hs. destruct n as [|c n]; [discriminate|].
  cbn [xml_name] in Hn. apply andb_true_iff in Hn. destruct Hn as [Hc Hn].
  unfold read_name.
  rewrite (take_name_app (c :: n) rest); [rewrite Hc; reflexivity| |exact Hs].
  cbn [forallb]. rewrite (name_start_is_name_char c Hc), Hn. reflexivity.
Qed.

Lemma xml_name_head : forall n, xml_name n = true -> exists c r, n = c :: r /\ is_name_char c = true.
Proof.
  intros [|c r] H; [discriminate|]. cbn [xml_name] in H. apply andb_true_iff in H. destruct H as [Hc _].
  exists c, r. split; [reflexivity|apply name_start_is_name_char; exact Hc].
Qed.

(* ====================================================================== *)
(*  attributes                                                            *)
(* ====================================================================== *)

Definition attr_str (kv : str * str) : list N := 32 :: fst kv ++ 61 :: 34 :: esc_str ta (snd kv) ++ [34].
Definition attrs_str (a : list (str * str)) : list N := flat_map attr_str a.

Definition attr_wf (kv : str * str) : bool := xml_name (fst kv) && legal (snd kv).

(* the tail behind the attributes starts with '>' or '/' *)
Definition tag_end (tail : list N) : Prop := exists c t, tail = c :: t /\ (c = 62 \/ c = 47).

Lemma attrs_loop_attrs : forall a tail acc fuel, forallb attr_wf a = true -> tag_end tail ->
  (length a < fuel)%nat ->
  attrs_loop fuel (attrs_str a ++ tail) acc = attrs_loop (fuel - length a) tail (rev a ++ acc).
Proof.
  induction a as [|[k v] a IH]; intros tail acc fuel Hw Ht Hf.
  - simpl. rewrite Nat.sub_0_r. reflexivity.
  - cbn [forallb] in Hw. apply andb_true_iff in Hw. destruct Hw as [Hkv Hw].
    unfold attr_wf in Hkv. cbn [fst snd] in Hkv. apply andb_true_iff in Hkv. destruct Hkv as [Hk Hv].
    destruct fuel as [|f]; [simpl in Hf; lia|].
    destruct (xml_name_head k Hk) as [c [r [Ek Hc]]].
    pose proof (name_char_facts c Hc) as F.
    replace (attrs_str ((k, v) :: a) ++ tail)
      with (32 :: k ++ 61 :: 34 :: esc_str ta v ++ 34 :: attrs_str a ++ tail).
    2: { unfold attrs_str. cbn [flat_map]. unfold attr_str at 2. cbn [fst snd app].
         norm_app. reflexivity. }
    cbn [attrs_loop].
    change (32 =? 62) with false. change (32 =? 47) with false. change (is_space 32) with true. cbv iota.
    rewrite Ek at 1 2 3. cbn [app skip_sp]. rewrite (name_char_not_space c Hc).
    replace (c =? 62) with false by (symmetry; apply eqb_false_of_ne; lia).
    replace (c =? 47) with false by (symmetry; apply eqb_false_of_ne; lia).
    cbn [orb].
    change (c :: r ++ 61 :: 34 :: esc_str ta v ++ 34 :: attrs_str a ++ tail)
      with ((c :: r) ++ 61 :: 34 :: esc_str ta v ++ 34 :: attrs_str a ++ tail).
    rewrite <- Ek.
    rewrite (read_name_app k); [|exact Hk|simpl; reflexivity].
    change (61 =? 61) with true. change (34 =? 34) with true. cbn [andb].
    rewrite (attval_str v _ [] _ Hv).
    + cbn [rev app length].
      rewrite (IH tail ((k, v) :: acc) f Hw Ht) by (simpl in Hf; lia).
      replace (S f - S (length a))%nat with (f - length a)%nat by lia.
      rewrite <- app_assoc. reflexivity.
    + rewrite app_length. pose proof (esc_str_len_a v Hv). simpl. lia.
Qed.

Lemma attrs_str_length : forall a, (length a <= length (attrs_str a))%nat.
Proof.
  induction a as [|kv a IH]; [simpl; lia|].
  unfold attrs_str in *. cbn [flat_map length]. rewrite app_length. unfold attr_str at 1. cbn [length]. lia.
Qed.

(* ====================================================================== *)
(*  what the writer produces for an unmixed tree                          *)
(* ====================================================================== *)

Variables av pr : bool.
Definition cfg : wcfg := mkCfg av pr tt ta.

Definition ind (d : Z) : list N := if pr then tabs d else [].
Definition nl : list N := if pr then [10] else [].

(* an element from '<' to the '>' of its end *)
Fixpoint core (d : Z) (n : node) : list N :=
  match n with
  | Tx s => esc_str tt s
  | El name a kids =>
      60 :: name ++ attrs_str a ++
      match kids with
      | [] => if av then 62 :: 60 :: 47 :: name ++ [62] else [47; 62]
      | _ =>
          if forallb is_tx kids then 62 :: flat_map (core d) kids ++ 60 :: 47 :: name ++ [62]
          else 62 :: nl ++ flat_map (fun k => ind (d + 1) ++ core (d + 1) k ++ nl) kids
                  ++ ind d ++ 60 :: 47 :: name ++ [62]
      end
  end.

Definition emit (d : Z) (n : node) : list N := ind d ++ core d n ++ nl.

(* ---------- white space is collected as pending character data ---------- *)

Definition blanks (ws : list N) : Prop := Forall (fun c => c = 9 \/ c = 10) ws.

Lemma blanks_ind : forall d, blanks (ind d).
Proof.
  intro d. unfold ind, tabs. destruct pr; [|constructor].
  induction (Z.to_nat d); simpl; constructor; auto.
Qed.

Lemma blanks_nl : blanks nl.
Proof. unfold nl. destruct pr; [constructor; [right; reflexivity|constructor]|constructor]. Qed.

Lemma blanks_ws_only : forall ws, blanks ws -> ws_only ws = true.
Proof.
  induction 1 as [|c ws Hc _ IH]; [reflexivity|]. unfold ws_only in *. cbn [forallb]. rewrite IH.
  destruct Hc; subst; reflexivity.
Qed.

Lemma ws_only_app : forall a b, ws_only a = true -> ws_only b = true -> ws_only (a ++ b) = true.
Proof. intros a b Ha Hb. unfold ws_only in *. rewrite forallb_app, Ha, Hb. reflexivity. Qed.

Lemma ws_only_rev : forall a, ws_only a = true -> ws_only (rev a) = true.
Proof.
  intros a Ha. unfold ws_only in *. rewrite forallb_forall in *. intros x Hx. apply Ha. apply in_rev. exact Hx.
Qed.

(* the shape of all "consume a prefix" lemmas: enough fuel before, enough fuel after *)
Lemma content_blanks : forall ws rest pend acc fuel, blanks ws -> (length (ws ++ rest) < fuel)%nat ->
  exists fuel', (length rest < fuel')%nat /\
    content fuel pend acc (ws ++ rest) = content fuel' (rev ws ++ pend) acc rest.
Proof.
  induction ws as [|c ws IH]; intros rest pend acc fuel Hb Hf.
  - exists fuel. split; [exact Hf|reflexivity].
  - inversion Hb as [|? ? Hc Hws]; subst.
    destruct fuel as [|f]; [simpl in Hf; lia|].
    destruct (IH rest (c :: pend) acc f Hws) as [f' [Hf' E]]; [simpl in Hf; lia|].
    exists f'. split; [exact Hf'|].
    cbn [app content]. 
    assert (Hs : (c =? 60) = false) by (destruct Hc; subst; reflexivity).
    assert (Ht : text_char c (ws ++ rest) = Some (c, ws ++ rest)) by (destruct Hc; subst; reflexivity).
    rewrite Hs, Ht, E. cbn [rev]. rewrite <- app_assoc. reflexivity.
Qed.

Lemma content_text : forall s rest pend acc fuel, legal s = true -> (length (esc_str tt s ++ rest) < fuel)%nat ->
  exists fuel', (length rest < fuel')%nat /\
    content fuel pend acc (esc_str tt s ++ rest) = content fuel' (rev s ++ pend) acc rest.
Proof.
  induction s as [|c s IH]; intros rest pend acc fuel Hl Hf.
  - exists fuel. split; [exact Hf|reflexivity].
  - cbn [legal forallb] in Hl. apply andb_true_iff in Hl. destruct Hl as [Hc Hs].
    destruct fuel as [|f]; [simpl in Hf; lia|].
    unfold esc_str in *. cbn [flat_map] in *. rewrite <- app_assoc in *.
    destruct (text_esc c (flat_map (esc tt) s ++ rest) Hc) as [x [r [E [Hx Ht]]]].
    pose proof (esc_nonempty_t c Hc) as Hne.
    destruct (IH rest (c :: pend) acc f Hs) as [f' [Hf' E']].
    { rewrite app_length in Hf. simpl in Hf. lia. }
    exists f'. split; [exact Hf'|].
    rewrite E. cbn [content]. rewrite Hx, Ht, E'. cbn [rev]. rewrite <- app_assoc. reflexivity.
Qed.

(* ---------- tags ---------- *)

Lemma stops_tag : forall a c t, c = 62 \/ c = 47 -> stops (attrs_str a ++ c :: t).
Proof.
  intros a c t Hc. destruct a as [|kv a]; [destruct Hc; subst; reflexivity|reflexivity].
Qed.

Lemma start_tag : forall name a c t, xml_name name = true -> forallb attr_wf a = true -> c = 62 \/ c = 47 ->
  exists c2 r2 g, name ++ attrs_str a ++ c :: t = c2 :: r2 /\ (c2 =? 47) = false /\
    read_name (name ++ attrs_str a ++ c :: t) = Some (name, attrs_str a ++ c :: t) /\
    attrs_loop (S (length (attrs_str a ++ c :: t))) (attrs_str a ++ c :: t) [] = attrs_loop (S (S g)) (c :: t) (rev a).
Proof.
  intros name a c t Hn Ha Hc.
  destruct (xml_name_head name Hn) as [c2 [r [En Hc2]]].
  pose proof (name_char_facts c2 Hc2) as F.
  exists c2, (r ++ attrs_str a ++ c :: t).
  exists (length (attrs_str a ++ c :: t) - length a - 1)%nat.
  split; [rewrite En; reflexivity|]. split; [apply eqb_false_of_ne; lia|].
  split; [apply read_name_app; [exact Hn|apply stops_tag; exact Hc]|].
  rewrite attrs_loop_attrs.
  - rewrite app_nil_r. pose proof (attrs_str_length a) as L.
    assert (L2 : length (attrs_str a ++ c :: t) = (length (attrs_str a) + S (length t))%nat)
      by (rewrite app_length; reflexivity).
    replace (S (length (attrs_str a ++ c :: t)) - length a)%nat
      with (S (S (length (attrs_str a ++ c :: t) - length a - 1))) by lia.
    reflexivity.
  - exact Ha.
  - exists c, t. split; [reflexivity|exact Hc].
  - pose proof (attrs_str_length a). rewrite app_length. simpl. lia.
Qed.

Lemma content_end : forall g pend acc r, content (S g) pend acc (60 :: 47 :: r) = CEnd (finish pend acc) r.
Proof. reflexivity. Qed.

Lemma empty_tag_parse : forall name a t pend acc f,
  xml_name name = true -> forallb attr_wf a = true -> nodup_keys a = true ->
  content (S f) pend acc (60 :: name ++ attrs_str a ++ 47 :: 62 :: t) =
  content f [] (El name a [] :: flush pend acc) t.
Proof.
  intros name a t pend acc f Hn Ha Hd.
  destruct (start_tag name a 47 (62 :: t) Hn Ha (or_intror eq_refl)) as [c2 [r2 [g [E [H47 [Hr Hl]]]]]].
  cbn [content]. change (60 =? 60) with true. cbv iota.
  rewrite E at 1. rewrite H47. rewrite Hr, Hl.
  cbn [attrs_loop]. change (47 =? 62) with false. change (47 =? 47) with true. change (62 =? 62) with true. cbv iota.
  rewrite rev_involutive, Hd. reflexivity.
Qed.

Lemma element_parse : forall name a t kids rest pend acc f,
  xml_name name = true -> forallb attr_wf a = true -> nodup_keys a = true ->
  content f [] [] t = CEnd kids (name ++ 62 :: rest) ->
  content (S f) pend acc (60 :: name ++ attrs_str a ++ 62 :: t) =
  content f [] (El name a kids :: flush pend acc) rest.
Proof.
  intros name a t kids rest pend acc f Hn Ha Hd Hk.
  destruct (start_tag name a 62 t Hn Ha (or_introl eq_refl)) as [c2 [r2 [g [E [H47 [Hr Hl]]]]]].
  cbn [content]. change (60 =? 60) with true. cbv iota.
  rewrite E at 1. rewrite H47. rewrite Hr, Hl.
  cbn [attrs_loop]. change (62 =? 62) with true. cbv iota.
  rewrite rev_involutive, Hk.
  rewrite (read_name_app name (62 :: rest) Hn) by reflexivity.
  cbn [skip_sp]. change (is_space 62) with false. cbv iota.
  change (62 =? 62) with true. rewrite str_eqb_refl, Hd. reflexivity.
Qed.

(* ---------- induction over nested trees ---------- *)

Fixpoint node_ind' (P : node -> Prop)
  (HT : forall s, P (Tx s))
  (HE : forall n a k, Forall P k -> P (El n a k))
  (x : node) : P x :=
  match x with
  | Tx s => HT s
  | El n a k => HE n a k ((fix go (l : list node) : Forall P l :=
                             match l with
                             | [] => Forall_nil _
                             | y :: r => Forall_cons _ (node_ind' P HT HE y) (go r)
                             end) k)
  end.

Lemma esc_str_app : forall tbl a b, esc_str tbl (a ++ b) = esc_str tbl a ++ esc_str tbl b.
Proof. intros. unfold esc_str. apply flat_map_app. Qed.

Lemma legal_app : forall a b, legal (a ++ b) = legal a && legal b.
Proof. intros. unfold legal. apply forallb_app. Qed.

Lemma all_tx_core : forall d kids, forallb is_tx kids = true ->
  flat_map (core d) kids = esc_str tt (tx_concat kids).
Proof.
  induction kids as [|k kids IH]; intro H; [reflexivity|].
  cbn [forallb] in H. apply andb_true_iff in H. destruct H as [Hk Hr].
  destruct k as [|s]; [discriminate|].
  cbn [flat_map core tx_concat]. rewrite esc_str_app, (IH Hr). reflexivity.
Qed.

Lemma all_tx_legal : forall kids, forallb is_tx kids = true -> forallb wf_node kids = true ->
  legal (tx_concat kids) = true.
Proof.
  induction kids as [|k kids IH]; intros H W; [reflexivity|].
  cbn [forallb] in H, W. apply andb_true_iff in H. destruct H as [Hk Hr].
  apply andb_true_iff in W. destruct W as [Wk Wr].
  destruct k as [|s]; [discriminate|].
  cbn [tx_concat]. rewrite legal_app. cbn [wf_node] in Wk. rewrite Wk, (IH Hr Wr). reflexivity.
Qed.

Lemma finish_text : forall s, finish (rev s ++ []) [] = match s with [] => [] | _ => [Tx s] end.
Proof.
  intro s. rewrite app_nil_r. unfold finish. cbn [existsb].
  destruct s as [|c s]; [reflexivity|].
  destruct (rev (c :: s)) as [|x r] eqn:E.
  - apply (f_equal (@length N)) in E. rewrite rev_length in E. discriminate.
  - rewrite <- E, rev_involutive. reflexivity.
Qed.

Definition core_ok (n : node) : Prop :=
  forall d rest pend acc fuel, ws_only pend = true -> (length (core d n ++ rest) < fuel)%nat ->
  exists fuel', (length rest < fuel')%nat /\
    content fuel pend acc (core d n ++ rest) = content fuel' [] (canon n :: acc) rest.

Definition kids_str (d : Z) (kids : list node) : list N :=
  flat_map (fun k => ind d ++ core d k ++ nl) kids.

Lemma kids_parse : forall d kids, Forall core_ok kids ->
  forall rest pend acc fuel, ws_only pend = true -> (length (kids_str d kids ++ rest) < fuel)%nat ->
  exists fuel' pend', ws_only pend' = true /\ (length rest < fuel')%nat /\
    content fuel pend acc (kids_str d kids ++ rest) = content fuel' pend' (rev (map canon kids) ++ acc) rest.
Proof.
  intros d. induction kids as [|k kids IH]; intros HF rest pend acc fuel Hp Hf.
  - exists fuel, pend. split; [exact Hp|]. split; [exact Hf|reflexivity].
  - inversion HF as [|? ? Hk Hks]; subst.
    unfold kids_str in *. cbn [flat_map] in *. rewrite <- !app_assoc in *.
    destruct (content_blanks (ind d) _ pend acc fuel (blanks_ind d) Hf) as [f1 [Hf1 E1]].
    assert (Hp1 : ws_only (rev (ind d) ++ pend) = true)
      by (apply ws_only_app; [apply ws_only_rev, blanks_ws_only, blanks_ind|exact Hp]).
    destruct (Hk d _ _ acc f1 Hp1 Hf1) as [f2 [Hf2 E2]].
    destruct (content_blanks nl _ [] (canon k :: acc) f2 blanks_nl Hf2) as [f3 [Hf3 E3]].
    assert (Hp3 : ws_only (rev nl ++ []) = true)
      by (apply ws_only_app; [apply ws_only_rev, blanks_ws_only, blanks_nl|reflexivity]).
    destruct (IH Hks rest _ (canon k :: acc) f3 Hp3 Hf3) as [f4 [p4 [Hp4 [Hf4 E4]]]].
    exists f4, p4. split; [exact Hp4|]. split; [exact Hf4|].
    rewrite E1, E2, E3, E4. cbn [map rev]. rewrite <- app_assoc. reflexivity.
Qed.

Lemma flush_ws : forall pend acc, ws_only pend = true -> flush pend acc = acc.
Proof. intros pend acc H. unfold flush. rewrite H. reflexivity. Qed.

Lemma canon_is_el : forall k, is_el k = true -> is_el (canon k) = true.
Proof. intros [n a k|s] H; [reflexivity|discriminate]. Qed.

Lemma existsb_rev_map_canon : forall kids, kids <> [] -> forallb is_el kids = true ->
  existsb is_el (rev (map canon kids) ++ []) = true.
Proof.
  intros kids Hne H. rewrite app_nil_r. apply existsb_exists.
  destruct kids as [|k kids]; [congruence|].
  cbn [forallb] in H. apply andb_true_iff in H. destruct H as [Hk _].
  exists (canon k). split; [|apply canon_is_el; exact Hk].
  apply -> in_rev. cbn [map]. left. reflexivity.
Qed.

Theorem core_parse : forall n, is_el n = true -> wf_node n = true -> unmixed n = true -> core_ok n.
Proof.
  induction n as [s|name a kids IH] using node_ind'; intros Hel Hwf Hun; [discriminate|].
  cbn [wf_node] in Hwf.
  apply andb_true_iff in Hwf. destruct Hwf as [Hwf Wk].
  apply andb_true_iff in Hwf. destruct Hwf as [Hwf Hd].
  apply andb_true_iff in Hwf. destruct Hwf as [Hn Ha].
  change (forallb attr_wf a = true) in Ha.
  cbn [unmixed] in Hun. apply andb_true_iff in Hun. destruct Hun as [Hmix Uk].
  intros d rest pend acc fuel Hp Hf.
  destruct fuel as [|f]; [simpl in Hf; lia|].
  destruct kids as [|k0 kids0].
  - (* no content *)
    cbn [core canon forallb tx_join tx_concat]. cbn [core] in Hf.
    destruct av.
    + exists f. split.
      { rewrite !app_length in Hf. cbn [length] in Hf. rewrite !app_length in Hf. cbn [length] in Hf. lia. }
      norm_app.
      rewrite (element_parse name a _ [] rest pend acc f Hn Ha Hd).
      * rewrite (flush_ws pend acc Hp). reflexivity.
      * destruct f as [|g]; [|reflexivity].
        rewrite !app_length in Hf. cbn [length] in Hf. lia.
    + exists f. split.
      { rewrite !app_length in Hf. cbn [length] in Hf. rewrite !app_length in Hf. cbn [length] in Hf. lia. }
      norm_app.
      rewrite (empty_tag_parse name a rest pend acc f Hn Ha Hd).
      rewrite (flush_ws pend acc Hp). reflexivity.
  - remember (k0 :: kids0) as kids eqn:Ek.
    assert (Hne : kids <> []) by (subst; discriminate).
    assert (Ecore : core d (El name a kids) =
              60 :: name ++ attrs_str a ++
              (if forallb is_tx kids then 62 :: flat_map (core d) kids ++ 60 :: 47 :: name ++ [62]
               else 62 :: nl ++ kids_str (d + 1) kids ++ ind d ++ 60 :: 47 :: name ++ [62]))
      by (subst kids; reflexivity).
    rewrite Ecore in *. clear Ecore.
    cbn [canon].
    destruct (forallb is_tx kids) eqn:Etx.
    + (* character data only *)
      rewrite (all_tx_core d kids Etx) in *.
      pose proof (all_tx_legal kids Etx Wk) as Hlegal.
      set (S0 := tx_concat kids) in *.
      assert (Ein : (60 :: name ++ attrs_str a ++ 62 :: esc_str tt S0 ++ 60 :: 47 :: name ++ [62]) ++ rest =
                    60 :: name ++ attrs_str a ++ 62 :: (esc_str tt S0 ++ 60 :: 47 :: name ++ 62 :: rest))
        by (norm_app; reflexivity).
      rewrite Ein in *. clear Ein.
      assert (Hfi : Nat.lt (length (esc_str tt S0 ++ 60 :: 47 :: name ++ 62 :: rest)) f).
      { cbn [length] in Hf. rewrite !app_length in Hf. cbn [length] in Hf. lia. }
      destruct (content_text S0 _ [] [] f Hlegal Hfi) as [f1 [Hf1 E1]].
      exists f. split.
      { rewrite app_length in Hfi. cbn [length] in Hfi. rewrite app_length in Hfi. cbn [length] in Hfi. lia. }
      rewrite (element_parse name a _ (tx_join kids) rest pend acc f Hn Ha Hd).
      * rewrite (flush_ws pend acc Hp). reflexivity.
      * rewrite E1. destruct f1 as [|g1]; [cbn [length] in Hf1; lia|].
        rewrite content_end. rewrite finish_text. unfold tx_join. subst S0.
        destruct (tx_concat kids); reflexivity.
    + (* child elements only *)
      assert (Hels : forallb is_el kids = true) by exact Hmix.
      assert (HF : Forall core_ok kids).
      { rewrite Forall_forall in *. intros k Hin. rewrite forallb_forall in Hels, Wk, Uk.
        apply IH; auto. }
      assert (Ein : (60 :: name ++ attrs_str a ++ 62 :: nl ++ kids_str (d + 1) kids ++ ind d ++ 60 :: 47 :: name ++ [62]) ++ rest =
                    60 :: name ++ attrs_str a ++ 62 :: (nl ++ kids_str (d + 1) kids ++ ind d ++ 60 :: 47 :: name ++ 62 :: rest))
        by (norm_app; reflexivity).
      rewrite Ein in *. clear Ein.
      assert (Hfi : Nat.lt (length (nl ++ kids_str (d + 1) kids ++ ind d ++ 60 :: 47 :: name ++ 62 :: rest)) f).
      { cbn [length] in Hf. rewrite !app_length in Hf. cbn [length] in Hf. rewrite !app_length in *. cbn [length] in *.
        rewrite !app_length in *. cbn [length] in *. lia. }
      destruct (content_blanks nl _ [] [] f blanks_nl Hfi) as [f1 [Hf1 E1]].
      assert (Hp1 : ws_only (rev nl ++ []) = true)
        by (apply ws_only_app; [apply ws_only_rev, blanks_ws_only, blanks_nl|reflexivity]).
      destruct (kids_parse (d + 1) kids HF _ _ [] f1 Hp1 Hf1) as [f2 [p2 [Hp2 [Hf2 E2]]]].
      destruct (content_blanks (ind d) _ p2 (rev (map canon kids) ++ []) f2 (blanks_ind d) Hf2) as [f3 [Hf3 E3]].
      exists f. split.
      { rewrite !app_length in Hfi. cbn [length] in Hfi. rewrite !app_length in Hfi. cbn [length] in Hfi. lia. }
      rewrite (element_parse name a _ (map canon kids) rest pend acc f Hn Ha Hd).
      * rewrite (flush_ws pend acc Hp). reflexivity.
      * rewrite E1, E2, E3. destruct f3 as [|g3]; [cbn [length] in Hf3; lia|].
        rewrite content_end. unfold finish.
        rewrite (existsb_rev_map_canon kids Hne Hels).
        rewrite flush_ws by (apply ws_only_app; [apply ws_only_rev, blanks_ws_only, blanks_ind|exact Hp2]).
        rewrite app_nil_r, rev_involutive. reflexivity.
Qed.

(* a written element, possibly behind formatting white space, parses to its canonical tree *)
Theorem fragment_parse : forall pre d n, blanks pre ->
  is_el n = true -> wf_node n = true -> unmixed n = true ->
  xml_fragment (pre ++ emit d n) = Some [canon n].
Proof.
  intros pre d n Hpre Hel Hwf Hun. unfold xml_fragment, emit.
  set (F := S (length (pre ++ ind d ++ core d n ++ nl))).
  assert (HF : (length (pre ++ ind d ++ core d n ++ nl) < F)%nat) by (unfold F; lia).
  destruct (content_blanks pre _ [] [] F Hpre HF) as [f1 [Hf1 E1]].
  destruct (content_blanks (ind d) _ (rev pre ++ []) [] f1 (blanks_ind d) Hf1) as [f2 [Hf2 E2]].
  assert (Hp2 : ws_only (rev (ind d) ++ rev pre ++ []) = true).
  { apply ws_only_app; [apply ws_only_rev, blanks_ws_only, blanks_ind|].
    apply ws_only_app; [apply ws_only_rev, blanks_ws_only; exact Hpre|reflexivity]. }
  destruct (core_parse n Hel Hwf Hun d nl _ [] f2 Hp2 Hf2) as [f3 [Hf3 E3]].
  assert (Hnl : (length (nl ++ []) < f3)%nat) by (rewrite app_nil_r; exact Hf3).
  destruct (content_blanks nl [] [] [canon n] f3 blanks_nl Hnl) as [f4 [Hf4 E4]].
  rewrite E1, E2, E3. rewrite <- (app_nil_r nl) at 1. rewrite E4.
  destruct f4 as [|g]; [simpl in Hf4; lia|].
  cbn [content]. unfold finish. cbn [existsb]. rewrite (canon_is_el n Hel). cbn [orb].
  rewrite flush_ws by (apply ws_only_app; [apply ws_only_rev, blanks_ws_only, blanks_nl|reflexivity]).
  reflexivity.
Qed.

(* ====================================================================== *)
(*  the writer state machine produces [emit]                              *)
(* ====================================================================== *)

Definition stA (stk : list str) (k : Z) : wstate := mkW stk k false false.  (* between elements *)
Definition stB (stk : list str) (k : Z) : wstate := mkW stk k true true.    (* inside a start tag *)
Definition stC (stk : list str) (k : Z) : wstate := mkW stk k true false.   (* behind character data *)

Definition prepend (c : list N) (r : option (list N * wstate)) : option (list N * wstate) :=
  match r with Some (x, s) => Some (c ++ x, s) | None => None end.

Lemma prepend_app : forall a b r, prepend a (prepend b r) = prepend (a ++ b) r.
Proof. intros a b [[x s]|]; simpl; [rewrite app_assoc|]; reflexivity. Qed.

Lemma prepend_nil : forall r, prepend [] r = r.
Proof. intros [[x s]|]; reflexivity. Qed.

Lemma run_cons : forall st o ops,
  run cfg st (o :: ops) =
  match step cfg st o with Some (c, st1) => prepend c (run cfg st1 ops) | None => None end.
Proof. intros. cbn [run]. destruct (step cfg st o) as [[c st1]|]; reflexivity. Qed.

Lemma open_A : forall stk k tag,
  step cfg (stA stk k) (OOpen tag) = Some (ind (k + 1) ++ 60 :: tag, stB (tag :: stk) (k + 1)%Z).
Proof. intros. unfold ind, cfg. destruct pr; reflexivity. Qed.

Lemma open_B : forall stk k tag,
  step cfg (stB stk k) (OOpen tag) = Some (62 :: nl ++ ind (k + 1) ++ 60 :: tag, stB (tag :: stk) (k + 1)%Z).
Proof. intros. unfold ind, nl, cfg. destruct pr; reflexivity. Qed.

Lemma attr_B : forall stk k key v,
  step cfg (stB stk k) (OAttr key v) = Some (attr_str (key, v), stB stk k).
Proof. intros. reflexivity. Qed.

Lemma close_B : forall stk k tag,
  step cfg (stB (tag :: stk) (k + 1)%Z) OClose =
  Some ((if av then 62 :: 60 :: 47 :: tag ++ [62] else [47; 62]) ++ nl, stA stk k).
Proof.
  intros. unfold nl, cfg, step, do_close, stB, stA. cbn. rewrite Z.add_simpl_r.
  destruct av, pr; cbn; norm_app; reflexivity.
Qed.

Lemma write_B : forall stk k s,
  step cfg (stB stk k) (OWrite s) = Some (62 :: esc_str tt s, stC stk k).
Proof. intros. reflexivity. Qed.

Lemma write_C : forall stk k s,
  step cfg (stC stk k) (OWrite s) = Some (esc_str tt s, stC stk k).
Proof. intros. reflexivity. Qed.

Lemma close_C : forall stk k tag,
  step cfg (stC (tag :: stk) (k + 1)%Z) OClose = Some (60 :: 47 :: tag ++ 62 :: nl, stA stk k).
Proof.
  intros. unfold nl, cfg, step, do_close, stC, stA. cbn. rewrite Z.add_simpl_r.
  destruct av, pr; cbn; norm_app; reflexivity.
Qed.

Lemma close_A : forall stk k tag,
  step cfg (stA (tag :: stk) (k + 1)%Z) OClose = Some (ind (k + 1) ++ 60 :: 47 :: tag ++ 62 :: nl, stA stk k).
Proof.
  intros. unfold ind, nl, cfg, step, do_close, stA. cbn. rewrite Z.add_simpl_r.
  destruct av, pr; cbn; norm_app; reflexivity.
Qed.

Lemma run_attrs : forall a stk k more,
  run cfg (stB stk k) (map (fun kv => OAttr (fst kv) (snd kv)) a ++ more) =
  prepend (attrs_str a) (run cfg (stB stk k) more).
Proof.
  induction a as [|[key v] a IH]; intros stk k more.
  - simpl. rewrite prepend_nil. reflexivity.
  - cbn [map app fst snd]. rewrite run_cons, attr_B, IH, prepend_app. reflexivity.
Qed.

Lemma run_text_C : forall d kids stk k more, forallb is_tx kids = true ->
  run cfg (stC stk k) (flat_map ops_of kids ++ more) =
  prepend (flat_map (core d) kids) (run cfg (stC stk k) more).
Proof.
  induction kids as [|x kids IH]; intros stk k more H.
  - simpl. rewrite prepend_nil. reflexivity.
  - cbn [forallb] in H. apply andb_true_iff in H. destruct H as [Hx Hr].
    destruct x as [|s]; [discriminate|].
    cbn [flat_map ops_of app core]. rewrite run_cons, write_C, (IH _ _ _ Hr), prepend_app. reflexivity.
Qed.

Definition emits (n : node) : Prop :=
  forall k stk more,
    run cfg (stA stk k) (ops_of n ++ more) = prepend (emit (k + 1) n) (run cfg (stA stk k) more) /\
    run cfg (stB stk k) (ops_of n ++ more) = prepend (62 :: nl ++ emit (k + 1) n) (run cfg (stA stk k) more).

Lemma run_kids_A : forall kids, Forall emits kids -> forall k stk more,
  run cfg (stA stk k) (flat_map ops_of kids ++ more) =
  prepend (kids_str (k + 1) kids) (run cfg (stA stk k) more).
Proof.
  induction kids as [|x kids IH]; intros HF k stk more.
  - simpl. rewrite prepend_nil. reflexivity.
  - inversion HF as [|? ? Hx Hr]; subst.
    cbn [flat_map]. rewrite <- app_assoc. rewrite (proj1 (Hx k stk _)), (IH Hr), prepend_app. reflexivity.
Qed.

Theorem writer_emits : forall n, is_el n = true -> unmixed n = true -> emits n.
Proof.
  induction n as [s|name a kids IH] using node_ind'; intros Hel Hun; [discriminate|].
  cbn [unmixed] in Hun. apply andb_true_iff in Hun. destruct Hun as [Hmix Uk].
  (* what follows the start tag and its attributes *)
  assert (Body : forall k stk more,
    run cfg (stB (name :: stk) (k + 1)%Z) (flat_map ops_of kids ++ [OClose] ++ more) =
    prepend (match kids with
             | [] => if av then 62 :: 60 :: 47 :: name ++ [62] else [47; 62]
             | _ => if forallb is_tx kids then 62 :: flat_map (core (k + 1)) kids ++ 60 :: 47 :: name ++ [62]
                    else 62 :: nl ++ kids_str (k + 1 + 1) kids ++ ind (k + 1) ++ 60 :: 47 :: name ++ [62]
             end ++ nl) (run cfg (stA stk k) more)).
  { intros k stk more. destruct kids as [|k0 kids0].
    - cbn [flat_map app]. rewrite run_cons, close_B. reflexivity.
    - remember (k0 :: kids0) as kids eqn:Ek.
      destruct (forallb is_tx kids) eqn:Etx.
      + subst kids. cbn [forallb] in Etx. apply andb_true_iff in Etx. destruct Etx as [E0 Er].
        destruct k0 as [|s0]; [discriminate|].
        cbn [flat_map ops_of app core]. rewrite run_cons, write_B.
        rewrite (run_text_C (k + 1) kids0 _ _ _ Er). cbn [app]. rewrite run_cons, close_C.
        rewrite !prepend_app. f_equal. norm_app. reflexivity.
      + assert (Hels : forallb is_el kids = true) by exact Hmix.
        assert (HF : Forall emits kids).
        { rewrite Forall_forall in *. rewrite forallb_forall in Hels, Uk. intros x Hin. apply IH; auto. }
        subst kids. inversion HF as [|? ? H0 Hr]; subst.
        cbn [flat_map]. rewrite <- app_assoc.
        rewrite (proj2 (H0 (k + 1)%Z (name :: stk) _)).
        rewrite (run_kids_A kids0 Hr). cbn [app]. rewrite run_cons, close_A.
        rewrite !prepend_app. f_equal. unfold kids_str, emit. cbn [flat_map]. norm_app. reflexivity. }
  intros k stk more. cbn [ops_of]. split.
  - cbn [app]. rewrite run_cons, open_A. rewrite <- app_assoc, run_attrs.
    rewrite <- app_assoc, Body. rewrite !prepend_app. f_equal.
    unfold emit. cbn [core]. norm_app. reflexivity.
  - cbn [app]. rewrite run_cons, open_B. rewrite <- app_assoc, run_attrs.
    rewrite <- app_assoc, Body. rewrite !prepend_app. f_equal.
    unfold emit. cbn [core]. norm_app. reflexivity.
Qed.

(* every balanced, unmixed, well-named sequence of calls gives well-formed markup that parses back
   to the tree of the calls: names as given, attribute values and character data decoded exactly *)
Theorem writer_wellformed_cfg : forall n, is_el n = true -> wf_node n = true -> unmixed n = true ->
  exists out, run cfg w_init (ops_of n) = Some (out, w_init) /\ xml_fragment out = Some [canon n].
Proof.
  intros n Hel Hwf Hun. exists (emit 0 n). split.
  - pose proof (proj1 (writer_emits n Hel Hun (-1)%Z [] [])) as H.
    rewrite app_nil_r in H. change (stA [] (-1)) with w_init in H. rewrite H.
    cbn [run prepend]. rewrite app_nil_r. reflexivity.
  - apply (fragment_parse [] 0 n); [constructor|assumption..].
Qed.

End Tables.

(* ====================================================================== *)
(*  call sequences and forests                                            *)
(* ====================================================================== *)

Lemma tree_of_f_ops : forall n ops cur stack b,
  tree_of_f (ops_of n ++ ops) cur stack b = tree_of_f ops (n :: cur) stack false.
Proof.
  induction n as [s|name a kids IH] using node_ind'; intros ops cur stack b; [reflexivity|].
  cbn [ops_of app tree_of_f].
  assert (HA : forall a0 acc rest, 
    tree_of_f (map (fun kv => OAttr (fst kv) (snd kv)) a0 ++ rest) [] ((name, acc, cur) :: stack) true =
    tree_of_f rest [] ((name, rev a0 ++ acc, cur) :: stack) true).
  { induction a0 as [|[k v] a0 IHa]; intros acc rest; [reflexivity|].
    cbn [map app tree_of_f fst snd]. rewrite IHa. cbn [rev]. rewrite <- app_assoc. reflexivity. }
  rewrite <- app_assoc, HA, app_nil_r.
  assert (HK : forall ks c0 rest st bb, Forall (fun n => forall ops cur stack b,
                 tree_of_f (ops_of n ++ ops) cur stack b = tree_of_f ops (n :: cur) stack false) ks ->
    tree_of_f (flat_map ops_of ks ++ OClose :: rest) c0 st bb =
    tree_of_f (OClose :: rest) (rev ks ++ c0) st (match ks with [] => bb | _ => false end)).
  { induction ks as [|x ks IHk]; intros c0 rest st bb HF; [reflexivity|].
    inversion HF as [|? ? Hx Hr]; subst.
    cbn [flat_map]. rewrite <- app_assoc, Hx, (IHk _ _ _ _ Hr). cbn [rev]. rewrite <- app_assoc.
    destruct ks; reflexivity. }
  rewrite <- app_assoc. cbn [app]. rewrite (HK kids [] ops _ true IH).
  cbn [tree_of_f]. rewrite app_nil_r, !rev_involutive. reflexivity.
Qed.

(* [ops_of] and [tree_of] are inverse: the balanced call sequences are the images of forests *)
Theorem tree_of_ops_of : forall n, tree_of (ops_of n) = Some [n].
Proof.
  intro n. unfold tree_of. rewrite <- (app_nil_r (ops_of n)), tree_of_f_ops. reflexivity.
Qed.

(* ====================================================================== *)
(*  the XML exporter                                                      *)
(* ====================================================================== *)

Fixpoint xval_ind' (P : xval -> Prop)
  (HS : forall s, P (VS s))
  (HL : forall l, Forall P l -> P (VL l))
  (HM : forall l, Forall (fun kv => P (snd kv)) l -> P (VM l))
  (HW : forall b v, P v -> P (VW b v))
  (v : xval) : P v :=
  match v with
  | VS s => HS s
  | VL l => HL l ((fix go (l : list xval) : Forall P l :=
                     match l with [] => Forall_nil _ | x :: r => Forall_cons _ (xval_ind' P HS HL HM HW x) (go r) end) l)
  | VM l => HM l ((fix go (l : list (str * xval)) : Forall (fun kv => P (snd kv)) l :=
                     match l with [] => Forall_nil _ | x :: r => Forall_cons _ (xval_ind' P HS HL HM HW (snd x)) (go r) end) l)
  | VW b v => HW b v (xval_ind' P HS HL HM HW v)
  end.

Lemma Forall_sort_keys : forall A (P : str * A -> Prop) l, Forall P l -> Forall P (sort_keys l).
Proof.
  intros A P l H. rewrite Forall_forall in *. intros x Hin. apply H.
  eapply Permutation_in; [apply Permutation_sym, sort_keys_perm|exact Hin].
Qed.

(* the calls the exporter issues are exactly the calls that write the specification tree *)
Theorem xml_ops_tree : forall v, xml_ops v = flat_map ops_of (xml_tree v).
Proof.
  induction v as [s|l IH|l IH|b v IH] using xval_ind'.
  - reflexivity.
  - cbn [xml_ops xml_tree flat_map ops_of map]. rewrite app_nil_r. cbn [app]. do 2 f_equal.
    induction l as [|e l IHl]; [reflexivity|].
    inversion IH as [|? ? He Hl]; subst.
    cbn [flat_map map ops_of app]. rewrite (IHl Hl), He. norm_app. reflexivity.
  - cbn [xml_ops xml_tree]. destruct (is_simple l).
    + cbn [flat_map ops_of]. rewrite app_nil_r. reflexivity.
    + cbn [flat_map ops_of map]. rewrite app_nil_r. cbn [app]. do 2 f_equal.
      rewrite (sort_keys_map _ _ xml_ops), (sort_keys_map _ _ xml_tree).
      pose proof (Forall_sort_keys _ _ _ IH) as IHs.
      induction (sort_keys l) as [|[k e] sl IHl]; [reflexivity|].
      inversion IHs as [|? ? He Hl]; subst. cbn [snd] in He.
      cbn [flat_map map ops_of app fst snd]. rewrite (IHl Hl), He. norm_app. reflexivity.
  - exact IH.
Qed.

(* ---------- names the exporter uses ---------- *)

Lemma ascii_names :
  forallb (fun c => implb (is_alpha_ c) (is_name_start c) &&
                    implb (is_alpha_ c || is_digit_dash_dot c) (is_name_char c)) (nrange 0 128) = true.
Proof. vm_compute. reflexivity. Qed.

Lemma ascii_small : forall c, is_alpha_ c || is_digit_dash_dot c = true -> c < 128.
Proof.
  intros c H. unfold is_alpha_, is_digit_dash_dot in H.
  repeat first [rewrite orb_true_iff in H | rewrite andb_true_iff in H | rewrite N.eqb_eq in H | rewrite N.leb_le in H].
  lia.
Qed.

Lemma alpha_name_start : forall c, is_alpha_ c = true -> is_name_start c = true.
Proof.
  intros c H. assert (L : c < 128) by (apply ascii_small; rewrite H; reflexivity).
  pose proof ascii_names as A. rewrite forallb_forall in A.
  specialize (A c (in_nrange 128 0 c ltac:(lia) ltac:(simpl; lia))).
  apply andb_true_iff in A. destruct A as [A _]. rewrite H in A. exact A.
Qed.

Lemma alnum_name_char : forall c, is_alpha_ c || is_digit_dash_dot c = true -> is_name_char c = true.
Proof.
  intros c H. pose proof (ascii_small c H) as L.
  pose proof ascii_names as A. rewrite forallb_forall in A.
  specialize (A c (in_nrange 128 0 c ltac:(lia) ltac:(simpl; lia))).
  apply andb_true_iff in A. destruct A as [_ A]. rewrite H in A. exact A.
Qed.

Lemma attr_name_ok_xml_name : forall k, attr_name_ok k = true -> xml_name k = true.
Proof.
  intros [|c r] H; [discriminate|]. unfold attr_name_ok in H.
  apply andb_true_iff in H. destruct H as [H Hr]. apply andb_true_iff in H. destruct H as [_ Hc].
  cbn [xml_name]. rewrite (alpha_name_start c Hc). cbn [andb].
  rewrite forallb_forall in *. intros x Hx. apply alnum_name_char. apply Hr. exact Hx.
Qed.

(* ---------- unique keys ---------- *)

Lemma nodup_keys_iff : forall A (l : list (str * A)), nodup_keys l = true <-> NoDup (map fst l).
Proof.
  induction l as [|[k v] l IH]; cbn [nodup_keys map fst]; [split; [constructor|reflexivity]|].
  rewrite andb_true_iff, negb_true_iff, IH. split.
  - intros [He Hn]. constructor; [|exact Hn]. intro Hin. apply in_map_iff in Hin.
    destruct Hin as [[k' v'] [Ek Hin]]. cbn [fst] in Ek. subst k'.
    assert (existsb (fun kv : str * A => str_eqb k (fst kv)) l = true).
    { apply existsb_exists. exists (k, v'). split; [exact Hin|]. cbn [fst]. apply str_eqb_refl. }
    congruence.
  - intro Hn. inversion Hn as [|? ? Hk Hl]; subst. split; [|exact Hl].
    destruct (existsb (fun kv : str * A => str_eqb k (fst kv)) l) eqn:E; [|reflexivity].
    apply existsb_exists in E. destruct E as [[k' v'] [Hin Ek]]. cbn [fst] in Ek. apply str_eqb_eq in Ek. subst k'.
    exfalso. apply Hk. apply in_map_iff. exists (k, v'). split; [reflexivity|exact Hin].
Qed.

Lemma nodup_keys_sorted_map : forall A B (f : A -> B) (l : list (str * A)), nodup_keys l = true ->
  nodup_keys (sort_keys (map (fun kv => (fst kv, f (snd kv))) l)) = true.
Proof.
  intros A B f l H. apply nodup_keys_iff. apply nodup_keys_iff in H.
  eapply Permutation_NoDup; [apply Permutation_map, sort_keys_perm|].
  rewrite map_map. cbn [fst]. exact H.
Qed.

(* ---------- the specification tree is well-formed input for the writer theorem ---------- *)

Lemma legal_scalar : forall v, legal_val v = true -> legal (scalar_str v) = true.
Proof. induction v as [s|l|l|b v IH]; intro H; try reflexivity; [exact H|apply IH; exact H]. Qed.

Definition tree_ok (v : xval) : Prop :=
  exists r, xml_tree v = [r] /\ wf_node r = true /\ unmixed r = true /\ is_el r = is_container v /\
            (is_container v = false -> r = Tx (scalar_str v)).

Lemma single_unmixed : forall r : node, forallb is_tx [r] || forallb is_el [r] = true.
Proof. intros [n a k|s]; reflexivity. Qed.

Lemma entry_node_ok : forall a e, tree_ok e -> forallb (fun kv => xml_name (fst kv) && legal (snd kv)) a = true ->
  nodup_keys a = true ->
  wf_node (El s_entry a (xml_tree e)) = true /\ unmixed (El s_entry a (xml_tree e)) = true.
Proof.
  intros a e [r [Er [Hw [Hu _]]]] Ha Hd. rewrite Er. split.
  - cbn [wf_node forallb]. rewrite Ha, Hd, Hw. reflexivity.
  - cbn [unmixed]. rewrite single_unmixed. cbn [forallb]. rewrite Hu. reflexivity.
Qed.

Lemma xml_tree_VL : forall l, xml_tree (VL l) = [El s_list [] (map (fun e => El s_entry [] (xml_tree e)) l)].
Proof. reflexivity. Qed.

Lemma xml_tree_VM : forall l, xml_tree (VM l) =
  if is_simple l then [El s_map (sort_keys (map (fun kv => (fst kv, scalar_str (snd kv))) l)) []]
  else [El s_map [] (map (fun kv => El s_entry [(s_key, fst kv)] (snd kv))
                         (sort_keys (map (fun kv => (fst kv, xml_tree (snd kv))) l)))].
Proof. reflexivity. Qed.

Theorem xml_tree_ok : forall v, legal_val v = true -> tree_ok v.
Proof.
  induction v as [s|l IH|l IH|b v IH] using xval_ind'; intro Hl.
  - exists (Tx s). repeat split; try reflexivity. exact Hl.
  - cbn [legal_val] in Hl. unfold tree_ok. rewrite xml_tree_VL.
    eexists. split; [reflexivity|].
    assert (HK : forallb wf_node (map (fun e => El s_entry [] (xml_tree e)) l) = true /\
                 forallb unmixed (map (fun e => El s_entry [] (xml_tree e)) l) = true /\
                 forallb is_el (map (fun e => El s_entry [] (xml_tree e)) l) = true).
    { induction l as [|e l IHl]; [repeat split|].
      inversion IH as [|? ? He Hr]; subst. cbn [forallb] in Hl. apply andb_true_iff in Hl. destruct Hl as [Le Lr].
      destruct (IHl Hr Lr) as [W [U E]].
      destruct (entry_node_ok [] e (He Le) eq_refl eq_refl) as [We Ue].
      cbn [map forallb]. rewrite We, Ue, W, U, E. repeat split. }
    destruct HK as [W [U E]].
    cbn [wf_node unmixed]. rewrite W, U, E, orb_true_r. repeat split. discriminate.
  - cbn [legal_val] in Hl. apply andb_true_iff in Hl. destruct Hl as [Hl Hd].
    unfold tree_ok. rewrite xml_tree_VM. destruct (is_simple l) eqn:Es.
    + eexists. split; [reflexivity|]. cbn [wf_node unmixed forallb]. 
      rewrite (nodup_keys_sorted_map _ _ scalar_str l Hd).
      assert (HA : forallb (fun kv : str * str => xml_name (fst kv) && legal (snd kv))
                     (sort_keys (map (fun kv => (fst kv, scalar_str (snd kv))) l)) = true).
      { rewrite (sort_keys_map _ _ scalar_str). rewrite forallb_forall. intros kv Hin.
        apply in_map_iff in Hin. destruct Hin as [[k e] [Ekv Hin]]. subst kv. cbn [fst snd].
        assert (Hin' : In (k, e) l) by (eapply Permutation_in; [apply Permutation_sym, sort_keys_perm|exact Hin]).
        unfold is_simple in Es. rewrite forallb_forall in Es, Hl.
        specialize (Es _ Hin'). specialize (Hl _ Hin'). cbn [fst snd] in Hl.
        unfold entry_simple in Es. cbn [fst snd] in Es.
        apply andb_true_iff in Es. destruct Es as [Es _]. apply andb_true_iff in Es. destruct Es as [Es _].
        apply andb_true_iff in Hl. destruct Hl as [_ Hl].
        rewrite (attr_name_ok_xml_name k Es), (legal_scalar e Hl). reflexivity. }
      rewrite HA. repeat split. discriminate.
    + eexists. split; [reflexivity|].
      rewrite (sort_keys_map _ _ xml_tree).
      assert (HS : Forall (fun kv : str * xval => legal (fst kv) = true /\ tree_ok (snd kv)) (sort_keys l)).
      { apply Forall_sort_keys. rewrite Forall_forall in *. rewrite forallb_forall in Hl. intros kv Hin.
        specialize (Hl kv Hin). apply andb_true_iff in Hl. destruct Hl as [Lk Lv]. split; [exact Lk|].
        apply IH; assumption. }
      set (G := fun kv : str * list node => El s_entry [(s_key, fst kv)] (snd kv)).
      assert (HK : forallb wf_node (map G (map (fun kv => (fst kv, xml_tree (snd kv))) (sort_keys l))) = true /\
                   forallb unmixed (map G (map (fun kv => (fst kv, xml_tree (snd kv))) (sort_keys l))) = true /\
                   forallb is_el (map G (map (fun kv => (fst kv, xml_tree (snd kv))) (sort_keys l))) = true).
      { induction (sort_keys l) as [|[k e] sl IHl]; [repeat split|].
        inversion HS as [|? ? [Lk Te] Hr]; subst. cbn [fst snd] in Lk, Te.
        destruct (IHl Hr) as [W [U E]].
        assert (Ha : forallb (fun kv : str * str => xml_name (fst kv) && legal (snd kv)) [(s_key, k)] = true).
        { cbn [forallb fst snd]. rewrite Lk. reflexivity. }
        destruct (entry_node_ok [(s_key, k)] e Te Ha eq_refl) as [We Ue].
        cbn [map forallb]. unfold G at 1 3 5. cbn [fst snd]. rewrite We, Ue, W, U, E. repeat split. }
      destruct HK as [W [U E]].
      cbn [wf_node unmixed]. rewrite W, U, E, orb_true_r. repeat split. discriminate.
  - cbn [legal_val] in Hl. destruct (IH Hl) as [r [Er [Hw [Hu [He Hs]]]]].
    exists r. cbn [xml_tree is_container scalar_str]. repeat split; assumption.
Qed.

(* ====================================================================== *)
(*  composition: export, then parse                                       *)
(* ====================================================================== *)

Lemma skip_prolog_prolog : forall out, skip_prolog (prolog ++ out) = Some (10 :: out).
Proof. intro out. reflexivity. Qed.

Theorem xml_export_parses : forall tt ta, xml_table_ok tt ta = true ->
  forall v, legal_val v = true -> is_container v = true ->
  exists root out, xml_tree v = [root] /\ is_el root = true /\
    xml_export tt ta v = Some out /\ xml_parse out = Some (canon root).
Proof.
  intros tt ta Hok v Hl Hc.
  destruct (xml_tree_ok v Hl) as [r [Er [Hw [Hu [He _]]]]]. rewrite Hc in He.
  exists r, (prolog ++ emit tt ta false true 0 r). split; [exact Er|]. split; [exact He|]. split.
  - unfold xml_export. rewrite xml_ops_tree, Er. cbn [flat_map].
    pose proof (proj1 (writer_emits tt ta false true r He Hu (-1)%Z [] [])) as H.
    change (stA [] (-1)) with w_init in H. change (cfg tt ta false true) with (xml_cfg tt ta) in H.
    rewrite H. cbn [run prepend]. rewrite app_nil_r. reflexivity.
  - unfold xml_parse. rewrite skip_prolog_prolog.
    change (10 :: emit tt ta false true 0 r) with ([10] ++ emit tt ta false true 0 r).
    rewrite (fragment_parse tt ta Hok false true [10] 0 r); try assumption.
    + destruct r as [n a k|s]; [reflexivity|discriminate].
    + constructor; [right; reflexivity|constructor].
Qed.

(* ====================================================================== *)
(*  reading the value back                                                *)
(* ====================================================================== *)

Lemma proj_scalar : forall v, is_container v = false -> proj v = DS (scalar_str v).
Proof. induction v as [s|l|l|b v IH]; intro H; try discriminate; [reflexivity|apply IH; exact H]. Qed.

Lemma canon_kids_all_el : forall K, forallb is_el K = true ->
  (if forallb is_tx K then tx_join K else map canon K) = map canon K.
Proof.
  intros [|x K] H; [reflexivity|]. cbn [forallb] in H. apply andb_true_iff in H. destruct H as [Hx _].
  destruct x; [reflexivity|discriminate].
Qed.

Definition decodes (v : xval) : Prop :=
  forall r, xml_tree v = [r] -> is_el r = true -> xml_decode (canon r) = Some (proj v).

(* the canonical content of an entry element decodes to the projected value *)
Lemma entry_decodes : forall e, tree_ok e -> decodes e ->
  entry_content xml_decode (if forallb is_tx (xml_tree e) then tx_join (xml_tree e) else map canon (xml_tree e))
  = Some (proj e).
Proof.
  intros e [r [Er [_ [_ [He Hs]]]]] Hd. rewrite Er.
  destruct r as [n a k|s].
  - cbn [forallb is_tx andb map entry_content]. apply Hd; [exact Er|reflexivity].
  - cbn [is_el] in He. symmetry in He. specialize (Hs He). inversion Hs as [Es].
    rewrite (proj_scalar e He). cbn [forallb is_tx andb]. unfold tx_join. cbn [tx_concat]. rewrite app_nil_r.
    rewrite <- Es. destruct s; reflexivity.
Qed.

Theorem xml_tree_decodes : forall v, legal_val v = true -> decodes v.
Proof.
  induction v as [s|l IH|l IH|b v IH] using xval_ind'; intros Hl r Er Hel.
  - inversion Er; subst. discriminate.
  - rewrite xml_tree_VL in Er. inversion Er; subst r. clear Er.
    cbn [legal_val] in Hl.
    set (K := map (fun e => El s_entry [] (xml_tree e)) l).
    assert (HK : forallb is_el K = true).
    { unfold K. clear. induction l; [reflexivity|]. cbn [map forallb is_el andb]. assumption. }
    cbn [canon]. rewrite (canon_kids_all_el K HK).
    cbn [xml_decode]. change (str_eqb s_list s_list) with true. cbv iota.
    assert (HA : all_some (fun k => match k with
                                    | El en ea ek =>
                                        match ea with
                                        | [] => if str_eqb en s_entry then entry_content xml_decode ek else None
                                        | _ => None
                                        end
                                    | Tx _ => None
                                    end) (map canon K) = Some (map proj l)).
    { unfold K. clear K HK Hel. induction l as [|e l IHl]; [reflexivity|].
      inversion IH as [|? ? He Hr]; subst. cbn [forallb] in Hl. apply andb_true_iff in Hl. destruct Hl as [Le Lr].
      cbn [map all_some canon]. change (str_eqb s_entry s_entry) with true. cbv iota.
      rewrite (entry_decodes e (xml_tree_ok e Le) (He Le)). rewrite (IHl Hr Lr). reflexivity. }
    rewrite HA. reflexivity.
  - rewrite xml_tree_VM in Er. cbn [legal_val] in Hl. apply andb_true_iff in Hl. destruct Hl as [Hl Hd].
    destruct (is_simple l) eqn:Es.
    + inversion Er; subst r. clear Er.
      cbn [canon forallb]. change (tx_join []) with (@nil node).
      cbn [xml_decode]. change (str_eqb s_map s_list) with false. change (str_eqb s_map s_map) with true. cbv iota.
      cbn [proj]. do 2 f_equal.
      rewrite (sort_keys_map _ _ scalar_str), (sort_keys_map _ _ proj), map_map. cbn [fst snd].
      apply map_ext_in. intros [k e] Hin. cbn [fst snd].
      assert (Hin' : In (k, e) l) by (eapply Permutation_in; [apply Permutation_sym, sort_keys_perm|exact Hin]).
      unfold is_simple in Es. rewrite forallb_forall in Es. specialize (Es _ Hin').
      unfold entry_simple in Es. cbn [fst snd] in Es.
      apply andb_true_iff in Es. destruct Es as [Es _]. apply andb_true_iff in Es. destruct Es as [_ Es].
      apply negb_true_iff in Es. rewrite (proj_scalar e Es). reflexivity.
    + inversion Er; subst r. clear Er.
      rewrite (sort_keys_map _ _ xml_tree).
      assert (Hne : sort_keys l <> []).
      { intro E. pose proof (sort_keys_perm _ l) as P. rewrite E in P. apply Permutation_sym, Permutation_nil in P.
        subst l. discriminate. }
      assert (HS : Forall (fun kv : str * xval => tree_ok (snd kv) /\ decodes (snd kv)) (sort_keys l)).
      { apply Forall_sort_keys. rewrite Forall_forall in *. rewrite forallb_forall in Hl. intros kv Hin.
        specialize (Hl kv Hin). apply andb_true_iff in Hl. destruct Hl as [_ Lv].
        split; [apply xml_tree_ok; exact Lv|apply IH; assumption]. }
      cbn [proj]. rewrite (sort_keys_map _ _ proj).
      set (G := fun kv : str * list node => El s_entry [(s_key, fst kv)] (snd kv)).
      set (K := map G (map (fun kv => (fst kv, xml_tree (snd kv))) (sort_keys l))).
      assert (HK : forallb is_el K = true).
      { unfold K. clear. induction (sort_keys l); [reflexivity|]. cbn [map forallb]. unfold G at 1. cbn [is_el andb]. assumption. }
      cbn [canon]. rewrite (canon_kids_all_el K HK).
      cbn [xml_decode]. change (str_eqb s_map s_list) with false. change (str_eqb s_map s_map) with true. cbv iota.
      assert (HA : all_some (fun k => match k with
                                      | El en ea ek =>
                                          match ea with
                                          | [(a, key)] =>
                                              if str_eqb en s_entry && str_eqb a s_key
                                              then match entry_content xml_decode ek with
                                                   | Some x => Some (key, x)
                                                   | None => None
                                                   end
                                              else None
                                          | _ => None
                                          end
                                      | Tx _ => None
                                      end) (map canon K) =
                   Some (map (fun kv => (fst kv, proj (snd kv))) (sort_keys l))).
      { unfold K. clear K HK Hel Hne. induction (sort_keys l) as [|[k e] sl IHl]; [reflexivity|].
        inversion HS as [|? ? [Te De] Hr]; subst. cbn [fst snd] in Te, De.
        cbn [map all_some]. unfold G at 1. cbn [fst snd canon].
        change (str_eqb s_entry s_entry) with true. change (str_eqb s_key s_key) with true. cbn [andb].
        rewrite (entry_decodes e Te De). rewrite (IHl Hr). reflexivity. }
      destruct (map canon K) as [|x0 K0] eqn:EK.
      { exfalso. unfold K in EK. destruct (sort_keys l); [congruence|discriminate]. }
      rewrite HA. reflexivity.
  - cbn [legal_val] in Hl. cbn [xml_tree] in Er. cbn [proj]. apply IH; assumption.
Qed.

(* ====================================================================== *)
(*  names never come from data (other than plain-name keys)               *)
(* ====================================================================== *)

Lemma canon_plain : forall n, plain_names n = true -> plain_names (canon n) = true.
Proof.
  induction n as [s|name a kids IH] using node_ind'; intro H; [reflexivity|].
  cbn [plain_names canon] in *. apply andb_true_iff in H. destruct H as [H Hk]. rewrite H. cbn [andb].
  destruct (forallb is_tx kids).
  - unfold tx_join. destruct (tx_concat kids); reflexivity.
  - rewrite forallb_forall in *. rewrite Forall_forall in IH. intros x Hx.
    apply in_map_iff in Hx. destruct Hx as [y [Ey Hy]]. subst x. apply IH; [exact Hy|apply Hk; exact Hy].
Qed.

Theorem xml_tree_plain_names : forall v, forallb plain_names (xml_tree v) = true.
Proof.
  induction v as [s|l IH|l IH|b v IH] using xval_ind'.
  - reflexivity.
  - rewrite xml_tree_VL. cbn [forallb plain_names existsb]. change (str_eqb s_list s_list) with true. cbn [orb andb].
    rewrite andb_true_r. induction l as [|e l IHl]; [reflexivity|].
    inversion IH as [|? ? He Hr]; subst. cbn [map forallb plain_names existsb].
    change (str_eqb s_entry s_list) with false. change (str_eqb s_entry s_entry) with true. cbn [orb andb].
    rewrite He, (IHl Hr). reflexivity.
  - rewrite xml_tree_VM. destruct (is_simple l) eqn:Es.
    + cbn [forallb plain_names existsb]. change (str_eqb s_map s_list) with false.
      change (str_eqb s_map s_entry) with false. change (str_eqb s_map s_map) with true. cbn [orb andb].
      rewrite !andb_true_r. rewrite (sort_keys_map _ _ scalar_str). rewrite forallb_forall. intros kv Hin.
      apply in_map_iff in Hin. destruct Hin as [[k e] [Ekv Hin]]. subst kv. cbn [fst snd].
      assert (Hin' : In (k, e) l) by (eapply Permutation_in; [apply Permutation_sym, sort_keys_perm|exact Hin]).
      unfold is_simple in Es. rewrite forallb_forall in Es. specialize (Es _ Hin').
      unfold entry_simple in Es. cbn [fst snd] in Es.
      apply andb_true_iff in Es. destruct Es as [Es _]. apply andb_true_iff in Es. destruct Es as [Es _].
      rewrite Es. apply orb_true_r.
    + cbn [forallb plain_names existsb]. change (str_eqb s_map s_list) with false.
      change (str_eqb s_map s_entry) with false. change (str_eqb s_map s_map) with true. cbn [orb andb].
      rewrite andb_true_r. rewrite (sort_keys_map _ _ xml_tree).
      pose proof (Forall_sort_keys _ _ _ IH) as HS.
      induction (sort_keys l) as [|[k e] sl IHl]; [reflexivity|].
      inversion HS as [|? ? He Hr]; subst. cbn [snd] in He.
      cbn [map forallb plain_names existsb fst snd].
      change (str_eqb s_entry s_list) with false. change (str_eqb s_entry s_entry) with true.
      change (str_eqb s_key s_key) with true. cbn [orb andb].
      rewrite He, (IHl Hr). reflexivity.
  - exact IH.
Qed.

(* ====================================================================== *)
(*  the statements used by Props/C18.v                                    *)
(* ====================================================================== *)

Theorem attr_value_roundtrip : forall tt ta, xml_table_ok tt ta = true ->
  forall s rest, legal s = true -> attval (S (length s)) (esc_str ta s ++ 34 :: rest) [] = Some (s, rest).
Proof. intros tt ta Hok s rest Hl. apply (attval_str tt ta Hok s rest [] _ Hl). lia. Qed.

Theorem writer_wellformed : forall tt ta, xml_table_ok tt ta = true ->
  forall (av pr : bool) (n : node), is_el n = true -> wf_node n = true -> unmixed n = true ->
  exists out, run (mkCfg av pr tt ta) w_init (ops_of n) = Some (out, w_init) /\
              xml_fragment out = Some [canon n].
Proof. exact writer_wellformed_cfg. Qed.

Theorem exporter_ops_ok : forall v, legal_val v = true ->
  exists r, xml_ops v = ops_of r /\ tree_of (xml_ops v) = Some [r] /\
            wf_node r = true /\ unmixed r = true /\ plain_names r = true /\ is_el r = is_container v.
Proof.
  intros v Hl. destruct (xml_tree_ok v Hl) as [r [Er [Hw [Hu [He _]]]]]. exists r.
  assert (E : xml_ops v = ops_of r) by (rewrite xml_ops_tree, Er; cbn [flat_map]; apply app_nil_r).
  pose proof (xml_tree_plain_names v) as P. rewrite Er in P. cbn [forallb] in P. rewrite andb_true_r in P.
  rewrite E, tree_of_ops_of. repeat split; assumption.
Qed.

Theorem no_injection : forall tt ta, xml_table_ok tt ta = true ->
  forall v, legal_val v = true -> is_container v = true ->
  exists out root, xml_export tt ta v = Some out /\ xml_parse out = Some root /\
                   plain_names root = true /\ xml_decode root = Some (proj v).
Proof.
  intros tt ta Hok v Hl Hc.
  destruct (xml_export_parses tt ta Hok v Hl Hc) as [r [out [Er [He [Ex Ep]]]]].
  exists out, (canon r). split; [exact Ex|]. split; [exact Ep|]. split.
  - apply canon_plain. pose proof (xml_tree_plain_names v) as P. rewrite Er in P.
    cbn [forallb] in P. rewrite andb_true_r in P. exact P.
  - apply (xml_tree_decodes v Hl r Er He).
Qed.

(* ====================================================================== *)
(*  forests at top level (fragments as ToHtml writes them)                *)
(* ====================================================================== *)

Lemma tree_of_f_forest : forall f cur b, tree_of_f (flat_map ops_of f) cur [] b = Some (rev cur ++ f).
Proof.
  induction f as [|n f IH]; intros cur b.
  - simpl. rewrite app_nil_r. reflexivity.
  - cbn [flat_map]. rewrite tree_of_f_ops, IH. cbn [rev]. rewrite <- app_assoc. reflexivity.
Qed.

Theorem tree_of_forest : forall f, tree_of (flat_map ops_of f) = Some f.
Proof. intro f. unfold tree_of. rewrite tree_of_f_forest. reflexivity. Qed.

(* ---------- a balanced call sequence never makes the writer panic ---------- *)

Lemma do_open_stack : forall c tag st, w_open (snd (do_open c tag st)) = tag :: w_open st.
Proof.
  intros c tag [o d i t]. unfold do_open, write_raw, check_open_tag, check_indent, new_line.
  destruct i, t, (c_pretty c); reflexivity.
Qed.

Lemma do_write_stack : forall c s st, w_open (snd (do_write c s st)) = w_open st.
Proof.
  intros c s [o d i t]. unfold do_write, check_open_tag, check_indent.
  destruct i, t, (c_pretty c); reflexivity.
Qed.

Lemma do_attr_state : forall c k v st, snd (do_attr c k v st) = st.
Proof. intros c k v [o d i t]. unfold do_attr. destruct t; reflexivity. Qed.

Lemma do_close_stack : forall c st top rest, w_open st = top :: rest ->
  exists ch st', do_close c st = Some (ch, st') /\ w_open st' = rest.
Proof.
  intros c [o d i t] top rest H. cbn [w_open] in H. subst o.
  unfold do_close, write_raw, check_open_tag, check_indent, new_line.
  destruct i, t, (c_avoid c), (c_pretty c); cbn; eexists; eexists; split; reflexivity.
Qed.

Lemma run_cons_gen : forall c st o ops,
  run c st (o :: ops) =
  match step c st o with Some (ch, st1) => prepend ch (run c st1 ops) | None => None end.
Proof. intros. cbn [run]. destruct (step c st o) as [[ch st1]|]; reflexivity. Qed.

Definition total_node (c : wcfg) (n : node) : Prop :=
  forall st more, exists ch st',
    run c st (ops_of n ++ more) = prepend ch (run c st' more) /\ w_open st' = w_open st.

Lemma run_total_forest : forall c f, Forall (total_node c) f -> forall st more, exists ch st',
  run c st (flat_map ops_of f ++ more) = prepend ch (run c st' more) /\ w_open st' = w_open st.
Proof.
  intros c. induction f as [|n f IH]; intros HF st more.
  - exists [], st. split; [rewrite prepend_nil; reflexivity|reflexivity].
  - inversion HF as [|? ? Hn Hf]; subst. cbn [flat_map]. rewrite <- app_assoc.
    destruct (Hn st (flat_map ops_of f ++ more)) as [c1 [st1 [E1 O1]]].
    destruct (IH Hf st1 more) as [c2 [st2 [E2 O2]]].
    exists (c1 ++ c2), st2. split; [rewrite E1, E2, prepend_app; reflexivity|congruence].
Qed.

Lemma run_total_attrs : forall c a st more, exists ch,
  run c st (map (fun kv => OAttr (fst kv) (snd kv)) a ++ more) = prepend ch (run c st more).
Proof.
  intros c. induction a as [|[k v] a IH]; intros st more.
  - exists []. rewrite prepend_nil. reflexivity.
  - cbn [map app fst snd]. rewrite run_cons_gen. cbn [step].
    pose proof (do_attr_state c k v st) as E. destruct (do_attr c k v st) as [c1 st1]. cbn [snd] in E. subst st1.
    destruct (IH st more) as [c2 E2]. exists (c1 ++ c2). rewrite E2, prepend_app. reflexivity.
Qed.

Theorem run_total : forall c n, total_node c n.
Proof.
  intros c. induction n as [s|name a kids IH] using node_ind'; intros st more.
  - cbn [ops_of app]. rewrite run_cons_gen. cbn [step].
    pose proof (do_write_stack c s st) as E. destruct (do_write c s st) as [c1 st1]. cbn [snd] in E.
    exists c1, st1. split; [reflexivity|exact E].
  - cbn [ops_of app]. rewrite run_cons_gen. cbn [step].
    pose proof (do_open_stack c name st) as E. destruct (do_open c name st) as [c1 st1]. cbn [snd] in E.
    rewrite <- !app_assoc.
    destruct (run_total_attrs c a st1 (flat_map ops_of kids ++ [OClose] ++ more)) as [c2 E2]. rewrite E2.
    destruct (run_total_forest c kids IH st1 ([OClose] ++ more)) as [c3 [st3 [E3 O3]]].
    rewrite E3. cbn [app]. rewrite run_cons_gen. cbn [step].
    destruct (do_close_stack c st3 name (w_open st) ltac:(congruence)) as [c4 [st4 [E4 O4]]].
    rewrite E4. exists (((c1 ++ c2) ++ c3) ++ c4), st4. split; [rewrite !prepend_app; reflexivity|exact O4].
Qed.

(* every balanced call sequence runs to the end and leaves nothing open *)
Theorem run_forest_ok : forall c f, exists out st,
  run c w_init (flat_map ops_of f) = Some (out, st) /\ w_open st = [].
Proof.
  intros c f.
  destruct (run_total_forest c f ltac:(apply Forall_forall; intros; apply run_total) w_init []) as [ch [st [E O]]].
  rewrite app_nil_r in E. exists (ch ++ []), st. split; [rewrite E; reflexivity|exact O].
Qed.

(* ---------- unmixed forests parse back ---------- *)

Section Forest.
Variables tt ta : esc_table.
Hypothesis Hok : xml_table_ok tt ta = true.
Variables av pr : bool.

Lemma write_A0 : forall s,
  step (cfg tt ta av pr) (stA [] (-1)) (OWrite s) = Some (esc_str tt s, stC [] (-1)).
Proof. intros. unfold cfg. destruct pr; reflexivity. Qed.

Theorem forest_wellformed : forall f, unmixed_forest f = true -> forallb wf_node f = true ->
  exists out st, run (cfg tt ta av pr) w_init (flat_map ops_of f) = Some (out, st) /\
                 xml_fragment out = Some (canon_forest f).
Proof.
  intros f Hu Hw. unfold unmixed_forest in Hu. apply andb_true_iff in Hu. destruct Hu as [Hmix Hun].
  unfold canon_forest. destruct (forallb is_tx f) eqn:Etx.
  - (* character data only *)
    destruct f as [|x f'].
    + exists [], w_init. split; reflexivity.
    + pose proof (all_tx_legal (x :: f') Etx Hw) as Hl.
      pose proof (all_tx_core tt ta av pr 0 (x :: f') Etx) as Ec.
      cbn [forallb] in Etx. apply andb_true_iff in Etx. destruct Etx as [Ex Er].
      destruct x as [|s]; [discriminate|].
      exists (esc_str tt (tx_concat (Tx s :: f'))), (stC [] (-1)). split.
      * cbn [flat_map ops_of app]. change w_init with (stA [] (-1)).
        rewrite run_cons, write_A0.
        rewrite <- (app_nil_r (flat_map ops_of f')).
        rewrite (run_text_C tt ta av pr 0 f' [] (-1)%Z [] Er).
        cbn [run prepend]. rewrite app_nil_r. rewrite <- Ec. reflexivity.
      * unfold xml_fragment. set (S0 := tx_concat (Tx s :: f')) in *.
        assert (HF : (length (esc_str tt S0 ++ []) < S (length (esc_str tt S0)))%nat) by (rewrite app_nil_r; lia).
        destruct (content_text tt ta Hok S0 [] [] [] _ Hl HF) as [f1 [Hf1 E1]].
        rewrite app_nil_r in E1. rewrite E1.
        destruct f1 as [|g]; [simpl in Hf1; lia|].
        cbn [content]. rewrite finish_text. unfold tx_join. fold S0. destruct S0; reflexivity.
  - (* elements only *)
    assert (Hels : forallb is_el f = true) by exact Hmix.
    assert (Hne : f <> []) by (intro; subst; discriminate).
    assert (HE : Forall (emits tt ta av pr) f).
    { rewrite Forall_forall. rewrite forallb_forall in Hels, Hun. intros n Hin. apply writer_emits; auto. }
    assert (HC : Forall (core_ok tt ta av pr) f).
    { rewrite Forall_forall. rewrite forallb_forall in Hels, Hun, Hw. intros n Hin. apply core_parse; auto. }
    exists (kids_str tt ta av pr 0 f), (stA [] (-1)). split.
    + pose proof (run_kids_A tt ta av pr f HE (-1)%Z [] []) as H. rewrite app_nil_r in H.
      change w_init with (stA [] (-1)). rewrite H. cbn [run prepend]. rewrite app_nil_r. reflexivity.
    + unfold xml_fragment.
      assert (HF : (length (kids_str tt ta av pr 0 f ++ []) < S (length (kids_str tt ta av pr 0 f)))%nat)
        by (rewrite app_nil_r; lia).
      destruct (kids_parse tt ta av pr 0 f HC [] [] [] _ eq_refl HF) as [f1 [p1 [Hp1 [Hf1 E1]]]].
      rewrite app_nil_r in E1. rewrite E1.
      destruct f1 as [|g]; [simpl in Hf1; lia|].
      cbn [content]. unfold finish. rewrite (existsb_rev_map_canon f Hne Hels).
      rewrite (flush_ws p1 _ Hp1). rewrite app_nil_r, rev_involutive. reflexivity.
Qed.

End Forest.
