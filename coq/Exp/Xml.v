(* Model of value/export/xmlWriter/xmlWriter.go (the XMLWriter state machine), of the XML exporter
   (value/export/xml.go on top of export.go), and a specification parser for the emitted XML subset.

   Implementation side (follows the Go code branch by branch):
   - [step cfg st op]   one call of Open / Attr / Close / Write / WriteHTML on a writer in state [st];
                        it returns the bytes appended to the buffer and the new state, [None] = Go panic
                        (Close with nothing open).  [c_text]/[c_attr] are writeEsc(s,false)/writeEsc(s,true)
                        as total per-rune tables, regenerated from /repo on every run (Generated/XmlEscapes.v).
   - [xml_ops v]        the calls the XML exporter issues for the value [v] (Export + xmlExporter,
                        xmlListExporter, xmlMapExporter incl. isSimpleMap / isAttrName).
   - [xml_export]       prolog + the writer run (PrettyPrint, short tags allowed), i.e. export.XML().

   Specification side:
   - [content]/[xml_fragment]/[xml_parse]  a parser for the XML 1.0 subset the writer can emit: elements,
                        double-quoted attributes (unique names), character data, the five predefined entities,
                        numeric character references, line-end and attribute-value normalisation; white space
                        that only formats element content is not data.  It accepts a subset of XML 1.0.
   - [xml_decode]       how a reader of the documented format gets the value back (list/entry/map/key).
   - [proj]             what must come back: lists in order, maps with their keys (sorted), scalars as text. *)
From P2 Require Import Base.Prelude Exp.Json.
Local Open Scope N_scope.

(* ====================================================================== *)
(*  The writer                                                            *)
(* ====================================================================== *)

Inductive op :=
| OOpen (tag : str)
| OAttr (k v : str)
| OClose
| OWrite (s : str)
| ORaw (s : list N).          (* WriteHTML: caller supplied markup, written as it is *)

Record wcfg := mkCfg {
  c_avoid : bool;             (* AvoidShort() *)
  c_pretty : bool;            (* PrettyPrint() *)
  c_text : esc_table;         (* writeEsc(s, false) per rune *)
  c_attr : esc_table }.       (* writeEsc(s, true) per rune *)

Record wstate := mkW {
  w_open : list str;          (* innermost first *)
  w_depth : Z;
  w_inline : bool;
  w_tagopen : bool }.

(* New(): depth -1, nothing open *)
Definition w_init : wstate := mkW [] (-1)%Z false false.

Definition tabs (d : Z) : list N := repeat 9 (Z.to_nat d).

Definition check_open_tag (st : wstate) : list N * wstate :=
  if w_tagopen st then ([62], mkW (w_open st) (w_depth st) (w_inline st) false) else ([], st).

Definition check_indent (cfg : wcfg) (st : wstate) : list N * wstate :=
  if w_inline st then ([], st)
  else ((if c_pretty cfg then tabs (w_depth st) else []), mkW (w_open st) (w_depth st) true (w_tagopen st)).

Definition new_line (cfg : wcfg) (st : wstate) : list N * wstate :=
  if w_inline st
  then ((if c_pretty cfg then [10] else []), mkW (w_open st) (w_depth st) false (w_tagopen st))
  else ([], st).

(* the unexported write(s) *)
Definition write_raw (cfg : wcfg) (s : list N) (st : wstate) : list N * wstate :=
  let '(a, st1) := check_open_tag st in
  let '(b, st2) := check_indent cfg st1 in
  (a ++ b ++ s, st2).

Definition do_open (cfg : wcfg) (tag : str) (st : wstate) : list N * wstate :=
  let '(a, st1) := check_open_tag st in
  let '(b, st2) := new_line cfg st1 in
  let st3 := mkW (w_open st2) (w_depth st2 + 1)%Z (w_inline st2) (w_tagopen st2) in
  let '(c, st4) := check_indent cfg st3 in
  let '(d, st5) := write_raw cfg [60] st4 in
  let '(e, st6) := write_raw cfg tag st5 in
  (a ++ b ++ c ++ d ++ e, mkW (tag :: w_open st6) (w_depth st6) true true).

Definition do_attr (cfg : wcfg) (k v : str) (st : wstate) : list N * wstate :=
  if w_tagopen st then (32 :: k ++ 61 :: 34 :: esc_str (c_attr cfg) v ++ [34], st)
  else ([], st).                                       (* log.Print("tag is not open") *)

Definition do_close (cfg : wcfg) (st : wstate) : option (list N * wstate) :=
  if w_tagopen st && negb (c_avoid cfg) then
    match w_open st with
    | [] => None
    | _ :: rest =>
        let st1 := mkW rest (w_depth st - 1)%Z (w_inline st) false in
        let '(e, st2) := new_line cfg st1 in
        Some (47 :: 62 :: e, st2)
    end
  else
    let '(a, st1) := check_indent cfg st in
    let st2 := mkW (w_open st1) (w_depth st1 - 1)%Z (w_inline st1) (w_tagopen st1) in
    let '(b, st3) := write_raw cfg [60; 47] st2 in
    match w_open st3 with
    | [] => None                                       (* w.open[len(w.open)-1] panics *)
    | top :: rest =>
        let '(c, st4) := write_raw cfg top st3 in
        let '(d, st5) := write_raw cfg [62] st4 in
        let st6 := mkW rest (w_depth st5) (w_inline st5) (w_tagopen st5) in
        let '(e, st7) := new_line cfg st6 in
        Some (a ++ b ++ c ++ d ++ e, st7)
    end.

Definition do_write (cfg : wcfg) (s : str) (st : wstate) : list N * wstate :=
  let '(a, st1) := check_open_tag st in
  let '(b, st2) := check_indent cfg st1 in
  (a ++ b ++ esc_str (c_text cfg) s, st2).

Definition do_raw (s : list N) (st : wstate) : list N * wstate :=
  let '(a, st1) := check_open_tag st in (a ++ s, st1).

Definition step (cfg : wcfg) (st : wstate) (o : op) : option (list N * wstate) :=
  match o with
  | OOpen tag => Some (do_open cfg tag st)
  | OAttr k v => Some (do_attr cfg k v st)
  | OClose => do_close cfg st
  | OWrite s => Some (do_write cfg s st)
  | ORaw s => Some (do_raw s st)
  end.

(* the buffer contents after a sequence of calls, and the final state *)
Fixpoint run (cfg : wcfg) (st : wstate) (ops : list op) : option (list N * wstate) :=
  match ops with
  | [] => Some ([], st)
  | o :: r =>
      match step cfg st o with
      | None => None
      | Some (c, st1) =>
          match run cfg st1 r with
          | Some (x, st2) => Some (c ++ x, st2)
          | None => None
          end
      end
  end.

(* ====================================================================== *)
(*  Element trees and the calls that write them                           *)
(* ====================================================================== *)

Inductive node :=
| El (name : str) (attrs : list (str * str)) (kids : list node)
| Tx (s : str).

Definition is_tx (n : node) : bool := match n with Tx _ => true | El _ _ _ => false end.
Definition is_el (n : node) : bool := match n with Tx _ => false | El _ _ _ => true end.

(* the balanced call sequences are exactly the images of forests under [ops_of] *)
Fixpoint ops_of (n : node) : list op :=
  match n with
  | Tx s => [OWrite s]
  | El name attrs kids =>
      OOpen name :: map (fun kv => OAttr (fst kv) (snd kv)) attrs ++ flat_map ops_of kids ++ [OClose]
  end.

(* reading a call sequence back as a forest: [None] if it is not balanced or sets an attribute
   outside an open tag *)
Fixpoint tree_of_f (ops : list op) (cur : list node) (stack : list (str * list (str * str) * list node))
  (attr_ok : bool) : option (list node) :=
  match ops with
  | [] => match stack with [] => Some (rev cur) | _ => None end
  | OOpen tag :: r =>
      tree_of_f r [] ((tag, [], cur) :: stack) true
  | OAttr k v :: r =>
      if attr_ok then
        match stack with
        | (tag, a, up) :: st => tree_of_f r cur ((tag, (k, v) :: a, up) :: st) true
        | [] => None
        end
      else None
  | OClose :: r =>
      match stack with
      | (tag, a, up) :: st => tree_of_f r (El tag (rev a) (rev cur) :: up) st false
      | [] => None
      end
  | OWrite s :: r => tree_of_f r (Tx s :: cur) stack false
  | ORaw _ :: r => None
  end.

Definition tree_of (ops : list op) : option (list node) := tree_of_f ops [] [] false.

(* ====================================================================== *)
(*  The XML exporter                                                      *)
(* ====================================================================== *)

(* values as the exporter sees them: scalars through ToString, map entries in iteration order,
   Format (is_format = true) and Link (false) wrappers *)
Inductive xval :=
| VS (s : str)
| VL (l : list xval)
| VM (l : list (str * xval))
| VW (is_format : bool) (v : xval).

Definition s_list : str := [108; 105; 115; 116].
Definition s_entry : str := [101; 110; 116; 114; 121].
Definition s_map : str := [109; 97; 112].
Definition s_key : str := [107; 101; 121].

(* ToString of a (wrapped) scalar *)
Fixpoint scalar_str (v : xval) : str :=
  match v with
  | VS s => s
  | VW _ v => scalar_str v
  | _ => []
  end.

(* ToList() or ToMap() succeeds (the wrappers delegate to the wrapped value) *)
Fixpoint is_container (v : xval) : bool :=
  match v with
  | VL _ | VM _ => true
  | VW _ v => is_container v
  | VS _ => false
  end.

Definition is_alpha_ (c : N) : bool :=
  ((97 <=? c) && (c <=? 122)) || ((65 <=? c) && (c <=? 90)) || (c =? 95).
Definition is_digit_dash_dot (c : N) : bool :=
  ((48 <=? c) && (c <=? 57)) || (c =? 45) || (c =? 46).
Definition lower (c : N) : N := if (65 <=? c) && (c <=? 90) then c + 32 else c.

(* xml.go isAttrName *)
Definition attr_name_ok (k : str) : bool :=
  match k with
  | [] => false
  | c :: r =>
      negb (match k with
            | a :: b :: d :: _ => (lower a =? 120) && (lower b =? 109) && (lower d =? 108)
            | _ => false
            end) &&
      is_alpha_ c && forallb (fun x => is_alpha_ x || is_digit_dash_dot x) r
  end.

(* xml.go isSimpleMap: per entry *)
Definition entry_simple (kv : str * xval) : bool :=
  attr_name_ok (fst kv) && negb (is_container (snd kv)) &&
  match snd kv with VW true _ => false | _ => true end.

Definition is_simple (l : list (str * xval)) : bool := forallb entry_simple l.

Fixpoint xml_ops (v : xval) : list op :=
  match v with
  | VS s => [OWrite s]
  | VW _ v => xml_ops v
  | VL l => OOpen s_list :: flat_map (fun e => OOpen s_entry :: xml_ops e ++ [OClose]) l ++ [OClose]
  | VM l =>
      if is_simple l then
        OOpen s_map ::
        map (fun kv => OAttr (fst kv) (snd kv)) (sort_keys (map (fun kv => (fst kv, scalar_str (snd kv))) l))
        ++ [OClose]
      else
        OOpen s_map ::
        flat_map (fun kv => OOpen s_entry :: OAttr s_key (fst kv) :: snd kv ++ [OClose])
                 (sort_keys (map (fun kv => (fst kv, xml_ops (snd kv))) l))
        ++ [OClose]
  end.

(* "<?xml version="1.0" encoding="UTF-8" standalone="yes" ?>\n" *)
Definition prolog : list N :=
  [60;63;120;109;108;32;118;101;114;115;105;111;110;61;34;49;46;48;34;32;101;110;99;111;100;105;110;103;61;34;
   85;84;70;45;56;34;32;115;116;97;110;100;97;108;111;110;101;61;34;121;101;115;34;32;63;62;10].

Definition xml_cfg (tt ta : esc_table) : wcfg := mkCfg false true tt ta.

(* export.XML() after Export: [None] = panic *)
Definition xml_export (tt ta : esc_table) (v : xval) : option (list N) :=
  match run (xml_cfg tt ta) w_init (xml_ops v) with
  | Some (out, _) => Some (prolog ++ out)
  | None => None
  end.

(* ====================================================================== *)
(*  Specification: the element tree a value must be written as            *)
(* ====================================================================== *)

Fixpoint xml_tree (v : xval) : list node :=
  match v with
  | VS s => [Tx s]
  | VW _ v => xml_tree v
  | VL l => [El s_list [] (map (fun e => El s_entry [] (xml_tree e)) l)]
  | VM l =>
      if is_simple l then
        [El s_map (sort_keys (map (fun kv => (fst kv, scalar_str (snd kv))) l)) []]
      else
        [El s_map [] (map (fun kv => El s_entry [(s_key, fst kv)] (snd kv))
                          (sort_keys (map (fun kv => (fst kv, xml_tree (snd kv))) l)))]
  end.


(* element names are the exporter's constants; an attribute is "key" or a map key that is a plain ASCII name *)
Fixpoint plain_names (n : node) : bool :=
  match n with
  | Tx _ => true
  | El name a kids =>
      existsb (str_eqb name) [s_list; s_entry; s_map] &&
      forallb (fun kv => str_eqb (fst kv) s_key || attr_name_ok (fst kv)) a &&
      forallb plain_names kids
  end.

(* ====================================================================== *)
(*  Specification: a parser for the emitted subset of XML 1.0             *)
(* ====================================================================== *)

Definition in_rng (lo hi c : N) : bool := (lo <=? c) && (c <=? hi).

(* production [2] Char *)
Definition is_xml_char (c : N) : bool :=
  (c =? 9) || (c =? 10) || (c =? 13) || in_rng 32 55295 c || in_rng 57344 65533 c || in_rng 65536 1114111 c.

(* productions [4] NameStartChar and [4a] NameChar (fifth edition) *)
Definition is_name_start (c : N) : bool :=
  (c =? 58) || in_rng 65 90 c || (c =? 95) || in_rng 97 122 c || in_rng 192 214 c || in_rng 216 246 c ||
  in_rng 248 767 c || in_rng 880 893 c || in_rng 895 8191 c || in_rng 8204 8205 c || in_rng 8304 8591 c ||
  in_rng 11264 12271 c || in_rng 12289 55295 c || in_rng 63744 64975 c || in_rng 65008 65533 c ||
  in_rng 65536 983039 c.

Definition is_name_char (c : N) : bool :=
  is_name_start c || (c =? 45) || (c =? 46) || in_rng 48 57 c || (c =? 183) || in_rng 768 879 c ||
  in_rng 8255 8256 c.

Definition xml_name (n : str) : bool :=
  match n with
  | c :: r => is_name_start c && forallb is_name_char r
  | [] => false
  end.

Fixpoint take_name (s : list N) : list N * list N :=
  match s with
  | c :: r => if is_name_char c then let '(n, r') := take_name r in (c :: n, r') else ([], s)
  | [] => ([], [])
  end.

Definition read_name (s : list N) : option (str * list N) :=
  match take_name s with
  | (c :: n, r) => if is_name_start c then Some (c :: n, r) else None
  | ([], _) => None
  end.

Definition is_space (c : N) : bool := (c =? 32) || (c =? 9) || (c =? 10) || (c =? 13).

Fixpoint skip_sp (s : list N) : list N :=
  match s with
  | c :: r => if is_space c then skip_sp r else s
  | [] => []
  end.

Fixpoint strip (p s : list N) : option (list N) :=
  match p, s with
  | [], _ => Some s
  | a :: p', b :: s' => if a =? b then strip p' s' else None
  | _ :: _, [] => None
  end.

(* ---------- references (the input starts behind the ampersand) ---------- *)

Definition digit_val (base : N) (c : N) : option N :=
  if base =? 16 then hexval c
  else if (48 <=? c) && (c <=? 57) then Some (c - 48) else None.

(* digits up to the semicolon *)
Fixpoint number (base : N) (s : list N) (acc : N) : option (N * list N) :=
  match s with
  | [] => None
  | c :: r =>
      if c =? 59 then Some (acc, r)
      else match digit_val base c with
           | Some h => number base r (acc * base + h)
           | None => None
           end
  end.

Definition char_ref (base : N) (s : list N) : option (N * list N) :=
  match s with
  | c :: _ =>
      match digit_val base c with
      | Some _ =>
          match number base s 0 with
          | Some (v, r) => if is_xml_char v then Some (v, r) else None
          | None => None
          end
      | None => None
      end
  | [] => None
  end.

(* lt; gt; amp; apos; quot; *)
Definition named_refs : list (list N * N) :=
  [([108; 116; 59], 60); ([103; 116; 59], 62); ([97; 109; 112; 59], 38);
   ([97; 112; 111; 115; 59], 39); ([113; 117; 111; 116; 59], 34)].

Fixpoint named (l : list (list N * N)) (s : list N) : option (N * list N) :=
  match l with
  | [] => None
  | (p, v) :: l' => match strip p s with Some r => Some (v, r) | None => named l' s end
  end.

Definition decode_ref (s : list N) : option (N * list N) :=
  match s with
  | c1 :: r1 =>
      if c1 =? 35 then
        match r1 with
        | c2 :: r2 => if c2 =? 120 then char_ref 16 r2 else char_ref 10 r1
        | [] => None
        end
      else named named_refs s
  | [] => None
  end.

(* ---------- one character of character data (not '<') ---------- *)

Definition text_char (c : N) (r : list N) : option (N * list N) :=
  if c =? 38 then decode_ref r
  else if c =? 62 then None                     (* never written raw; rejecting it also excludes "]]>" *)
  else if c =? 13 then                           (* 2.11 end-of-line handling *)
    match r with
    | c2 :: r' => if c2 =? 10 then Some (10, r') else Some (10, r)
    | [] => Some (10, r)
    end
  else if is_xml_char c then Some (c, r) else None.

(* ---------- one character of a double-quoted attribute value (not the quote) ---------- *)

Definition attr_char (c : N) (r : list N) : option (N * list N) :=
  if c =? 38 then decode_ref r
  else if c =? 60 then None
  else if c =? 13 then                           (* 2.11, then 3.3.3: one blank per line end *)
    match r with
    | c2 :: r' => if c2 =? 10 then Some (32, r') else Some (32, r)
    | [] => Some (32, r)
    end
  else if (c =? 9) || (c =? 10) then Some (32, r)    (* 3.3.3 attribute-value normalisation *)
  else if is_xml_char c then Some (c, r) else None.

(* the input starts behind the opening quote *)
Fixpoint attval (fuel : nat) (s : list N) (acc : list N) : option (str * list N) :=
  match fuel with
  | O => None
  | S f =>
      match s with
      | [] => None
      | c :: r =>
          if c =? 34 then Some (rev acc, r)
          else match attr_char c r with
               | Some (x, r') => attval f r' (x :: acc)
               | None => None
               end
      end
  end.

Inductive tagres :=
| TOpen (attrs : list (str * str)) (rest : list N)     (* ...> *)
| TEmpty (attrs : list (str * str)) (rest : list N)    (* .../> *)
| TBadTag.

(* the input starts behind the element name *)
Fixpoint attrs_loop (fuel : nat) (s : list N) (acc : list (str * str)) : tagres :=
  match fuel with
  | O => TBadTag
  | S f =>
      match s with
      | [] => TBadTag
      | c :: r =>
          if c =? 62 then TOpen (rev acc) r
          else if c =? 47 then
            match r with
            | c2 :: r2 => if c2 =? 62 then TEmpty (rev acc) r2 else TBadTag
            | [] => TBadTag
            end
          else if is_space c then
            match skip_sp r with
            | c2 :: r2 =>
                if (c2 =? 62) || (c2 =? 47) then attrs_loop f (c2 :: r2) acc
                else
                  match read_name (c2 :: r2) with
                  | Some (k, r3) =>
                      match r3 with
                      | e :: q :: r4 =>
                          if (e =? 61) && (q =? 34) then
                            match attval (S (length r4)) r4 [] with
                            | Some (v, r5) => attrs_loop f r5 ((k, v) :: acc)
                            | None => TBadTag
                            end
                          else TBadTag
                      | _ => TBadTag
                      end
                  | None => TBadTag
                  end
            | [] => TBadTag
            end
          else TBadTag
      end
  end.

Fixpoint nodup_keys {A} (l : list (str * A)) : bool :=
  match l with
  | [] => true
  | (k, _) :: r => negb (existsb (fun kv => str_eqb k (fst kv)) r) && nodup_keys r
  end.

(* ---------- content ---------- *)

Inductive cres :=
| CEnd (kids : list node) (rest : list N)     (* stopped at an end tag; rest starts behind "</" *)
| CEof (kids : list node)
| CBad.

Definition ws_only (s : list N) : bool := forallb is_space s.

(* pending character data is kept reversed; white space in front of a start tag is formatting *)
Definition flush (pend : list N) (acc : list node) : list node :=
  if ws_only pend then acc else Tx (rev pend) :: acc.

(* at the end of the content: white space is formatting if the content has child elements *)
Definition finish (pend : list N) (acc : list node) : list node :=
  rev (if existsb is_el acc then flush pend acc
       else match pend with [] => acc | _ => Tx (rev pend) :: acc end).

Fixpoint content (fuel : nat) (pend : list N) (acc : list node) (s : list N) : cres :=
  match fuel with
  | O => CBad
  | S f =>
      match s with
      | [] => CEof (finish pend acc)
      | c :: r =>
          if c =? 60 then
            match r with
            | [] => CBad
            | c2 :: r2 =>
                if c2 =? 47 then CEnd (finish pend acc) r2
                else
                  match read_name r with
                  | None => CBad                       (* also comments, CDATA sections, PIs *)
                  | Some (name, r3) =>
                      match attrs_loop (S (length r3)) r3 [] with
                      | TBadTag => CBad
                      | TEmpty attrs r4 =>
                          if nodup_keys attrs then content f [] (El name attrs [] :: flush pend acc) r4
                          else CBad
                      | TOpen attrs r4 =>
                          match content f [] [] r4 with
                          | CEnd kids r5 =>
                              match read_name r5 with
                              | Some (name2, r6) =>
                                  match skip_sp r6 with
                                  | c7 :: r7 =>
                                      if (c7 =? 62) && str_eqb name name2 && nodup_keys attrs
                                      then content f [] (El name attrs kids :: flush pend acc) r7
                                      else CBad
                                  | [] => CBad
                                  end
                              | None => CBad
                              end
                          | _ => CBad
                          end
                      end
                  end
            end
          else
            match text_char c r with
            | Some (x, r') => content f (x :: pend) acc r'
            | None => CBad
            end
      end
  end.

(* a well-formed fragment: balanced content *)
Definition xml_fragment (s : list N) : option (list node) :=
  match content (S (length s)) [] [] s with
  | CEof f => Some f
  | _ => None
  end.

Fixpoint find_pi_end (s : list N) : option (list N) :=
  match s with
  | [] => None
  | c :: r =>
      match r with
      | c2 :: r2 => if (c =? 63) && (c2 =? 62) then Some r2 else find_pi_end r
      | [] => None
      end
  end.

(* an XML declaration, if present, is skipped *)
Definition skip_prolog (s : list N) : option (list N) :=
  match strip [60; 63; 120; 109; 108; 32] s with
  | Some r => find_pi_end r
  | None => Some s
  end.

(* a document: optional XML declaration, exactly one root element, otherwise only white space *)
Definition xml_parse (s : list N) : option node :=
  match skip_prolog s with
  | Some r =>
      match xml_fragment r with
      | Some [El n a k] => Some (El n a k)
      | _ => None
      end
  | None => None
  end.

(* ---------- what the parser must return for a written tree ---------- *)

Fixpoint tx_concat (l : list node) : list N :=
  match l with
  | Tx s :: r => s ++ tx_concat r
  | El _ _ _ :: r => tx_concat r
  | [] => []
  end.

(* consecutive Write calls give one piece of character data, an empty one gives none *)
Definition tx_join (l : list node) : list node :=
  match tx_concat l with [] => [] | s => [Tx s] end.

Fixpoint canon (n : node) : node :=
  match n with
  | Tx s => Tx s
  | El name a kids => El name a (if forallb is_tx kids then tx_join kids else map canon kids)
  end.

(* no element mixes Write calls with child elements (true for everything the XML exporter writes) *)
Fixpoint unmixed (n : node) : bool :=
  match n with
  | Tx _ => true
  | El _ _ kids => (forallb is_tx kids || forallb is_el kids) && forallb unmixed kids
  end.

Definition legal (s : str) : bool := forallb is_xml_char s.

(* names are XML names, attribute names unique, all text consists of legal XML characters *)
Fixpoint wf_node (n : node) : bool :=
  match n with
  | Tx s => legal s
  | El name a kids =>
      xml_name name && forallb (fun kv => xml_name (fst kv) && legal (snd kv)) a && nodup_keys a &&
      forallb wf_node kids
  end.

(* the same rule for a forest written at top level *)
Definition canon_forest (f : list node) : list node :=
  if forallb is_tx f then tx_join f else map canon f.

Definition unmixed_forest (f : list node) : bool :=
  (forallb is_tx f || forallb is_el f) && forallb unmixed f.

(* decidable equality of trees *)
Fixpoint attrs_eqb (a b : list (str * str)) : bool :=
  match a, b with
  | [], [] => true
  | (k, v) :: a', (k', v') :: b' => str_eqb k k' && str_eqb v v' && attrs_eqb a' b'
  | _, _ => false
  end.

Fixpoint node_eqb (a b : node) {struct a} : bool :=
  match a, b with
  | Tx s, Tx t => str_eqb s t
  | El n x k, El n' x' k' =>
      str_eqb n n' && attrs_eqb x x' &&
      (fix go (l m : list node) : bool :=
         match l, m with
         | [], [] => true
         | p :: l', q :: m' => node_eqb p q && go l' m'
         | _, _ => false
         end) k k'
  | _, _ => false
  end.

Fixpoint forest_eqb (l m : list node) : bool :=
  match l, m with
  | [], [] => true
  | p :: l', q :: m' => node_eqb p q && forest_eqb l' m'
  | _, _ => false
  end.

(* ====================================================================== *)
(*  Specification: reading the value back from the documented format     *)
(* ====================================================================== *)

Inductive dval :=
| DS (s : str)
| DL (l : list dval)
| DM (l : list (str * dval)).

Section AllSome.
Context {A B : Type}.
Variable f : A -> option B.
Fixpoint all_some (l : list A) : option (list B) :=
  match l with
  | [] => Some []
  | x :: r =>
      match f x, all_some r with
      | Some y, Some ys => Some (y :: ys)
      | _, _ => None
      end
  end.
End AllSome.

(* the content of an entry: nothing (the empty string), character data, or one list/map element *)
Definition entry_content (dec : node -> option dval) (ek : list node) : option dval :=
  match ek with
  | [] => Some (DS [])
  | [x] => dec x
  | _ => None
  end.

Fixpoint xml_decode (n : node) : option dval :=
  match n with
  | Tx s => Some (DS s)
  | El name attrs kids =>
      if str_eqb name s_list then
        match attrs with
        | [] =>
            match all_some (fun k => match k with
                                     | El en ea ek =>
                                         match ea with
                                         | [] => if str_eqb en s_entry then entry_content xml_decode ek else None
                                         | _ => None
                                         end
                                     | Tx _ => None
                                     end) kids with
            | Some xs => Some (DL xs)
            | None => None
            end
        | _ => None
        end
      else if str_eqb name s_map then
        match kids with
        | [] => Some (DM (map (fun kv => (fst kv, DS (snd kv))) attrs))
        | _ =>
            match attrs with
            | [] =>
                match all_some (fun k => match k with
                                         | El en ea ek =>
                                             match ea with
                                             | [(a, key)] =>
                                                 if str_eqb en s_entry && str_eqb a s_key
                                                 then match entry_content xml_decode ek with
                                                      | Some x => Some (key, x)
                                                      | None => None
                                                      end
                                                 else None
                                             | _ => None
                                             end
                                         | Tx _ => None
                                         end) kids with
                | Some xs => Some (DM xs)
                | None => None
                end
            | _ => None
            end
        end
      else None
  end.

Fixpoint proj (v : xval) : dval :=
  match v with
  | VS s => DS s
  | VW _ v => proj v
  | VL l => DL (map proj l)
  | VM l => DM (sort_keys (map (fun kv => (fst kv, proj (snd kv))) l))
  end.

(* all strings and keys of the value consist of legal XML characters; keys of one map differ *)
Fixpoint legal_val (v : xval) : bool :=
  match v with
  | VS s => legal s
  | VW _ v => legal_val v
  | VL l => forallb legal_val l
  | VM l => forallb (fun kv => legal (fst kv) && legal_val (snd kv)) l && nodup_keys l
  end.

(* ====================================================================== *)
(*  The table obligation (decidable)                                      *)
(* ====================================================================== *)

Definition is_hex (c : N) : bool := match hexval c with Some _ => true | None => false end.

(* an exception to the identity must be a reference that the parser decodes to the character *)
Definition entry_ok (c : N) (o : list N) : bool :=
  existsb (fun f => str_eqb o (38 :: fst f) && (snd f =? c)) named_refs ||
  match strip [38; 35; 120] o with
  | Some r =>
      match r with
      | c0 :: _ =>
          is_hex c0 &&
          match number 16 r 0 with
          | Some (v, []) => (v =? c) && is_xml_char v
          | _ => false
          end
      | [] => false
      end
  | None => false
  end.

Definition must_escape_text : list N := [38; 60; 62; 13].
Definition must_escape_attr : list N := [38; 60; 34; 9; 10; 13].

Definition has_entry (tbl : esc_table) (c : N) : bool :=
  match assocN c tbl with Some _ => true | None => false end.

Definition xml_table_ok (tt ta : esc_table) : bool :=
  forallb (fun e => entry_ok (fst e) (snd e)) tt && forallb (has_entry tt) must_escape_text &&
  forallb (fun e => entry_ok (fst e) (snd e)) ta && forallb (has_entry ta) must_escape_attr.

(* code points whose escape is not accepted, for the replay when the obligation fails *)
Definition xml_bad_entries (tt ta : esc_table) : list N :=
  map fst (filter (fun e => negb (entry_ok (fst e) (snd e))) tt) ++
  filter (fun c => negb (has_entry tt c)) must_escape_text ++
  map fst (filter (fun e => negb (entry_ok (fst e) (snd e))) ta) ++
  filter (fun c => negb (has_entry ta c)) must_escape_attr.
