(* Model of value/export/json.go + export.go (JSON exporter) and a specification JSON decoder.

   - [esc tbl c] is jsonExporter.String on the one-rune string [c]; the table [tbl] of
     exceptions to the identity is regenerated from /repo on every run by sweeping the real
     function over all Unicode scalar values (Generated/Escapes.v).
   - [export tbl v] mirrors Export + jsonListExporter/jsonMapExporter (separator bookkeeping,
     keys sorted, scalars through their string form).
   - [json_parse] is the specification side: a decoder for the RFC 8259 subset consisting of
     whitespace, strings with every escape form (incl. \uXXXX and surrogate pairs), arrays and
     objects.  It accepts a subset of JSON, so "json_parse accepts" implies "a JSON parser accepts". *)
From P2 Require Import Base.Prelude.
Local Open Scope N_scope.

(* ---------- values as the exporter sees them ---------- *)

Inductive xv :=
| XS (s : str)                 (* a scalar, already through ToString *)
| XL (l : list xv)
| XM (l : list (str * xv))     (* entries in iteration order *)
| XW (is_format : bool) (v : xv).   (* export.Format (true) or export.Link (false) around a value *)

Inductive jv :=
| JStr (s : str)
| JArr (l : list jv)
| JObj (l : list (str * jv)).

(* ---------- the escaper ---------- *)

Definition esc_table := list (N * list N).

Definition esc (tbl : esc_table) (c : N) : list N :=
  match assocN c tbl with Some o => o | None => [c] end.

Definition esc_str (tbl : esc_table) (s : str) : list N := flat_map (esc tbl) s.

Definition quote : N := 34.
Definition bslash : N := 92.

Definition json_string (tbl : esc_table) (s : str) : list N :=
  quote :: esc_str tbl s ++ [quote].

(* ---------- sorting keys (sort.Strings) ---------- *)

Fixpoint ins_key {A} (k : str) (v : A) (l : list (str * A)) : list (str * A) :=
  match l with
  | [] => [(k, v)]
  | (k', v') :: r => if str_leb k k' then (k, v) :: l else (k', v') :: ins_key k v r
  end.

Fixpoint sort_keys {A} (l : list (str * A)) : list (str * A) :=
  match l with
  | [] => []
  | (k, v) :: r => ins_key k v (sort_keys r)
  end.

(* ---------- the exporter ---------- *)

Definition comma : N := 44.
Definition colon : N := 58.

Fixpoint sep_concat (parts : list (list N)) : list N :=
  match parts with
  | [] => []
  | [p] => p
  | p :: rest => p ++ comma :: sep_concat rest
  end.

Fixpoint export (tbl : esc_table) (v : xv) : list N :=
  match v with
  | XS s => json_string tbl s
  | XL l => 91 :: sep_concat (map (export tbl) l) ++ [93]
  | XM l =>
      123 :: sep_concat (map (fun kv => json_string tbl (fst kv) ++ colon :: snd kv)
                             (sort_keys (map (fun kv => (fst kv, export tbl (snd kv))) l)))
          ++ [125]
  | XW _ w => export tbl w        (* Export: case Format / case Link: return Export(st, v.Value, exporter) *)
  end.

(* a stack of wrappers around a value, outermost first *)
Definition wrap (ws : list bool) (v : xv) : xv := fold_right XW v ws.

(* what the document must decode to *)
Fixpoint jproj (v : xv) : jv :=
  match v with
  | XS s => JStr s
  | XL l => JArr (map jproj l)
  | XM l => JObj (sort_keys (map (fun kv => (fst kv, jproj (snd kv))) l))
  | XW _ w => jproj w             (* style and link wrappers carry no data *)
  end.

(* a wrapper stack around any sub-value (list element, map value, root) changes neither the bytes
   nor what they decode to: replace every wrapped sub-value by the value itself *)
Fixpoint strip_wrappers (v : xv) : xv :=
  match v with
  | XS s => XS s
  | XL l => XL (map strip_wrappers l)
  | XM l => XM (map (fun kv => (fst kv, strip_wrappers (snd kv))) l)
  | XW _ w => strip_wrappers w
  end.

(* ---------- specification decoder ---------- *)

Definition hexval (c : N) : option N :=
  if (48 <=? c) && (c <=? 57) then Some (c - 48)
  else if (65 <=? c) && (c <=? 70) then Some (c - 55)
  else if (97 <=? c) && (c <=? 102) then Some (c - 87)
  else None.

Definition hex4 (a b c d : N) : option N :=
  match hexval a, hexval b, hexval c, hexval d with
  | Some x, Some y, Some z, Some w => Some (((x * 16 + y) * 16 + z) * 16 + w)
  | _, _, _, _ => None
  end.

Definition simple_escape (c : N) : option N :=
  if c =? 34 then Some 34          (* escaped quote *)
  else if c =? 92 then Some 92     (* backslash *)
  else if c =? 47 then Some 47     (* slash *)
  else if c =? 98 then Some 8      (* b *)
  else if c =? 102 then Some 12    (* f *)
  else if c =? 110 then Some 10    (* n *)
  else if c =? 114 then Some 13    (* r *)
  else if c =? 116 then Some 9     (* t *)
  else None.

Definition is_high (c : N) : bool := (55296 <=? c) && (c <=? 56319).
Definition is_low (c : N) : bool := (56320 <=? c) && (c <=? 57343).

Inductive tok1 :=
| TEnd (rest : list N)
| TChar (c : N) (rest : list N)
| TBad.

(* decode one character (raw or escaped) inside a string, or see the closing quote *)
Definition unesc1 (s : list N) : tok1 :=
  match s with
  | [] => TBad
  | c :: r =>
      if c =? 34 then TEnd r
      else if c =? 92 then
        match r with
        | [] => TBad
        | e :: r1 =>
            if e =? 117 then
              match r1 with
              | a :: b :: c1 :: d :: r2 =>
                  match hex4 a b c1 d with
                  | None => TBad
                  | Some u =>
                      if is_low u then TBad
                      else if is_high u then
                        match r2 with
                        | b2 :: u2 :: a' :: b' :: c' :: d' :: r3 =>
                            if (b2 =? 92) && (u2 =? 117) then
                              match hex4 a' b' c' d' with
                              | Some lo =>
                                  if is_low lo
                                  then TChar (65536 + (u - 55296) * 1024 + (lo - 56320)) r3
                                  else TBad
                              | None => TBad
                              end
                            else TBad
                        | _ => TBad
                        end
                      else TChar u r2
                  end
              | _ => TBad
              end
            else
              match simple_escape e with
              | Some x => TChar x r1
              | None => TBad
              end
        end
      else if c <? 32 then TBad
      else TChar c r
  end.

Fixpoint parse_str_f (fuel : nat) (s : list N) (acc : list N) : option (str * list N) :=
  match fuel with
  | O => None
  | S f =>
      match unesc1 s with
      | TEnd r => Some (rev acc, r)
      | TChar c r => parse_str_f f r (c :: acc)
      | TBad => None
      end
  end.

(* the input starts just behind the opening quote *)
Definition parse_str (s : list N) : option (str * list N) := parse_str_f (S (length s)) s [].

Definition is_ws (c : N) : bool := (c =? 32) || (c =? 9) || (c =? 10) || (c =? 13).

Fixpoint skip_ws (s : list N) : list N :=
  match s with
  | c :: r => if is_ws c then skip_ws r else s
  | [] => []
  end.

Inductive pmode :=
| MVal
| MElems (acc : list jv)                       (* inside an array, before an element *)
| MMembers (acc : list (str * jv)).            (* inside an object, before a member *)

Fixpoint parse (fuel : nat) (m : pmode) (s : list N) : option (jv * list N) :=
  match fuel with
  | O => None
  | S f =>
      match m with
      | MVal =>
          match skip_ws s with
          | c :: r =>
              if c =? 34 then
                match parse_str r with Some (x, r') => Some (JStr x, r') | None => None end
              else if c =? 91 then
                match skip_ws r with
                | c2 :: r2 => if c2 =? 93 then Some (JArr [], r2) else parse f (MElems []) r
                | [] => None
                end
              else if c =? 123 then
                match skip_ws r with
                | c2 :: r2 => if c2 =? 125 then Some (JObj [], r2) else parse f (MMembers []) r
                | [] => None
                end
              else None
          | [] => None
          end
      | MElems acc =>
          match parse f MVal s with
          | Some (v, r) =>
              match skip_ws r with
              | c :: r2 =>
                  if c =? 44 then parse f (MElems (v :: acc)) r2
                  else if c =? 93 then Some (JArr (rev (v :: acc)), r2)
                  else None
              | [] => None
              end
          | None => None
          end
      | MMembers acc =>
          match skip_ws s with
          | c :: r =>
              if c =? 34 then
                match parse_str r with
                | Some (k, r1) =>
                    match skip_ws r1 with
                    | c1 :: r2 =>
                        if c1 =? 58 then
                          match parse f MVal r2 with
                          | Some (v, r3) =>
                              match skip_ws r3 with
                              | c3 :: r4 =>
                                  if c3 =? 44 then parse f (MMembers ((k, v) :: acc)) r4
                                  else if c3 =? 125 then Some (JObj (rev ((k, v) :: acc)), r4)
                                  else None
                              | [] => None
                              end
                          | None => None
                          end
                        else None
                    | [] => None
                    end
                | None => None
                end
              else None
          | [] => None
          end
      end
  end.

(* a whole document: one value, then only whitespace *)
Definition json_parse (s : list N) : option jv :=
  match parse (S (length s)) MVal s with
  | Some (v, r) => match skip_ws r with [] => Some v | _ => None end
  | None => None
  end.

(* ---------- the table obligation (decidable) ---------- *)

(* the recognised shapes of the output for one code point *)
Definition form_ok (c : N) (o : list N) : bool :=
  match o with
  | [x] => (x =? c) && negb (x =? 34) && negb (x =? 92) && negb (x <? 32)
  | [b; e] =>
      (b =? 92) && negb (e =? 117) &&
      match simple_escape e with Some x => x =? c | None => false end
  | [b; u; h1; h2; h3; h4] =>
      (b =? 92) && (u =? 117) &&
      match hex4 h1 h2 h3 h4 with
      | Some x => (x =? c) && negb (is_high x) && negb (is_low x)
      | None => false
      end
  | _ => false
  end.

Definition must_escape : list N := 34 :: 92 :: nrange 0 32.

Definition json_table_ok (tbl : esc_table) : bool :=
  forallb (fun e => form_ok (fst e) (snd e)) tbl &&
  forallb (fun c => match assocN c tbl with Some _ => true | None => false end) must_escape.

(* first code point whose one-rune string does not survive, for the replay when the obligation fails *)
Definition bad_entries (tbl : esc_table) : list N :=
  map fst (filter (fun e => negb (form_ok (fst e) (snd e))) tbl) ++
  filter (fun c => match assocN c tbl with Some _ => false | None => true end) must_escape.

Definition roundtrips (tbl : esc_table) (s : str) : bool :=
  match json_parse (json_string tbl s) with
  | Some (JStr s') => str_eqb s s'
  | _ => false
  end.
