(* C06 - lazy list pipelines give the sequential result under every parallel schedule.
   This file contains only the property theorems; each is closed by an exact lemma application.
   Models: Conc/ParMap.v (iterator.MapAuto/initParallel), Conc/SharedStack.v (funcGen.Stack), Conc/Pipeline.v
   (ownership map of value/list.go after the repair `fix: upstream producers of map, accept and merge get a
   stack of their own`).  Schedules, worker counts and arrival orders are universally quantified. *)
From P2 Require Import Base.Prelude Conc.ParMap Conc.SharedStack Conc.Pipeline Conc.ConcProofs.
From P2 Require Import Conc.MapAutoProofs Conc.PipelineProofs Conc.MergeChan Conc.MergeChanProofs Conc.CopyProd Conc.CopyProdProofs.
From P2 Require Import Conc.EarlyStopProofs Conc.CopyProdStop Conc.CopyProdStopProofs Conc.MergeLift Conc.LazyPipe Conc.LazyPipeProofs.
From Coq Require Import Permutation.

(* the collector goroutine: results that are all values, arriving in ANY order (each index once), are handed to
   the consumer in index order; the inner loop's fuel is never exhausted *)
Theorem collector_restores_order : forall (B : Type) (out : nat -> res B) (i0 n : nat) (arrivals : list (nat * res B)),
  Permutation (map fst arrivals) (seq i0 n) ->
  (forall k v, In (k, v) arrivals -> v = out k) ->
  (forall k, i0 <= k < i0 + n -> is_err (out k) = false) ->
  cst (collect log_yield i0 [] arrivals) = map out (seq i0 n) /\ stuck (collect log_yield i0 [] arrivals) = false.
Proof. exact @collector_restores_order_lem. Qed.

(* some item fails: the completely consumed output has an error at that item's position (so at or before it),
   and its outcome is "fails" - whichever error arrived first and however the sticky error was attached *)
Theorem collector_reports_failure : forall (B : Type) (out : nat -> res B) (i0 n : nat) (arrivals : list (nat * res B)) (k : nat),
  Permutation (map fst arrivals) (seq i0 n) ->
  (forall k v, In (k, v) arrivals -> v = out k) ->
  i0 <= k < i0 + n -> out k = RErr ->
  nth_error (cst (collect log_yield i0 [] arrivals)) (k - i0) = Some RErr
  /\ outcome (cst (collect log_yield i0 [] arrivals)) = None.
Proof. exact @collector_reports_failure_lem. Qed.

(* feeder + nw workers + collector: for every mapper, every start index, every worker count, every input (items may
   already be errors) and EVERY schedule that has run to completion, the outcome (values in order, or "fails")
   is that of the sequential iterator.Map *)
Theorem par_map_eq_seq : forall (A B : Type) (f : nat -> A -> res B) (i0 nw : nat) (items : list (res A)) (sched : list choice),
  let s := ParMap.run f log_yield (par_init i0 nw items ([] : list (res B))) sched in
  complete s = true ->
  stuck (col s) = false /\ outcome (cst (col s)) = outcome (fst (seq_map f log_yield i0 items [])).
Proof. exact @par_map_eq_seq_lem. Qed.

(* iteration state is per traversal, not per list value: a second traversal of the same parallel map (fresh feeder,
   workers, collector; any other worker count and schedule) gives the outcome of the first.  In Conc/Pipeline.v a
   pipeline denotes a function of its source (pipe_seq / pipe_par re-run every producer from its initial state for
   every traversal), so `run p src = run p src` holds there by reflexivity; the rows of a cross over a lazy second
   list, m.cross(m), m.merge(m) and [m.sum(), m.mapReduce(..), m.size()] are compared on the implementation. *)
Theorem iteration_is_repeatable : forall (A B : Type) (f : nat -> A -> res B) (i0 nw1 nw2 : nat) (items : list (res A)) (sched1 sched2 : list choice),
  let s1 := ParMap.run f log_yield (par_init i0 nw1 items ([] : list (res B))) sched1 in
  let s2 := ParMap.run f log_yield (par_init i0 nw2 items ([] : list (res B))) sched2 in
  complete s1 = true -> complete s2 = true ->
  outcome (cst (col s1)) = outcome (cst (col s2)).
Proof. exact iteration_is_repeatable_lem. Qed.

(* agents (goroutines running stage callbacks) on pairwise different stack storages: under every interleaving
   every callee sees exactly the arguments its own caller pushed, and nobody panics *)
Theorem private_stacks_noninterference : forall (V : Type) (limit : nat) (sched : list nat) (s : sys (V := V)),
  wf_sys limit s -> private s ->
  forall i, story (SharedStack.run limit s sched) i = story s i
            /\ panicked (agents (SharedStack.run limit s sched) i) = false.
Proof. exact @private_noninterference. Qed.

Theorem private_stacks_finished : forall (V : Type) (limit : nat) (sched : list nat) (s : sys (V := V)) (i : nat),
  wf_sys limit s -> private s ->
  todo (agents (SharedStack.run limit s sched) i) = [] ->
  seen (agents (SharedStack.run limit s sched) i) = story s i.
Proof. exact @private_finished. Qed.

(* two agents on ONE storage (the discipline of value/list.go before the repair): a four-step schedule in which
   the upstream agent's Push overwrites the downstream agent's pending argument *)
Theorem shared_stack_interference_refuted :
  exists sched, seen (agents (SharedStack.run 100 (shared_sys 11 22 33 44) sched) 0) <> story (shared_sys 11 22 33 44) 0.
Proof. exact shared_stack_refuted_lem. Qed.

(* the index operator `list[i]` evaluates an unevaluated lazy list in an evaluation context of its own (a fresh stack
   per access, value.go AccessList): whichever goroutines do it - workers of a parallel stage indexing per-item lists,
   or an access nested in the evaluation caused by another access - and however they interleave, every closure called
   by such an evaluation sees exactly the arguments pushed for it *)
Theorem index_access_private : forall (limit : nat) (progs : nat -> list (op (V := nat))) (sched : list nat),
  (forall i, wf_prog 0 (progs i) /\ npush (progs i) <= S limit) ->
  forall i, story (SharedStack.run limit (index_access_sys true progs) sched) i = story (index_access_sys true progs) i
            /\ panicked (agents (SharedStack.run limit (index_access_sys true progs) sched) i) = false.
Proof. exact index_access_private_lem. Qed.

(* ... whereas on ONE generator-wide stack even a strictly sequential re-entrant access overwrites the pending arguments *)
Theorem index_access_shared_refuted :
  exists progs sched, seen (agents (SharedStack.run 100 (index_access_sys false progs) sched) 0) <> story (index_access_sys false progs) 0.
Proof. exact index_access_shared_refuted_lem. Qed.

(* ownership map of the repaired code: for EVERY pipeline and every choice of map/accept stages that switch to
   parallel execution, no stack storage is pushed on by two different goroutines *)
Theorem stacks_private_fixed : forall (l : list okind) (g pos : nat), stacks_private (own true g pos l).
Proof. exact stacks_private_fixed_gen. Qed.

(* ... which the ownership map of the code before the repair violates: number -> map (switched) -> reduce *)
Theorem stacks_private_before_repair_refuted : exists l, ~ stacks_private (own false 0 0 l).
Proof. exact (ex_intro (fun l => ~ stacks_private (own false 0 0 l)) [OCalls; OPar true; OCalls] stacks_shared_witness). Qed.

(* ---------------------------------------------------------------------------------------------------------------
   MapAuto = k items on the calling goroutine, then (if the timing decision says so) initParallel on the rest.
   For EVERY k, every decision, every worker count and every complete schedule the delivered log compares with the
   sequential Map as `delivered_as_seq` says: same outcome; identical log when nothing fails; when something fails the
   values delivered before the first delivered error are a prefix of the sequential ones.  (Equality of the logs in
   the failing case does NOT hold for the code: the collector attaches an error that has arrived out of order to the
   next item it emits, so the error may surface earlier than in source order - see map_auto_nonvacuous.) *)
Theorem map_auto_eq_seq : forall (A B : Type) (f : nat -> A -> res B) (k : nat) (decide : bool) (nw : nat)
  (sched : list choice) (items : list (res A)),
  let m := map_auto_run f log_yield k decide nw sched items ([] : list (res B)) in
  ma_complete m = true ->
  delivered_as_seq (fst (seq_map f log_yield 0 items [])) (ma_cst m).
Proof. exact @map_auto_eq_seq_lem. Qed.

(* ... and this is not vacuous: with at least one worker, whatever has happened so far a completing schedule exists;
   a state that is not final has an enabled step; a schedule of enabled steps is no longer than the measure *)
Theorem map_auto_no_deadlock : forall (A B : Type) (f : nat -> A -> res B) (k : nat) (decide : bool) (nw : nat)
  (sched : list choice) (items : list (res A)),
  1 <= nw ->
  (exists sched', ma_complete (map_auto_run f log_yield k decide nw (sched ++ sched') items ([] : list (res B))) = true) /\
  (forall s, map_auto_run f log_yield k decide nw sched items ([] : list (res B)) = MAPar s ->
     (complete s = false -> exists c, enabled s c = true) /\
     (forall more, all_enabled f s more = true -> length more <= measure s)).
Proof. exact @map_auto_no_deadlock_lem. Qed.

(* FilterAuto (accept): order kept, rejected items dropped, compared with the sequential Filter in the same way *)
Theorem filter_auto_eq_seq : forall (V : Type) (accept : V -> res bool) (k : nat) (decide : bool) (nw : nat)
  (sched : list choice) (items : list (res V)),
  let m := filter_auto_run accept k decide nw sched items in
  ma_complete m = true ->
  delivered_as_seq (seq_filter accept items) (ma_cst m).
Proof. exact @filter_auto_eq_seq_lem. Qed.

Theorem filter_auto_no_deadlock : forall (V : Type) (accept : V -> res bool) (k : nat) (decide : bool) (nw : nat)
  (sched : list choice) (items : list (res V)), 1 <= nw ->
  exists sched', ma_complete (filter_auto_run accept k decide nw (sched ++ sched') items) = true.
Proof. exact filter_auto_no_deadlock_lem. Qed.

(* Merge over two ToChan producers guarded by the stop flag, any comparison (it may fail), any downstream consumer
   (stopf decides from what it has received whether it stops): under every interleaving of the two producers and the
   consumer, once the consumer has returned it has been given exactly what the sequential merge of the two lists gives *)
Theorem merge_chan_eq_seq : forall (V : Type) (less : V -> V -> res bool) (stopf : list (res V) -> bool)
  (la lb : list (res V)) (sched : list mchoice),
  let m := mrun less stopf (minit la lb) sched in
  is_done (mc m) = true -> clog (mc m) = merge_seq less stopf la lb.
Proof. exact @merge_chan_eq_seq_lem. Qed.

(* ... and at every moment what has been delivered is a prefix of it (an early stop delivers a prefix) *)
Theorem merge_chan_prefix : forall (V : Type) (less : V -> V -> res bool) (stopf : list (res V) -> bool)
  (la lb : list (res V)) (sched : list mchoice),
  is_prefix (clog (mc (mrun less stopf (minit la lb) sched))) (merge_seq less stopf la lb).
Proof. exact @merge_chan_prefix_lem. Qed.

Theorem merge_no_deadlock : forall (V : Type) (less : V -> V -> res bool) (stopf : list (res V) -> bool)
  (la lb : list (res V)) (sched : list mchoice),
  let m := mrun less stopf (minit la lb) sched in
  (exists sched', is_done (mc (mrun less stopf (minit la lb) (sched ++ sched'))) = true) /\
  (is_done (mc m) = false -> exists ch, menabled m ch = true) /\
  (forall more, mall_enabled less stopf m more = true -> length more <= mmeasure m).
Proof. exact @merge_no_deadlock_lem. Qed.

(* multiUse (CopyProducer): every consumer, under every schedule of the producer and the consumers, has been given a
   prefix of the source at every moment and the whole source, errors included, in order at the end *)
Theorem multi_use_each_sees_source : forall (V : Type) (ncons : nat) (source : list (res V)) (sched : list cchoice),
  let m := crun ncons (cinit ncons source) sched in
  (forall j log b, nth_error (ccs m) j = Some (log, b) -> is_prefix log source) /\
  (ccomplete m = true -> forall j, j < ncons -> nth_error (ccs m) j = Some (source, false)).
Proof. exact @multi_use_each_sees_source_lem. Qed.

Theorem multi_use_no_deadlock : forall (V : Type) (ncons : nat) (source : list (res V)) (sched : list cchoice),
  let m := crun ncons (cinit ncons source) sched in
  (exists sched', ccomplete (crun ncons (cinit ncons source) (sched ++ sched')) = true) /\
  (ccomplete m = false -> exists ch, cenabled m ch = true) /\
  (forall more, call_enabled ncons m more = true -> length more <= cmeasure ncons m).
Proof. exact @multi_use_no_deadlock_lem. Qed.

(* MapAuto in front of a consumer that stops early (first, top(n), present, a reduce that fails ...; `stopf` decides from
   what it has been given): for every k, decision, worker count and EVERY schedule - complete or not - every item the
   consumer has been given is the sequential item of its position (or an error), it has not been given more than the
   sequential map delivers, and the values it got before any error are a prefix of the sequential values.
   What keeps running after the consumer has stopped is C12's business. *)
Theorem map_auto_early_stop_prefix : forall (A B : Type) (f : nat -> A -> res B) (stopf : list (res B) -> bool)
  (k : nat) (decide : bool) (nw : nat) (sched : list choice) (items : list (res A)),
  let L := ma_cst (map_auto_run f (stop_yield stopf) k decide nw sched items []) in
  let Lseq := fst (seq_map f log_yield 0 items []) in
  Forall2 (@le_res B) (firstn (length L) Lseq) L /\ length L <= length Lseq /\ is_prefix (ok_prefix L) (ok_prefix Lseq).
Proof. exact map_auto_early_stop_lem. Qed.

Theorem filter_auto_early_stop_prefix : forall (V : Type) (accept : V -> res bool) (stopf : list (res V) -> bool)
  (k : nat) (decide : bool) (nw : nat) (sched : list choice) (items : list (res V)),
  let L := ma_cst (map_auto_run (filter_mapper accept) (filter_stop_yield stopf) k decide nw sched items []) in
  is_prefix (ok_prefix L) (ok_prefix (seq_filter accept items)).
Proof. exact filter_auto_early_stop_lem. Qed.

(* the sequential merge in front of a consumer that stops early delivers a prefix of what a never-stopping consumer is
   given; with merge_chan_prefix: whatever the interleaving and whenever the consumer stops, what it has been given is a
   prefix of the full sequential merge *)
Theorem merge_seq_stop_prefix : forall (V : Type) (less : V -> V -> res bool) (stopf : list (res V) -> bool) (la lb : list (res V)),
  is_prefix (merge_seq less stopf la lb) (merge_seq less (fun _ => false) la lb).
Proof. exact @merge_seq_stop_prefix_lem. Qed.

Theorem merge_chan_stop_prefix : forall (V : Type) (less : V -> V -> res bool) (stopf : list (res V) -> bool)
  (la lb : list (res V)) (sched : list mchoice),
  is_prefix (clog (mc (mrun less stopf (minit la lb) sched))) (merge_seq less (fun _ => false) la lb).
Proof.
  exact (fun V less stopf la lb sched =>
    prefix_trans _ _ _ _ (merge_chan_prefix_lem less stopf la lb sched) (merge_seq_stop_prefix_lem less stopf la lb)).
Qed.

(* the sequential merge machine (iterator.Merge's algorithm on lists) computes the textbook merge of the specification *)
Theorem merge_seq_is_spec_merge : forall (lessO : Z -> Z -> option bool) (l o : list Z),
  outcome (merge_seq (lessR lessO) (fun _ => false) (map (@ROk Z) l) (map (@ROk Z) o)) = merge_fuel (S (length l + length o)) lessO l o.
Proof. exact merge_seq_is_merge_fuel. Qed.

(* multiUse with consumers that may return early or fail (`beh j log`: what consumer j does after having received log):
   every consumer has been given a prefix of the source at every moment of every schedule *)
Theorem multi_use_stop_prefix : forall (V : Type) (ncons : nat) (beh : nat -> list (res V) -> cact)
  (source : list (res V)) (sched : list qchoice) (j : nat) (c : qcons),
  nth_error (qcs (qrun ncons beh (qinit ncons source) sched)) j = Some c -> is_prefix (qlog c) source.
Proof. exact @multi_use_stop_prefix_lem. Qed.

(* when everything has finished and nobody has failed, every consumer has seen - and ended as - what it does alone on
   the whole source: the result map is the sequential one *)
Theorem multi_use_sequential_views : forall (V : Type) (ncons : nat) (beh : nat -> list (res V) -> cact)
  (source : list (res V)) (sched : list qchoice),
  let m := qrun ncons beh (qinit ncons source) sched in
  qcomplete m = true -> qresult_fails m = false ->
  forall j c, nth_error (qcs m) j = Some c -> view beh j [] source = (qlog c, qtag c).
Proof. exact @multi_use_sequential_views_lem. Qed.

(* run reports an error exactly when some consumer fails on the source - even if that consumer was cut short because
   another one failed first (errorTerm) *)
Theorem multi_use_error_reported : forall (V : Type) (ncons : nat) (beh : nat -> list (res V) -> cact)
  (source : list (res V)) (sched : list qchoice),
  let m := qrun ncons beh (qinit ncons source) sched in
  qcomplete m = true ->
  (qresult_fails m = true <-> exists j, j < ncons /\ snd (view beh j [] source) = VFailed).
Proof. exact @multi_use_error_reported_lem. Qed.

(* ... and these are not vacuous: from every reachable state a completing schedule exists, an unfinished state has an
   enabled step, schedules of enabled steps are bounded *)
Theorem multi_use_stop_no_deadlock : forall (V : Type) (ncons : nat) (beh : nat -> list (res V) -> cact)
  (source : list (res V)) (sched : list qchoice),
  let m := qrun ncons beh (qinit ncons source) sched in
  (exists sched', qcomplete (qrun ncons beh (qinit ncons source) (sched ++ sched')) = true) /\
  (qcomplete m = false -> exists ch, qenabled m ch = true) /\
  (forall more, qall_enabled ncons beh m more = true -> length more <= qmeasure ncons m).
Proof. exact @multi_use_stop_no_deadlock_lem. Qed.

(* Composition over the deep embedding of Conc/Pipeline.v: EVERY pipeline (stages with nested operand pipelines,
   every terminal), EVERY assignment of schedule inputs to the stages and terminals the library runs on more than one
   goroutine - (k, decision, worker count >= 1, schedule) for map/accept and the escaping-list / nested-list maps
   (MapAuto/FilterAuto), a schedule of the two producers and the consumer for merge and m.merge(m) (ToChan + stop flag),
   a schedule of producer and consumers for the terminal multiUse (CopyProducer with failing consumers); the assignment
   may differ between traversals of the same stage: the outcome is the sequential denotation.
   All remaining stages and terminals run on the calling goroutine in the library as well, so nothing concurrent is
   denoted sequentially on the parallel side any more. *)
Theorem pipeline_par_eq_seq : forall (asg : assignment) (tsched : sp -> list Z -> list qchoice), assignment_ok asg ->
  forall (n : Z) (stages : list pstage) (t : tkind) (tp : sp),
  pipe_par_with asg tsched n stages t tp = pipe_seq n stages t tp.
Proof. exact pipeline_par_eq_seq_lem. Qed.

(* EARLY STOPPING COMPOSED THROUGH A WHOLE PIPELINE (Conc/LazyPipe.v, the lazy / demand-driven embedding).
   A pipeline of map / accept stages (MapAuto / FilterAuto protocol) and closure stages on the calling goroutine
   (LScan: ANY stateful stage that passes error elements on - number, iir, fsm, combine ... - given by its step function;
   number_step is list.go's Number), nested in any order and number, in front of a short-circuit consumer `cons` (first, top(n), present,
   indexWhere, single, ~ : a function from the delivered prefix to continue | stop result; an error element makes the
   evaluation fail).  The source may already contain errors.

   (1) pipeline_par_early_stop_eq_seq: for every assignment of schedule inputs to every stage and traversal (k, the timing
   decision, the worker count >= 1, the schedule of feeder / workers / collector, completed canonically), the stop
   moments being those of the library (a stage answers false to its upstream when its `done` channel is closed or its
   consumer has stopped): the consumer's verdict is the sequential verdict - the same result, the same failure, or
   "end of stream" with EXACTLY the sequential elements delivered - except that it may be "fails" where the sequential
   verdict is a result, and then only if the sequential element sequence contains an error (an error raised by a
   read-ahead element behind the decisive one: the collector of initParallel attaches the first error that ARRIVES to
   the next element it emits).  Failure clause: if sequential evaluation of the demanded prefix fails, evaluation fails.
   (2) pipeline_par_early_stop_prefix: the safety half at EVERY moment of every schedule (complete or not) and for
   ARBITRARY stop moments of every stage.
   (3) pipeline_par_early_stop_naive_refuted: the naive statement (verdict = sequential verdict) fails - the property
   text excludes this case from its quantifier ("whether an error behind an early-stopping consumer's read-ahead window
   surfaces is not claimed"). *)
Theorem pipeline_par_early_stop_eq_seq : forall (R : Type) (cons : list Z -> option R) (stages : list lstage)
  (pps : passignment) (items : list (res Z)), passignment_ok pps ->
  let L := lazy_run pps (cons_stop cons) stages items in
  let S := lazy_seq stages items in
  (scan cons L = scan cons S \/ (scan cons L = VFail /\ noerr S = false))
  /\ (scan cons S = VFail -> scan cons L = VFail)
  /\ (scan cons L = VMore -> L = S).
Proof. exact pipeline_par_early_stop_complete_lem. Qed.

Theorem pipeline_par_early_stop_prefix : forall (R : Type) (cons : list Z -> option R) (stages : list lstage)
  (asg : lassignment) (items : list (res Z)),
  let L := lazy_par asg stages items in
  let S := lazy_seq stages items in
  (forall r, scan cons L = VResult r -> scan cons S = VResult r)
  /\ (scan cons L = VFail -> noerr S = false)
  /\ (scan cons S = VFail -> forall r, scan cons L <> VResult r)
  /\ (noerr S = true -> is_prefix L S).
Proof. exact pipeline_par_early_stop_lem. Qed.

(* numbers(5).map(x -> fails on 3).top(2): item 0 on the caller, three workers take items 1, 2, 3; the error of item 3
   reaches the collector before the value of item 1, which is then handed to top(2) together with that error *)
Theorem pipeline_par_early_stop_naive_refuted :
  exists (stages : list lstage) (asg : lassignment) (items : list (res Z)),
    scan (c_top 2) (lazy_seq stages items) = VResult [0; 1]%Z
    /\ scan (c_top 2) (lazy_par asg stages items) = VFail.
Proof. exact pipeline_par_early_stop_naive_refuted_lem. Qed.

(* non-vacuity, nested: numbers(40).map(f1).number(g).map(f2) in front of top(15) (f2 fails on element 30 - behind the
   decisive one and, under these schedules, not read ahead), both maps switched after 12 items, 3 workers, seeded
   schedules; and the same with f1 failing on element 9 (inside the demanded prefix): evaluation fails in both semantics *)
Example lazy_pipeline_nonvacuous :
  let mk := fun a b fl => (mkSP a b 0 0 1 fl true 0 0 false 0 0)%Z in
  let pps := fun (pos : nat) (l : list (res Z)) => mkPP 12 true 3 (gen_sched (3 * length l) 3 (7 + N.of_nat pos)) [] in
  let src := map (@ROk Z) (numbers 40%Z) in
  let st1 := [LMap (mk 3 1 (-1))%Z; LScan [0%Z] (number_step (mk 2 5 (-1))%Z); LMap (mk 1 7 (lin1 1 7 (lin2 2 5 30 (lin1 3 1 30))))%Z] in
  let st2 := [LMap (mk 3 1 (lin1 3 1 9))%Z; LScan [0%Z] (number_step (mk 2 5 (-1))%Z); LMap (mk 1 7 (-1))%Z] in
  passignment_ok pps
  /\ scan (c_top 15) (lazy_run pps (cons_stop (c_top 15)) st1 src) = scan (c_top 15) (lazy_seq st1 src)
  /\ (exists r, scan (c_top 15) (lazy_seq st1 src) = VResult r /\ length r = 15%nat)
  /\ noerr (lazy_seq st1 src) = false
  /\ Nat.ltb (length (lazy_run pps (cons_stop (c_top 15)) st1 src)) 40 = true
  /\ scan (c_top 15) (lazy_seq st2 src) = VFail
  /\ scan (c_top 15) (lazy_run pps (cons_stop (c_top 15)) st2 src) = VFail.
Proof.
  cbv zeta. split; [intros pos l; cbn; auto|]. vm_compute.
  split; [reflexivity|]. split; [eexists; split; reflexivity|]. repeat split.
Qed.

(* the read-ahead of a parallel stage is bounded by the reorder buffer only, not by the worker count: worker 0 holds
   element 1 (= nextOut), worker 1 runs through the whole source; the consumer has been given nothing new, 7 results wait *)
Example read_ahead_exceeds_worker_count :
  let f := fun (_ : nat) (x : nat) => ROk x : res nat in
  let s := ParMap.run f log_yield (par_init 1 2 [ROk 1; ROk 2; ROk 3; ROk 4; ROk 5; ROk 6; ROk 7; ROk 8] [ROk 0])
             [Feed 0; Feed 1; Deliver 1; Feed 1; Deliver 1; Feed 1; Deliver 1; Feed 1; Deliver 1; Feed 1; Deliver 1; Feed 1; Deliver 1; Feed 1; Deliver 1] in
  cst (col s) = [ROk 0] /\ nextOut (col s) = 1 /\ nexti s = 9 /\ src s = [] /\ length (buffer (col s)) = 7.
Proof. vm_compute. repeat split. Qed.

(* non-vacuity: 3 workers, 5 items from index 12, item 14 fails; results arrive as 13,12,14,16,15; complete *)
Example par_map_nonvacuous :
  let f := fun (_ : nat) (x : nat) => if Nat.eqb x 7 then RErr else ROk (x * 2) in
  let s := ParMap.run f log_yield (par_init 12 3 [ROk 1; ROk 2; ROk 7; ROk 4; ROk 5] ([] : list (res nat)))
             [Feed 0; Feed 1; Deliver 1; Deliver 0; Feed 2; Feed 0; Feed 1; Deliver 2; Deliver 1; Deliver 0; Feed 0] in
  complete s = true /\ map fst (trace s) = [13; 12; 14; 16; 15]
  /\ cst (col s) = [ROk 2; ROk 4; RErr; RErr; ROk 10].   (* 15 arrives as nextOut after the failure: the sticky error is attached to it *)
Proof. vm_compute. repeat split. Qed.

Example private_nonvacuous :
  let s := mkSys (fun _ => []) (fun i => mkAgent i 0 0 (if Nat.eqb i 0 then [OPush 1; OPush 2; OCall 2] else if Nat.eqb i 1 then [OPush 3; OCall 1] else []) [] false) in
  seen (agents (SharedStack.run 100 s [0; 1; 0; 1; 0]) 0) = [[1; 2]] /\ seen (agents (SharedStack.run 100 s [0; 1; 0; 1; 0]) 1) = [[3]].
Proof. vm_compute. split; reflexivity. Qed.


(* 2 items on the caller, 3 workers; the results arrive as 4,2,3,5; item 3 (value 7) fails, item 5 is emitted after the
   failure and gets the sticky error: the log differs from the sequential one, the outcome and the delivered values
   before the first error do not *)
Example map_auto_nonvacuous :
  let f := fun (_ : nat) (x : nat) => if Nat.eqb x 7 then RErr else ROk (x * 2) in
  let items := [ROk 1; ROk 2; ROk 3; ROk 7; ROk 5; ROk 6] in
  let m := map_auto_run f log_yield 2 true 3 [Feed 0; Feed 1; Feed 2; Deliver 2; Deliver 0; Feed 0; Deliver 1; Deliver 0; Feed 1] items [] in
  ma_complete m = true /\ ma_cst m = [ROk 2; ROk 4; ROk 6; RErr; ROk 10; RErr]
  /\ fst (seq_map f log_yield 0 items []) = [ROk 2; ROk 4; ROk 6; RErr; ROk 10; ROk 12]
  /\ match m with MAPar s => map fst (trace s) = [4; 2; 3; 5] | _ => False end.
Proof. vm_compute. repeat split. Qed.

Example filter_auto_nonvacuous :
  let acc := fun x : nat => if Nat.eqb x 9 then RErr else ROk (Nat.odd x) in
  let m := filter_auto_run acc 1 true 2 [Feed 0; Feed 1; Deliver 1; Deliver 0; Feed 1; Feed 0; Deliver 0; Deliver 1; Feed 0] [ROk 1; ROk 2; ROk 3; ROk 4; ROk 5] in
  ma_complete m = true /\ ma_cst m = [ROk 1; ROk 3; ROk 5]
  /\ match m with MAPar s => map fst (trace s) = [2; 1; 4; 3] | _ => False end.
Proof. vm_compute. repeat split. Qed.

(* producer B runs ahead of A, the producers' flag checks interleave with the consumer's receives *)
Example merge_chan_nonvacuous :
  let less := fun a b : nat => ROk (Nat.ltb a b) in
  let m := mrun less (fun _ => false) (minit [ROk 1; ROk 4; ROk 6] [ROk 2; ROk 3; ROk 7])
    [MCheck SB; MCheck SA; MXfer SA; MCheck SA; MXfer SB; MCheck SB; MXfer SA; MXfer SB; MCheck SB; MXfer SB; MCheck SA; MXfer SA;
     MCheck SA; MEof SA; MCheck SB; MXfer SB; MCheck SB; MEof SB] in
  is_done (mc m) = true /\ clog (mc m) = [ROk 1; ROk 2; ROk 3; ROk 4; ROk 6; ROk 7]
  /\ merge_seq less (fun l => Nat.leb 3 (length l)) [ROk 1; ROk 4; ROk 6] [ROk 2; ROk 3; ROk 7] = [ROk 1; ROk 2; ROk 3].
Proof. vm_compute. repeat split. Qed.

(* two consumers; consumer 0 is ready for the third item while consumer 1 is still busy with the second (an error item) *)
Example multi_use_nonvacuous :
  let m := crun 2 (cinit 2 [ROk 1; RErr; ROk 3])
    [CPull; CSend; CSend; CPull; CReady 0; CSend; CReady 1; CReady 0; CSend; CPull; CSend; CReady 1; CSend; CReady 0; CPull; CReady 1] in
  ccomplete m = true /\ ccs m = [([ROk 1; RErr; ROk 3], false); ([ROk 1; RErr; ROk 3], false)].
Proof. vm_compute. repeat split. Qed.


(* one item on the caller, 3 workers, the results arrive as 3,2,1; the consumer stops after its third item *)
Example early_stop_nonvacuous :
  let f := fun (_ : nat) (x : nat) => ROk (x * 2) : res nat in
  let m := map_auto_run f (stop_yield (fun l => Nat.leb 3 (length l))) 1 true 3
             [Feed 0; Feed 1; Feed 2; Deliver 2; Deliver 1; Deliver 0; Feed 0; Feed 1; Deliver 1; Deliver 0; SeeDone]
             [ROk 1; ROk 2; ROk 3; ROk 4; ROk 5; ROk 6] [] in
  ma_cst m = [ROk 2; ROk 4; ROk 6]
  /\ match m with MAPar s => map fst (trace s) = [3; 2; 1] /\ alive (col s) = false | _ => False end.
Proof. vm_compute. repeat split. Qed.

(* consumer 0 returns after two items, consumer 1 takes everything: complete, nobody fails, sequential views *)
Example multi_use_stop_nonvacuous :
  let beh := fun (j : nat) (log : list (res nat)) => match j with 0 => if Nat.leb 2 (length log) then AStop else AContinue | _ => AContinue end in
  let m := qrun 2 beh (qinit 2 [ROk 1; ROk 2; ROk 3])
    [QPull; QSend; QSend; QReady 1; QReady 0; QPull; QSend; QReady 0; QSend; QPull; QSkip; QReady 1; QSend; QPull; QReady 1; QEof 1] in
  qcomplete m = true /\ qresult_fails m = false
  /\ qcs m = [mkQ [ROk 1; ROk 2] QStopped; mkQ [ROk 1; ROk 2; ROk 3] QEnded].
Proof. vm_compute. repeat split. Qed.

(* consumer 0 fails on the error item; the producer sees errorTerm and breaks; consumer 1 ends with one item only -
   and run reports the error *)
Example multi_use_fail_nonvacuous :
  let beh := fun (j : nat) (log : list (res nat)) => match j with 0 => match last log (ROk 0) with RErr => AFail | _ => AContinue end | _ => AContinue end in
  let m := qrun 2 beh (qinit 2 [ROk 1; RErr; ROk 3]) [QPull; QSend; QSend; QReady 0; QReady 1; QPull; QSend; QReady 0; QBreak; QEof 1] in
  qcomplete m = true /\ qresult_fails m = true
  /\ qcs m = [mkQ [ROk 1; RErr] QFailed; mkQ [ROk 1] QEnded].
Proof. vm_compute. repeat split. Qed.

Print Assumptions collector_restores_order.
Print Assumptions collector_reports_failure.
Print Assumptions par_map_eq_seq.
Print Assumptions iteration_is_repeatable.
Print Assumptions private_stacks_noninterference.
Print Assumptions private_stacks_finished.
Print Assumptions shared_stack_interference_refuted.
Print Assumptions index_access_private.
Print Assumptions index_access_shared_refuted.
Print Assumptions stacks_private_fixed.
Print Assumptions stacks_private_before_repair_refuted.
Print Assumptions map_auto_eq_seq.
Print Assumptions map_auto_no_deadlock.
Print Assumptions filter_auto_eq_seq.
Print Assumptions filter_auto_no_deadlock.
Print Assumptions merge_chan_eq_seq.
Print Assumptions merge_chan_prefix.
Print Assumptions merge_no_deadlock.
Print Assumptions multi_use_each_sees_source.
Print Assumptions multi_use_no_deadlock.
Print Assumptions pipeline_par_eq_seq.
Print Assumptions pipeline_par_early_stop_eq_seq.
Print Assumptions pipeline_par_early_stop_prefix.
Print Assumptions pipeline_par_early_stop_naive_refuted.
Print Assumptions map_auto_early_stop_prefix.
Print Assumptions filter_auto_early_stop_prefix.
Print Assumptions merge_seq_stop_prefix.
Print Assumptions merge_chan_stop_prefix.
Print Assumptions merge_seq_is_spec_merge.
Print Assumptions multi_use_stop_prefix.
Print Assumptions multi_use_sequential_views.
Print Assumptions multi_use_error_reported.
Print Assumptions multi_use_stop_no_deadlock.
