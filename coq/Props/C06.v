(* C06 - lazy list pipelines give the sequential result under every parallel schedule.
   This file contains only the property theorems; each is closed by an exact lemma application.
   Models: Conc/ParMap.v (iterator.MapAuto/initParallel), Conc/SharedStack.v (funcGen.Stack), Conc/Pipeline.v
   (ownership map of value/list.go after the repair `fix: upstream producers of map, accept and merge get a
   stack of their own`).  Schedules, worker counts and arrival orders are universally quantified. *)
From P2 Require Import Base.Prelude Conc.ParMap Conc.SharedStack Conc.Pipeline Conc.ConcProofs.
From Coq Require Import Permutation.

(* the collector goroutine: results that are all values, arriving in ANY order (each index once), are handed to
   the consumer in index order; the inner loop's fuel is never exhausted *)
Theorem collector_restores_order : forall (B : Type) (out : nat -> res B) (i0 n : nat) (arrivals : list (nat * res B)),
  Permutation (map fst arrivals) (seq i0 n) ->
  (forall k v, In (k, v) arrivals -> v = out k) ->
  (forall k, i0 <= k < i0 + n -> is_err (out k) = false) ->
  cst (collect log_yield i0 [] arrivals) = map out (seq i0 n) /\ stuck (collect log_yield i0 [] arrivals) = false.
Proof. exact @collector_restores_order_lem. Qed.

(* some item fails: the completely consumed output has an error at that item's position (so at or before it),
   and its outcome is "fails" - whichever error arrived first and however the sticky error was attached *)
Theorem collector_reports_failure : forall (B : Type) (out : nat -> res B) (i0 n : nat) (arrivals : list (nat * res B)) (k : nat),
  Permutation (map fst arrivals) (seq i0 n) ->
  (forall k v, In (k, v) arrivals -> v = out k) ->
  i0 <= k < i0 + n -> out k = RErr ->
  nth_error (cst (collect log_yield i0 [] arrivals)) (k - i0) = Some RErr
  /\ outcome (cst (collect log_yield i0 [] arrivals)) = None.
Proof. exact @collector_reports_failure_lem. Qed.

(* feeder + nw workers + collector: for every mapper, every start index, every worker count, every input (items may
   already be errors) and EVERY schedule that has run to completion, the outcome (values in order, or "fails")
   is that of the sequential iterator.Map *)
Theorem par_map_eq_seq : forall (A B : Type) (f : nat -> A -> res B) (i0 nw : nat) (items : list (res A)) (sched : list choice),
  let s := ParMap.run f log_yield (par_init i0 nw items ([] : list (res B))) sched in
  complete s = true ->
  stuck (col s) = false /\ outcome (cst (col s)) = outcome (fst (seq_map f log_yield i0 items [])).
Proof. exact @par_map_eq_seq_lem. Qed.

(* iteration state is per traversal, not per list value: a second traversal of the same parallel map (fresh feeder,
   workers, collector; any other worker count and schedule) gives the outcome of the first.  In Conc/Pipeline.v a
   pipeline denotes a function of its source (pipe_seq / pipe_par re-run every producer from its initial state for
   every traversal), so `run p src = run p src` holds there by reflexivity; the rows of a cross over a lazy second
   list, m.cross(m), m.merge(m) and [m.sum(), m.mapReduce(..), m.size()] are compared on the implementation. *)
Theorem iteration_is_repeatable : forall (A B : Type) (f : nat -> A -> res B) (i0 nw1 nw2 : nat) (items : list (res A)) (sched1 sched2 : list choice),
  let s1 := ParMap.run f log_yield (par_init i0 nw1 items ([] : list (res B))) sched1 in
  let s2 := ParMap.run f log_yield (par_init i0 nw2 items ([] : list (res B))) sched2 in
  complete s1 = true -> complete s2 = true ->
  outcome (cst (col s1)) = outcome (cst (col s2)).
Proof. exact iteration_is_repeatable_lem. Qed.

(* agents (goroutines running stage callbacks) on pairwise different stack storages: under every interleaving
   every callee sees exactly the arguments its own caller pushed, and nobody panics *)
Theorem private_stacks_noninterference : forall (V : Type) (limit : nat) (sched : list nat) (s : sys (V := V)),
  wf_sys limit s -> private s ->
  forall i, story (SharedStack.run limit s sched) i = story s i
            /\ panicked (agents (SharedStack.run limit s sched) i) = false.
Proof. exact @private_noninterference. Qed.

Theorem private_stacks_finished : forall (V : Type) (limit : nat) (sched : list nat) (s : sys (V := V)) (i : nat),
  wf_sys limit s -> private s ->
  todo (agents (SharedStack.run limit s sched) i) = [] ->
  seen (agents (SharedStack.run limit s sched) i) = story s i.
Proof. exact @private_finished. Qed.

(* two agents on ONE storage (the discipline of value/list.go before the repair): a four-step schedule in which
   the upstream agent's Push overwrites the downstream agent's pending argument *)
Theorem shared_stack_interference_refuted :
  exists sched, seen (agents (SharedStack.run 100 (shared_sys 11 22 33 44) sched) 0) <> story (shared_sys 11 22 33 44) 0.
Proof. exact shared_stack_refuted_lem. Qed.

(* ownership map of the repaired code: for EVERY pipeline and every choice of map/accept stages that switch to
   parallel execution, no stack storage is pushed on by two different goroutines *)
Theorem stacks_private_fixed : forall (l : list okind) (g pos : nat), stacks_private (own true g pos l).
Proof. exact stacks_private_fixed_gen. Qed.

(* ... which the ownership map of the code before the repair violates: number -> map (switched) -> reduce *)
Theorem stacks_private_before_repair_refuted : exists l, ~ stacks_private (own false 0 0 l).
Proof. exact (ex_intro (fun l => ~ stacks_private (own false 0 0 l)) [OCalls; OPar true; OCalls] stacks_shared_witness). Qed.

(* non-vacuity: 3 workers, 5 items from index 12, item 14 fails; results arrive as 13,12,14,16,15; complete *)
Example par_map_nonvacuous :
  let f := fun (_ : nat) (x : nat) => if Nat.eqb x 7 then RErr else ROk (x * 2) in
  let s := ParMap.run f log_yield (par_init 12 3 [ROk 1; ROk 2; ROk 7; ROk 4; ROk 5] ([] : list (res nat)))
             [Feed 0; Feed 1; Deliver 1; Deliver 0; Feed 2; Feed 0; Feed 1; Deliver 2; Deliver 1; Deliver 0; Feed 0] in
  complete s = true /\ map fst (trace s) = [13; 12; 14; 16; 15]
  /\ cst (col s) = [ROk 2; ROk 4; RErr; RErr; ROk 10].   (* 15 arrives as nextOut after the failure: the sticky error is attached to it *)
Proof. vm_compute. repeat split. Qed.

Example private_nonvacuous :
  let s := mkSys (fun _ => []) (fun i => mkAgent i 0 0 (if Nat.eqb i 0 then [OPush 1; OPush 2; OCall 2] else if Nat.eqb i 1 then [OPush 3; OCall 1] else []) [] false) in
  seen (agents (SharedStack.run 100 s [0; 1; 0; 1; 0]) 0) = [[1; 2]] /\ seen (agents (SharedStack.run 100 s [0; 1; 0; 1; 0]) 1) = [[3]].
Proof. vm_compute. split; reflexivity. Qed.

Print Assumptions collector_restores_order.
Print Assumptions collector_reports_failure.
Print Assumptions par_map_eq_seq.
Print Assumptions iteration_is_repeatable.
Print Assumptions private_stacks_noninterference.
Print Assumptions private_stacks_finished.
Print Assumptions shared_stack_interference_refuted.
Print Assumptions stacks_private_fixed.
Print Assumptions stacks_private_before_repair_refuted.
