(* C16 - Implicit-attribute mode (GenerateWithMap) equals explicit member access.
   Only theorems, each closed by an exact lemma application.

   GenerateWithMap(exp, m) parses exp with  g.identifier.AddMap(m).AddArgs([m])  = wm_chain m B L,
   Generate(exp', m)       parses exp' with g.identifier.AddArgs([m])            = pl_chain m B L,
   where B = g.identifier and L is the stack of local layers the parser has pushed at that point (let, func name
   and parameters, closure parameters, constants found by let).  [free_attr m B L x]: x is not bound by L, is not
   m, and is not a constant or static function of B - defined WITHOUT the AddMap layer.  [qualify] writes every
   such identifier as ( m . x ).
   The whole-grammar statement (let/func/if/switch/try/closure/map constructs themselves) is checked by the
   correspondence run on every generated program (c16_im/c16_is); the theorems below cover every expression
   of the C03 fragment under EVERY stack of enclosing binders, and the capture bookkeeping of closures. *)
From P2 Require Import Base.Prelude Lex.Token Syn.Ast Syn.Parse Syn.Render Syn.Qualify Syn.QualifyProofs
  Syn.Full Syn.QualifyFull Syn.QualifyFullProofs.

(* withmap_is_qualify for the FULL grammar (rendering trees of Syn/Full.v: let / func / if / switch / try / closures /
   list and map literals besides the expression fragment): for every operator table, every generator chain B, every
   stack L of enclosing binders and every well-formed program r that does not rebind m, the parse of r in
   implicit-attribute mode and the parse of the qualified program in plain mode yield the SAME annotated AST
   (OuterIdents / Recursive / ThisName included).  [fqualify m B bd r] writes ( m . x ) for every identifier use x that is
   not in the bound names bd (extended by let / func / closure parameters on the way down), is not m, and is not a
   constant or static function of B. *)
Theorem C16_withmap_is_qualify : forall cfg m B, m <> [] -> table_ok cfg = true ->
  forall L r e u, local L = true -> bound_in L m = false -> fresh m r = true ->
  fwf cfg r = true -> ferase cfg (wm_chain m B L) r = Some (e, u) ->
  parse cfg (wm_chain m B L) (fflatten cfg r) = POk e /\
  parse cfg (pl_chain m B L) (fflatten cfg (fqualify m B (bnames L) r)) = POk e.
Proof. exact withmap_is_qualify_full. Qed.

(* ... and starting from the TEXT: every token list GenerateWithMap's parser accepts is the rendering of a program tree
   (soundness of the parser model for the full grammar), whose qualified program parses in plain mode to the same AST *)
Theorem C16_withmap_is_qualify_tokens : forall cfg m B, m <> [] -> table_ok cfg = true ->
  forall L ts e, local L = true -> bound_in L m = false -> full_toks ts = true ->
  parse cfg (wm_chain m B L) ts = POk e ->
  exists r, fflatten cfg r = ts /\ fwf cfg r = true /\
            (fresh m r = true -> parse cfg (pl_chain m B L) (fflatten cfg (fqualify m B (bnames L) r)) = POk e).
Proof. exact withmap_is_qualify_tokens. Qed.

(* histories of ONE generator: AddConstant(n, v) puts a constant on top of g.identifier, GenerateWithMap(exp, m) reads
   the current chain.  For every history and every start state, each GenerateWithMap agrees with Generate of the
   program qualified relative to EXACTLY the constants registered before it ([hist_ok]).  The model's generator
   state is just the identifier chain, so this is a corollary of C16_withmap_is_qualify (which holds for every B);
   that the real generator has no other state that matters (e.g. a cache of AddMap chains) is what the history
   mode of the correspondence run checks. *)
Theorem C16_withmap_history : forall cfg, table_ok cfg = true -> forall h B, hist_ok cfg B h.
Proof. exact withmap_history. Qed.

(* the same on the rendering trees of the expression fragment (Syn/Render.v), kept for C03's fragment theorems: restricted to the expression fragment (operators, parentheses, identifiers,
   literals, member access, method call, call, index, list literal), under any enclosing binders L that do not
   rebind m.  Full statement (not proved, checked by correspondence):
     forall exp, parse cfg (wm_chain m B []) (tokens exp) = parse cfg (pl_chain m B []) (tokens (qualify exp)). *)
Theorem C16_withmap_is_qualify_partial : forall cfg m B, m <> [] -> table_ok cfg = true ->
  forall L r e, local L = true -> bound_in L m = false ->
  wf cfg r = true -> erase cfg (wm_chain m B L) r = Some e ->
  parse cfg (wm_chain m B L) (flatten cfg r) = POk e /\
  parse cfg (pl_chain m B L) (flatten cfg (qualify m B L r)) = POk e.
Proof. exact withmap_is_qualify_fragment. Qed.

(* a lookup through AddMap answers the map exactly for the free attributes ... *)
Theorem C16_attribute_lookup : forall m B L x, local L = true -> free_attr m B L x = true ->
  lookup (wm_chain m B L) x = Some (this_ident m x).
Proof. exact lookup_attr. Qed.

(* ... and everything else resolves as in the plain chain *)
Theorem C16_other_lookup : forall m B L x, local L = true -> free_attr m B L x = false ->
  lookup (wm_chain m B L) x = lookup (pl_chain m B L) x.
Proof. exact lookup_nonattr. Qed.

(* the map argument mentioned by name is the plain argument in both modes (never an attribute of itself: m is
   not read as m.m) - the chain GenerateWithMap builds has AddArgs([m]) above AddMap(m) *)
Theorem C16_map_name_is_argument : forall m B L, local L = true -> bound_in L m = false ->
  lookup (wm_chain m B L) m = Some (id_plain m) /\ lookup (pl_chain m B L) m = Some (id_plain m).
Proof. exact (fun m B L HL Hb => conj (lookup_map_wm m B L HL Hb) (lookup_map_pl m B L HL Hb)). Qed.

(* shadowing: let / func / closure parameters (and constants found by let) named like an attribute win *)
Theorem C16_shadowing_local : forall m B L x, local L = true -> bound_in L x = true ->
  lookup (wm_chain m B L) x = lookup L x /\ lookup (pl_chain m B L) x = lookup L x.
Proof. exact shadowing_local. Qed.

(* shadowing: constants and static functions of the generator named like an attribute win *)
Theorem C16_shadowing_const : forall m B L x i, local L = true -> bound_in L x = false -> str_eqb x m = false ->
  lookup B x = Some i -> id_const i = true ->
  lookup (wm_chain m B L) x = Some i /\ lookup (pl_chain m B L) x = Some i.
Proof. exact shadowing_const. Qed.

(* closures: the OuterIdents computed from the lookups u of a closure body in implicit-attribute mode equal those
   computed in plain mode from the lookups of the qualified body (the map instead of each attribute) ... *)
Theorem C16_outers_agree : forall m B, m <> [] ->
  forall L names u, local L = true -> bound_in L m = false -> mem_str m names = false ->
  outers_of (wm_chain m B L) names u = outers_of (pl_chain m B L) names (map (qname m B (SArgs names :: L)) u).
Proof. exact outers_agree. Qed.

(* ... and so does the Recursive flag of a func *)
Theorem C16_recursive_agree : forall m B L f u, str_eqb f m = false ->
  mem_str f u = mem_str f (map (qname m B (SThis f :: L)) u).
Proof. exact recursive_agree. Qed.

(* before the repair of AddArgs (it recorded the attribute name): the closure of  l.map(e->e+a)  captured  a  in
   implicit-attribute mode but  m  in the qualified program; after the repair both capture  m *)
Theorem C16_withmap_before_repair_refuted :
  outers_of_old (wm_chain rf_m [] []) [[101]%N] rf_body_lookups = [[97]%N] /\
  outers_of (pl_chain rf_m [] []) [[101]%N] (map (qname rf_m [] [SArgs [[101]%N]]) rf_body_lookups) = [rf_m] /\
  outers_of (wm_chain rf_m [] []) [[101]%N] rf_body_lookups = [rf_m].
Proof. exact withmap_before_repair_refuted. Qed.

Theorem C16_withmap_before_repair_generate_refuted :
  P2.Sem.Gen.gen_check 50 [Some rf_m] [] (rf_prog (outers_of_old (wm_chain rf_m [] []) [[101]%N] rf_body_lookups)) = false /\
  P2.Sem.Gen.gen_check 50 [Some rf_m] [] (rf_prog (outers_of (wm_chain rf_m [] []) [[101]%N] rf_body_lookups)) = true.
Proof. exact withmap_before_repair_generate_refuted. Qed.

(* non-vacuity: table + * with  pi  constant and  sqr  static;  sqr(a) + pi * b  under a closure parameter b:
   a is an attribute, b is the parameter, pi and sqr are the generator's *)
Definition q_cfg : pcfg := mkPcfg [[43]; [42]]%N [] (Some (fun s => Some s)) (Some (fun s => s)).
Definition q_B : idents := [id_function [115; 113; 114]; id_constant [112; 105] [51]]%N.
Definition q_m : str := [109]%N.
Definition q_L : idents := [SArgs [[98]%N]].
Definition q_r : rt := RBin 0 (RCall (RIdent [115; 113; 114]%N) (RA_last (RIdent [97]%N)))
                              (RBin 1 (RIdent [112; 105]%N) (RIdent [98]%N)).
Example C16_nonvacuous :
  qualify q_m q_B q_L q_r
  = RBin 0 (RCall (RIdent [115; 113; 114]%N) (RA_last (RParen (RAccess (RIdent q_m) [97]%N))))
           (RBin 1 (RIdent [112; 105]%N) (RIdent [98]%N)) /\
  parse q_cfg (wm_chain q_m q_B q_L) (flatten q_cfg q_r)
  = parse q_cfg (pl_chain q_m q_B q_L) (flatten q_cfg (qualify q_m q_B q_L q_r)) /\
  parse q_cfg (wm_chain q_m q_B q_L) (flatten q_cfg q_r)
  = POk (AOp [43]%N 0 (ACall (AIdent [115; 113; 114]%N true) [AAccess [97]%N (AIdent q_m false)])
                      (AOp [42]%N 1 (AConst [51]%N) (AIdent [98]%N false))).
Proof. vm_compute. repeat split. Qed.

(* non-vacuity, full grammar:  l.map(e -> e + a)  with attributes l and a: the closure captures the map *)
Definition q_prog : ft :=
  FMethod (FIdent [108]%N) [109; 97; 112]%N (FA_last (FClo1 [101]%N (FBin 0 (FIdent [101]%N) (FIdent [97]%N)))).
Example C16_nonvacuous_full :
  fqualify q_m q_B [] q_prog
  = FMethod (FParen (FAccess (FIdent q_m) [108]%N)) [109; 97; 112]%N
      (FA_last (FClo1 [101]%N (FBin 0 (FIdent [101]%N) (FParen (FAccess (FIdent q_m) [97]%N))))) /\
  parse q_cfg (wm_chain q_m q_B []) (fflatten q_cfg q_prog)
  = POk (AMethod [109; 97; 112]%N
           [AClosure [[101]%N] (AOp [43]%N 0 (AIdent [101]%N false) (AAccess [97]%N (AIdent q_m false))) [q_m] false []]
           (AAccess [108]%N (AIdent q_m false))) /\
  parse q_cfg (pl_chain q_m q_B []) (fflatten q_cfg (fqualify q_m q_B [] q_prog))
  = parse q_cfg (wm_chain q_m q_B []) (fflatten q_cfg q_prog).
Proof. vm_compute. repeat split. Qed.

Print Assumptions C16_withmap_is_qualify.
Print Assumptions C16_withmap_is_qualify_tokens.
Print Assumptions C16_withmap_history.
Print Assumptions C16_withmap_is_qualify_partial.
Print Assumptions C16_attribute_lookup.
Print Assumptions C16_other_lookup.
Print Assumptions C16_map_name_is_argument.
Print Assumptions C16_shadowing_local.
Print Assumptions C16_shadowing_const.
Print Assumptions C16_outers_agree.
Print Assumptions C16_recursive_agree.
Print Assumptions C16_withmap_before_repair_refuted.
Print Assumptions C16_withmap_before_repair_generate_refuted.
