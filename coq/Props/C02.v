(* C02 - constant folding is unobservable (optimizer model Sem/Opt.v against the reference
   semantics Sem/Ref.v).  Only property theorems, each closed by an exact lemma or by computation,
   non-vacuity examples and Print Assumptions.

   Reading guide.
   * [arel known s a t]   : t is an optimized form of a when the names in s are known constants
                            (every rule of the optimizer is a rule of this relation);
     [vrel known v v']    : v' is the value the optimized program has where the unoptimized one has v:
                            equal except inside closures, whose bodies are optimized forms and whose
                            environments agree on the names the optimized body uses (a folded closure
                            captures nothing, a closure computed at Generate time what its body uses,
                            the reference closure the whole environment);
     [orel known r r']    : both outcomes are values related by vrel / the same thrown error / both
                            panic / both out of fuel / both outside the exact model.
   * fuel: if the unoptimized evaluation is decided (neither out of fuel nor outside the model) with
     fuel n, the optimized program is decided with every fuel m >= n and agrees.
   * [side_ok a] (Sim.v): the constants of the source program are first-order and no closure
     literal has its own name among its OuterIdents (what the parser produces without optimizer).
   * ALL programs, the optimizer as it is: a constant computed at Generate time may be a closure or a
     list/map containing closures ((x -> y -> x+y)(1), [x -> x+1], a map of closures ...).  Such a
     constant is what GENERATED code computed; the reference semantics computes a value that the C01
     relation relates to it (Sim.vrel: same bodies, the generator's closures capture only what they
     use), and the value relation of this proof absorbs that relation (OptWf.vrel_comp), so the
     constant can stand where the program would have computed the value (rule ar_gstep).  The test
     "strict = non-strict optimizer on this program" of the previous version is no longer needed; the
     strict optimizer is just one more configuration.
   * the obligations on a configuration are decidable ([cfg_ok]: no operator flagged commutative, the
     method rule checks closure fields, map handler present) and are discharged by computation for
     value_flags and for the flags regenerated from the tree.
   * nothing is assumed about code run at Generate time: Gen.exec on a fresh stack is tied to the
     reference semantics by the C01 theorems (exec_sim, call on a fresh frame) and eval_mono.
   * effects: Sem/Trace.v is the reference evaluator with an event log.  An event is a call of a HOST
     function (a static function outside the modelled pool: tick, random, ... - every impure function
     of value.New() other than throw, whose effect is the thrown text in the outcome) with its argument
     values; its result is an oracle function of name and arguments.  C02_optimize_preserves_trace:
     whenever the traced evaluation of the original program is decided - a value, an ERROR or a PANIC -
     the optimized program has the related outcome and the same events: same functions, same order,
     same number, related arguments (equal when first-order); events before an error are the same
     events.  Nothing is claimed when the original runs out of fuel or leaves the model.  Model
     restriction: a closure called by a built-in method (callback) that makes a host call is outside
     the trace model (Unsup); such programs stay on the Go oracle.  C02_generate_runs_no_host_call: what
     the optimizer evaluates at Generate time has an empty trace under every oracle.  The
     implementation's counters (tick/ptick in the harness) are compared with and without optimizer by
     the correspondence run: that ties the model's events to the code. *)
From P2 Require Import Base.Prelude Sem.Num Sem.Syntax Sem.Ops Sem.Lib Sem.Ref Sem.Gen Sem.Sim Sem.RefMono Sem.Opt
  Sem.OptRel Sem.OptRelProofs Sem.OptProofs Sem.OptWf Sem.OptSound Sem.OptFlagsProofs Sem.OptValue
  Sem.OptExamples Sem.OptCfg Sem.AstEq Sem.AstEqProofs Sem.OptTieProofs Sem.Trace Sem.TraceProofs Sem.TraceSim Sem.TraceOpt Generated.ValueCfg Run.C02Run.


(* more fuel never changes a result other than "out of fuel" *)
Theorem eval_mono : forall known n m env a,
  n <= m -> eval known n env a <> OOF -> eval known m env a = eval known n env a.
Proof. exact RefMono.eval_mono. Qed.

(* every optimized form simulates the original: all rewrite rules of the optimizer (operator and
   unary folds, regrouping under the exact law, constant if, list/map literals, index/member access,
   static functions, constant closures and methods run at Generate time, the closure-literal rule,
   const-let propagation with shadowing) for all programs including closures, callbacks,
   try/catch and switch *)
Theorem optimized_form_sound : forall known n s a t env env' m,
  arel known s a t -> env_rel known s (fvp t) env env' -> n <= m ->
  decided (eval known n env a) ->
  orel known (eval known n env a) (eval known m env' t).
Proof. exact sim. Qed.

(* code run at Generate time against the reference semantics (from C01's exec_sim): the reference
   semantics computes, with the same fuel, a value that the C01 relation relates to the result ... *)
Theorem generate_time_call_related : forall known fuel c cs v,
  cwf c -> Forall cwf cs -> gapp known fuel c cs = Ok v ->
  exists v1, r_app (eval known fuel) c cs = Ok v1 /\ Sim.vrel v1 v.
Proof. exact gapp_rel. Qed.
Theorem generate_time_method_related : forall known fuel rv m cs v,
  cwf rv -> Forall cwf cs -> run_method (gapp known fuel) rv m cs = Ok v ->
  exists v1, run_method (r_app (eval known fuel)) rv m cs = Ok v1 /\ Sim.vrel v1 v.
Proof. exact method_rel. Qed.
(* ... the same value when it is first-order, with whatever fuel does not run out *)
Theorem generate_time_call_agrees : forall known fuel c cs v,
  cwf c -> Forall cwf cs -> gapp known fuel c cs = Ok v -> fo v = true ->
  forall n, r_app (eval known n) c cs <> OOF -> r_app (eval known n) c cs = Ok v.
Proof. exact gapp_ref. Qed.
Theorem generate_time_method_agrees : forall known fuel rv m cs v,
  cwf rv -> Forall cwf cs -> run_method (gapp known fuel) rv m cs = Ok v -> fo v = true ->
  forall n, run_method (r_app (eval known n)) rv m cs <> OOF -> run_method (r_app (eval known n)) rv m cs = Ok v.
Proof. exact method_ref. Qed.
(* the value relation absorbs the C01 relation: a value computed by generated code can stand for the
   value the reference semantics computes *)
Theorem computed_constant_stands_for_value : forall known v v0 v1,
  vrel known v0 v1 -> Sim.vrel v1 v -> vrel known v0 v.
Proof. exact vrel_comp. Qed.

(* THE OPTIMIZER IS SOUND FOR ALL PROGRAMS, for every configuration that passes the decidable test
   cfg_ok (strict or not, closure-literal rule on or off, any static-function table) *)
Theorem C02_optimize_sound_cfg : forall fl known fuel,
  cfg_ok fl = true ->
  forall n m env a,
  side_ok a = true ->
  (forall x v, lookup x env = Some v -> vrel known v v) ->
  n <= m ->
  decided (eval known n env a) ->
  orel known (eval known n env a) (eval known m env (optimize fl known fuel a)).
Proof. exact optimize_sound_cfg. Qed.

(* ... with exact equality when the outcome is a first-order value, an error or a panic *)
Theorem C02_optimize_sound_cfg_exact : forall fl known fuel,
  cfg_ok fl = true ->
  forall n m env a,
  side_ok a = true ->
  (forall x v, lookup x env = Some v -> fo v = true) ->
  n <= m ->
  fo_outcome (eval known n env a) = true ->
  eval known m env (optimize fl known fuel a) = eval known n env a.
Proof. exact optimize_sound_cfg_exact. Qed.

(* the flags of value.New(): the optimizer of the implementation, no side condition on the program *)
Theorem C02_optimize_sound_all : forall known fuel n m env a,
  side_ok a = true ->
  (forall x v, lookup x env = Some v -> vrel known v v) ->
  n <= m ->
  decided (eval known n env a) ->
  orel known (eval known n env a) (eval known m env (optimize value_flags known fuel a)).
Proof. exact optimize_sound_value_all_lemma. Qed.

Theorem C02_optimize_sound_first_order_exact : forall known fuel n m env a,
  side_ok a = true ->
  (forall x v, lookup x env = Some v -> fo v = true) ->
  n <= m ->
  fo_outcome (eval known n env a) = true ->
  eval known m env (optimize value_flags known fuel a) = eval known n env a.
Proof. exact optimize_sound_value_exact_lemma. Qed.

(* the same for the flags REGENERATED from the current tree, and for the configuration of the
   correspondence run (regenerated flags + the harness functions tick/ptick): the obligation on the
   tables is discharged by computation at every build *)
Theorem C02_cfg_ok_generated : cfg_ok generated_flags = true /\ cfg_ok c02_flags = true.
Proof. vm_compute. split; reflexivity. Qed.

Theorem C02_optimize_sound_generated : forall known fuel n m env a,
  side_ok a = true ->
  (forall x v, lookup x env = Some v -> vrel known v v) ->
  n <= m ->
  decided (eval known n env a) ->
  orel known (eval known n env a) (eval known m env (optimize generated_flags known fuel a)).
Proof. exact (fun known fuel => optimize_sound_cfg generated_flags known fuel (proj1 C02_cfg_ok_generated)). Qed.

(* the strict optimizer (the previous version of the theorem) is an instance *)
Theorem optimize_sound_value_strict : forall known fuel n m env a,
  side_ok a = true ->
  (forall x v, lookup x env = Some v -> vrel known v v) ->
  n <= m ->
  decided (eval known n env a) ->
  orel known (eval known n env a) (eval known m env (optimize (strict value_flags) known fuel a)).
Proof. exact optimize_sound_value_strict_lemma. Qed.

(* the flags of value.New() satisfy all obligations (no operator is flagged commutative any more) *)
Theorem flags_ok_value : flags_ok value_flags.
Proof. exact OptFlagsProofs.flags_ok_value. Qed.
Theorem fold_agrees_value : fold_agrees value_flags.
Proof. exact (fold_agrees_all value_flags). Qed.
Theorem regroup_ok_value : regroup_ok value_flags.
Proof. exact OptFlagsProofs.regroup_ok_value. Qed.
Theorem pure_is_silent_value : pure_is_silent value_flags.
Proof. exact OptFlagsProofs.pure_is_silent_value. Qed.

(* regrouping: why the commutative flags were removed *)
Theorem regroup_unsound_for_eq_refuted : ~ regroup_law op_eq.
Proof. exact OptFlagsProofs.regroup_unsound_for_eq_refuted. Qed.
Theorem regroup_unsound_for_or_refuted : ~ regroup_law op_or.
Proof. exact OptFlagsProofs.regroup_unsound_for_or_refuted. Qed.
Theorem regroup_unsound_for_and_refuted : ~ regroup_law op_and.
Proof. exact OptFlagsProofs.regroup_unsound_for_and_refuted. Qed.
(* mutations of the operator table (+ or - flagged commutative) are caught the same way *)
Theorem regroup_unsound_for_add_refuted : ~ regroup_law op_add.
Proof. exact OptFlagsProofs.regroup_unsound_for_add_refuted. Qed.
Theorem regroup_unsound_for_sub_refuted : ~ regroup_law op_sub.
Proof. exact OptFlagsProofs.regroup_unsound_for_sub_refuted. Qed.
Theorem regroup_ok_pinned_refuted : ~ regroup_ok pinned_flags.
Proof. exact OptFlagsProofs.regroup_ok_pinned_refuted. Qed.
(* (2 * x) * 0.5 at x = 2^62: int64 wrap-around before the conversion to float (repaired in the
   repo by "fix: '*' of the value language is not regrouped by the optimizer") *)
Theorem regroup_ok_mul_commutative_refuted : ~ regroup_ok value_flags_mul_commutative.
Proof. exact OptFlagsProofs.regroup_ok_mul_commutative_refuted. Qed.
(* ... while on three integers both groupings agree exactly, also when the products wrap *)
Theorem regroup_mul_partial_int : forall c1 c2 x c,
  calc op_mul (VInt c1) (VInt c2) = Ok c ->
  calc op_mul c (VInt x) = bind (calc op_mul (VInt c1) (VInt x)) (fun r => calc op_mul r (VInt c2)) /\
  calc op_mul (VInt x) c = bind (calc op_mul (VInt x) (VInt c1)) (fun r => calc op_mul r (VInt c2)).
Proof. exact OptFlagsProofs.regroup_mul_partial_int. Qed.

(* (repaired in the repo) without the closure-field check the method rule folds
   {get: k -> 42, a: 7}.get("a") to 7 although the program evaluates to 42 *)
Theorem method_fold_without_field_check_refuted :
  eval [] 100 [] field_witness = Ok (VInt 42) /\
  eval [] 100 [] (optimize pinned_flags [] 100 field_witness) = Ok (VInt 7) /\
  eval [] 100 [] (optimize value_flags [] 100 field_witness) = Ok (VInt 42).
Proof. vm_compute. repeat split. Qed.

(* folding never runs impure code: the purity result of GenerateFunc excludes every call of a static
   function that is not flagged pure; the optimizer runs a closure constant / folds a closure
   literal only with that purity result, and runs a static function only if it is flagged pure *)
Theorem folding_never_runs_impure : forall fl a, gen_pure fl a = true -> calls_impure fl a = false.
Proof. exact gen_pure_no_impure_call. Qed.
Theorem folding_closure_run_is_pure : forall fl c,
  clo_value_pure fl c = true ->
  exists ps body, c = VClo ps body [] [] /\ gen_pure fl body = true /\ calls_impure fl body = false.
Proof. exact closure_run_at_generate_is_pure. Qed.
Theorem folding_closure_literal_is_pure : forall fl ps body outer r this v,
  rule_closure fl ps body outer r this = AConst v ->
  v = VClo ps body [] [] /\ gen_pure fl body = true /\ calls_impure fl body = false.
Proof. exact closure_folded_is_pure. Qed.
Theorem folding_static_run_is_pure : forall fl f args,
  rule_static fl f args <> AStatic f args -> static_pure fl f = true.
Proof. exact static_run_at_generate_is_pure. Qed.

(* ---------- effects: the trace semantics ---------- *)

(* erasure: wherever the reference evaluation is decided, the trace semantics has the same result and no
   event (a decided reference evaluation reaches no host function) - existing theorems transfer *)
Theorem trace_erasure : forall known host n env a,
  tdecided (eval known n env a) -> teval known host n env a = (eval known n env a, []).
Proof. exact eval_teval. Qed.

Theorem teval_fuel_monotone : forall known host n m env a,
  n <= m -> fst (teval known host n env a) <> OOF -> teval known host m env a = teval known host n env a.
Proof. exact teval_mono. Qed.

(* every optimized form has the same trace: all rewrite rules, all programs *)
Theorem optimized_form_preserves_trace : forall known host,
  host_respects known host ->
  forall n s a t env env' m,
  arel known s a t -> env_rel known s (fvp t) env env' -> n <= m ->
  tdecided (fst (teval known host n env a)) ->
  trace_rel known (teval known host n env a) (teval known host m env' t).
Proof. exact tsim. Qed.

(* THE OPTIMIZER PRESERVES THE TRACE: related outcome and the same events (same host functions, same
   order, related arguments) whenever the original evaluates to a value, an error or a panic *)
Theorem C02_optimize_preserves_trace : forall known host fl fuel,
  cfg_ok fl = true -> host_respects known host ->
  forall n m env a,
  side_ok a = true ->
  (forall x v, lookup x env = Some v -> vrel known v v) ->
  n <= m ->
  tdecided (fst (teval known host n env a)) ->
  trace_rel known (teval known host n env a) (teval known host m env (optimize fl known fuel a)).
Proof. exact optimize_preserves_trace_cfg. Qed.

(* the exact per-evaluation call counts: the same functions in the same order, each equally often *)
Theorem C02_optimize_preserves_call_counts : forall known host fl fuel,
  cfg_ok fl = true -> host_respects known host ->
  forall n m env a,
  side_ok a = true ->
  (forall x v, lookup x env = Some v -> vrel known v v) ->
  n <= m ->
  tdecided (fst (teval known host n env a)) ->
  map fst (snd (teval known host m env (optimize fl known fuel a))) = map fst (snd (teval known host n env a)) /\
  forall f, count_calls f (snd (teval known host m env (optimize fl known fuel a)))
            = count_calls f (snd (teval known host n env a)).
Proof. exact optimize_preserves_call_counts_cfg. Qed.

(* identical traces when the arguments of the calls are first-order values *)
Theorem C02_optimize_preserves_trace_first_order_exact : forall known host fl fuel,
  cfg_ok fl = true -> host_respects known host ->
  forall n m env a,
  side_ok a = true ->
  (forall x v, lookup x env = Some v -> vrel known v v) ->
  n <= m ->
  tdecided (fst (teval known host n env a)) ->
  Forall (fun e => forallb fo (snd e) = true) (snd (teval known host n env a)) ->
  snd (teval known host m env (optimize fl known fuel a)) = snd (teval known host n env a).
Proof. exact optimize_preserves_trace_exact_cfg. Qed.

(* ... and not identical in general: tick(x -> 1 + 2) - the argument of the event is the closure with
   the unfolded body in the original and the folded closure constant in the optimized program; the
   outcome here is an ERROR (the oracle rejects the argument) and the event before it is kept *)
Theorem optimize_preserves_trace_syntactically_refuted :
  teval [] host_ex 50 [] nv_prog4 =
    (Err None, [(n_tick_ex, [VClo [nv_x] (AOp op_add (AConst (VInt 1)) (AConst (VInt 2))) [] []])]) /\
  teval [] host_ex 50 [] (optimize value_flags [] 50 nv_prog4) =
    (Err None, [(n_tick_ex, [VClo [nv_x] (AConst (VInt 3)) [] []])]).
Proof. vm_compute. split; reflexivity. Qed.

(* what the optimizer evaluates at Generate time makes no host call: the traced evaluation of each
   redex it runs (a constant closure on constants, a method on constants) is the reference value with an
   EMPTY trace under every oracle; a static function it runs is a modelled built-in, not a host function *)
Theorem C02_generate_runs_no_host_call_closure : forall known fuel cv cs v,
  cwf cv -> Forall cwf cs ->
  (match cv with VClo ps _ _ _ => Nat.eqb (length ps) (length (map AConst cs)) | _ => false end) = true ->
  gapp known fuel cv cs = Ok v ->
  exists k v1, Sim.vrel v1 v /\
    forall host env, teval known host k env (ACall (AConst cv) (map AConst cs)) = (Ok v1, []).
Proof. exact generate_call_no_host_call. Qed.
Theorem C02_generate_runs_no_host_call_method : forall known fuel rv m ar cs v,
  cwf rv -> Forall cwf cs ->
  closure_field rv m = false -> method_arity rv m = Some ar -> arity_matches ar (length cs) = true ->
  run_method (gapp known fuel) rv m cs = Ok v ->
  exists k v1, Sim.vrel v1 v /\
    forall host env, teval known host k env (AMethod (AConst rv) m (map AConst cs)) = (Ok v1, []).
Proof. exact generate_method_no_host_call. Qed.
Theorem C02_generate_runs_no_host_call_static : forall fl f args,
  rule_static fl f args <> AStatic f args -> static_arity f <> None.
Proof. exact generate_static_not_host. Qed.

(* non-vacuity of the trace theorems: (x -> tick(1, x) + 1)(2) + tick(2, 3) + (1 + 2) with an oracle
   that respects the value relation: the optimizer folds 1 + 2 and keeps both calls, in order *)
Example C02_nonvacuous_trace :
  host_respects [] host_ex /\
  side_ok nv_prog3 = true /\ cfg_ok value_flags = true /\
  ast_eqb (optimize value_flags [] 50 nv_prog3) nv_prog3 = false /\
  teval [] host_ex 50 [] nv_prog3 =
    (Ok (VInt 12), [(n_tick_ex, [VInt 1; VInt 2]); (n_tick_ex, [VInt 2; VInt 3])]) /\
  teval [] host_ex 50 [] (optimize value_flags [] 50 nv_prog3) =
    (Ok (VInt 12), [(n_tick_ex, [VInt 1; VInt 2]); (n_tick_ex, [VInt 2; VInt 3])]) /\
  count_calls n_tick_ex (snd (teval [] host_ex 50 [] (optimize value_flags [] 50 nv_prog3))) = 2%nat.
Proof. split; [exact (host_ex_respects [])|]. vm_compute. repeat split. Qed.

(* non-vacuity: operator fold, constant if, const-let propagation into a closure body, the
   closure-literal rule, a constant closure run at Generate time, a method with a callback run at
   Generate time and a static function all fire; the implementation's optimizer agrees with the
   strict one on this program, and the optimized program differs from the original *)
Example C02_nonvacuous :
  optimize value_flags [] 50 nv_prog = AOp op_add (AOp op_mul (AIdent nv_x) (AConst (VInt 9))) (AConst (VInt 2)) /\
  optimize value_flags [] 50 nv_prog = optimize (strict value_flags) [] 50 nv_prog /\
  side_ok nv_prog = true /\
  eval [] 50 [(nv_x, VInt 7)] nv_prog = Ok (VInt 65) /\
  eval [] 50 [(nv_x, VInt 7)] (optimize value_flags [] 50 nv_prog) = Ok (VInt 65).
Proof. vm_compute. repeat split. Qed.

(* non-vacuity of the general theorem: a program on which the implementation's optimizer keeps a
   computed closure constant that captures a value (the strict optimizer does not fold there); it
   is inside the hypotheses, and the optimized program computes the same value *)
Example C02_nonvacuous_computed_closure :
  ast_eqb (optimize value_flags [] 50 nv_prog2) (optimize (strict value_flags) [] 50 nv_prog2) = false /\
  optimize value_flags [] 50 nv_prog2 =
    AOp op_add (ACall (AConst (VClo [nv_y] (AOp op_add (AIdent nv_x) (AIdent nv_y)) [(nv_x, VInt 1)] []))
                      [AConst (VInt 2)]) (AIdent nv_a) /\
  side_ok nv_prog2 = true /\
  eval [] 50 [(nv_a, VInt 5)] nv_prog2 = Ok (VInt 8) /\
  eval [] 50 [(nv_a, VInt 5)] (optimize value_flags [] 50 nv_prog2) = Ok (VInt 8).
Proof. vm_compute. repeat split. Qed.

(* ---------- the AST tie: the theorems reach the tree the REAL optimizer built ----------

   The correspondence run dumps, per program, the real parser's tree without optimizer (A) and the tree
   the real parser returns WITH the optimizer (B) and checks ast_eqb (optimize c02_flags ... A) B = true
   (Run/C02Run.v c02_tie_class = 0).  ast_eqb decides Leibniz equality, so on every such program the
   soundness theorems hold for B itself - the real optimizer's output, not only the model's. *)
Theorem ast_eqb_decides_equality : forall a b, ast_eqb a b = true <-> a = b.
Proof. exact ast_eqb_iff. Qed.

Theorem C02_tied_ast_sound : forall fl known fuel,
  cfg_ok fl = true ->
  forall a b, ast_eqb (optimize fl known fuel a) b = true ->
  forall n m env,
  side_ok a = true ->
  (forall x v, lookup x env = Some v -> vrel known v v) ->
  n <= m ->
  decided (eval known n env a) ->
  orel known (eval known n env a) (eval known m env b).
Proof. exact tied_ast_sound_lemma. Qed.

(* the instance the run checks: regenerated flags + tick/ptick, the regenerated method table, the run's fuel *)
Theorem C02_tied_ast_sound_run : forall a b,
  ast_eqb (c02_optimized a) b = true ->
  forall n m env,
  side_ok a = true ->
  (forall x v, lookup x env = Some v -> vrel value_methods v v) ->
  n <= m ->
  decided (eval value_methods n env a) ->
  orel value_methods (eval value_methods n env a) (eval value_methods m env b).
Proof. exact (tied_ast_sound_lemma c02_flags value_methods c02_fuel (proj2 C02_cfg_ok_generated)). Qed.

Theorem C02_tied_ast_first_order_exact : forall fl known fuel,
  cfg_ok fl = true ->
  forall a b, ast_eqb (optimize fl known fuel a) b = true ->
  forall n m env,
  side_ok a = true ->
  (forall x v, lookup x env = Some v -> fo v = true) ->
  n <= m ->
  fo_outcome (eval known n env a) = true ->
  eval known m env b = eval known n env a.
Proof. exact tied_ast_sound_exact_lemma. Qed.

(* down to generated code: when the real optimized tree B holds first-order constants only and Generate
   accepts it, the function generated from B returns the first-order value the reference semantics gives
   the ORIGINAL program (composition with C01_generated) *)
Theorem C02_tied_ast_generated_code : forall fl known fuel,
  cfg_ok fl = true ->
  forall a b, ast_eqb (optimize fl known fuel a) b = true ->
  forall n m argnames args v,
  side_ok a = true -> side_ok b = true ->
  gen_check (S (ast_size b)) (map Some argnames) [] b = true ->
  forallb fo args = true -> length args = length argnames ->
  n <= m ->
  eval known n (combine argnames args) a = Ok v -> fo v = true ->
  run known m b argnames args = Ok v.
Proof. exact tied_ast_generated_lemma. Qed.

(* non-vacuity: the tree (x * 9) + 2 as the harness prints it is tied to the optimizer model's output on
   nv_prog; all hypotheses of the three theorems hold and the generated code of the tied tree returns 65 *)
Example C02_nonvacuous_tied_ast :
  let b := AOp op_add (AOp op_mul (AIdent nv_x) (AConst (VInt 9))) (AConst (VInt 2)) in
  cfg_ok value_flags = true /\
  ast_eqb (optimize value_flags [] 50 nv_prog) b = true /\
  ast_eqb nv_prog b = false /\
  side_ok nv_prog = true /\ side_ok b = true /\
  gen_check (S (ast_size b)) (map Some [nv_x]) [] b = true /\
  eval [] 50 (combine [nv_x] [VInt 7]) nv_prog = Ok (VInt 65) /\
  run [] 50 b [nv_x] [VInt 7] = Ok (VInt 65).
Proof. vm_compute. repeat split. Qed.

(* the table obligation: the flags regenerated from the current value.New() (Generated/ValueCfg.v ->
   Sem/OptCfg.v generated_flags) agree with value_flags, the configuration all theorems below are
   about: same operators with the same IsPure/IsCommutative flags, same unary operators, every static
   function the model knows has the modelled IsPure flag, no impure method, all handlers present.
   Flipping a flag in value/value.go breaks this obligation at coqc. *)
Theorem C02_flags_match : flags_match generated_flags value_flags = true.
Proof. vm_compute. reflexivity. Qed.

Print Assumptions eval_mono.
Print Assumptions optimized_form_sound.
Print Assumptions generate_time_call_related.
Print Assumptions generate_time_method_related.
Print Assumptions generate_time_call_agrees.
Print Assumptions generate_time_method_agrees.
Print Assumptions computed_constant_stands_for_value.
Print Assumptions C02_optimize_sound_cfg.
Print Assumptions C02_optimize_sound_cfg_exact.
Print Assumptions C02_optimize_sound_all.
Print Assumptions C02_optimize_sound_first_order_exact.
Print Assumptions C02_cfg_ok_generated.
Print Assumptions C02_optimize_sound_generated.
Print Assumptions optimize_sound_value_strict.
Print Assumptions flags_ok_value.
Print Assumptions fold_agrees_value.
Print Assumptions regroup_ok_value.
Print Assumptions pure_is_silent_value.
Print Assumptions regroup_unsound_for_eq_refuted.
Print Assumptions regroup_unsound_for_or_refuted.
Print Assumptions regroup_unsound_for_and_refuted.
Print Assumptions regroup_unsound_for_add_refuted.
Print Assumptions regroup_unsound_for_sub_refuted.
Print Assumptions regroup_ok_pinned_refuted.
Print Assumptions regroup_ok_mul_commutative_refuted.
Print Assumptions regroup_mul_partial_int.
Print Assumptions method_fold_without_field_check_refuted.
Print Assumptions folding_never_runs_impure.
Print Assumptions folding_closure_run_is_pure.
Print Assumptions folding_closure_literal_is_pure.
Print Assumptions folding_static_run_is_pure.
Print Assumptions C02_flags_match.
Print Assumptions trace_erasure.
Print Assumptions teval_fuel_monotone.
Print Assumptions optimized_form_preserves_trace.
Print Assumptions C02_optimize_preserves_trace.
Print Assumptions C02_optimize_preserves_call_counts.
Print Assumptions C02_optimize_preserves_trace_first_order_exact.
Print Assumptions optimize_preserves_trace_syntactically_refuted.
Print Assumptions C02_generate_runs_no_host_call_closure.
Print Assumptions C02_generate_runs_no_host_call_method.
Print Assumptions C02_generate_runs_no_host_call_static.
Print Assumptions ast_eqb_decides_equality.
Print Assumptions C02_tied_ast_sound.
Print Assumptions C02_tied_ast_sound_run.
Print Assumptions C02_tied_ast_first_order_exact.
Print Assumptions C02_tied_ast_generated_code.
