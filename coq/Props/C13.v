From P2 Require Import Base.Prelude Lib.MapLib.
