(* C13 - All map representations behave as one abstract key-value map.
   Only the property theorems; each is closed by an exact lemma application (Lib/MapLibProofs.v).
   The model (Lib/MapLib.v) follows value/map.go, value/wrapper.go, value/binning.go (bin) and
   listMap/listMap.go after the repairs "fix: ReplaceMap.Get ...", "fix: Map.Merge ...",
   "fix: bin.Size ...", "fix: funcMapType.Size ..." and the C14 repair "fix: '=' on maps does not depend
   on the order of the entries nor on which map is the receiver"; the value type V, the element comparison veq
   (None = error) and ToString vshow are arbitrary. *)
From P2 Require Import Base.Prelude Lib.MapLib Lib.MapLibProofs.
From Coq Require Import Permutation.

(* Every history of operations (literal, host storage, put, +, replace - including the flattening
   of replace chains at depth 10 into a ListMap or RealMap -, eval, map, accept, combine; no bound
   on the length, operands are any earlier results): each step fails exactly when the finite-map
   specification fails (put of a present key, + of overlapping maps, duplicate literal key, failing
   closure, unknown operand), and otherwise yields a coherent storage whose iteration is exactly the
   finite map the specification computes (put = insert-if-absent, + = disjoint union, replace =
   override on the keys of the original, eval = identity, ...). *)
Theorem C13_ops_preserve_coherent : forall (V : Type) (ops : list (op V)), hosts_ok V ops ->
  Forall2 (rel V) (run V [] ops) (srun V [] ops).
Proof. exact ops_preserve_coherent. Qed.

(* ... in particular every value a history produces is coherent: unique keys, Size = number of
   pairs Iter yields, Get answers exactly for those pairs *)
Theorem C13_history_values_coherent : forall (V : Type) (ops : list (op V)) (h : nat) (s : stor V),
  hosts_ok V ops -> handle V (run V [] ops) h = Some s ->
  coherent V s /\ shandle V (srun V [] ops) h = Some (iter V s).
Proof. exact history_values_coherent. Qed.

(* the storages the host can hand in are coherent: ListMap/RealMap/toMapWrapper over distinct keys
   (Go map keys are distinct), every bin description, the empty map *)
Theorem C13_host_storages_coherent : forall V : Type,
  (forall l : entries V, NoDup (keys V l) -> coherent V (SList l))
  /\ (forall l : entries V, NoDup (keys V l) -> coherent V (SReal l))
  /\ (forall l : entries V, NoDup (keys V l) -> coherent V (SWrap l))
  /\ (forall ismin vmin ismax vmax vstr, coherent V (SBin ismin vmin ismax vmax vstr))
  /\ coherent V SEmpty.
Proof. exact host_storages_coherent. Qed.

(* function maps (NewFuncMapFactory): coherent under the contract "declared keys are distinct and
   the function answers only for declared keys" (it may decline declared keys); without the
   contract Get and Iter disagree - a precondition on the host's function, not on the library *)
Theorem C13_func_storage_partial : forall (V : Type) (ks : list str) (f : str -> option V),
  NoDup ks -> (forall k, f k <> None -> In k ks) -> coherent V (SFunc ks f).
Proof. exact coherent_func. Qed.

Theorem C13_func_storage_unrestricted_refuted : forall (V : Type) (v : V),
  exists (ks : list str) (f : str -> option V), NoDup ks /\ ~ coherent V (SFunc ks f).
Proof. exact func_storage_unrestricted_refuted. Qed.

(* all observers of a coherent storage are the corresponding functions of the finite map iter s:
   size, list, member access, get, isAvail, ~, string, the iteration-based methods map/accept (their
   result with the identity resp. the constant-true closure is the map itself), and export, which
   receives exactly the entries of the map (a permutation of iter s, keys in sort order) *)
Theorem C13_observers_agree : forall (V : Type) (vshow : V -> str) (s : stor V), coherent V s ->
  obs_size V s = length (iter V s)
  /\ obs_list V s = iter V s
  /\ (forall k, obs_access V s k = fm_get V (iter V s) k)
  /\ (forall k, obs_getm V s k = fm_get V (iter V s) k)
  /\ (forall ks, obs_isavail V s ks = forallb (fun k => is_some (fm_get V (iter V s) k)) ks)
  /\ (forall k, obs_contains V s k = is_some (fm_get V (iter V s) k))
  /\ obs_string V vshow s = render V vshow (iter V s)
  /\ (Permutation (obs_export V s) (iter V s) /\ keys V (obs_export V s) = sort_keys (keys V (iter V s)))
  /\ rel V (map_m V s (fun _ v => Some v)) (Some (iter V s))
  /\ rel V (accept V s (fun _ _ => Some true)) (Some (iter V s)).
Proof. exact observers_agree. Qed.

(* Map.Equals is true exactly when the finite maps are equal (same number of keys, every entry of
   the left map has an equal entry in the right one) ... *)
Theorem C13_equals_is_finite_map_equality : forall (V : Type) (veq : V -> V -> option bool) (a b : stor V),
  coherent V a -> coherent V b ->
  (equals V veq a b = Some true <-> fm_equal V veq (iter V a) (iter V b)).
Proof. exact equals_true_iff. Qed.

(* ... it is an error exactly when the sizes agree and some entry of the left map meets an entry of
   the right map it cannot be compared with (Map.Equals visits all entries; an error wins over a
   difference) - so the outcome does not depend on any iteration order ... *)
Theorem C13_equals_error_is_incomparable_entry : forall (V : Type) (veq : V -> V -> option bool) (a b : stor V),
  coherent V a -> coherent V b ->
  (equals V veq a b = None <-> fm_equal_err V veq (iter V a) (iter V b)).
Proof. exact equals_err_iff. Qed.

(* ... hence the whole outcome (true, false, error) is independent of representation and key order
   on both sides ... *)
Theorem C13_equality_representation_independent :
  forall (V : Type) (veq : V -> V -> option bool) (a a' b b' : stor V),
  coherent V a -> coherent V a' -> coherent V b -> coherent V b' ->
  fm_equiv V (iter V a) (iter V a') -> fm_equiv V (iter V b) (iter V b') ->
  equals V veq a b = equals V veq a' b'.
Proof. exact equality_representation_independent. Qed.

(* ... symmetric in its whole outcome, errors included, when the element comparison is symmetric
   (it does not matter which map is the receiver) ... *)
Theorem C13_equality_symmetric : forall (V : Type) (veq : V -> V -> option bool),
  (forall x y, veq x y = veq y x) ->
  forall a b : stor V, coherent V a -> coherent V b -> equals V veq a b = equals V veq b a.
Proof. exact equality_symmetric. Qed.

(* ... and its answer "true" is symmetric already when the element comparison's "true" is ... *)
Theorem C13_equality_true_symmetric : forall (V : Type) (veq : V -> V -> option bool),
  (forall x y, veq x y = Some true -> veq y x = Some true) ->
  forall a b : stor V, coherent V a -> coherent V b ->
  equals V veq a b = Some true -> equals V veq b a = Some true.
Proof. exact equality_true_symmetric. Qed.

(* ... and, when the element comparison decides identity, true exactly for the same abstract map *)
Theorem C13_equality_is_same_map : forall (V : Type) (veq : V -> V -> option bool),
  (forall x y, veq x y = Some true <-> x = y) ->
  forall a b : stor V, coherent V a -> coherent V b ->
  (equals V veq a b = Some true <-> fm_equiv V (iter V a) (iter V b)).
Proof. exact equality_is_same_map. Qed.

(* keys stay unique: put of a key that any observer reports present fails, + of maps sharing a key
   fails (also for the empty key), a literal with a repeated key is rejected, and no history ever
   produces a value that lists a key twice *)
Theorem C13_keys_stay_unique : forall V : Type,
  (forall s k v, obs_contains V s k = true -> put V s k v = None)
  /\ (forall a b k, obs_contains V a k = true -> In k (keys V (iter V b)) -> merge V a b = None)
  /\ (forall l : entries V, ~ NoDup (keys V l) -> literal V l = None)
  /\ (forall ops h s, hosts_ok V ops -> handle V (run V [] ops) h = Some s -> NoDup (keys V (iter V s))).
Proof. exact keys_stay_unique. Qed.

(* the unspecified iteration order of a Go map does not matter: any order gives a coherent storage
   denoting the same finite map *)
Theorem C13_real_order_irrelevant : forall (V : Type) (l l' : entries V), NoDup (keys V l) -> Permutation l l' ->
  coherent V (SReal l') /\ fm_equiv V (iter V (SReal l')) (iter V (SReal l)) /\ size V (SReal l') = size V (SReal l).
Proof. exact real_order_irrelevant. Qed.

(* values are persistent, also in branching histories: what an earlier handle denotes does not change
   when further operations (on that value or on others) follow; in particular the result of m + x is
   the value of that step whatever is merged onto m later.  (The aliasing a Go slice append can introduce
   is below this model - storages are immutable terms; it is C09's heap model (Heap/MapHeap.v, Heap/MapHeapProofs.v) that proves
   persistence against sharing, and the run re-observes every value after its whole history.) *)
Theorem C13_values_persistent : forall (V : Type) (ops later : list (op V)) (h : nat), h < length ops ->
  nth_error (run V [] (ops ++ later)) h = nth_error (run V [] ops) h.
Proof. exact values_persistent. Qed.

Theorem C13_merge_result_independent_of_later_merges : forall (V : Type) (ops later : list (op V)) (a b : nat),
  nth_error (run V [] (ops ++ OMerge a b :: later)) (length ops)
  = Some (step V (run V [] ops) (OMerge a b)).
Proof. exact merge_result_independent_of_later_merges. Qed.

(* non-vacuity: a history over V = N that nests every wrapper and drives a replace chain through the
   flattening threshold; replacement keys inside ("b") and outside ("c") the original key set *)
Local Open Scope N_scope.
Definition ka : str := [97]. Definition kb : str := [98]. Definition kc : str := [99]. Definition kd : str := [100].
Definition demo : list (op N) :=
  [ OLit [(ka, 1); (kb, 2)]; OLit [(kb, 5); (kc, 6)]; OReplace 0 1;            (* 2: replace1(list,list) *)
    OLit [(kd, 4)]; OMerge 2 3; OPut 4 kc 7;                                    (* 5: append(merge(replace,list)) *)
    OReplace 5 1; OReplace 6 1; OReplace 7 1; OReplace 8 1; OReplace 9 1;
    OReplace 10 1; OReplace 11 1; OReplace 12 1; OReplace 13 1; OReplace 14 1;  (* 15: depth 10 *)
    OReplace 15 1;                                                              (* 16: flattened *)
    OEval 16; OPut 16 ka 0; OMerge 16 0; OHost (SBin false 0 true 3 9) ].

Example C13_nonvacuous :
  hosts_ok N demo
  /\ map (option_map (iter N)) (run N [] demo) = srun N [] demo
  /\ nth_error (run N [] demo) 15
     = Some (Some (SReplace (SReplace (SReplace (SReplace (SReplace (SReplace (SReplace (SReplace (SReplace (SReplace
         (SAppend kc 7 (SMerge (SReplace (SList [(ka, 1); (kb, 2)]) (SList [(kb, 5); (kc, 6)]) 1) (SList [(kd, 4)])))
         (SList [(kb, 5); (kc, 6)]) 1) (SList [(kb, 5); (kc, 6)]) 2) (SList [(kb, 5); (kc, 6)]) 3) (SList [(kb, 5); (kc, 6)]) 4)
         (SList [(kb, 5); (kc, 6)]) 5) (SList [(kb, 5); (kc, 6)]) 6) (SList [(kb, 5); (kc, 6)]) 7) (SList [(kb, 5); (kc, 6)]) 8)
         (SList [(kb, 5); (kc, 6)]) 9) (SList [(kb, 5); (kc, 6)]) 10))
  /\ nth_error (run N [] demo) 16 = Some (Some (SList [(kc, 6); (ka, 1); (kb, 5); (kd, 4)]))
  /\ nth_error (run N [] demo) 18 = Some None      (* put of the present key "a" *)
  /\ nth_error (run N [] demo) 19 = Some None.     (* + of overlapping maps *)
Proof. split; [exact (conj (coherent_bin N false 0 true 3 9) I)|]. vm_compute. repeat split; reflexivity. Qed.

Print Assumptions C13_ops_preserve_coherent.
Print Assumptions C13_history_values_coherent.
Print Assumptions C13_host_storages_coherent.
Print Assumptions C13_func_storage_partial.
Print Assumptions C13_func_storage_unrestricted_refuted.
Print Assumptions C13_observers_agree.
Print Assumptions C13_equals_is_finite_map_equality.
Print Assumptions C13_equality_representation_independent.
Print Assumptions C13_equals_error_is_incomparable_entry.
Print Assumptions C13_equality_symmetric.
Print Assumptions C13_equality_true_symmetric.
Print Assumptions C13_equality_is_same_map.
Print Assumptions C13_keys_stay_unique.
Print Assumptions C13_real_order_irrelevant.
Print Assumptions C13_values_persistent.
Print Assumptions C13_merge_result_independent_of_later_merges.
