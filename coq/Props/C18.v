(* C18 - XML and HTML export are well-formed and data can never inject markup.
   This file contains only the property theorems; each is closed by an exact lemma application.
   xml_text_tbl / xml_attr_tbl are regenerated from /repo's xmlWriter (Write / Attr) on every run.

   Scope of the theorems: the XMLWriter state machine in all four configurations, the XML exporter, and the
   modelled core of ToHtml (Exp/Html.v; the configuration ToHtml really uses is AvoidShort + PrettyPrint).
   The model follows the
   repaired code (two fix: commits in /repo, see known_findings.json "fixed"): before the repairs the
   exporter violated the property for the map with the one key  a=(quote)1(quote) b  (key in attribute-name position) and for CR in text,
   CR/LF/TAB in attribute values; those inputs stay in the corpus of the correspondence run. *)
From P2 Require Import Base.Prelude Exp.Json Exp.Xml Exp.XmlProofs Exp.Html Exp.HtmlProofs Generated.XmlEscapes.
Local Open Scope N_scope.

(* the decidable obligation on the regenerated tables: every exception to the identity is a reference the
   specification parser decodes to the character, and & < > CR (text), & < quote TAB LF CR (attributes) are escaped *)
Theorem C18_table_ok : xml_table_ok xml_text_tbl xml_attr_tbl = true.
Proof. vm_compute. reflexivity. Qed.

(* an attribute value is read back exactly, whatever follows the closing quote *)
Theorem C18_attr_value : forall (s : str) (rest : list N), legal s = true ->
  attval (S (length s)) (esc_str xml_attr_tbl s ++ 34 :: rest) [] = Some (s, rest).
Proof. exact (attr_value_roundtrip xml_text_tbl xml_attr_tbl C18_table_ok). Qed.

(* balanced call sequences are exactly the images of trees under ops_of *)
Theorem C18_balanced : forall n : node, tree_of (ops_of n) = Some [n].
Proof. exact tree_of_ops_of. Qed.

(* writer_wellformed: in every configuration (AvoidShort, PrettyPrint) the calls for any element tree whose
   names are XML names, whose attribute names are unique, whose strings are legal XML characters and which
   does not mix Write with child elements produce markup that the specification parser accepts and that
   parses back to exactly that tree: names as given, every attribute value and every piece of character
   data decoded to exactly the string passed to Attr / Write; nothing stays open *)
Theorem C18_writer_wellformed : forall (av pr : bool) (n : node),
  is_el n = true -> wf_node n = true -> unmixed n = true ->
  exists out, run (mkCfg av pr xml_text_tbl xml_attr_tbl) w_init (ops_of n) = Some (out, w_init) /\
              xml_fragment out = Some [canon n].
Proof. exact (writer_wellformed xml_text_tbl xml_attr_tbl C18_table_ok). Qed.

(* exporter_ops_ok: for every value the XML exporter issues a balanced call sequence (that of one tree r),
   attributes only in start tags, unmixed, all names XML names with unique attribute names, element names
   only list/entry/map, attribute names only key or map keys that are plain ASCII names *)
Theorem C18_exporter_ops_ok : forall v : xval, legal_val v = true ->
  exists r, xml_ops v = ops_of r /\ tree_of (xml_ops v) = Some [r] /\
            wf_node r = true /\ unmixed r = true /\ plain_names r = true /\ is_el r = is_container v.
Proof. exact exporter_ops_ok. Qed.

(* C18_no_injection: for every list or map value (with Format/Link wrappers anywhere) whose strings and keys
   are legal XML characters and whose maps have distinct keys, export.XML() does not panic, the document is
   accepted by the specification parser, its element and attribute names are constants or plain-name keys,
   and a reader of the documented list/entry/map/key format gets back exactly the value: lists in order,
   maps with their keys as given (sorted), every scalar as its text *)
Theorem C18_no_injection : forall v : xval, legal_val v = true -> is_container v = true ->
  exists out root, xml_export xml_text_tbl xml_attr_tbl v = Some out /\ xml_parse out = Some root /\
                   plain_names root = true /\ xml_decode root = Some (proj v).
Proof. exact (no_injection xml_text_tbl xml_attr_tbl C18_table_ok). Qed.

(* ---------------------------------------------------------------- ToHtml (modelled core) *)

(* a balanced call sequence never makes the writer panic, in any configuration, mixed content included *)
Theorem C18_writer_total : forall (c : wcfg) (f : list node),
  exists out st, run c w_init (flat_map ops_of f) = Some (out, st) /\ w_open st = [].
Proof. exact run_forest_ok. Qed.

(* unmixed forests at top level (what ToHtml writes without plainList): parsed back exactly *)
Theorem C18_forest_wellformed : forall (av pr : bool) (f : list node),
  unmixed_forest f = true -> forallb wf_node f = true ->
  exists out st, run (mkCfg av pr xml_text_tbl xml_attr_tbl) w_init (flat_map ops_of f) = Some (out, st) /\
        xml_fragment out = Some (canon_forest f).
Proof. exact (forest_wellformed xml_text_tbl xml_attr_tbl C18_table_ok). Qed.

(* C18_html_wellformed: for EVERY value of the modelled type hval (scalars, floats, numbered lists, tables with
   the maxListSize cut-off, plainList, maps, Format with string / css-map styles inline or as classes, Cell,
   ColSpan, Link, http/https/host strings, File values, table formats rNcM / rN / cN / all with constant
   styles, identity and failing closures and closures that succeed with any value of the type (HCell), Format
   with a failing closure style or with a succeeding closure style whose result is any value of the type, nil,
   lists whose iteration fails at some position (HErr)) with legal XML characters: either ToHtml answers
   an error, or the calls it issues are balanced (exactly those of a forest f), every element and attribute
   name of f is one of ToHtml's constants, attribute names are unique, and the writer runs to the end *)
Theorem C18_html_wellformed : forall (maxl : N) (inline : bool) (v : hval), legal_h v = true ->
  match to_html (eff_max maxl) inline v SNone [] with
  | None => to_html_doc xml_text_tbl xml_attr_tbl maxl inline v = HError
  | Some (ops, cls) =>
      exists f out, ops = flat_map ops_of f /\ tree_of ops = Some f /\
        forallb wf_node f = true /\ forallb hnames f = true /\
        to_html_doc xml_text_tbl xml_attr_tbl maxl inline v = HOk out cls
  end.
Proof. exact (html_wellformed xml_text_tbl xml_attr_tbl). Qed.

(* C18_html_no_injection_partial.  Side condition: pfree v - no plainList style anywhere in the value.
   Then the markup ToHtml returns (AvoidShort + PrettyPrint) is accepted by the specification parser and
   parses back to exactly the forest of the calls: every string handed to Write / Attr (texts, keys, link
   targets, style strings, class names) is decoded exactly, and all names are ToHtml's constants.
   Full statement (without pfree) is FALSE for the real configuration: plainList writes list elements side by
   side and PrettyPrint then puts a line break and indentation into the character data next to an element
   (the text of ["a", link] comes back as a+LF); for those values C18_html_wellformed still gives balance,
   constant names and no panic, and the correspondence run compares the bytes. *)
Theorem C18_html_no_injection_partial : forall (maxl : N) (inline : bool) (v : hval),
  legal_h v = true -> pfree v = true ->
  match to_html (eff_max maxl) inline v SNone [] with
  | None => to_html_doc xml_text_tbl xml_attr_tbl maxl inline v = HError
  | Some (ops, cls) =>
      exists f out, ops = flat_map ops_of f /\ forallb hnames f = true /\
        to_html_doc xml_text_tbl xml_attr_tbl maxl inline v = HOk out cls /\
        xml_fragment out = Some (canon_forest f) /\ forallb hnames (canon_forest f) = true
  end.
Proof. exact (html_no_injection_partial xml_text_tbl xml_attr_tbl C18_table_ok). Qed.

(* C18_html_no_injection_unmixed: the exact side condition, stated on the forest of the calls instead of on the
   value.  For EVERY legal value - plainList styles included - whose rendering succeeds: if the forest f of the calls
   is unmixed (no element of f, and not the top level, has both character data and element children), then the
   markup parses back to exactly f.  pfree is one way to guarantee it (C18_html_no_injection_partial is the
   corollary); a plainList whose elements all render as elements (tables, maps, links, files, styled or link
   strings) or all as character data is another (Example C18_plainlist_unmixed).  What really fails is mixed
   content under PrettyPrint: C18_html_no_injection_refuted. *)
Theorem C18_html_no_injection_unmixed : forall (maxl : N) (inline : bool) (v : hval),
  legal_h v = true ->
  match to_html (eff_max maxl) inline v SNone [] with
  | None => to_html_doc xml_text_tbl xml_attr_tbl maxl inline v = HError
  | Some (ops, cls) =>
      exists f out, ops = flat_map ops_of f /\ forallb hnames f = true /\
        to_html_doc xml_text_tbl xml_attr_tbl maxl inline v = HOk out cls /\
        (unmixed_forest f = true ->
         xml_fragment out = Some (canon_forest f) /\ forallb hnames (canon_forest f) = true)
  end.
Proof. exact (html_no_injection_unmixed xml_text_tbl xml_attr_tbl C18_table_ok). Qed.

(* non-vacuity: a plainList (not pfree) of a link, a table with markup characters and a styled string: the forest
   of the calls is unmixed, and the markup parses back to it *)
Example C18_plainlist_unmixed :
  let v := HFmt false 0 (SStr s_plainList)
             (HL [HLnk [108; 34] (HS [98; 60]); HL [HS [60; 38]; HNil]; HFmt false 0 (SStr [99; 62]) (HS [39])]) in
  legal_h v = true /\ pfree v = false /\
  match to_html (eff_max 3) true v SNone [], to_html_doc xml_text_tbl xml_attr_tbl 3 true v with
  | Some (ops, _), HOk out _ =>
      match tree_of ops with
      | Some f => unmixed_forest f &&
                  match xml_fragment out with Some g => forest_eqb g (canon_forest f) | None => false end
      | None => false
      end
  | _, _ => false
  end = true.
Proof. vm_compute. repeat split; reflexivity. Qed.

(* the mixed-content counterexample for the real configuration, by computation *)
Theorem C18_html_no_injection_refuted : exists v : hval, legal_h v = true /\
        match to_html_doc xml_text_tbl xml_attr_tbl 3 true v, to_html (eff_max 3) true v SNone [] with
  | HOk out _, Some (ops, _) =>
      match tree_of ops, xml_fragment out with
      | Some f, Some g => negb (forest_eqb g (canon_forest f))
      | _, _ => false
      end
  | _, _ => false
  end = true.
Proof.
  exists (HFmt false 0 (SStr s_plainList) (HL [HS [97]; HLnk [108] (HS [98])])). vm_compute. split; reflexivity.
Qed.

(* tohtml_errors_not_panics: a failing (or panicking: recovered) closure style that toHtml reaches inside the
   maxListSize cut-offs (relation fails, coq/Exp/Html.v: through Format, Link, map values, list elements, table
   cells with or without a table format, results of succeeding closures - of Format styles and of table formats),
   or a position at which the iteration of a list fails (HErr) that the loop reaches - up to and including the
   first element past the cut-off, in a numbered list, the rows of a table, the cells of a row, a plainList -
   makes ToHtml answer an error - never a document cut off at that element.  Together with C18_html_wellformed: the only outcomes are an error without
   markup or complete balanced markup; the writer never panics *)
Theorem C18_tohtml_errors : forall (maxl : N) (inline : bool) (v : hval),
  fails (eff_max maxl) v SNone -> to_html_doc xml_text_tbl xml_attr_tbl maxl inline v = HError.
Proof. exact (html_errors xml_text_tbl xml_attr_tbl). Qed.

(* non-vacuity of fails: the failing element is the last rendered row (error) / the first cut-off row (no error) *)
Example C18_errors_nonvacuous :
  let bad := HFmt false 0 SCloErr (HL [HS [118]]) in
  fails (eff_max 2) (HL [HS [97]; bad; HS [99]]) SNone /\
        to_html_doc xml_text_tbl xml_attr_tbl 2 true (HL [HS [97]; bad; HS [99]]) = HError /\
        match to_html_doc xml_text_tbl xml_attr_tbl 2 true (HL [HS [97]; HS [98]; bad]) with HOk _ _ => True | _ => False end.
Proof.
  cbn zeta. split; [|split; vm_compute; [reflexivity|exact I]].
  eapply (F_list _ _ (HS [97]) 1%nat); try reflexivity.
  apply T_list; [reflexivity|apply F_here].
Qed.

(* non-vacuity for the new shapes: the iteration fails at the first element past the cut-off (error; one
   position later: no error), in a cell of a row, a table-format closure whose recorded result fails in its
   cell; a list whose first element is nil is rendered as nothing, whatever follows *)
Example C18_errors_iter_nonvacuous :
  let tf := STab [] [([97; 108; 108], SCloRes)] in
  let bad := HFmt false 0 SCloErr (HL [HS [118]]) in
  fails (eff_max 2) (HL [HS [97]; HS [98]; HErr]) SNone /\
  to_html_doc xml_text_tbl xml_attr_tbl 2 true (HL [HS [97]; HS [98]; HErr]) = HError /\
  match to_html_doc xml_text_tbl xml_attr_tbl 2 true (HL [HS [97]; HS [98]; HS [99]; HErr]) with HOk _ _ => True | _ => False end /\
  fails (eff_max 2) (HL [HL [HS [97]]; HL [HS [98]; HS [99]; HErr]]) SNone /\
  fails (eff_max 2) (HL [HL [HS [97]; HCell bad (HS [98])]]) tf /\
  to_html_doc xml_text_tbl xml_attr_tbl 2 true (HFmt false 0 tf (HL [HL [HS [97]; HCell bad (HS [98])]])) = HError /\
  to_html_doc xml_text_tbl xml_attr_tbl 2 true (HL [HNil; bad; HErr]) = HOk [] [].
Proof.
  cbn zeta. split; [|split; [|split; [|split; [|split; [|split]]]]].
  - eapply (F_list_iter _ _ (HS [97]) 2%nat); try reflexivity; try (vm_compute; discriminate).
  - vm_compute. reflexivity.
  - vm_compute. exact I.
  - eapply (F_cell_iter _ _ (HL [HS [97]]) 1%nat _ 2%nat); try reflexivity; try (vm_compute; discriminate).
  - eapply (F_cell_res _ _ (HL [HS [97]; HCell (HFmt false 0 SCloErr (HL [HS [118]])) (HS [98])]) 0%nat _ 1%nat); try reflexivity.
    apply T_list; [reflexivity|apply F_here].
  - vm_compute. reflexivity.
  - vm_compute. reflexivity.
Qed.

(* non-vacuity: a nested value with hostile keys and strings; the former failing inputs *)
Example C18_nonvacuous :
  let v := VL [VM [([97; 61; 34; 49; 34; 32; 98], VS [50])];                (* key a=(quote)1(quote) b, value 2 *)
               VM [([107], VS [97; 10; 98; 9; 99; 13; 100])];               (* k: a LF b TAB c CR d *)
               VS [97; 13; 98; 60; 93; 93; 62; 38];                          (* a CR b < ]]> & *)
               VW true (VM [([120; 109; 108; 110; 115], VS [102])])] in      (* Format wrapper around the map xmlns: f *)
  legal_val v = true /\
  match xml_export xml_text_tbl xml_attr_tbl v with
  | Some out => match xml_parse out with Some root => xml_decode root | None => None end
  | None => None
  end = Some (proj v).
Proof. vm_compute. split; reflexivity. Qed.

(* non-vacuity for the extended model: a table format (cell r1c1 styled with markup characters, row 2 styled,
   everything else an identity closure), a File, a succeeding closure style whose result is a list with markup
   characters; the markup parses back and all names are ToHtml's constants *)
Example C18_html_nonvacuous :
  let tf := STab [([99], [60])] [([114; 49; 99; 49], SStr [34; 62; 60]); ([114; 50], SStr [120]); ([99; 50], SCloRes); ([97; 108; 108], SCloId)] in
  let v := HFmt false 0 tf (HL [HL [HS [60; 97]; HCell (HM [([118; 60], HNil)]) (HFile [110; 34] [] [81; 81; 61; 61] [49; 32; 66])];
                                HL [HFmtClo false 0 (HL [HS [38]; HS [39]]) (HS [120]); HS [98]]]) in
  legal_h v = true /\ pfree v = true /\
  match to_html_doc xml_text_tbl xml_attr_tbl 3 true v with
  | HOk out _ => match xml_fragment out with Some f => forallb hnames f | None => false end
  | _ => false
  end = true.
Proof. vm_compute. repeat split; reflexivity. Qed.

Print Assumptions C18_table_ok.
Print Assumptions C18_attr_value.
Print Assumptions C18_balanced.
Print Assumptions C18_writer_wellformed.
Print Assumptions C18_exporter_ops_ok.
Print Assumptions C18_no_injection.
Print Assumptions C18_writer_total.
Print Assumptions C18_forest_wellformed.
Print Assumptions C18_html_wellformed.
Print Assumptions C18_html_no_injection_partial.
Print Assumptions C18_html_no_injection_unmixed.
Print Assumptions C18_html_no_injection_refuted.
Print Assumptions C18_tohtml_errors.
