From P2 Require Import Base.Prelude Exp.Json Exp.Xml Generated.XmlEscapes.

Theorem C18_table_ok : xml_table_ok xml_text_tbl xml_attr_tbl = true.
Proof. vm_compute. reflexivity. Qed.

Print Assumptions C18_table_ok.
