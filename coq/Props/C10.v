(* C10 - placeholder until the proofs are in place (see Heap/FuncStateProofs.v) *)
From P2 Require Import Base.Prelude Heap.ListHeap Heap.FuncState.
