(* C10 - a generated function is a pure function of its arguments across evaluations.
   This file contains only the property theorems; each is closed by an exact lemma application.

   Model of the implementation: Heap/FuncState.v - a generator's surviving state is the heap of list objects
   reachable from the constants of its functions (Heap/ListHeap.v: slices into backing arrays, List.Eval
   materialising in place, List.Append writing into spare capacity once and capping the receiver) plus the
   optimizer's scratch stack; an evaluation is a script of heap steps on a stack of its own (Func.Eval:
   NewEmptyStack().Init).  Specification side: sp_prog / sp_body - the outcome as a function of
   (program, arguments, consumption), constants bound to their content, no heap, no history.
   The capacity Go's append chooses is a parameter cp: every theorem holds for EVERY growth policy. *)
From P2 Require Import Base.Prelude Heap.ListHeap Heap.ListHeapProofs Heap.FuncState Heap.FuncStateProofs.
From P2 Require Import Sem.Num Sem.Syntax Sem.Ops Sem.Lib Sem.Ref Sem.Gen Sem.Sim Heap.FuncStackProofs.
From P2 Require Lib.Stream Lib.Iterate Lib.IterateProofs.
From P2 Require Import Heap.MapHeap Heap.MapHeapProofs Heap.MapState Heap.MapStateProofs.
From P2 Require Import Heap.MixState Heap.MixStateProofs Heap.MixSpecProofs.

(* an evaluation is a sequence of heap steps whose outcome is determined by (F, args, j) and the CONTENT of the
   constants - never by their representation (itemsPresent / len / cap / which array): started in ANY heap h2
   reachable from h by good steps (C09: invariant kept, objects only added, nobody's content changes) it ends,
   alone, with the specification's outcome for the contents in h, and takes only good steps itself *)
Theorem C10_outcome_depends_on_content_only : forall cp h F args j, inv h -> func_ok h F ->
  forall h2, good h h2 ->
  snd (run_iso h2 (sc_eval cp F args j)) = sp_body (func_senv h F args) (f_body F) j /\
  good h2 (fst (run_iso h2 (sc_eval cp F args j))).
Proof. exact outcome_content_only_lemma. Qed.

(* DESIGN.md: eval_history_independent.  All histories, no bound: evaluations of this and of other functions
   of the same generator with any arguments (failing ones, list results dropped / half consumed / consumed),
   further Generate calls, junk on the optimizer's scratch stack, any other list operations on this heap *)
Theorem C10_eval_history_independent : forall cp g hist k args j,
  gstate_ok g -> k < length (g_funcs g) ->
  eval_after cp g hist k args j = eval_after cp g [] k args j.
Proof. exact eval_history_independent_lemma. Qed.

(* every state a generator can reach satisfies the hypothesis of the theorem above *)
Theorem C10_reachable_states_ok : forall cp hist, gstate_ok (run_hist cp new_generator hist).
Proof. exact reachable_ok_lemma. Qed.

(* ... and the outcome is the one the specification assigns to the PROGRAM TEXT: Generate(p) at any point of
   any history, then any further history, then Eval(args) consuming j elements = sp_prog p args j *)
Theorem C10_generated_function_meets_spec : forall cp before p hist args j o,
  sp_prog p args j = Some o ->
  let g := run_hist cp new_generator before in
  eval_after cp (run_event cp g (EGen p)) hist (length (g_funcs g)) args j = o.
Proof. exact generated_meets_spec_reachable_lemma. Qed.

(* DESIGN.md: generate_does_not_disturb *)
Theorem C10_generate_does_not_disturb : forall cp g p junk k args j,
  gstate_ok g -> k < length (g_funcs g) ->
  eval_after cp g [EScratch junk; EGen p] k args j = eval_after cp g [] k args j.
Proof. exact generate_does_not_disturb_lemma. Qed.

(* failing materialisation (a lazy constant, or a lazy list passed to several evaluations, whose producer fails
   at some element): List.Eval returns the error before it writes anything, so the step changes NOTHING - the
   shared object stays lazy and fails again, identically, for whoever touches it next.  Failing evaluations are
   ordinary members of the histories of C10_eval_history_independent (the theorem has no side condition on them) *)
Theorem C10_failing_eval_changes_nothing : forall R a mk (k : option nat -> script R) h,
  poisoned (icontent h a) = true ->
  match alloc_eval a mk k with Do f => f h = (h, k None) | Done _ => False end.
Proof. exact failing_eval_changes_nothing_lemma. Qed.

(* the MAP fragment (Heap/MapState.v: map constants folded at Generate time by MapHeap operations - literal, put, +,
   replace, map, accept, eval; put / + / field access / size at run time): an evaluation performs no heap step, its
   outcome is a function of what its constant maps show, and - MapHeap's persistence, C09 - it is the same after ANY
   sequence of map operations on the generator's map heap (other evaluations, other functions, further Generate calls) *)
Theorem C10_map_eval_history_independent : forall h ops cs args b, mwf h -> consts_of h cs ->
  meval_on (fold_left mstep ops h) cs args b = meval_on h cs args b.
Proof. exact map_eval_history_independent_lemma. Qed.

Theorem C10_map_generated_history_independent : forall p h ops args, mgenerate p = Some h ->
  meval_on (fold_left mstep ops h) (mh_maps h) args (mp_body p) = meval_on h (mh_maps h) args (mp_body p).
Proof. exact map_generated_history_independent_lemma. Qed.

(* programs MIXING lists and maps, map literals built per evaluation, LISTS OF LISTS (Heap/MixState.v: list heap and
   map heap in ONE state; a map entry / an element of a list of lists holds the handle of a shared list object, so a
   list constant is reachable through the constant table, through constant maps, through the maps an evaluation
   builds and through outer list constants; an inner list obtained by index is appended to / materialised in place).  All histories, no bound:
   evaluations of this and other functions of the generator (failing ones, list results dropped / half consumed),
   further Generate calls, any other list operations and any other map operations on the two heaps *)
Theorem C10_mixed_eval_history_independent : forall cp g hist k args j,
  xgstate_ok g -> k < length (xg_funcs g) ->
  xeval_after cp g hist k args j = xeval_after cp g [] k args j.
Proof. exact mixed_eval_history_independent_lemma. Qed.

(* every state a generator can reach satisfies the hypothesis of the theorem above *)
Theorem C10_mixed_reachable_states_ok : forall cp hist, xgstate_ok (xrun_hist cp new_xgenerator hist).
Proof. exact mixed_reachable_ok_lemma. Qed.

(* the outcome is determined by (function, arguments, consumption), the ENTRIES its constant maps show and the CONTENT
   of its list constants - never by the representation of either heap: started in any list heap reachable from h0 by
   good steps and any map heap reachable from mh0 by map operations it gives what the function denotes on (h0, mh0) *)
Theorem C10_mixed_outcome_depends_on_content_only : forall cp h0 mh0 F args j h mh,
  inv h0 -> mwf mh0 -> xfunc_ok h0 mh0 F -> good h0 h -> mgood mh0 mh ->
  snd (xeval_fn cp h mh F args j) = xfunc_denotes h0 mh0 F args j.
Proof. exact mixed_outcome_content_only_lemma. Qed.

(* ... and for well-typed programs of the mixed fragment the outcome is the one the SPECIFICATION assigns to the PROGRAM
   TEXT (sp_xprog: map entries and lists of lists hold content; no heap, no handle, no history): Generate(p) at any
   point of any history, then any further history on both heaps, then Eval(args) consuming j elements *)
Theorem C10_mixed_generated_function_meets_spec : forall cp before p hist args j o,
  xprog_wt p = true -> sp_xprog p args j = Some o ->
  let g := xrun_hist cp new_xgenerator before in
  xeval_after cp (xrun_event cp g (XEGen p)) hist (length (xg_funcs g)) args j = o.
Proof. exact mixed_generated_meets_spec_reachable_lemma. Qed.

(* traversal state is per ITERATION, not per list value (Lib/Stream.v pipelines: map, accept, combine, number,
   iir, compact, skip, top over numbers / literals / +; consumers first, single, size, present, indexWhere, ~,
   reduce): a lazy list value - a constant shared by all evaluations, a let-bound value used by two consumers -
   traversed after any number of earlier traversals, complete or stopped early, gives what a fresh traversal gives *)
Theorem C10_iterate_twice_same : forall fuel p before t,
  last (Iterate.iterate fuel p (before ++ [t])) ([], Stream.OutOfFuel, O) = Stream.run fuel t p.
Proof. exact IterateProofs.iterate_twice_same_lemma. Qed.

(* the executable semantics that THREADS the stage states from one traversal into the next coincides with it
   exactly when no stage keeps anything ... *)
Theorem C10_iterate_state_not_kept : forall fuel p ts,
  Iterate.iterate_shared (fun _ => false) fuel p ts = Iterate.iterate fuel p ts.
Proof. exact IterateProofs.iterate_shared_none_lemma. Qed.

(* ... and discriminates: with compact's lastPublished hoisted into the list value, [3,1,3].compact((a,b)->a=b)
   traversed by first() and then summed gives 4 instead of 7 *)
Theorem C10_iterate_shared_state_discriminates : exists p t1 t2,
  map (fun r => snd (fst r)) (Iterate.iterate 20 p [t1; t2]) = [Stream.OInt 3; Stream.OInt 7] /\
  map (fun r => snd (fst r)) (Iterate.iterate_shared Iterate.is_compact 20 p [t1; t2]) = [Stream.OInt 3; Stream.OInt 4].
Proof. exact IterateProofs.iterate_shared_refuted_lemma. Qed.

(* the stack leg (C01's simulation): residue of earlier activity on a stack storage - anything above and
   below the frame holding the arguments - is irrelevant; an evaluation started on such a storage and one on
   a fresh storage both give the outcome of the reference semantics, which has no stack *)
Theorem C10_stack_residue_irrelevant : forall known fuel a argnames args stk base,
  wf (map Some argnames) [] a -> forallb fo args = true -> length args = length argnames ->
  base + length argnames <= length stk -> pushedv stk base args ->
  let r := eval known fuel (combine argnames args) a in
  orel r (fst (exec known fuel (map Some argnames) [] stk base (length argnames) [] a)) /\
  orel r (fst (exec known fuel (map Some argnames) [] args 0 (length args) [] a)).
Proof. exact stack_residue_lemma. Qed.

(* non-vacuity and discrimination: `let c0=[1,2,3]; let c1=c0.map(e->e+1); c1[a0]+c1.append(a0).size()`.
   Generate leaves c1 lazy (not frozen); the first evaluation materialises it IN PLACE (the representation of
   the shared constant changes: present, len 3, cap 4), the second appends into its spare capacity and caps it
   (cap 3) - and all three evaluations with the same argument give 7, the specification's value *)
Example C10_nonvacuous :
  let cp := mkCaps (fun n => 2 * n) (fun n => 2 * n) in
  let p := mkP [DL (LLit [1; 2; 3]%Z); DL (LMap (SLit 1) (LConst 0))]
               (BZ (ZAdd (ZIndex (LConst 1) (ZS (SArg 0))) (ZSize (LAppend (LConst 1) (ZS (SArg 0)))))) in
  let g1 := run_event cp new_generator (EGen p) in
  let g2 := run_event cp g1 (EEval 0 [1]%Z 0) in
  let g3 := run_event cp g2 (EEval 0 [5]%Z 0) in
  gstate_ok g1 /\ length (g_funcs g1) = 1 /\
  repr (g_heap g1) 1 = (false, 0, 0) /\ repr (g_heap g2) 1 = (true, 3, 3) /\
  sp_prog p [1]%Z 0 = Some (FuncState.OInt 7) /\
  eval_after cp g1 [] 0 [1]%Z 0 = FuncState.OInt 7 /\
  eval_after cp g1 [EEval 0 [1]%Z 0; EEval 0 [5]%Z 0; EGen p; EEval 1 [0]%Z 0] 0 [1]%Z 0 = FuncState.OInt 7 /\
  eval_after cp g1 [EEval 0 [5]%Z 0] 0 [5]%Z 0 = FuncState.OErr.
Proof.
  cbv zeta. split; [apply (C10_reachable_states_ok _ [EGen _])|]. vm_compute. repeat split; reflexivity.
Qed.

(* non-vacuity for failing materialisation: `let c0=[5,6,7,8]; let c1=c0.map(e->e+0%(e-7)); c1.append(a0)`
   (the closure fails on the element 7): every evaluation fails, before and after any history, the constant
   stays lazy (never half-materialised); `c1.top(2)` of the same constant works, before and after the failures *)
Example C10_failing_materialisation_nonvacuous :
  let cp := mkCaps (fun n => 2 * n) (fun n => 2 * n) in
  let p := mkP [DL (LLit [5; 6; 7; 8]%Z); DL (LGuard (SLit 7) (LConst 0))] (BL (LAppend (LConst 1) (ZS (SArg 0)))) in
  let q := mkP [DL (LLit [5; 6; 7; 8]%Z); DL (LGuard (SLit 7) (LConst 0))] (BL (LTop (SAdd (SArg 0) (SLit 2)) (LConst 1))) in
  let g1 := run_event cp new_generator (EGen p) in
  let g2 := run_hist cp g1 [EEval 0 [1]%Z 9; EEval 0 [2]%Z 9] in
  sp_prog p [1]%Z 9 = Some FuncState.OErr /\
  eval_after cp g1 [] 0 [1]%Z 9 = FuncState.OErr /\
  eval_after cp g1 [EEval 0 [1]%Z 9; EEval 0 [2]%Z 0; EGen q; EEval 1 [0]%Z 9] 0 [1]%Z 9 = FuncState.OErr /\
  repr (g_heap g1) 1 = (false, 0, 0) /\ repr (g_heap g2) 1 = (false, 0, 0) /\
  eval_after cp (run_event cp new_generator (EGen q)) [EEval 0 [5]%Z 9] 0 [0]%Z 9 = FuncState.OList [5; 6]%Z /\
  eval_after cp (run_event cp new_generator (EGen q)) [] 0 [5]%Z 9 = FuncState.OErr.
Proof. vm_compute. repeat split; reflexivity. Qed.

(* non-vacuity and discrimination for the mixed fragment:
   `let c0=[1,2]; let c1=c0.append(3); let m0={l:c1,n:1}; let x0={a:a0,l:c1}.l; let x1=m0.put("z",a1).l;
    x0.append(a0).size()*10+x1.append(a1)[3]`
   c1 has spare capacity (len 3, cap 6 under this policy) and is reached through a map literal built by the evaluation (x0) and through
   a wrapper of the constant map m0 (x1): the first evaluation appends twice to the ONE shared object (the first append
   writes into the shared array and caps the constant: cap 3), builds a ListMap in the map heap - and every evaluation
   with the arguments (5, 7) gives 47, the specification's value; reading the list field of a map that has none fails,
   before and after any history *)
Example C10_mixed_nonvacuous :
  let cp := mkCaps (fun n => 2 * n) (fun n => 2 * n) in
  let kl := [108%N] in let kn := [110%N] in let ka := [97%N] in let kz := [122%N] in
  let p := mkXP [DL (LLit [1; 2]%Z); DL (LAppend (LConst 0) (ZS (SLit 3)))] []
                [XMLit [(kl, XVList 1); (kn, XVInt (SLit 1))]]
                [XBList (XMLit [(ka, XVInt (SArg 0)); (kl, XVList 1)]) kl; XBList (XMPut (XMConst 0) kz (XVInt (SArg 1))) kl]
                (XB (BZ (ZAdd (ZMul (ZSize (LAppend (LConst 2) (ZS (SArg 0)))) (ZS (SLit 10)))
                              (ZIndex (LAppend (LConst 3) (ZS (SArg 1))) (ZS (SLit 3)))))) in
  let q := mkXP [DL (LLit [4]%Z)] [] [XMLit [(kn, XVInt (SLit 1))]] [XBList (XMPut (XMConst 0) ka (XVInt (SArg 0))) kl] (XB (BZ (ZSize (LConst 1)))) in
  let g1 := xrun_event cp new_xgenerator (XEGen p) in
  let g2 := xrun_event cp g1 (XEEval 0 [5; 7]%Z 0) in
  xgstate_ok g1 /\ length (xg_funcs g1) = 1 /\ xprog_wt p = true /\ xprog_wt q = true /\
  repr (xg_heap g1) 1 = (true, 3, 6) /\ repr (xg_heap g2) 1 = (true, 3, 3) /\
  length (mh_arrs (xg_mh g1)) = 1 /\ length (mh_arrs (xg_mh g2)) = 2 /\
  sp_xprog p [5; 7]%Z 0 = Some (XO (FuncState.OInt 47)) /\
  xeval_after cp g1 [] 0 [5; 7]%Z 0 = XO (FuncState.OInt 47) /\
  xeval_after cp g1 [XEEval 0 [5; 7]%Z 0; XEEval 0 [1; 2]%Z 0; XEGen q; XEEval 1 [0]%Z 0; XEMapOps [MLit [(ka, 3%Z)]]] 0 [5; 7]%Z 0 = XO (FuncState.OInt 47) /\
  sp_xprog q [0]%Z 0 = Some (XO FuncState.OErr) /\
  xeval_after cp g1 [XEGen q; XEEval 0 [5; 7]%Z 0] 1 [0]%Z 0 = XO FuncState.OErr.
Proof.
  cbv zeta. split; [apply (C10_mixed_reachable_states_ok _ [XEGen _])|]. vm_compute. repeat split; reflexivity.
Qed.

(* non-vacuity for LISTS OF LISTS (the `nested-const` shape):
   `let c0=[1,2]; let c1=c0.map(e->e+1); let c2=[3]; let c3=c2.append(4); let o0=[c1,c3]; let c4=o0[a0]; c4.append(a1)`
   the inner lists are shared objects (c1 lazy, c3 with spare capacity) held by the outer constant; an evaluation
   materialises / appends to the inner list it obtained by index - the representation of c1 and c3 changes, the outer
   list and what every later evaluation sees do not *)
Example C10_list_of_lists_nonvacuous :
  let cp := mkCaps (fun n => 2 * n) (fun n => 2 * n) in
  let p := mkXP [DL (LLit [1; 2]%Z); DL (LMap (SLit 1) (LConst 0)); DL (LLit [3]%Z); DL (LAppend (LConst 2) (ZS (SLit 4)))]
                [[1; 3]] [] [XBIndex 0 (SArg 0)] (XB (BL (LAppend (LConst 4) (ZS (SArg 1))))) in
  let g1 := xrun_event cp new_xgenerator (XEGen p) in
  let g2 := xrun_hist cp g1 [XEEval 0 [1; 9]%Z 9; XEEval 0 [0; 8]%Z 0] in
  xgstate_ok g1 /\ length (xg_funcs g1) = 1 /\ xprog_wt p = true /\
  icontent (xg_heap g1) 4 = [1; 3]%Z /\ icontent (xg_heap g2) 4 = [1; 3]%Z /\
  repr (xg_heap g1) 1 = (false, 0, 0) /\ repr (xg_heap g2) 1 = (true, 2, 2) /\
  repr (xg_heap g1) 3 = (true, 2, 4) /\ repr (xg_heap g2) 3 = (true, 2, 2) /\
  sp_xprog p [1; 9]%Z 9 = Some (XO (FuncState.OList [3; 4; 9]%Z)) /\
  xeval_after cp g1 [] 0 [1; 9]%Z 9 = XO (FuncState.OList [3; 4; 9]%Z) /\
  xeval_after cp g1 [XEEval 0 [1; 9]%Z 9; XEEval 0 [0; 8]%Z 0; XEGen p; XEEval 1 [1; 7]%Z 1] 0 [1; 9]%Z 9 = XO (FuncState.OList [3; 4; 9]%Z) /\
  xeval_after cp g1 [XEEval 0 [1; 9]%Z 9] 0 [0; 5]%Z 9 = XO (FuncState.OList [2; 3; 5]%Z) /\
  sp_xprog p [2; 0]%Z 9 = Some (XO FuncState.OErr) /\
  xeval_after cp g1 [XEEval 0 [1; 9]%Z 9] 0 [2; 0]%Z 9 = XO FuncState.OErr.
Proof.
  cbv zeta. split; [apply (C10_mixed_reachable_states_ok _ [XEGen _])|]. vm_compute. repeat split; reflexivity.
Qed.

(* non-vacuity for STRING results: `let c0=[1,2,3]; let m0={l:c0,n:7}; let n0=m0.put("z",a0).z; let n1=m0.put("z",a0).n;
   "z="+n0+";n="+n1+";"+(a1*2)` - immutable scalars, no heap step after the lets *)
Example C10_string_result_nonvacuous :
  let cp := mkCaps (fun n => 2 * n) (fun n => 2 * n) in
  let kl := [108%N] in let kn := [110%N] in let kz := [122%N] in
  let p := mkXP [DL (LLit [1; 2; 3]%Z)] [] [XMLit [(kl, XVList 0); (kn, XVInt (SLit 7))]]
                [XBInt (XMPut (XMConst 0) kz (XVInt (SArg 0))) kz; XBInt (XMPut (XMConst 0) kz (XVInt (SArg 0))) kn]
                (XBStr [XSLit [122; 61]%N; XSInt (SCst 0); XSLit [59; 110; 61]%N; XSInt (SCst 1); XSLit [59]%N; XSInt (SMul (SArg 1) (SLit 2))]) in
  let g1 := xrun_event cp new_xgenerator (XEGen p) in
  xprog_wt p = true /\
  sp_xprog p [-5; 21]%Z 0 = Some (XOStr [122; 61; 45; 53; 59; 110; 61; 55; 59; 52; 50]%N) /\
  xeval_after cp g1 [XEEval 0 [1; 2]%Z 0; XEGen p; XEEval 1 [0; 0]%Z 0] 0 [-5; 21]%Z 0 = XOStr [122; 61; 45; 53; 59; 110; 61; 55; 59; 52; 50]%N /\
  xeval_after cp g1 [] 0 [0; 0]%Z 0 = XOStr [122; 61; 48; 59; 110; 61; 55; 59; 48]%N.
Proof. vm_compute. repeat split; reflexivity. Qed.

Print Assumptions C10_outcome_depends_on_content_only.
Print Assumptions C10_eval_history_independent.
Print Assumptions C10_reachable_states_ok.
Print Assumptions C10_generated_function_meets_spec.
Print Assumptions C10_generate_does_not_disturb.
Print Assumptions C10_failing_eval_changes_nothing.
Print Assumptions C10_map_eval_history_independent.
Print Assumptions C10_map_generated_history_independent.
Print Assumptions C10_iterate_twice_same.
Print Assumptions C10_iterate_state_not_kept.
Print Assumptions C10_iterate_shared_state_discriminates.
Print Assumptions C10_stack_residue_irrelevant.
Print Assumptions C10_mixed_eval_history_independent.
Print Assumptions C10_mixed_reachable_states_ok.
Print Assumptions C10_mixed_outcome_depends_on_content_only.
Print Assumptions C10_mixed_generated_function_meets_spec.
