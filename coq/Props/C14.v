(* C14 - Equality and ordering operators obey their algebraic laws.
   Only the property theorems; each is closed by an exact lemma application (proofs: Sem/OpsLaws.v).
   Model: Sem/Ops.v (veq = fg.equal / the "=" matrix with deep list/map comparison, vless = the "<"
   matrix, calc = the closures of value.New() for != > <= >= ~), Sem/Lib.v (pick_min/pick_max = min/max).
   Specification side: Sem/OpsSpec.v (sem_eq = the evident equality: numbers by exact value, lists
   element-wise, maps key-wise; lt_spec = exact numeric order / lexicographic order of strings).
   All theorems quantify over ALL values (unbounded nesting).  Side conditions:
     wf_keys     the keys of every map inside are pairwise different (maps are association lists here)
     clean_val   no NaN, no closure, no caught-error text inside
     small_ints  every int inside is exactly a float, |z| < 2^53 (the property's bound).
   The operator matrices op_matrices are regenerated from value.New() on every run. *)
From P2 Require Import Base.Prelude Sem.Num Sem.Syntax Sem.Ops Sem.Lib Sem.OpsSpec Sem.OpsLaws Sem.OrderSwitch
  Sem.OrderSwitchLaws Sem.Ref Generated.ValueOps.
From Coq Require Import Permutation Sorted.
Local Open Scope Z_scope.

(* ---------------------------------------------------------------- = : what it computes *)

(* lists element-wise, maps key-wise: the unfolding equations read like List.Equals / Map.Equals
   (lists: length check, then stop at the first position that is not equal - false or error;
    maps: size check, then ALL entries of the receiver, an error winning over a difference) *)
Theorem C14_eq_lists_elementwise : forall la lb,
  veq (VList la) (VList lb) = if len_differs la lb then Ok false else list_go veq la lb.
Proof. exact veq_list_eq. Qed.

Theorem C14_eq_maps_keywise : forall ma mb,
  veq (VMap ma) (VMap mb) = if len_differs ma mb then Ok false else map_all veq mb ma.
Proof. exact veq_map_eq. Qed.

(* never a wrong boolean: whenever = answers true/false it is the evident equality *)
Theorem C14_eq_sound : forall a b r, veq a b = Ok r -> sem_eq a b = r.
Proof. exact veq_sound. Qed.

(* and every evident equality is found *)
Theorem C14_eq_complete : forall a b, wf_keys a = true -> wf_keys b = true ->
  small_ints a = true -> small_ints b = true -> sem_eq a b = true -> veq a b = Ok true.
Proof. exact veq_complete. Qed.

(* ints and floats are compared by numeric value: z = m * 2^e *)
Theorem C14_eq_numeric : forall z f, small_int z = true ->
  veq (VInt z) (VFloat f) = Ok (xeq (XFin z 0) (xnum_fl f)) /\
  veq (VFloat f) (VInt z) = Ok (xeq (XFin z 0) (xnum_fl f)).
Proof. exact veq_int_float. Qed.

Theorem C14_eq_numeric_meaning : forall z m e, xeq (XFin z 0) (XFin m e) = true <-> int_is_dyadic z m e.
Proof. exact xeq_int_fin. Qed.

(* ---------------------------------------------------------------- = : reflexive, symmetric *)

Theorem C14_eq_refl : forall a, wf_keys a = true -> clean_val a = true -> veq a a = Ok true.
Proof. exact veq_refl. Qed.

(* a=b and b=a have the same outcome - true, false or error - for all values (maps as the
   implementation has them: pairwise different keys).  Before the repair of Map.Equals
   (fix: '=' on maps does not depend on the order of the entries ...) this failed:
   {a:1,b:"x"} = {b:1,a:2} was false and {b:1,a:2} = {a:1,b:"x"} an error; the pair stays in the
   corpus of the correspondence run and is an error both ways now (veq_sym_witness). *)
Theorem C14_eq_sym : forall a b, wf_keys a = true -> wf_keys b = true -> veq a b = veq b a.
Proof. exact veq_sym. Qed.

(* ---------------------------------------------------------------- < : irreflexive, asymmetric, transitive *)

(* < answers by the exact numeric order (ints and floats mixed, +-0, infinities) and the
   lexicographic order of strings *)
Theorem C14_lt_exact : forall a b r, vless a b = Ok r -> lt_spec a b = Some r.
Proof. exact vless_spec. Qed.

Theorem C14_lt_irrefl : forall a r, vless a a = Ok r -> r = false.
Proof. exact vless_irrefl. Qed.

Theorem C14_lt_asym : forall a b, vless a b = Ok true -> vless b a = Ok false.
Proof. exact vless_asym. Qed.

Theorem C14_lt_trans : forall a b c, small_ints a = true -> small_ints c = true ->
  vless a b = Ok true -> vless b c = Ok true -> vless a c = Ok true.
Proof. exact vless_trans. Qed.

(* without the bound on ints: a<c is true or outside the exact model, never false or an error *)
Theorem C14_lt_trans_any_int : forall a b c, vless a b = Ok true -> vless b c = Ok true ->
  vless a c = Ok true \/ vless a c = Unsup.
Proof. exact vless_trans_gen. Qed.

(* ---------------------------------------------------------------- the derived operators *)

Theorem C14_ne_is_not_eq : forall a b, calc op_ne a b = rbool (neg_res (veq a b)).
Proof. exact ne_is_not_eq. Qed.

Theorem C14_gt_is_flip : forall a b, calc op_gt a b = calc op_lt b a.
Proof. exact gt_is_flip. Qed.

Theorem C14_le_is_lt_or_eq : forall a b l e, vless a b = Ok l -> veq a b = Ok e ->
  calc op_le a b = Ok (VBool (l || e)).
Proof. exact le_is_lt_or_eq. Qed.

Theorem C14_le_undefined : forall a b, is_err (vless a b) = true -> is_err (calc op_le a b) = true.
Proof. exact le_undefined. Qed.

Theorem C14_ge_is_flip_le : forall a b, calc op_ge a b = calc op_le b a.
Proof. exact ge_is_flip_le. Qed.

Theorem C14_le_antisym : forall a b,
  calc op_le a b = Ok (VBool true) -> calc op_le b a = Ok (VBool true) -> calc op_eq a b = Ok (VBool true).
Proof. exact le_antisym. Qed.

(* ---------------------------------------------------------------- membership *)

(* full statement: forall x l, x ~ l is the first decisive answer of x = y over the elements y of l.
   It fails when x is itself a list: value.New() makes `list ~ list` multiset containment
   (containsAllItems), so [1] ~ [[1],[2]] compares 1 with [1] and fails although an element equals x,
   and [2,3] ~ [1,2,3] is true although no element equals [2,3]. *)
Theorem C14_member_refuted :
  let x := VList [VInt 1] in let l := [VList [VInt 1]; VList [VInt 2]] in
  (exists y, In y l /\ veq x y = Ok true) /\ calc op_in x (VList l) = Err None.
Proof. exact member_list_refuted. Qed.

Theorem C14_member_true_refuted :
  let x := VList [VInt 2; VInt 3] in let l := [VInt 1; VInt 2; VInt 3] in
  Forall (fun y => veq x y = Err None) l /\ calc op_in x (VList l) = Ok (VBool true).
Proof. exact member_list_refuted2. Qed.

(* partial: for every x that is not a list *)
Theorem C14_member_true_partial : forall x l, not_a_list x ->
  (calc op_in x (VList l) = Ok (VBool true) <->
   exists l1 y l2, l = l1 ++ y :: l2 /\ veq x y = Ok true /\ Forall (fun z => veq x z = Ok false) l1).
Proof. exact member_true_iff. Qed.

Theorem C14_member_false_partial : forall x l, not_a_list x ->
  (calc op_in x (VList l) = Ok (VBool false) <-> Forall (fun z => veq x z = Ok false) l).
Proof. exact member_false_iff. Qed.

Theorem C14_member_error_partial : forall x l, not_a_list x ->
  (is_err (calc op_in x (VList l)) = true <->
   exists l1 y l2, l = l1 ++ y :: l2 /\ is_err (veq x y) = true /\ Forall (fun z => veq x z = Ok false) l1).
Proof. exact member_err_iff. Qed.

Theorem C14_member_exists_partial : forall x l, not_a_list x -> Forall (fun z => exists r, veq x z = Ok r) l ->
  (calc op_in x (VList l) = Ok (VBool true) <-> exists y, In y l /\ veq x y = Ok true).
Proof. exact member_exists. Qed.

(* ---------------------------------------------------------------- incomparable operands: an error, never a boolean *)

(* the decidable obligation on the regenerated matrices: registered pairs = the kinds the model accepts *)
Theorem C14_definedness_table : definedness_matches op_matrices = true.
Proof. vm_compute. reflexivity. Qed.

Theorem C14_incomparable_is_error : forall op a b, In op matrix_ops ->
  is_errtext a = false -> is_errtext b = false ->
  registered op_matrices op (kind_of a) (kind_of b) = false -> calc op a b = Err None.
Proof. exact (incomparable_by_table op_matrices C14_definedness_table). Qed.

Theorem C14_derived_incomparable : forall a b, is_errtext a = false -> is_errtext b = false ->
  (registered op_matrices op_eq (kind_of a) (kind_of b) = false -> calc op_ne a b = Err None) /\
  (registered op_matrices op_lt (kind_of b) (kind_of a) = false -> calc op_gt a b = Err None) /\
  (registered op_matrices op_lt (kind_of a) (kind_of b) = false -> calc op_le a b = Err None) /\
  (registered op_matrices op_lt (kind_of b) (kind_of a) = false -> calc op_ge a b = Err None).
Proof. exact (derived_incomparable op_matrices C14_definedness_table). Qed.

(* inside the table < never fails; = never fails on scalars *)
Theorem C14_lt_defined : forall a b, is_errtext a = false -> is_errtext b = false ->
  lt_kinds_ok (kind_of a) (kind_of b) = true -> is_err (calc op_lt a b) = false.
Proof. exact lt_defined. Qed.

Theorem C14_eq_defined_scalar : forall a b, is_errtext a = false -> is_errtext b = false ->
  match a, b with VList _, VList _ | VMap _, VMap _ => False | _, _ => True end ->
  eq_kinds_ok (kind_of a) (kind_of b) = true -> is_err (calc op_eq a b) = false.
Proof. exact eq_defined_scalar. Qed.

(* ---------------------------------------------------------------- min, max, switch *)

Theorem C14_min_picks_by_less : forall a b,
  run_static n_min [a; b] = match vless b a with
                            | Ok true => Ok b | Ok false => Ok a
                            | Err t => Err t | Panic => Panic | OOF => OOF | Unsup => Unsup
                            end.
Proof. exact min_two. Qed.

Theorem C14_max_picks_by_less : forall a b,
  run_static n_max [a; b] = match vless a b with
                            | Ok true => Ok b | Ok false => Ok a
                            | Err t => Err t | Panic => Panic | OOF => OOF | Unsup => Unsup
                            end.
Proof. exact max_two. Qed.

(* any number of arguments: the result is an argument and none is smaller / larger *)
Theorem C14_min_least : forall m l r, pick_min m l = Ok r ->
  In r (m :: l) /\ Forall (fun y => lt_spec y r <> Some true) (m :: l).
Proof. exact pick_min_least. Qed.

Theorem C14_max_greatest : forall m l r, pick_max m l = Ok r ->
  In r (m :: l) /\ Forall (fun y => lt_spec r y <> Some true) (m :: l).
Proof. exact pick_max_greatest. Qed.

Theorem C14_min_incomparable : forall m v l, is_err (vless v m) = true -> is_err (pick_min m (v :: l)) = true.
Proof. exact pick_min_err. Qed.

Theorem C14_max_incomparable : forall m v l, is_err (vless m v) = true -> is_err (pick_max m (v :: l)) = true.
Proof. exact pick_max_err. Qed.

(* switch, ~ and groupByEqual use the same equality as = *)
Theorem C14_switch_uses_eq : forall a b, equal_fg a b = veq a b.
Proof. exact equal_fg_is_veq. Qed.

(* ---------------------------------------------------------------- switch agrees with = *)

(* switch x case c1: .. case ck: .. default ..  (switch_model: the case loop of GenerateFunc, cases numbered
   from n, 0 = default): case number n+i is taken exactly when x = c_i is true and every earlier constant is
   comparable and different; *)
Theorem C14_switch_agrees : forall x cs n k, (k <> 0)%N -> (0 < n)%N ->
  (switch_model x cs n = Ok k <->
   exists l1 c l2, cs = l1 ++ c :: l2 /\ k = (n + N.of_nat (length l1))%N /\
                   veq x c = Ok true /\ Forall (fun z => veq x z = Ok false) l1).
Proof. exact switch_model_case. Qed.

(* the default exactly when every constant is comparable and different; *)
Theorem C14_switch_default : forall x cs n, (0 < n)%N ->
  (switch_model x cs n = Ok 0%N <-> Forall (fun z => veq x z = Ok false) cs).
Proof. exact switch_model_default. Qed.

(* an error exactly when a constant that cannot be compared comes before any equal one *)
Theorem C14_switch_error : forall x cs n,
  (is_err (switch_model x cs n) = true <->
   exists l1 c l2, cs = l1 ++ c :: l2 /\ is_err (veq x c) = true /\ Forall (fun z => veq x z = Ok false) l1).
Proof. exact switch_model_err. Qed.

(* on every pair: switch a case b takes the case iff a = b, fails iff a = b fails - and so does switch b case a *)
Theorem C14_switch_pair : forall x c,
  switch_model x [c] 1 = match veq x c with
                         | Ok true => Ok 1%N | Ok false => Ok 0%N
                         | Err t => Err t | Panic => Panic | OOF => OOF | Unsup => Unsup
                         end.
Proof. exact switch_one_case. Qed.

Theorem C14_switch_sym : forall a b, wf_keys a = true -> wf_keys b = true ->
  switch_model a [b] 1 = switch_model b [a] 1.
Proof. exact switch_sym. Qed.

(* the loop is what the reference semantics (Sem/Ref.v eval) does for a switch over constants *)
Theorem C14_switch_is_ref_semantics : forall known f env x crs d,
  eval known (S (S f)) env (ASwitch (AConst x) (map (fun cr => (AConst (fst cr), AConst (snd cr))) crs) (AConst d))
  = switch_pick x crs d.
Proof. exact ref_switch_consts. Qed.

Theorem C14_switch_pick_is_model : forall x crs d n, (0 < n)%N ->
  switch_pick x crs d =
  match switch_model x (map fst crs) n with
  | Ok k => if (k =? 0)%N then Ok d else Ok (nth (N.to_nat (k - n)) (map snd crs) d)
  | Err t => Err t | Panic => Panic | OOF => OOF | Unsup => Unsup
  end.
Proof. exact switch_pick_model. Qed.

(* groupByEqual (group_eq_model: first-occurrence scan over fg.equal): two keys form one group iff a = b is
   true, two groups iff it is false, and the operation fails iff = fails - in either order of the keys *)
Theorem C14_groupByEqual_pairs : forall a b,
  group_eq_model [a; b] = match veq a b with
                          | Ok true => Ok 1%N | Ok false => Ok 2%N
                          | Err t => Err t | Panic => Panic | OOF => OOF | Unsup => Unsup
                          end.
Proof. exact group_eq_pairs. Qed.

Theorem C14_groupByEqual_pairs_sym : forall a b, wf_keys a = true -> wf_keys b = true ->
  group_eq_model [a; b] = group_eq_model [b; a].
Proof. exact group_eq_pairs_sym. Qed.

(* ---------------------------------------------------------------- order agrees with < *)

(* order_model: List.Order + sort.Sort as the insertion sort (what Go runs for <= 12 elements), for ANY length.
   All elements numbers (ints below 2^53, no NaN) or all strings: no error, a permutation, no later element
   smaller than an earlier one, and elements none of which is smaller keep their order (stable) *)
Theorem C14_order_model_sorted : forall l, sortable l = true ->
  exists out, order_model l = Ok (VList out) /\ Permutation l out /\
    StronglySorted (fun a b => ltb_spec b a = false) out /\
    (forall z, In z l -> filter (equiv_spec z) out = filter (equiv_spec z) l).
Proof. exact order_model_sorted. Qed.

(* ... where ltb_spec is what the operator < answers on these elements *)
Theorem C14_order_agrees_with_less : forall l a b, sortable l = true -> In a l -> In b l ->
  vless a b = Ok (ltb_spec a b).
Proof. exact sortable_vless. Qed.

(* order fails exactly when one of the comparisons the sort makes (order_cmps) is between incomparable elements *)
Theorem C14_order_error_iff_incomparable : forall l, order_model l <> Unsup ->
  is_err (order_model l) = existsb bad_cmp (order_cmps l).
Proof. exact order_error_iff. Qed.

(* the specification checker of the correspondence run accepts the model's answer for EVERY list (ints below
   2^53, no caught error text, maps with distinct keys): sorted permutation if all elements are mutually
   comparable, an error otherwise (two or more elements) *)
Theorem C14_order_checker_accepts : forall l, Forall elem_ok l -> order_allowed l (order_model l) = true.
Proof. exact order_checker_accepts. Qed.

(* ---------------------------------------------------------------- non-vacuity *)

(* a nested value with maps in different key order, ints and floats mixed, satisfying all side conditions *)
Definition nv_a : value :=
  VList [VMap [([97%N], VInt 1); ([98%N], VList [VFloat (FFin 1 1); VStr [228%N]])]; VFloat FNegZero; VBool true].
Definition nv_b : value :=
  VList [VMap [([98%N], VList [VInt 2; VStr [228%N]]); ([97%N], VFloat (FFin 1 0))]; VInt 0; VBool true].

Example C14_nonvacuous :
  wf_keys nv_a = true /\ wf_keys nv_b = true /\ clean_val nv_a = true /\ small_ints nv_a = true /\
  small_ints nv_b = true /\ sem_eq nv_a nv_b = true /\ veq nv_a nv_b = Ok true /\ veq nv_b nv_a = Ok true /\
  veq nv_a nv_a = Ok true.
Proof. vm_compute. repeat split; reflexivity. Qed.

Example C14_nonvacuous_order :
  vless (VInt (-1)) (VFloat FNegZero) = Ok true /\ vless (VFloat FNegZero) (VFloat (FFin 1 (-1))) = Ok true /\
  vless (VInt (-1)) (VFloat (FFin 1 (-1))) = Ok true /\ vless (VFloat (FInf true)) (VInt 0) = Ok true /\
  vless (VStr []) (VStr [97%N]) = Ok true /\ vless (VBool true) (VBool false) = Err None /\
  calc op_in (VInt 1) (VList [VStr [97%N]; VInt 1]) = Err None /\
  calc op_in (VInt 1) (VList [VInt 1; VStr [97%N]]) = Ok (VBool true) /\
  veq sym_witness_a sym_witness_b = Err None /\ veq sym_witness_b sym_witness_a = Err None.
Proof. vm_compute. repeat split; reflexivity. Qed.

Example C14_nonvacuous_order_switch :
  sortable [VInt 3; VFloat (FFin 1 0); VInt 1; VFloat (FFin 3 (-1)); VInt 3] = true /\
  order_model [VInt 3; VFloat (FFin 1 0); VInt 1; VFloat (FFin 3 (-1)); VInt 3]
    = Ok (VList [VFloat (FFin 1 0); VInt 1; VFloat (FFin 3 (-1)); VInt 3; VInt 3]) /\
  order_model [VInt 3; VStr [97%N]; VInt 1] = Err None /\
  existsb bad_cmp (order_cmps [VInt 3; VStr [97%N]; VInt 1]) = true /\
  order_model [VBool true] = Ok (VList [VBool true]) /\
  switch_model (VInt 1) [VInt 2; VFloat (FFin 1 0); VInt 1] 1 = Ok 2%N /\
  switch_model (VInt 1) [VInt 2; VStr []; VInt 1] 1 = Err None /\
  switch_model (VInt 1) [VInt 2; VInt 3] 1 = Ok 0%N.
Proof. vm_compute. repeat split; reflexivity. Qed.

Print Assumptions C14_eq_lists_elementwise.
Print Assumptions C14_eq_maps_keywise.
Print Assumptions C14_eq_sound.
Print Assumptions C14_eq_complete.
Print Assumptions C14_eq_numeric.
Print Assumptions C14_eq_numeric_meaning.
Print Assumptions C14_eq_refl.
Print Assumptions C14_eq_sym.
Print Assumptions C14_lt_exact.
Print Assumptions C14_lt_irrefl.
Print Assumptions C14_lt_asym.
Print Assumptions C14_lt_trans.
Print Assumptions C14_lt_trans_any_int.
Print Assumptions C14_ne_is_not_eq.
Print Assumptions C14_gt_is_flip.
Print Assumptions C14_le_is_lt_or_eq.
Print Assumptions C14_le_undefined.
Print Assumptions C14_ge_is_flip_le.
Print Assumptions C14_le_antisym.
Print Assumptions C14_member_refuted.
Print Assumptions C14_member_true_refuted.
Print Assumptions C14_member_true_partial.
Print Assumptions C14_member_false_partial.
Print Assumptions C14_member_error_partial.
Print Assumptions C14_member_exists_partial.
Print Assumptions C14_definedness_table.
Print Assumptions C14_incomparable_is_error.
Print Assumptions C14_derived_incomparable.
Print Assumptions C14_lt_defined.
Print Assumptions C14_eq_defined_scalar.
Print Assumptions C14_min_picks_by_less.
Print Assumptions C14_max_picks_by_less.
Print Assumptions C14_min_least.
Print Assumptions C14_max_greatest.
Print Assumptions C14_min_incomparable.
Print Assumptions C14_max_incomparable.
Print Assumptions C14_switch_uses_eq.
Print Assumptions C14_switch_agrees.
Print Assumptions C14_switch_default.
Print Assumptions C14_switch_error.
Print Assumptions C14_switch_pair.
Print Assumptions C14_switch_sym.
Print Assumptions C14_switch_is_ref_semantics.
Print Assumptions C14_switch_pick_is_model.
Print Assumptions C14_groupByEqual_pairs.
Print Assumptions C14_groupByEqual_pairs_sym.
Print Assumptions C14_order_model_sorted.
Print Assumptions C14_order_agrees_with_less.
Print Assumptions C14_order_error_iff_incomparable.
Print Assumptions C14_order_checker_accepts.
