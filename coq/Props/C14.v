(* C14 - equality and ordering operators obey their algebraic laws. *)
From P2 Require Import Base.Prelude Sem.Num Sem.Syntax Sem.Ops Sem.Lib Sem.OpsSpec Sem.OpsLaws Generated.ValueOps.
