(* C07 - the built-in list, map, string and numeric library matches its documented model.
   Only property theorems here; each is closed by an exact lemma application.
   Left side: the IMPLEMENTATION models of Lib/Builtins.v (written after value/list.go, string.go,
   map.go and the iterator package, on lazy streams); right side: the DOCUMENTED models of
   Lib/ListLib.v (fold, firstn, skipn, rev, filter, map, zip of neighbours, row-major product ...).
   Every theorem holds for ALL lists and ALL callbacks (any Coq function value -> res value,
   failing ones included: the two sides then report the same failure).  [of_list l] is a fully
   evaluated list seen as a stream, [collect] is List.Eval/ToSlice. *)
From P2 Require Import Base.Prelude Sem.Num Sem.Syntax Sem.Ops Sem.Lib Lib.Builtins Lib.ListLib
  Lib.NumSpec Lib.NumLibProofs Lib.MergeSortedProofs Lib.BuiltinsProofs Lib.GroupProofs Lib.StringProofs Lib.MapProofs Lib.MovingProofs Lib.PipelineProofs Run.C07Run Generated.ValueMethods.
From Coq Require Import Permutation Sorted.
Local Open Scope Z_scope.

(* ----- tables: the model's method table = the one dumped from value.New() ----- *)
Theorem C07_methods_match : methods_match value_methods = true.
Proof. vm_compute. reflexivity. Qed.

Theorem C07_statics_match : statics_match value_statics = true.
Proof. vm_compute. reflexivity. Qed.

Theorem C07_methods_match_sound : forall gen, methods_match gen = true ->
  (forall tid l n a, In (tid, l) model_methods -> In (n, a) l -> lookup_method gen tid n = Some a) /\
  (forall tid l n a, In (tid, l) gen -> In (n, a) l ->
     lookup_method model_methods tid n <> None \/ declared_unmodelled tid n = true).
Proof. exact methods_match_sound. Qed.

(* lazy stages: evaluating the stage of the implementation model on a list = the documented function *)
Theorem C07_stage_specs :
  (* map_spec *)
  (forall f l, collect (s_map f (of_list l)) = d_map f l) /\
  (* accept_spec *)
  (forall f l, collect (s_accept f (of_list l)) = d_accept f l) /\
  (* combine_spec *)
  (forall f l, collect (s_combine f (of_list l)) = d_combine f l) /\
  (* combine3_spec *)
  (forall f l, collect (s_combine3 f (of_list l)) = d_combine3 f l) /\
  (* combineN_spec *)
  (forall n f l, (1 <= n)%nat -> collect (s_combineN n f (of_list l)) = d_combineN n f l) /\
  (* number_spec *)
  (forall f l i, collect (s_number f i (of_list l)) = d_number f i l) /\
  (* compact_spec *)
  (forall f l, collect (s_compact f (of_list l)) = d_compact f l) /\
  (* cross_spec *)
  (forall f l1 l2, collect (s_cross f (of_list l1) l2) = d_cross f l1 l2) /\
  (* merge_spec *)
  (forall f l1 l2, collect (s_merge f (of_list l1) l2) = d_merge f l1 l2) /\
  (* iir_spec *)
  (forall ini f l,
  collect (s_iirmap ini (fun item _ last => f item last) (of_list l)) = d_iir ini f l) /\
  (* iirCombine_spec *)
  (forall ini f l,
  collect (s_iirmap ini (fun item lastItem last => f lastItem item last) (of_list l)) = d_iirCombine ini f l) /\
  (* fsm_spec *)
  (forall f l,
  collect (s_iirmap (fun item => f state0 item) (fun item _ last => f last item) (of_list l)) = d_fsm f l).
Proof. exact (conj map_spec (conj accept_spec (conj combine_spec (conj combine3_spec (conj combineN_spec (conj number_spec (conj compact_spec (conj cross_spec (conj merge_spec (conj iir_spec (conj iirCombine_spec fsm_spec))))))))))). Qed.

Theorem C07_top_firstn_partial : forall l n, 0 <= n -> collect (s_top n (of_list l)) = Ok (firstn (Z.to_nat n) l).
Proof. exact top_firstn. Qed.

Theorem C07_skip_skipn_partial : forall l n, 0 <= n -> collect (s_skip n (of_list l)) = Ok (skipn (Z.to_nat n) l).
Proof. exact skip_skipn. Qed.

(* top(n)/skip(n) for n < 0 return the whole list (the code's behaviour; the description says nothing
   about negative n, so neither reading is claimed - "first n items" read as firstn would be []) *)
Theorem C07_top_skip_negative : forall l n, n < 0 ->
  collect (s_top n (of_list l)) = Ok l /\ collect (s_skip n (of_list l)) = Ok l.
Proof. exact (fun l n H => conj (top_negative l n H) (skip_negative l n H)). Qed.

Theorem C07_top_firstn_all_n_refuted : exists l n, collect (s_top n (of_list l)) <> Ok (firstn (Z.to_nat n) l).
Proof. exists [VInt 1], (-1). vm_compute. discriminate. Qed.

(* terminals *)
Theorem C07_terminal_specs :
  (* reduce_spec *)
  (forall f l, t_reduce f (of_list l) = d_reduce f l) /\
  (* mapReduce_spec *)
  (forall f init l, t_fold f init (of_list l) = d_mapReduce init f l) /\
  (* visit_spec *)
  (forall f init l, t_fold f init (of_list l) = d_visit init f l) /\
  (* sum_spec *)
  (forall l, t_sum (of_list l) = d_sum l) /\
  (* mean_spec *)
  (forall l, l <> [] -> t_mean (of_list l) = d_mean l) /\
  (* min_spec *)
  (forall l, t_min (of_list l) = d_min l) /\
  (* max_spec *)
  (forall l, t_max (of_list l) = d_max l) /\
  (* first_spec *)
  (forall l, t_first (of_list l) = d_first l) /\
  (* last_spec *)
  (forall l, t_last (of_list l) = d_last l) /\
  (* single_spec *)
  (forall l, t_single (of_list l) = d_single l) /\
  (* size_spec *)
  (forall l, t_size (of_list l) = Ok (VInt (Z.of_nat (length l)))) /\
  (* indexWhere_spec *)
  (forall f l i, t_indexWhere f i (of_list l) = d_indexWhere f l i) /\
  (* present_spec *)
  (forall f l, t_present f (of_list l) = d_present f l) /\
  (* present_existsb *)
  (forall (p : value -> bool) f l,
  (forall x, f x = Ok (VBool (p x))) -> t_present f (of_list l) = Ok (VBool (existsb p l))).
Proof. exact (conj reduce_spec (conj mapReduce_spec (conj visit_spec (conj sum_spec (conj mean_spec (conj min_spec (conj max_spec (conj first_spec (conj last_spec (conj single_spec (conj size_spec (conj indexWhere_spec (conj present_spec present_existsb))))))))))))). Qed.

(* eager list methods: reverse, append, set (position i replaced, everything else kept) *)
Theorem C07_eager_specs :
  (* reverse_rev *)
  (forall l, run_list (of_list l) M_reverse [] = Ok (PV (VList (rev l)))) /\
  (* append_spec *)
  (forall l v, run_list (of_list l) M_append [AV v] = Ok (PV (VList (l ++ [v])))) /\
  (* set_spec *)
  (forall l i v out, m_set i v l = Ok out ->
  length out = length l /\ nth_error out (Z.to_nat i) = Some v /\
  forall j, j <> Z.to_nat i -> nth_error out j = nth_error l j).
Proof. exact (conj reverse_rev (conj append_spec (fun l i v out H => set_nth l i v out (eq_trans (eq_sym (set_spec l i v)) H)))). Qed.

(* order / orderRev / orderLess: whatever list the implementation's sort answers is a permutation of
   the input in which no item is less than its left neighbour - for every comparison that never
   says a<b and b<a at once (cmp is cmp_key f rev for order/orderRev, cmp_less f for orderLess) *)
Theorem C07_order_sorted_permutation : forall cmp,
  (forall a b, cmp a b = Ok true -> cmp b a = Ok false) ->
  forall l out, m_sort cmp l = Ok out ->
  Permutation l out /\ Sorted (fun a b => cmp b a = Ok false) out.
Proof. exact m_sort_sorted_perm. Qed.

(* the checker used by the run accepts exactly the sorted permutations *)
Theorem C07_check_order_correct : forall (A : Type) (eqb : A -> A -> bool),
  (forall a b, eqb a b = true <-> a = b) ->
  forall (leb : A -> A -> bool) inp out, check_order eqb leb inp out = true <->
                  Permutation inp out /\ Sorted (fun a b => leb a b = true) out.
Proof. exact (@check_order_correct). Qed.

Theorem C07_check_groups_sound : forall (A K : Type) (eqA : A -> A -> bool) (eqK : K -> K -> bool) (keyb : A -> K -> bool),
  (forall a b, eqA a b = true <-> a = b) ->
  forall inp gs, check_groups eqA eqK keyb inp gs = true ->
  (forall g, In g gs -> snd g <> [] /\ snd g = filter (fun x => keyb x (fst g)) inp) /\
  nodup_b eqK (map fst gs) = true /\
  length (concat (map snd gs)) = length inp.
Proof. exact (@check_groups_sound). Qed.

(* strings on code points: cut (n <= 0 takes the rest), len is additive in UTF-8 bytes, indexOf is the byte offset of an occurrence and -1 only if there is none *)
Theorem C07_string_specs :
  (* cut_spec *)
  (forall s p n, 0 <= p ->
  str_cut s p n = if n <=? 0 then skipn (Z.to_nat p) s else firstn (Z.to_nat n) (skipn (Z.to_nat p) s)) /\
  (* len_bytes *)
  (forall a b, utf8_len (a ++ b) = utf8_len a + utf8_len b) /\
  (* indexOf_byte_offset *)
  (forall p s off k, index_of s p off = k -> k <> -1 -> 0 <= off ->
  exists pre post, s = pre ++ p ++ post /\ k = off + utf8_len pre) /\
  (* indexOf_none *)
  (forall p s off, 0 <= off -> index_of s p off = -1 -> contains_str s p = false).
Proof. exact (conj cut_spec (conj utf8_len_app (conj index_of_sound index_of_none))). Qed.

(* misuse is an error, never a value: call arity, unknown method, non-function argument, callback arity, non-bool callback result, non-int n, combineN n<1, empty reductions, set out of range *)
Theorem C07_misuse_is_error :
  (* misuse_wrong_arity *)
  (forall p m args ar, is_pseudo m = false ->
  lookup_arity (tid_of p) m = Some ar -> 0 <= ar -> ar <> Z.of_nat (length args) ->
  run_step p m args = Err None) /\
  (* misuse_unknown_method *)
  (forall p m args, is_pseudo m = false ->
  lookup_arity (tid_of p) m = None -> is_unmodelled (tid_of p) m = false -> run_step p m args = Err None) /\
  (* misuse_not_a_function *)
  (forall m, In m (cb1_methods ++ cb2_methods ++ [M_combine3]) ->
  forall s v, run_list s m [AV v] = Err None) /\
  (* misuse_callback_arity_1 *)
  (forall m, In m cb1_methods ->
  forall s n b, n <> 1%nat -> run_list s m [AF n b] = Err None) /\
  (* misuse_callback_arity_2 *)
  (forall m, In m cb2_methods ->
  forall s n b, n <> 2%nat -> run_list s m [AF n b] = Err None) /\
  (* misuse_accept_result *)
  (forall f x v s,
  f x = Ok v -> (forall b, v <> VBool b) -> collect (s_accept f (SCons x s)) = Err None) /\
  (* misuse_indexWhere_result *)
  (forall f x v s i,
  f x = Ok v -> (forall b, v <> VBool b) -> t_indexWhere f i (SCons x s) = Err None) /\
  (* misuse_top_skip_type *)
  (forall s v, (forall n, v <> VInt n) ->
  run_list s M_top [AV v] = Err None /\ run_list s M_skip [AV v] = Err None) /\
  (* misuse_combineN_n *)
  (forall s n a, n < 1 -> run_list s M_combineN [AV (VInt n); a] = Err None) /\
  (* misuse_empty_reductions *)
  (forall f,
  t_reduce f SEnd = Err None /\ t_sum SEnd = Err None /\ t_mean SEnd = Err None /\
  t_min SEnd = Err None /\ t_max SEnd = Err None /\ t_first SEnd = Err None /\
  t_last SEnd = Err None /\ t_single SEnd = Err None) /\
  (* misuse_set_range *)
  (forall l i v, (i < 0 \/ Z.of_nat (length l) <= i) -> m_set i v l = Err None).
Proof. exact (conj wrong_arity_is_error (conj unknown_method_is_error (conj not_a_function_is_error (conj callback_arity_is_error_1 (conj callback_arity_is_error_2 (conj accept_wrong_result_is_error (conj indexWhere_wrong_result_is_error (conj top_skip_need_int (conj combineN_needs_positive (conj empty_reductions_are_errors set_out_of_range_is_error)))))))))). Qed.

(* map.replace, any chain depth (reps = the replacement maps in order): keys, key order and size are
   the receiver's; a key the receiver does not have stays absent whatever the replacements contain;
   a key it has stays present *)
Theorem C07_replace_absent_invisible : forall reps m,
  let r := fold_left mm_replace_with reps m in
  (map fst r = map fst m /\ length r = length m /\
   forall k, assoc_v k m = None -> assoc_v k r = None) /\
  (forall k, assoc_v k m <> None -> assoc_v k r <> None).
Proof. exact (fun reps m => conj (replace_absent_invisible reps m) (replace_present reps m)). Qed.

(* groupBy* / unique*: the implementation model's answer ALWAYS passes the checker (so the checker verdict
   on the implementation is implied by implementation = model).  Keys live in any type K with a boolean
   equivalence eqk that the = of the language decides on embedded keys (K = Z, inj = VInt for
   groupByInt/uniqueInt; K = str, inj = VStr for groupByString/uniqueString): whenever the key function
   answers such keys, the model answers a grouping, never a failure. *)
Theorem C07_groupBy_model_passes_checker : forall (K : Type) (eqk : K -> K -> bool) (inj : K -> value),
  (forall a b, veq (inj a) (inj b) = Ok (eqk a b)) ->
  forall key : value -> K,
  (forall a, eqk a a = true) -> (forall a b, eqk a b = eqk b a) ->
  (forall a b c, eqk a b = true -> eqk b c = true -> eqk a c = true) ->
  forall eqA : value -> value -> bool, (forall a, eqA a a = true) ->
  forall (keyf : value -> res value) (l : list value),
  (forall x, In x l -> keyf x = Ok (inj (key x))) ->
  exists gs, group_all keyf [] l = Ok (map (injg inj) gs) /\
             check_groups eqA eqk (keyb eqk key) l gs = true.
Proof. exact (@group_model_passes_checker). Qed.

Theorem C07_unique_model_passes_checker : forall (K : Type) (eqk : K -> K -> bool) (inj : K -> value),
  (forall a b, veq (inj a) (inj b) = Ok (eqk a b)) ->
  forall key : value -> K,
  (forall a, eqk a a = true) -> (forall a b, eqk a b = eqk b a) ->
  forall (keyf : value -> res value) (l : list value),
  (forall x, In x l -> keyf x = Ok (inj (key x))) ->
  exists ks, m_unique keyf l = Ok (map inj ks) /\ check_unique eqk (keyb eqk key) l ks = true.
Proof. exact (@unique_model_passes_checker). Qed.

(* completeness of check_groups (the converse of C07_check_groups_sound) *)
Theorem C07_check_groups_complete : forall (A K : Type) (eqk : K -> K -> bool) (key : A -> K) (eqA : A -> A -> bool),
  (forall a, eqA a a = true) ->
  forall inp gs,
  (forall g, In g gs -> snd g <> [] /\ snd g = filter (fun x => keyb eqk key x (fst g)) inp) ->
  nodup_b eqk (map fst gs) = true ->
  length (concat (map snd gs)) = length inp ->
  check_groups eqA eqk (keyb eqk key) inp gs = true.
Proof. exact (@check_groups_complete). Qed.

(* minMax: implementation model and documented model (the first item with the minimal / maximal value of
   f, found by two folds) give the same map, or both fail (which failure comes first is not fixed) *)
Theorem C07_minMax_spec : forall f l, same_outcome (t_minMax f (of_list l)) (d_minMax f l).
Proof. exact minMax_spec. Qed.

(* strings, second family: split and join are inverse, replace = split at old and join with new,
   contains = there is an occurrence, trim (ASCII) removes exactly the leading and trailing blanks,
   toLower/toUpper (ASCII) keep the length and are idempotent *)
Theorem C07_string_specs2 :
  (* split_join *)
  (forall s sep, sep <> [] -> d_join sep (str_split s sep) = s) /\
  (* split_empty_sep *)
  (forall s, str_split s [] = map (fun c => [c]) s /\ concat (str_split s []) = s) /\
  (* replace_split_join *)
  (forall s old new, old <> [] -> str_replace s old new = d_join new (str_split s old)) /\
  (* replace_empty_old *)
  (forall s new, str_replace s [] new = new ++ flat_map (fun c => c :: new) s) /\
  (* contains_spec *)
  (forall s p, contains_str s p = true <-> exists pre post, s = pre ++ p ++ post) /\
  (* trim_spec *)
  (forall s t, str_trim s = Ok t ->
     exists a b, s = a ++ t ++ b /\ forallb is_space a = true /\ forallb is_space b = true /\
     match t with c :: _ => is_space c = false | [] => True end /\
     match rev t with c :: _ => is_space c = false | [] => True end) /\
  (* lower_upper_spec *)
  (forall s t,
     (str_lower s = Ok t -> length t = length s /\ str_lower t = Ok t) /\
     (str_upper s = Ok t -> length t = length s /\ str_upper t = Ok t)).
Proof. exact (conj split_join (conj split_empty_sep (conj replace_split_join (conj replace_empty_old (conj contains_spec (conj trim_spec lower_upper_spec)))))). Qed.

(* maps: the implementation model (entry lists in iteration order, pairwise different keys) against finite
   maps in canonical key-sorted form: get, size, isAvail, put, + (merge), replace agree lookup by lookup;
   map / accept / combine / list keep keys and order *)
Theorem C07_map_specs :
  (* get *)
  (forall m k, keys_nodup m ->
     mm_get m k = match fm_get k (fm_canon m) with Some v => Ok v | None => Err None end) /\
  (* size *)
  (forall m, keys_nodup m -> length m = length (fm_canon m)) /\
  (* isAvail *)
  (forall m ks, keys_nodup m ->
     mm_isAvail m (map VStr ks) =
     Ok (VBool (forallb (fun k => match fm_get k (fm_canon m) with Some _ => true | None => false end) ks))) /\
  (* put *)
  (forall m k v, keys_nodup m ->
     match mm_put m k v, fm_put (fm_canon m) k v with
     | Ok m1, Ok c1 => keys_nodup m1 /\ forall k', assoc_v k' m1 = fm_get k' c1
     | Err _, Err _ => True
     | _, _ => False
     end) /\
  (* merge *)
  (forall a b, keys_nodup a -> keys_nodup b ->
     match mm_merge a b, fm_merge (fm_canon a) b with
     | Ok m1, Ok c1 => forall k', assoc_v k' m1 = fm_get k' c1
     | Err _, Err _ => True
     | _, _ => False
     end) /\
  (* replace *)
  (forall m rep k, keys_nodup m -> keys_nodup rep ->
     assoc_v k (mm_replace_with m rep) = fm_get k (fm_replace (fm_canon m) (fm_canon rep))) /\
  (* map *)
  (forall f m m', mm_map f m = Ok m' ->
     map fst m' = map fst m /\
     Forall2 (fun kv kv' => f (VStr (fst kv)) (snd kv) = Ok (snd kv')) m m') /\
  (* accept *)
  (forall (p : str -> value -> bool) f m,
     (forall k v, f (VStr k) v = Ok (VBool (p k v))) ->
     mm_accept f m = Ok (filter (fun kv => p (fst kv) (snd kv)) m)) /\
  (* combine *)
  (forall f m other r, mm_combine f m other = Ok r ->
     map fst r = map fst m /\
     Forall2 (fun kv kv' => exists o, assoc_v (fst kv) other = Some o /\ f (snd kv) o = Ok (snd kv')) m r) /\
  (* list *)
  (forall m, mm_list m = map (fun kv => VMap [(Names.nm_key, VStr (fst kv)); (Names.nm_value, snd kv)]) m /\
             length (mm_list m) = length m).
Proof. exact (conj map_get_spec (conj map_size_spec (conj map_isAvail_spec (conj map_put_spec (conj map_merge_spec (conj map_replace_spec (conj map_map_spec (conj map_accept_spec (conj map_combine_spec map_list_spec))))))))). Qed.

(* movingWindow: for keys that do not decrease along the list the Go loop (start index only moves
   forward) answers, for every item, all items up to it whose key is within 1 of its key.  Keys in any
   ordered type K embedded into the floats such that the exact comparison decides "more than 1 apart"
   (far), with: an item further left is at least as far, and what is too far from an earlier key is too
   far from a later one.  The full statement (any key order) is refuted: keys 0, 2, 1. *)
Theorem C07_movingWindow_nondecreasing_partial :
  forall (K : Type) (far : K -> K -> bool) (inj : K -> fl),
  (forall a b, far_apart (inj a) (inj b) = Ok (far a b)) ->
  forall leK : K -> K -> bool,
  (forall a, far a a = false) ->
  (forall a b c, leK a b = true -> leK b c = true -> far c b = true -> far c a = true) ->
  (forall a b c, leK a b = true -> leK b c = true -> far b a = true -> far c a = true) ->
  forall kl : list (K * value), sorted_keys leK kl ->
  mw_loop [] (map (injw inj) kl) = Ok (d_movingWindow (close far) kl).
Proof. exact (@movingWindow_nondecreasing). Qed.

(* the hypotheses are satisfiable: integer keys with |a - b| > 1 *)
Theorem C07_movingWindow_int_keys : forall kl : list (Z * value), sorted_keys Z.leb kl ->
  pw_loop farZ [] kl = d_movingWindow (close farZ) kl.
Proof. exact movingWindow_int_keys. Qed.

Theorem C07_movingWindow_any_order_refuted :
  exists l, m_movingWindow (fun x => Ok x) l <> doc_windows (fun x => Ok x) l.
Proof. exact movingWindow_decreasing_refuted. Qed.

(* multiUse: the implementation model (every function gets the list, results evaluated deeply, returned
   under the functions' keys) = the documented model "the map over fs of f(list)", for every list and
   every non-empty map of functions of the callback language *)
Theorem C07_multiUse_spec : forall l fs, fs <> [] ->
  bind (run_list (of_list l) M_multiUse [AFM fs]) force = spec_list l M_multiUse [AFM fs].
Proof. exact multiUse_spec. Qed.

(* "parse": string.toInt (strconv.Atoi).  A text is accepted exactly when it is a decimal integer numeral
   [+-] digit+ whose positional value lies in int64, and the answer is that value; every other text is
   an error (never a panic, never another value); the text of an int (string(n), n.string()) parses
   back to n *)
Theorem C07_toInt_spec :
  (* toInt_accepts_exactly_numerals_in_range / toInt_rejects / toInt_total *)
  (forall s,
     (forall v, str_to_int s = Ok v <-> exists z, int_numeral s z /\ in_int64 z = true /\ v = VInt z) /\
     (str_to_int s = Err None <-> forall z, int_numeral s z -> in_int64 z = false) /\
     ((exists z, str_to_int s = Ok (VInt z)) \/ str_to_int s = Err None)) /\
  (* int_numeral_unique *)
  (forall s z1 z2, int_numeral s z1 -> int_numeral s z2 -> z1 = z2) /\
  (* int_to_str_numeral *)
  (forall n, int_numeral (int_to_str n) n) /\
  (* toInt_roundtrip *)
  (forall n, in_int64 n = true -> str_to_int (int_to_str n) = Ok (VInt n)).
Proof. exact (conj toInt_spec (conj int_numeral_unique (conj int_to_str_numeral toInt_roundtrip))). Qed.

(* string.toFloat (strconv.ParseFloat) on the exactly representable subset: whenever the model answers a
   value, the text is a decimal floating-point numeral [+-] digits [. digits] [(e|E) [+-] digits] and the
   float IS the numeral's value (-1)^neg * mant * 10^k as a rational number (a zero keeps its sign).
   Texts whose value is no binary64 number (rounding), underscores, hexadecimal floats, inf and nan are
   outside the model (Unsup) and compared with math/big in the run only *)
Theorem C07_toFloat_exact : forall s v, str_to_float s = Ok v ->
  exists neg mant k x, float_numeral s neg mant k /\ v = VFloat x /\ float_denotes x neg mant k.
Proof. exact toFloat_sound. Qed.

(* toFloat, the syntax side: every decimal floating-point numeral is read with exactly its sign, mantissa
   and exponent (the answer is then decided by the value alone: float_of_decimal); a text has at most one
   reading; an error means the text is no decimal numeral, or its value is 2^1024 or more *)
Theorem C07_toFloat_syntax :
  (* toFloat_numeral_read *)
  (forall s neg mant k, float_numeral s neg mant k ->
     existsb float_special_char s = false -> str_to_float s = float_of_decimal neg mant k) /\
  (* float_numeral_unique *)
  (forall s n1 m1 k1 n2 m2 k2,
     float_numeral s n1 m1 k1 -> float_numeral s n2 m2 k2 -> n1 = n2 /\ m1 = m2 /\ k1 = k2) /\
  (* toFloat_reject *)
  (forall s, str_to_float s = Err None ->
     (forall neg mant k, ~ float_numeral s neg mant k) \/
     (exists neg mant k, float_numeral s neg mant k /\ 0 <= k /\ two1024 <= mant * 10 ^ k)).
Proof. exact (conj toFloat_numeral_read (conj float_numeral_unique toFloat_reject)). Qed.

(* numeric static functions on ints compute the mathematical function, the int64 wrap-around made
   explicit: abs (abs(minInt) = minInt, negative!), sign = sgn, sqr = z*z modulo 2^64, binAnd / binOr
   bit by bit on two's complement, isInt / isFloat, float(int) exact, wrong argument kinds are errors *)
Theorem C07_numeric_statics :
  (* static_abs_int *)
  (forall z, in_int64 z = true ->
     (z <> - two63 -> run_static n_abs [VInt z] = Ok (VInt (Z.abs z))) /\
     (z = - two63 -> run_static n_abs [VInt z] = Ok (VInt (- two63)))) /\
  (* static_sign_int *)
  (forall z, run_static n_sign [VInt z] = Ok (VInt (Z.sgn z))) /\
  (* static_sqr_int *)
  (forall z,
     run_static n_sqr [VInt z] = Ok (VInt (wrap64 (z * z))) /\
     in_int64 (wrap64 (z * z)) = true /\ (wrap64 (z * z) - z * z) mod two64 = 0 /\
     (in_int64 (z * z) = true -> run_static n_sqr [VInt z] = Ok (VInt (z * z)))) /\
  (* static_bin_int *)
  (forall a b,
     (exists r, run_static n_binAnd [VInt a; VInt b] = Ok (VInt r) /\
                forall i, 0 <= i -> Z.testbit r i = Z.testbit a i && Z.testbit b i) /\
     (exists r, run_static n_binOr [VInt a; VInt b] = Ok (VInt r) /\
                forall i, 0 <= i -> Z.testbit r i = Z.testbit a i || Z.testbit b i)) /\
  (* static_is_type *)
  (forall v, (forall t, v <> VErrText t) ->
     run_static n_isInt [v] = Ok (VBool (match v with VInt _ => true | _ => false end)) /\
     run_static n_isFloat [v] = Ok (VBool (match v with VFloat _ => true | _ => false end))) /\
  (* static_float_of_int *)
  (forall z v, run_static n_float [VInt z] = Ok v ->
     exists m e, v = VFloat (FFin m e) /\ 0 <= e /\ m * 2 ^ e = z) /\
  (* static_numeric_misuse *)
  (forall f v, In f [n_abs; n_sign; n_sqr; n_int; n_float] ->
     match v with VInt _ | VFloat _ | VErrText _ => False | _ => True end ->
     run_static f [v] = Err None).
Proof. exact (conj static_abs_int (conj static_sign_int (conj static_sqr_int (conj static_bin_int (conj static_is_type (conj static_float_of_int static_numeric_misuse)))))). Qed.

(* min / max with any number of arguments = the fold of the language's < (C14) over the arguments, the
   first minimal / maximal argument wins; on ints that is Z.min / Z.max; an argument that cannot be
   compared with the candidate fails the call *)
Theorem C07_static_min_max :
  (* static_min_max_fold *)
  (forall m l,
     run_static n_min (m :: l) = fold_left less_step_min l (Ok m) /\
     run_static n_max (m :: l) = fold_left less_step_max l (Ok m)) /\
  (* static_min_max_ints *)
  (forall z zs,
     run_static n_min (map VInt (z :: zs)) = Ok (VInt (fold_left Z.min zs z)) /\
     run_static n_max (map VInt (z :: zs)) = Ok (VInt (fold_left Z.max zs z))) /\
  (* static_min_max_incomparable *)
  (forall m v l, vless v m = Err None -> vless m v = Err None ->
     run_static n_min (m :: v :: l) = Err None /\ run_static n_max (m :: v :: l) = Err None).
Proof. exact (conj static_min_max_fold (conj static_min_max_ints static_min_max_incomparable)). Qed.

(* round / floor / ceil / trunc on the dyadic number m * 2^e: integers are fixed points; otherwise floor
   is the greatest integer not above, ceil the least not below, trunc goes towards zero, round to the
   nearest integer with halves away from zero.  floor / ceil / trunc answer a FLOAT holding that integer
   (a zero result of a negative argument is -0), round answers an INT *)
Theorem C07_rounding_statics :
  (* floor_ceil_trunc_round_spec *)
  (forall m e,
    (0 <= e -> floor_z m e = m * 2 ^ e /\ ceil_z m e = m * 2 ^ e /\ trunc_z m e = m * 2 ^ e /\ round_z m e = m * 2 ^ e) /\
    (e < 0 -> let d := 2 ^ (- e) in
       (floor_z m e * d <= m < (floor_z m e + 1) * d) /\
       ((ceil_z m e - 1) * d < m <= ceil_z m e * d) /\
       (trunc_z m e = if 0 <=? m then floor_z m e else ceil_z m e) /\
       (2 * Z.abs (round_z m e) * d <= 2 * Z.abs m + d < 2 * (Z.abs (round_z m e) + 1) * d) /\
       (0 <= m -> 0 <= round_z m e) /\ (m <= 0 -> round_z m e <= 0))) /\
  (* static_floor_ceil_trunc_type *)
  (forall how m e v, fl_int_valued how (FFin m e) = Ok v ->
    (how m e = 0 /\ m < 0 /\ v = VFloat FNegZero) \/
    exists m' e', v = VFloat (FFin m' e') /\ 0 <= e' /\ m' * 2 ^ e' = how m e) /\
  (* static_round_type *)
  (forall m e v, round_static [VFloat (FFin m e)] = Ok v ->
    v = VInt (round_z m e) /\ in_int64 (round_z m e) = true).
Proof. exact (conj floor_ceil_trunc_round_spec (conj static_floor_ceil_trunc_type static_round_type)). Qed.

(* list.merge, the sentence of its description "If the function returns true if a<b holds and both lists
   are ordered, also the new list is ordered": for every boolean relation ltb the callback decides, the
   implementation model answers the standard merge - an interleaving (both lists keep their order), hence
   a permutation of both - and if ltb never holds in both directions and no item of an input is less than
   its left neighbour, the same is true of the answer.  On a tie the item of the OTHER list goes first *)
Theorem C07_merge_sorted : forall (f : value -> value -> res value) ltb,
  (forall a b, f a b = Ok (VBool (ltb a b))) ->
  forall l1 l2,
  collect (s_merge f (of_list l1) l2) = Ok (pmerge ltb l1 l2) /\
  interleave l1 l2 (pmerge ltb l1 l2) /\
  Permutation (l1 ++ l2) (pmerge ltb l1 l2) /\
  ((forall a b, ltb a b = true -> ltb b a = false) ->
   Sorted (not_before ltb) l1 -> Sorted (not_before ltb) l2 -> Sorted (not_before ltb) (pmerge ltb l1 l2)).
Proof. exact merge_sorted. Qed.

Theorem C07_merge_tie_takes_other : forall ltb a r1 b r2, ltb a b = false ->
  pmerge ltb (a :: r1) (b :: r2) = b :: pmerge ltb (a :: r1) r2.
Proof. exact merge_tie_takes_other. Qed.

(* list.eval returns the list unchanged; list.replaceList(f) is f applied to the list, map.replaceMap(f) is f applied to the map *)
Theorem C07_eval_replaceList :
  (* list_eval_spec *)
  (forall l, run_list (of_list l) M_eval [] = Ok (PV (VList l))) /\
  (* replaceList_spec *)
  (forall l body,
     run_list (of_list l) M_replaceList [AF 1 body] = okV (ceval [VList l] body) /\
     bind (run_list (of_list l) M_replaceList [AF 1 body]) force = spec_list l M_replaceList [AF 1 body]) /\
  (* replaceMap_spec *)
  (forall e body, run_map e M_replaceMap [AF 1 body] = okV (ceval [VMap e] body)).
Proof. exact (conj list_eval_spec (conj replaceList_spec replaceMap_spec)). Qed.

(* non-vacuity: a pipeline with a failing callback behind a truncating stage, and the repaired corners *)
Example C07_nonvacuous_lazy :
  collect (s_top 1 (s_map (fun x => match x with VInt 1 => Ok x | _ => Err None end) (of_list [VInt 1; VInt 2])))
  = Ok [VInt 1].
Proof. vm_compute. reflexivity. Qed.

Example C07_nonvacuous_combineN :
  collect (s_combineN 3 (fun w => Ok w) (of_list [VInt 1; VInt 2; VInt 3; VInt 4]))
  = Ok [VList [VInt 1; VInt 2; VInt 3]; VList [VInt 2; VInt 3; VInt 4]].
Proof. vm_compute. reflexivity. Qed.

Example C07_nonvacuous_sort :
  m_sort (cmp_key (fun x => Ok x) false) [VInt 3; VInt 1; VInt 2] = Ok [VInt 1; VInt 2; VInt 3].
Proof. vm_compute. reflexivity. Qed.

Example C07_nonvacuous_cut : str_cut [] 0 1 = [] /\ str_cut [104; 228; 98]%N 1 (-1) = [228; 98]%N.
Proof. vm_compute. split; reflexivity. Qed.
Example C07_nonvacuous_toInt :
  str_to_int [45; 48; 52; 50]%N = Ok (VInt (-42)) /\ str_to_int [52; 50; 32]%N = Err None /\
  str_to_int [57;50;50;51;51;55;50;48;51;54;56;53;52;55;55;53;56;48;56]%N = Err None.
Proof. vm_compute. repeat split; reflexivity. Qed.

Example C07_nonvacuous_toFloat :
  str_to_float [45; 50; 46; 53; 101; 49]%N = Ok (VFloat (FFin (-25) 0)) /\
  str_to_float [46; 49; 50; 53]%N = Ok (VFloat (FFin 1 (-3))) /\
  str_to_float [49; 101]%N = Err None /\ str_to_float [48; 46; 49]%N = Unsup.
Proof. vm_compute. repeat split; reflexivity. Qed.

Example C07_nonvacuous_rounding :
  round_static [VFloat (FFin (-5) (-1))] = Ok (VInt (-3)) /\
  float_only_static ceil_z [VFloat (FFin (-1) (-1))] = Ok (VFloat FNegZero) /\
  float_only_static floor_z [VFloat (FFin (-1) (-1))] = Ok (VFloat (FFin (-1) 0)).
Proof. vm_compute. repeat split; reflexivity. Qed.
Definition C07_int_less (a b : value) : bool := match a, b with VInt x, VInt y => x <? y | _, _ => false end.
Example C07_nonvacuous_merge :
  (forall a b, C07_int_less a b = true -> C07_int_less b a = false) /\
  Sorted (not_before C07_int_less) [VInt 1; VInt 3] /\
  pmerge C07_int_less [VInt 1; VInt 3] [VInt 2; VInt 3; VInt 4] = [VInt 1; VInt 2; VInt 3; VInt 3; VInt 4].
Proof.
  split; [|split; [repeat constructor|reflexivity]].
  intros a b. destruct a, b; cbn; try discriminate. intros H. apply Z.ltb_lt in H. apply Z.ltb_ge. apply Z.lt_le_incl. exact H.
Qed.

Print Assumptions C07_methods_match.
Print Assumptions C07_statics_match.
Print Assumptions C07_methods_match_sound.
Print Assumptions C07_stage_specs.
Print Assumptions C07_top_firstn_partial.
Print Assumptions C07_skip_skipn_partial.
Print Assumptions C07_top_skip_negative.
Print Assumptions C07_top_firstn_all_n_refuted.
Print Assumptions C07_terminal_specs.
Print Assumptions C07_eager_specs.
Print Assumptions C07_order_sorted_permutation.
Print Assumptions C07_check_order_correct.
Print Assumptions C07_check_groups_sound.
Print Assumptions C07_string_specs.
Print Assumptions C07_misuse_is_error.
Print Assumptions C07_replace_absent_invisible.
Print Assumptions C07_groupBy_model_passes_checker.
Print Assumptions C07_unique_model_passes_checker.
Print Assumptions C07_check_groups_complete.
Print Assumptions C07_minMax_spec.
Print Assumptions C07_string_specs2.
Print Assumptions C07_map_specs.
Print Assumptions C07_movingWindow_nondecreasing_partial.
Print Assumptions C07_movingWindow_int_keys.
Print Assumptions C07_movingWindow_any_order_refuted.
Print Assumptions C07_multiUse_spec.
Print Assumptions C07_toInt_spec.
Print Assumptions C07_toFloat_exact.
Print Assumptions C07_numeric_statics.
Print Assumptions C07_static_min_max.
Print Assumptions C07_rounding_statics.
Print Assumptions C07_merge_sorted.
Print Assumptions C07_merge_tie_takes_other.
Print Assumptions C07_eval_replaceList.
Print Assumptions C07_toFloat_syntax.
