(* C07 - the built-in list, map, string and numeric library matches its documented model.
   Only property theorems here; each is closed by an exact lemma application. *)
From P2 Require Import Base.Prelude Sem.Num Sem.Syntax Sem.Ops Sem.Lib Lib.Builtins Lib.ListLib
  Run.C07Run Generated.ValueMethods.

(* the model's method table = the table dumped from value.New() (for the modelled built-ins) *)
Theorem C07_methods_match : methods_match value_methods = true.
Proof. vm_compute. reflexivity. Qed.

Theorem C07_statics_match : statics_match value_statics = true.
Proof. vm_compute. reflexivity. Qed.

Print Assumptions C07_methods_match.
Print Assumptions C07_statics_match.
