(* C17 - JSON export is always valid JSON that preserves structure and text.
   This file contains only the property theorems; each is closed by an exact lemma application.
   The escape table json_tbl is regenerated from /repo's jsonExporter.String on every run. *)
From P2 Require Import Base.Prelude Exp.Json Exp.JsonProofs Generated.Escapes.

(* the decidable obligation on the regenerated table *)
Theorem C17_table_ok : json_table_ok json_tbl = true.
Proof. vm_compute. reflexivity. Qed.

(* every string survives: the spec decoder reads back exactly s, whatever follows the closing quote *)
Theorem C17_string : forall (s : str) (rest : list N),
  parse_str (esc_str json_tbl s ++ quote :: rest) = Some (s, rest).
Proof. exact (json_string_roundtrip_cfg json_tbl C17_table_ok). Qed.

(* every value tree: the exported document is accepted by the spec decoder and decodes to the
   same structure (lists to arrays in order, maps to objects, scalars to their string form) *)
Theorem C17_export_roundtrip : forall v : xv, json_parse (export json_tbl v) = Some (jproj v).
Proof. exact (json_export_roundtrip json_tbl C17_table_ok). Qed.

(* ... and the object has exactly the entries of the map *)
Theorem C17_same_key_set : forall l,
  Permutation.Permutation (map (fun kv => (fst kv, jproj (snd kv))) l)
                          (match jproj (XM l) with JObj m => m | _ => [] end).
Proof. exact jproj_keys_perm. Qed.

(* json_wrappers_transparent: style / link wrappers (export.Format, export.Link) carry no data.  Any stack of
   wrappers, in any order and of any depth, around a value exports to the bytes of the value itself ... *)
Theorem json_wrappers_transparent : forall (ws : list bool) (v : xv),
  export json_tbl (wrap ws v) = export json_tbl v.
Proof. exact (export_wrap json_tbl). Qed.

(* ... and decodes to the structure of the value itself *)
Theorem json_wrappers_transparent_proj : forall (ws : list bool) (v : xv), jproj (wrap ws v) = jproj v.
Proof. exact jproj_wrap. Qed.

(* the same at every level of the tree at once: removing all wrappers everywhere leaves the bytes unchanged.
   C17_export_roundtrip above already quantifies over wrapped trees (xv has the wrapper constructor): the
   document is valid JSON and decodes to jproj v, the structure of the unwrapped tree *)
Theorem json_wrappers_transparent_deep : forall v : xv,
  export json_tbl (strip_wrappers v) = export json_tbl v.
Proof. exact (export_strip json_tbl). Qed.

(* non-vacuity: a nested value with quote, backslash and a control character *)
Example C17_nonvacuous :
  json_parse (export json_tbl (XM [([98%N], XL [XS [34; 92; 1]%N; XS []]); ([97%N], XS [10%N])]))
  = Some (JObj [([97%N], JStr [10%N]); ([98%N], JArr [JStr [34; 92; 1]%N; JStr []])]).
Proof. vm_compute. reflexivity. Qed.

Print Assumptions C17_table_ok.
Print Assumptions C17_string.
Print Assumptions C17_export_roundtrip.
Print Assumptions C17_same_key_set.
Print Assumptions json_wrappers_transparent.
Print Assumptions json_wrappers_transparent_proj.
Print Assumptions json_wrappers_transparent_deep.
