(* C03 - Operator priority, associativity and grouping for any operator table.
   This file contains only the property theorems; each is closed by an exact lemma application.

   Model: Syn/Parse.v (parser2.go function by function; parse_fuel = Parser.Parse after tokenizing).
   Specification side: Syn/Render.v.  A rendering tree [rt] is an expression tree with explicit
   parentheses; [flatten] writes its tokens, [erase] is the AST it denotes (grouping = tree structure,
   Priority = position in the table) and [wf] says where parentheses may be left out: operands by
   declared priority, equal priority to the left, postfix forms tightest, a prefix operator that is also
   binary takes the maximal operand of strictly higher priority (follow bound [ab]), a pure prefix
   operator a postfix expression.  [renders e ts] := some well-formed rendering tree denotes e and
   flattens to ts.  All statements hold for EVERY operator table with pairwise distinct binary
   operators ([table_ok]; any number of levels, any prefix operators, the empty table included), every
   identifier chain, every expression, every fuel - no bound on depth or length. *)
From P2 Require Import Base.Prelude Lex.Token Syn.Ast Syn.Parse Syn.Render Syn.ParseRel Syn.ParseProofs
  Syn.ParseSound Syn.ParseTotal Syn.ParseCor Syn.Full Syn.FullProofs Syn.FullSound Syn.TextToAst Syn.RenderText Syn.RenderComfort Syn.TableBuild Syn.TableBuildProofs.
From P2 Require Lex.Tok Lex.TokProofs.

(* completeness: every well-formed rendering is parsed, as a whole, to exactly the tree it denotes
   ([parse] = Parser.Parse on the token list, with the linear fuel of C03_parse_total) *)
Theorem C03_parse_complete : forall cfg ids, table_ok cfg = true ->
  forall r e, wf cfg r = true -> erase cfg ids r = Some e -> parse cfg ids (flatten cfg r) = POk e.
Proof. exact parse_complete_exact. Qed.

(* soundness: a successful parse accounts for every token - the whole input is a well-formed rendering of
   the returned tree (no truncation, no regrouping); [frag_toks]: tokens of the expression fragment *)
Theorem C03_parse_sound : forall cfg ids, table_ok cfg = true ->
  forall f ts e, frag_toks ts = true -> parse_fuel cfg f ids ts = POk e -> renders cfg ids e ts.
Proof. exact parse_sound. Qed.

(* a token list renders at most one tree: grouping is determined by the table *)
Theorem C03_renders_unique : forall cfg ids, table_ok cfg = true ->
  forall e e' ts, renders cfg ids e ts -> renders cfg ids e' ts -> e = e'.
Proof. exact (fun cfg ids H => renders_unique cfg ids H). Qed.

(* printer round trips: the printer puts parentheses exactly where [wf] demands them plus [d node] redundant
   pairs around every node; d = 0 everywhere is the minimal, d = 1 on every non-atom the full, arbitrary d
   the random-redundant parenthesisation of the property *)
Theorem C03_pp_roundtrip : forall cfg ids, table_ok cfg = true ->
  forall d r e, shape cfg r = true -> erase cfg ids r = Some e ->
  parse cfg ids (flatten cfg (pp cfg d r)) = POk e.
Proof. exact (fun cfg ids H => pp_roundtrip_exact cfg ids H). Qed.

Corollary C03_pp_min_roundtrip : forall cfg ids, table_ok cfg = true ->
  forall r e, shape cfg r = true -> erase cfg ids r = Some e ->
  parse cfg ids (flatten cfg (pp_min cfg r)) = POk e.
Proof. exact (fun cfg ids H => pp_roundtrip_exact cfg ids H (fun _ => O)). Qed.

Corollary C03_pp_full_roundtrip : forall cfg ids, table_ok cfg = true ->
  forall r e, shape cfg r = true -> erase cfg ids r = Some e ->
  parse cfg ids (flatten cfg (pp_full cfg r)) = POk e.
Proof. exact (fun cfg ids H => pp_roundtrip_exact cfg ids H (fun r => if is_atom r then O else 1%nat)). Qed.

(* malformed input is rejected: what is not a rendering of any tree never yields an AST ... *)
Theorem C03_reject_nonrendering : forall cfg ids, table_ok cfg = true ->
  forall f ts, frag_toks ts = true -> (forall e, ~ renders cfg ids e ts) ->
  forall e, parse_fuel cfg f ids ts <> POk e.
Proof. exact (fun cfg ids H => reject_nonrendering cfg ids H). Qed.

(* ... in particular anything with unbalanced or wrongly nested brackets *)
Theorem C03_reject_unbalanced : forall cfg ids, table_ok cfg = true ->
  forall f ts, frag_toks ts = true -> balanced ts = false ->
  forall e, parse_fuel cfg f ids ts <> POk e.
Proof. exact (fun cfg ids H => reject_unbalanced cfg ids H). Qed.

(* FULL GRAMMAR (Syn/Full.v): rendering trees [ft] with let / func / if-then-else / switch-case-default / try-catch /
   closures  x -> e ,  (a, b) -> e  / list and map literals; [fwf] adds the grammar facts (let / func only where parseLet
   is called; forms ending in an open parseLet tail absorb what follows); [ferase ids r] is the annotated AST the tree
   denotes for the identifier chain ids - identifiers resolved through the scope stack, constant lets propagated,
   closures with OuterIdents / Recursive / ThisName computed from the names their bodies look up - together with
   the names looked up.  Completeness: Parser.Parse on the tokens of any well-formed tree yields exactly that AST,
   for every operator table and every identifier chain. *)
Theorem C03_parse_complete_full : forall cfg, table_ok cfg = true ->
  forall ids r e u, fwf cfg r = true -> ferase cfg ids r = Some (e, u) -> parse cfg ids (fflatten cfg r) = POk e.
Proof. exact parse_complete_full. Qed.

(* soundness for the full grammar: whatever Parser.Parse accepts (tokens as the tokenizer writes them: [full_toks])
   is, token for token, a well-formed rendering of the annotated AST it returns - no truncation, no regrouping, and
   the annotations (constant propagation, OuterIdents, Recursive, ThisName) are the ones the scope stack demands;
   [frenders cfg ids e ts] := some well-formed tree r with ferase ids r = (e, _) flattens to ts *)
Theorem C03_parse_sound_full : forall cfg, table_ok cfg = true ->
  forall f ids ts e, full_toks ts = true -> parse_fuel cfg f ids ts = POk e -> frenders cfg ids e ts.
Proof. exact parse_sound_full. Qed.

(* both directions: the parser accepts exactly the renderings, and returns exactly the AST they denote *)
Theorem C03_parse_iff_renders : forall cfg, table_ok cfg = true -> forall ids ts e, full_toks ts = true ->
  (parse cfg ids ts = POk e <-> frenders cfg ids e ts).
Proof. exact parse_iff_renders. Qed.

(* TEXT to AST (composition with the tokenizer model of C15): for every well-formed layout - the lexemes separated by
   arbitrary runs of blanks, tabs, CR, LF, line and block comments (Lex/TokProofs.wf_layout) - whose lexemes denote the
   tokens of a well-formed tree of the full grammar, tokenizing the text and parsing the tokens yields exactly the
   annotated AST the tree denotes; and any two well-formed layouts of the same lexemes give the same result *)
Theorem C03_text_to_ast : forall (tc : P2.Lex.Tok.tcfg) (pc : pcfg) (ids : idents) items r e u,
  P2.Lex.TokProofs.ops_ok tc -> P2.Lex.TokProofs.wf_layout tc tInvalid false items ->
  P2.Lex.TokProofs.lexeme_tokens items = fflatten pc r ->
  table_ok pc = true -> fwf pc r = true -> ferase pc ids r = Some (e, u) ->
  parse_tokens pc ids (P2.Lex.Tok.tokenize tc (P2.Lex.Tok.layout_text items)) = POk e.
Proof. exact text_to_ast. Qed.

Theorem C03_text_layout_irrelevant : forall (tc : P2.Lex.Tok.tcfg) (pc : pcfg) (ids : idents) items items',
  P2.Lex.TokProofs.ops_ok tc ->
  P2.Lex.TokProofs.wf_layout tc tInvalid false items -> P2.Lex.TokProofs.wf_layout tc tInvalid false items' ->
  P2.Lex.TokProofs.lexeme_tokens items = P2.Lex.TokProofs.lexeme_tokens items' ->
  parse_tokens pc ids (P2.Lex.Tok.tokenize tc (P2.Lex.Tok.layout_text items))
  = parse_tokens pc ids (P2.Lex.Tok.tokenize tc (P2.Lex.Tok.layout_text items')).
Proof. exact text_layout_irrelevant. Qed.

(* the canonical TEXT of a tree reads back (Syn/RenderText.v): [render_text] writes every token of the canonical token
   stream as its lexeme followed by one blank - identifiers and keywords as words (identifiers that are not ASCII words
   between single quotes), strings as literals with escapes, numbers, operators and punctuation literally.  [spellable]
   is a BOOLEAN: the parser table is usable, the tokenizer has no comfort mode, no operator contains a blank, a line
   break or NUL, a blank is neither letter nor digit, and every token has such a lexeme: identifiers are words of
   letters outside the keyword and text-operator tables (or quotable), keywords are words in the keyword table, numbers
   are accepted by the number matcher, strings have no NUL, operators are complete paths of the operator trie spelled
   without typographic aliases that form no comment opener, punctuation is the rune of its type.  No layout
   hypothesis is left: tokenizing the text gives the canonical tokens, parsing them gives the AST the tree denotes *)
Theorem C03_render_tokenize : forall (tc : P2.Lex.Tok.tcfg) (ts : list tk), spellable_toks tc ts = true ->
  map untok (P2.Lex.Tok.tokenize tc (render_toks ts)) = ts.
Proof. exact render_tokenize. Qed.

Theorem C03_render_roundtrip : forall (tc : P2.Lex.Tok.tcfg) (pc : pcfg) (ids : idents) r e u,
  spellable tc pc r = true -> fwf pc r = true -> ferase pc ids r = Some (e, u) ->
  parse_tokens pc ids (P2.Lex.Tok.tokenize tc (render_text pc r)) = POk e.
Proof. exact render_roundtrip. Qed.

(* COMFORT MODE (Syn/RenderComfort.v): the same tree written with multiplication signs LEFT OUT and lexemes set tight.
   A directive per token of the canonical stream says "write nothing" (only for the operator token  * ) and which
   separator run follows the lexeme - any list of blanks, tabs, CR, LF, line and block comments, or nothing;
   [render_comfort pc r ds] is that text ([] = the canonical text above).  [cspellable] is a
   BOOLEAN that walks the tokens with the bookkeeping of token.go run() - lastTokenType is tNumber / tIdent / tClose
   behind a number, a (quoted) identifier, ')' when comfort mode is on and tInvalid otherwise, blanks keep it and set
   lastWasBlank; the scanner sends  *  in front of a number / identifier / quoted identifier when lastTokenType is one
   of the three, in front of '(' when it is tNumber or tClose or (tIdent and a blank was seen) - and demands: a sign is
   left out only where the scanner puts it back ( 2a , 2 a , a b , 2(a) , a (b) , (a)(b) , (a)b , 2'x y' ); where the
   scanner would put one that the tokens do not have, the lexemes are written so that it does not ( f(x)  tight; the
   call of a parenthesised or numeric callee is not spellable in comfort mode at all: it reads as a product); a lexeme
   with nothing behind it ends where its scanner stops ( 2e  is one number:  2 e  needs its blank); separators are well
   formed and form no comment opener with an operator in front of them.  Separators keep lastTokenType and set
   lastWasBlank:  a /* c */ (b)  is the product like  a (b) .
   For EVERY tokenizer configuration (comfort on or off), operator table, tree and admissible directive list the text
   tokenizes to the canonical tokens - every omitted sign back in place, none added - and parses to the AST the tree
   denotes: the same AST as the explicit text, whatever was left out. *)
Theorem C03_render_comfort_tokenize : forall (tc : P2.Lex.Tok.tcfg) (ts : list tk) ds, cspellable_toks tc ts ds = true ->
  map untok (P2.Lex.Tok.tokenize tc (crender_toks ts ds)) = ts.
Proof. exact comfort_tokenize. Qed.

Theorem C03_render_comfort_roundtrip : forall (tc : P2.Lex.Tok.tcfg) (pc : pcfg) (ids : idents) r ds e u,
  cspellable tc pc r ds = true -> fwf pc r = true -> ferase pc ids r = Some (e, u) ->
  parse_tokens pc ids (P2.Lex.Tok.tokenize tc (render_comfort pc r ds)) = POk e.
Proof. exact render_comfort_roundtrip. Qed.

(* ... the same AST as the explicit canonical text read by a tokenizer tc' without comfort mode *)
Theorem C03_comfort_equals_explicit : forall (tc tc' : P2.Lex.Tok.tcfg) (pc : pcfg) (ids : idents) r ds e u,
  cspellable tc pc r ds = true -> spellable tc' pc r = true -> fwf pc r = true -> ferase pc ids r = Some (e, u) ->
  parse_tokens pc ids (P2.Lex.Tok.tokenize tc (render_comfort pc r ds)) = POk e /\
  parse_tokens pc ids (P2.Lex.Tok.tokenize tc' (render_text pc r)) = POk e.
Proof. exact comfort_equals_explicit. Qed.

(* ... and any two admissible choices of omissions and blanks give the same parse result (AST or error), tree or not *)
Theorem C03_comfort_choice_irrelevant : forall (tc : P2.Lex.Tok.tcfg) (pc : pcfg) (ids : idents) ts ds ds',
  cspellable_toks tc ts ds = true -> cspellable_toks tc ts ds' = true ->
  parse_tokens pc ids (P2.Lex.Tok.tokenize tc (crender_toks ts ds))
  = parse_tokens pc ids (P2.Lex.Tok.tokenize tc (crender_toks ts ds')).
Proof. exact comfort_choice_irrelevant. Qed.

(* tables built through the generator API (Syn/TableBuild.v: AddOp* append, AddOpBehind(behind, new) = insert_behind):
   after the insertion the new operator binds exactly one level tighter than its anchor (so looser than the anchor's old
   successor, which moves up with everything above it), every operator up to the anchor keeps its level.  The run checks
   on every generated declaration history that the real parser holds build_table of the history. *)
Theorem C03_insert_behind_priority : forall tbl anchor op p,
  NoDup tbl -> ~ In op tbl -> level_of tbl anchor = Some p ->
  exists tbl', insert_behind anchor op tbl = Some tbl' /\
    level_of tbl' anchor = Some p /\ level_of tbl' op = Some (S p) /\
    (forall x q, level_of tbl x = Some q -> level_of tbl' x = Some (if (q <=? p)%nat then q else S q)) /\
    length tbl' = S (length tbl).
Proof. exact insert_behind_priority. Qed.

(* parser half of C04, for EVERY configuration (no side condition on the table: the empty table and a prefix
   operator that is also the highest binary level included) and every token list of the full grammar:
   the model never panics, and fuel (2*|ops|+12)*(|tokens|+2) always suffices - the number of calls of parse
   functions is linear in the number of tokens; more fuel never changes a result *)
Theorem C03_parse_no_panic : forall cfg f ids ts, parse_fuel cfg f ids ts <> PPanic.
Proof. exact parse_no_panic. Qed.

Theorem C03_parse_total : forall cfg ids ts f, (f >= fuel_for cfg ts)%nat ->
  match parse_fuel cfg f ids ts with POk _ | PErr => True | PPanic | POOF => False end.
Proof. exact parse_total. Qed.

Theorem C03_parse_fuel_stable : forall cfg f ids ts r,
  parse_fuel cfg f ids ts = r -> r <> POOF -> parse cfg ids ts = r.
Proof. exact parse_fuel_stable. Qed.

(* operator position needs an operator TOKEN (any configuration, any token list): a string literal or quoted
   identifier whose text spells an operator is never consumed as that operator; with C03_parse_sound such an
   input in operator position is rejected (flatten writes operators only as tOperate tokens) *)
Theorem C03_only_operator_tokens : forall cfg f k o a u ids ts, typ_is (peek ts) tOperate = false ->
  parse_op_loop cfg (S f) k o a u ids ts = POk (a, u, ts) /\
  parse_unary cfg (S f) ids ts = parse_nonop cfg f ids ts.
Proof. exact only_operator_tokens. Qed.

(* non-vacuity: the table  -  <  <=  <<  (ascending), prefix operators  -  (also binary, level 0) and  !  (pure).
   (a - b) << c  needs its parentheses,  a << b - c  needs none,  a - (b - c)  needs them on the right (left
   associativity),  ! (- a)  needs them (a pure prefix operator takes a postfix expression), and
   (a << - b) <= c  needs them ONLY because of the follow bound: without them the operand of the prefix  -
   is built from all higher levels,  a << (-(b <= c)) . *)
Definition ex_cfg : pcfg :=
  mkPcfg [[45]; [60]; [60; 61]; [60; 60]]%N [[45]; [33]]%N (Some (fun s => Some s)) (Some (fun s => s)).
Definition ex_ids : idents := [id_var [97]; id_var [98]; id_var [99]]%N.
Definition ex_a := RIdent [97%N]. Definition ex_b := RIdent [98%N]. Definition ex_c := RIdent [99%N].
Definition ex_neg := RUn [45%N].

Example C03_nonvacuous_table : table_ok ex_cfg = true.
Proof. vm_compute. reflexivity. Qed.

Example C03_nonvacuous_min :
  pp_min ex_cfg (RBin 3 (RBin 0 ex_a ex_b) ex_c) = RBin 3 (RParen (RBin 0 ex_a ex_b)) ex_c /\
  pp_min ex_cfg (RBin 0 (RBin 3 ex_a ex_b) ex_c) = RBin 0 (RBin 3 ex_a ex_b) ex_c /\
  pp_min ex_cfg (RBin 0 ex_a (RBin 0 ex_b ex_c)) = RBin 0 ex_a (RParen (RBin 0 ex_b ex_c)) /\
  pp_min ex_cfg (RUn [33%N] (ex_neg ex_a)) = RUn [33%N] (RParen (ex_neg ex_a)) /\
  pp_min ex_cfg (RBin 2 (RBin 3 ex_a (ex_neg ex_b)) ex_c) = RBin 2 (RParen (RBin 3 ex_a (ex_neg ex_b))) ex_c.
Proof. vm_compute. repeat split. Qed.

Example C03_nonvacuous_parse :
  flatten ex_cfg (RBin 1 ex_a (ex_neg (RBin 2 ex_b ex_c)))
  = [k_ident [97%N]; k_op [60%N]; k_op [45%N]; k_ident [98%N]; k_op [60; 61]%N; k_ident [99%N]] /\
  wf ex_cfg (RBin 1 ex_a (ex_neg (RBin 2 ex_b ex_c))) = true /\
  parse ex_cfg ex_ids (flatten ex_cfg (RBin 1 ex_a (ex_neg (RBin 2 ex_b ex_c))))
  = POk (AOp [60%N] 1 (AIdent [97%N] false) (AUn [45%N] (AOp [60; 61]%N 2 (AIdent [98%N] false) (AIdent [99%N] false)))) /\
  wf ex_cfg (RBin 2 (RBin 3 ex_a (ex_neg ex_b)) ex_c) = false /\
  parse ex_cfg ex_ids (flatten ex_cfg (RBin 2 (RBin 3 ex_a (ex_neg ex_b)) ex_c))
  = POk (AOp [60; 60]%N 3 (AIdent [97%N] false) (AUn [45%N] (AOp [60; 61]%N 2 (AIdent [98%N] false) (AIdent [99%N] false)))).
Proof. vm_compute. repeat split. Qed.

(* a "<" b  and  a '<=' b  (string literal / quoted identifier spelling a binary operator) are rejected,
   a < "<"  is accepted with the string as operand *)
Example C03_nonvacuous_disguised :
  parse ex_cfg ex_ids [k_ident [97%N]; k_str [60%N]; k_ident [98%N]] = PErr /\
  parse ex_cfg ex_ids [k_ident [97%N]; k_ident [60; 61]%N; k_ident [98%N]] = PErr /\
  parse ex_cfg ex_ids [k_ident [97%N]; k_op [60%N]; k_str [60%N]] = POk (AOp [60%N] 1 (AIdent [97%N] false) (AConst [60%N])).
Proof. vm_compute. repeat split. Qed.

(* full grammar, non-vacuity:  func f(n) if n < b then c else f(n - b) ; let k = 2 ; x -> f(x) - k - a
   (table  -  <  <=  << ; a b c variables): the func is recursive and captures b and c, the constant let is
   propagated, the closure captures f and a but not the constant k *)
Definition ex_n := FIdent [110%N]. Definition ex_fb := FIdent [98%N]. Definition ex_x := FIdent [120%N].
Definition ex_prog : ft :=
  FFunc [102%N] [[110%N]]
    (FIf (FBin 1 ex_n ex_fb) (FIdent [99%N]) (FCall (FIdent [102%N]) (FA_last (FBin 0 ex_n ex_fb))))
    (FLet [107%N] (FNum [50%N])
       (FClo1 [120%N] (FBin 0 (FBin 0 (FCall (FIdent [102%N]) (FA_last ex_x)) (FIdent [107%N])) (FIdent [97%N])))).
Example C03_nonvacuous_full :
  fwf ex_cfg ex_prog = true /\
  parse ex_cfg ex_ids (fflatten ex_cfg ex_prog)
  = POk (ALet [102%N]
           (AClosure [[110%N]]
              (AIf (AOp [60%N] 1 (AIdent [110%N] false) (AIdent [98%N] false)) (AIdent [99%N] false)
                   (ACall (AIdent [102%N] false) [AOp [45%N] 0 (AIdent [110%N] false) (AIdent [98%N] false)]))
              [[98%N]; [99%N]] true [102%N])
           (AClosure [[120%N]]
              (AOp [45%N] 0 (AOp [45%N] 0 (ACall (AIdent [102%N] false) [AIdent [120%N] false]) (AConst [50%N]))
                            (AIdent [97%N] false))
              [[102%N]; [97%N]] false [])).
Proof. vm_compute. split; reflexivity. Qed.

(* text to AST, computed end to end (tokenizer model, then parser model) on
     func f(n) /* c */ n-b;<LF>  x->f ( x )<a // end
   with a block comment, a line break, tight and spaced tokens and a line comment running to the end *)
Definition tx_pc : pcfg := mkPcfg [[45]; [60]]%N [[45]]%N (Some (fun s => Some s)) (Some (fun s => s)).
Definition tx_tc : P2.Lex.Tok.tcfg :=
  P2.Lex.Tok.mkCfg [[45]; [60]; [61]; [45; 62]]%N [] [[108; 101; 116]; [102; 117; 110; 99]]%N true false P2.Lex.Tok.MSimple
    (fun c => ((65 <=? c) && (c <=? 90)) || ((97 <=? c) && (c <=? 122)))%N (fun c => (48 <=? c) && (c <=? 57))%N.
Definition tx_text : list N := [102; 117; 110; 99; 32; 102; 40; 110; 41; 32; 47; 42; 32; 99; 32; 42; 47; 32; 110; 45; 98; 59; 10; 32; 32; 120; 45; 62; 102; 32; 40; 32; 120; 32; 41; 60; 97; 32; 47; 47; 32; 101; 110; 100]%N.
Example C03_text_to_ast_computed :
  parse_tokens tx_pc [id_var [97]%N; id_var [98]%N] (P2.Lex.Tok.tokenize tx_tc tx_text)
  = POk (ALet [102%N]
           (AClosure [[110%N]] (AOp [45%N] 0 (AIdent [110%N] false) (AIdent [98%N] false)) [[98%N]] false [102%N])
           (AClosure [[120%N]]
              (AOp [60%N] 1 (ACall (AIdent [102%N] false) [AIdent [120%N] false]) (AIdent [97%N] false))
              [[102%N]; [97%N]] false [])).
Proof. vm_compute. reflexivity. Qed.

(* canonical text, non-vacuity: a nested program with EVERY construct of the full grammar (func with two parameters, if,
   string with LF and quote, call, let with a name that needs quotes, try/catch, switch/case/default, list and map
   literals, one- and many-parameter closures, prefix and binary operators, parentheses, member access, index, method
   call) is spellable; its text is
     func f ( n , m ) if n < b then <the string literal of  s LF quote > else f ( n - b , 1 ) ; let 'k k' = 2 ; try switch a case 1 : [ a , 'k k' ]
     default { p : a , q : x -> - x } catch ( a - b ) . fld [ 0 ] . m ( ( y , z ) -> y << z )
   and it is read back to the AST the tree denotes.  A tree that binds an identifier spelled like the keyword  if  is
   well-formed and denotes an AST, but is NOT spellable - and indeed its text does not parse *)
Definition rd_tc : P2.Lex.Tok.tcfg :=
  P2.Lex.Tok.mkCfg [[45]; [60]; [60; 61]; [60; 60]; [33]; [61]; [45; 62]]%N []
    [P2.Syn.Parse.s_let; s_func; s_try; s_catch; s_if; s_then; s_else; s_switch; s_case; s_default] true false P2.Lex.Tok.MSimple
    (fun c => ((65 <=? c) && (c <=? 90)) || ((97 <=? c) && (c <=? 122)))%N (fun c => (48 <=? c) && (c <=? 57))%N.
Definition rd_a := FIdent [97%N]. Definition rd_b := FIdent [98%N]. Definition rd_n := FIdent [110%N].
Definition rd_prog : ft :=
  FFunc [102%N] [[110%N]; [109%N]]
    (FIf (FBin 1 rd_n rd_b) (FStr [115; 10; 34]%N)
         (FCall (FIdent [102%N]) (FA_cons (FBin 0 rd_n rd_b) (FA_last (FNum [49%N])))))
    (FLet [107; 32; 107]%N (FNum [50%N])
      (FTry
        (FSwitch rd_a
           (FC_cons (FNum [49%N]) (FList (FA_cons rd_a (FA_last (FIdent [107; 32; 107]%N)))) FC_nil)
           (FMap (FE_cons [112%N] rd_a (FE_last [113%N] (FClo1 [120%N] (FUn [45%N] (FIdent [120%N])))))))
        (FMethod (FIndex (FAccess (FParen (FBin 0 rd_a rd_b)) [102; 108; 100]%N) (FNum [48%N])) [109%N]
           (FA_last (FCloN [[121%N]; [122%N]] (FBin 3 (FIdent [121%N]) (FIdent [122%N]))))))).
Definition rd_text : list N :=
  [102; 117; 110; 99; 32; 102; 32; 40; 32; 110; 32; 44; 32; 109; 32; 41; 32; 105; 102; 32; 110; 32; 60; 32; 98; 32; 116;
   104; 101; 110; 32; 34; 115; 92; 110; 92; 34; 34; 32; 101; 108; 115; 101; 32; 102; 32; 40; 32; 110; 32; 45; 32; 98; 32;
   44; 32; 49; 32; 41; 32; 59; 32; 108; 101; 116; 32; 39; 107; 32; 107; 39; 32; 61; 32; 50; 32; 59; 32; 116; 114; 121;
   32; 115; 119; 105; 116; 99; 104; 32; 97; 32; 99; 97; 115; 101; 32; 49; 32; 58; 32; 91; 32; 97; 32; 44; 32; 39; 107;
   32; 107; 39; 32; 93; 32; 100; 101; 102; 97; 117; 108; 116; 32; 123; 32; 112; 32; 58; 32; 97; 32; 44; 32; 113; 32; 58;
   32; 120; 32; 45; 62; 32; 45; 32; 120; 32; 125; 32; 99; 97; 116; 99; 104; 32; 40; 32; 97; 32; 45; 32; 98; 32; 41; 32;
   46; 32; 102; 108; 100; 32; 91; 32; 48; 32; 93; 32; 46; 32; 109; 32; 40; 32; 40; 32; 121; 32; 44; 32; 122; 32; 41; 32;
   45; 62; 32; 121; 32; 60; 60; 32; 122; 32; 41; 32]%N.
Example C03_render_nonvacuous :
  spellable rd_tc ex_cfg rd_prog = true /\ fwf ex_cfg rd_prog = true /\ render_text ex_cfg rd_prog = rd_text /\
  (exists e u, ferase ex_cfg ex_ids rd_prog = Some (e, u) /\
     parse_tokens ex_cfg ex_ids (P2.Lex.Tok.tokenize rd_tc rd_text) = POk e).
Proof.
  split; [vm_compute; reflexivity|]. split; [vm_compute; reflexivity|]. split; [vm_compute; reflexivity|].
  eexists. eexists. split; [vm_compute; reflexivity|vm_compute; reflexivity].
Qed.

Definition rd_bad : ft := FLet [105; 102]%N (FNum [50%N]) rd_a.
Example C03_render_rejects_keyword_identifier :
  spellable rd_tc ex_cfg rd_bad = false /\ fwf ex_cfg rd_bad = true /\
  ferase ex_cfg ex_ids rd_bad = Some (AIdent [97%N] false, [[97%N]]) /\
  parse_tokens ex_cfg ex_ids (P2.Lex.Tok.tokenize rd_tc (render_text ex_cfg rd_bad)) = PErr /\
  spellable rd_tc ex_cfg (FLet [105; 103]%N (FNum [50%N]) rd_a) = true.
Proof. vm_compute. repeat split; reflexivity. Qed.

(* comfort mode, non-vacuity: table  +  -  *  (ascending), prefix  - ; tokenizer with comfort mode and comments.
     2a+(a+1)(1-a)-c(2 b)          (and   a/* c */ LF TAB (b)   for  a*(b) , last lines of the example)
   is the comfort text of  2*a + ((a+1)*(1-a) - c(2*b))  with three signs left out and every lexeme tight but the
   number in  2 b ; it is admissible and reads back to the AST of the tree.  The call  c(a)  must be written tight:
   its canonical text  c ( a )  is NOT admissible in comfort mode - and indeed reads as the product  c*(a) ; a call
   of a parenthesised callee has no admissible text; nor has  2e  for  2*e  (one number), while  2 e  has. *)
Definition cm_pc : pcfg := mkPcfg [[43]; [45]; [42]]%N [[45]]%N (Some (fun s => Some s)) (Some (fun s => s)).
Definition cm_tc : P2.Lex.Tok.tcfg :=
  P2.Lex.Tok.mkCfg [[43]; [45]; [42]; [61]; [45; 62]]%N [] [P2.Syn.Parse.s_let; s_if; s_then; s_else] true true P2.Lex.Tok.MSimple
    (fun c => ((65 <=? c) && (c <=? 90)) || ((97 <=? c) && (c <=? 122)))%N (fun c => (48 <=? c) && (c <=? 57))%N.
Definition cm_t := mkDir false []. Definition cm_o := mkDir true []. Definition cm_b := mkDir false [P2.Lex.Tok.SBlank].
Definition cm_c := mkDir false [P2.Lex.Tok.SBlockC [32; 99; 32]%N; P2.Lex.Tok.SLF; P2.Lex.Tok.STab].
Definition cm_prog : ft :=
  FBin 0 (FBin 2 (FNum [50%N]) rd_a)
    (FBin 1 (FBin 2 (FParen (FBin 0 rd_a (FNum [49%N]))) (FParen (FBin 1 (FNum [49%N]) rd_a)))
            (FCall (FIdent [99%N]) (FA_last (FBin 2 (FNum [50%N]) rd_b)))).
Definition cm_ds : list cdir :=
  [cm_t; cm_o; cm_t; cm_t; cm_t; cm_t; cm_t; cm_t; cm_t; cm_o; cm_t; cm_t; cm_t; cm_t; cm_t; cm_t; cm_t; cm_t; cm_b; cm_o; cm_t; cm_t].
Definition cm_text : list N := [50; 97; 43; 40; 97; 43; 49; 41; 40; 49; 45; 97; 41; 45; 99; 40; 50; 32; 98; 41]%N.
Example C03_comfort_nonvacuous :
  cspellable cm_tc cm_pc cm_prog cm_ds = true /\ fwf cm_pc cm_prog = true /\ render_comfort cm_pc cm_prog cm_ds = cm_text /\
  (exists e u, ferase cm_pc ex_ids cm_prog = Some (e, u) /\
     parse_tokens cm_pc ex_ids (P2.Lex.Tok.tokenize cm_tc cm_text) = POk e) /\
  cspellable cm_tc cm_pc cm_prog (omit_all cm_tc tInvalid (fflatten cm_pc cm_prog)) = false /\
  cspellable cm_tc cm_pc (FBin 2 rd_a (FParen rd_b)) (omit_all cm_tc tInvalid (fflatten cm_pc (FBin 2 rd_a (FParen rd_b)))) = true /\
  render_comfort cm_pc (FBin 2 rd_a (FParen rd_b)) (omit_all cm_tc tInvalid (fflatten cm_pc (FBin 2 rd_a (FParen rd_b)))) = [97; 32; 40; 32; 98; 32; 41; 32]%N /\
  cspellable cm_tc cm_pc (FBin 2 rd_a (FParen rd_b)) [cm_c; cm_o; cm_t; cm_t; cm_t] = true /\
  render_comfort cm_pc (FBin 2 rd_a (FParen rd_b)) [cm_c; cm_o; cm_t; cm_t; cm_t] = [97; 47; 42; 32; 99; 32; 42; 47; 10; 9; 40; 98; 41]%N /\
  parse_tokens cm_pc ex_ids (P2.Lex.Tok.tokenize cm_tc [97; 47; 42; 32; 99; 32; 42; 47; 10; 9; 40; 98; 41]%N)
    = POk (AOp [42%N] 2 (AIdent [97%N] false) (AIdent [98%N] false)).
Proof.
  split; [vm_compute; reflexivity|]. split; [vm_compute; reflexivity|]. split; [vm_compute; reflexivity|].
  split; [eexists; eexists; split; vm_compute; reflexivity|]. vm_compute. repeat split; reflexivity.
Qed.

Definition cm_call : ft := FCall (FIdent [99%N]) (FA_last rd_a).
Example C03_comfort_rejects :
  cspellable cm_tc cm_pc cm_call [] = false /\ cspellable cm_tc cm_pc cm_call [cm_t] = true /\
  parse_tokens cm_pc ex_ids (P2.Lex.Tok.tokenize cm_tc (render_comfort cm_pc cm_call []))
    = POk (AOp [42%N] 2 (AIdent [99%N] false) (AIdent [97%N] false)) /\
  parse_tokens cm_pc ex_ids (P2.Lex.Tok.tokenize cm_tc (render_comfort cm_pc cm_call [cm_t]))
    = POk (ACall (AIdent [99%N] false) [AIdent [97%N] false]) /\
  cspellable cm_tc cm_pc (FCall (FParen (FIdent [99%N])) (FA_last rd_a)) [] = false /\
  cspellable cm_tc cm_pc (FCall (FParen (FIdent [99%N])) (FA_last rd_a)) [cm_t; cm_t; cm_t; cm_t; cm_t; cm_t] = false /\
  cspellable cm_tc cm_pc (FBin 2 (FNum [50%N]) (FIdent [101%N])) [cm_t; cm_o; cm_t] = false /\
  cspellable cm_tc cm_pc (FBin 2 (FNum [50%N]) (FIdent [101%N])) [cm_b; cm_o; cm_t] = true /\
  cspellable cm_tc cm_pc (FBin 0 rd_a rd_b) [cm_t; cm_o; cm_t] = false.
Proof. vm_compute. repeat split; reflexivity. Qed.

Print Assumptions C03_parse_complete.
Print Assumptions C03_parse_sound.
Print Assumptions C03_renders_unique.
Print Assumptions C03_pp_roundtrip.
Print Assumptions C03_pp_min_roundtrip.
Print Assumptions C03_pp_full_roundtrip.
Print Assumptions C03_reject_nonrendering.
Print Assumptions C03_reject_unbalanced.
Print Assumptions C03_parse_complete_full.
Print Assumptions C03_parse_sound_full.
Print Assumptions C03_parse_iff_renders.
Print Assumptions C03_text_to_ast.
Print Assumptions C03_text_layout_irrelevant.
Print Assumptions C03_render_tokenize.
Print Assumptions C03_render_roundtrip.
Print Assumptions C03_render_comfort_tokenize.
Print Assumptions C03_render_comfort_roundtrip.
Print Assumptions C03_comfort_equals_explicit.
Print Assumptions C03_comfort_choice_irrelevant.
Print Assumptions C03_insert_behind_priority.
Print Assumptions C03_parse_no_panic.
Print Assumptions C03_parse_total.
Print Assumptions C03_parse_fuel_stable.
Print Assumptions C03_only_operator_tokens.
