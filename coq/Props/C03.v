(* C03 - operator priority, associativity and grouping for any operator table (under construction). *)
From P2 Require Import Base.Prelude Lex.Token Syn.Ast Syn.Parse Syn.Render.
