(* C12 - Parse, Generate and evaluation leave no goroutine behind.
   Only theorem statements; every proof is an exact lemma application.

   Models: Conc/TokChan.v (tokenizer goroutine x parser x deferred drain over the unbuffered token channel; the parser
   is ANY consumer performing k receives), Conc/Quiesce.v (iterator.ToChan producers behind list.merge; what
   iterator.initParallel - Conc/ParMap.v - leaves behind when its collector returns).

   State of the code the models follow:
     - Parse drains the token channel in a deferred loop (`fix: Parse lets the tokenizer goroutine terminate when
       parsing stops early`): drain_terminates_producer.  The theorems with drain = false describe Parse BEFORE that
       repair; their witness "1 ) )" is a corpus case of the check.
     - list.merge stops its sources when the consumer stops (`fix: merge stops reading its lists when the consumer
       stops`): tochan_quiesces_promptly; tochan_unwrapped_refuted describes iterator.ToChan as the dependency ships it.
     - parallel map/accept (iterator.initParallel, in the dependency, NOT repaired): when the consumer stops early or
       an error ends the evaluation, every worker that holds a result blocks forever in its send, and with it the
       goroutine that waits for the workers: par_stage_quiesces_refuted (known finding
       `worker/consumer-stops-early`), par_stage_quiesces_partial.
     - multiUse and parallel map/accept read their source on the calling goroutine; a panic of the source is recovered
       into an error element (two `fix:` commits): source_panic_strands_none; before: source_panic_before_repair_refuted.
     - multiUse: Conc/MultiUse.v models CopyProducer.run and the consumer goroutines incl. the 5 s timeout:
       multiuse_quiesces (every consumer behaviour, every source, every interleaving).
   Observed, not proved: that the Go runtime really ends these goroutines (goroutine profile after a grace period). *)
From P2 Require Import Base.Prelude Lex.Token Lex.Tok Lex.TokProofs.
From P2 Require Import Conc.ParMap Conc.Quiesce.
From P2 Require Conc.TokChan Conc.TokChanProofs Conc.TokSysProofs Conc.MultiUse Conc.MultiUseProofs.

(* the repaired Parse, every token list, every parser (k receives), EVERY interleaving tr: at most max(#tokens,k)+3
   actions; exactly that many iff both goroutines have returned; if nothing more can happen the tokenizer goroutine
   has returned, Parse has returned and every token has been received; and such a complete schedule exists *)
Theorem drain_terminates_producer : forall (T : Type) (toks : list T) (k : nat),
  (forall tr s, TokChan.run true (TokChan.init toks k) tr = Some s ->
     length tr <= Nat.max (length toks) k + 3
     /\ (length tr = Nat.max (length toks) k + 3 <-> TokChan.final s = true)
     /\ (TokChan.stuck true s -> TokChan.closed s = true /\ TokChan.cs s = TokChan.CRet /\ TokChan.got s = length toks))
  /\ exists tr s, TokChan.run true (TokChan.init toks k) tr = Some s /\ TokChan.final s = true.
Proof. exact TokChanProofs.drain_terminates_producer_lem. Qed.

(* the property for the tokenizer goroutine: for every input of the real scanner model and every parser, no schedule
   ends with the tokenizer goroutine blocked *)
Theorem no_goroutine_left : forall cfg rs (k : nat) tr s, ops_ok cfg ->
  TokChan.run true (TokChan.init (tokenize cfg rs) k) tr = Some s -> ~ TokChan.producer_blocked_forever true s.
Proof. exact TokSysProofs.no_goroutine_left_lem. Qed.

(* Parse BEFORE the repair (no drain): every schedule is bounded, and when nothing more can happen the tokenizer
   goroutine is blocked forever exactly if the parser performed fewer receives than there are tokens *)
Theorem leak_iff_unsent_without_drain : forall (T : Type) (toks : list T) (k : nat) tr s,
  TokChan.run false (TokChan.init toks k) tr = Some s ->
  length tr <= Nat.max (length toks) k + 3
  /\ (TokChan.stuck false s -> (TokChan.closed s = false <-> k < length toks)).
Proof. exact TokChanProofs.leak_iff_unsent_without_drain_lem. Qed.

(* ... so the property failed before the repair: "1 ) )" tokenizes to three tokens, the parser stops after two *)
Theorem no_goroutine_left_before_repair_refuted :
  exists cfg rs k tr s, k < length (tokenize cfg rs)
    /\ TokChan.run false (TokChan.init (tokenize cfg rs) k) tr = Some s
    /\ TokChan.producer_blocked_forever false s.
Proof. exact TokSysProofs.no_goroutine_left_before_repair_refuted_lem. Qed.

(* a parse that has seen TokenEof (in particular every successful one: Parse checks for it) leaves no tokenizer
   behind, with or without the drain, and has received every token *)
Theorem success_leaves_none : forall (drain : bool) (T : Type) (toks : list T) (k : nat) tr s,
  TokChan.run drain (TokChan.init toks k) tr = Some s -> In TokChan.ARecvEof tr ->
  TokChan.closed s = true /\ TokChan.got s = length toks.
Proof. exact (fun drain T => TokChanProofs.success_leaves_none_lem T drain). Qed.

(* ---- list stages ---- *)

(* list.merge after the repair: once the consumer has stopped, each of its two producer goroutines returns within two
   steps, whatever its source could still produce *)
Theorem tochan_quiesces_promptly : forall remaining, tochan_steps true remaining <= 2.
Proof. exact TokChanProofs.tochan_wrapped_steps. Qed.

(* iterator.ToChan as the dependency ships it (the `break` leaves the select, not the loop): the producer goes
   through its whole source after the consumer has stopped - no bound *)
Theorem tochan_unwrapped_refuted : forall bound, exists remaining, tochan_steps false remaining > bound.
Proof. exact TokChanProofs.tochan_unwrapped_unbounded. Qed.

Theorem tochan_unwrapped_cost : forall remaining, tochan_steps false remaining = S remaining.
Proof. exact TokChanProofs.tochan_unwrapped_steps. Qed.

(* parallel map/accept: full statement wanted by the property -
     forall s, alive (col s) = false -> exists sched, quiet (run s sched) = true     (every goroutine of the stage returns)
   REFUTED on the protocol model of iterator.initParallel: 2 workers, the consumer takes one item; worker 1 holds the
   result of item 13 when the collector returns, and holds it under EVERY schedule *)
Theorem par_stage_quiesces_refuted :
  alive (col TokChanProofs.stop_example) = false /\ left_behind TokChanProofs.stop_example = 2
  /\ forall sched, quiet (ParMap.run (fun _ x => ROk x) (take_yield 1) TokChanProofs.stop_example sched) = false.
Proof. exact TokChanProofs.par_stage_quiesces_refuted_lem. Qed.

(* the general form of the refutation: any mapper, any consumer, any state in which the collector has returned while
   some worker holds a result: never quiet again *)
Theorem stopped_stage_never_quiet : forall (A B C : Type) (f : nat -> A -> res B) (yield : C -> res B -> C * bool)
  (sched : list choice) (s : pstate) (w : nat) (r : nat * res B),
  alive (col s) = false -> nth_error (workers s) w = Some (Some r) ->
  quiet (ParMap.run f yield s sched) = false.
Proof. exact @TokChanProofs.stopped_stage_never_quiet. Qed.

(* the strongest positive statement: if no worker holds a result when `done` has been closed, one more step of the
   feeder and every goroutine of the stage has returned *)
Theorem par_stage_quiesces_partial : forall (A B C : Type) (f : nat -> A -> res B) (yield : C -> res B -> C * bool) (s : pstate),
  doneOpen (col s) = false -> forallb idle (workers s) = true ->
  exists c, quiet (ParMap.step f yield s c) = true.
Proof. exact @TokChanProofs.quiet_after_stop. Qed.

(* a panic raised by the source list of multiUse / of a parallel map or accept (repaired: recovered into an error
   element): no goroutine of the construct is stranded, whatever the source does *)
Theorem source_panic_strands_none : forall waiting evs, stranded true waiting evs = 0.
Proof. exact TokChanProofs.stranded_recovered. Qed.

(* before the repair: every waiting goroutine is stranded exactly if the source panics
   (numbers(3).combine((a,b)->f(20000)).multiUse({a:..,b:..}): waiting = 2, evs = [EvPanic]) *)
Theorem source_panic_before_repair_refuted : forall waiting evs,
  stranded false waiting evs = if existsb (fun e => match e with EvPanic => true | EvItem => false end) evs then waiting else 0.
Proof. exact TokChanProofs.stranded_unrecovered. Qed.

(* ---- multiUse (Conc/MultiUse.v: List.MultiUse over iterator.CopyProducer - run on the calling goroutine, n consumer
   goroutines, the channels h.c / h.stop, errorTerm, the buffered ack channel, the 5 s timeout).  For every number of
   consumers, EVERY combination of consumer behaviours (reads everything / takes k elements and stops, fails or panics
   there / never touches the list - the path that ends in the 5 s timeout) and EVERY source (any number of elements,
   ending normally or with a panic, which recoverInProducer turns into an error element): every interleaving is
   bounded by (|source|+2)(n+2)+n actions, and in every reachable state either run and all consumers have returned or
   some action is possible - no deadlock, nobody left behind; and a schedule that gets there exists *)
Theorem multiuse_quiesces : forall (n : nat) (kinds : nat -> MultiUse.ckind) (source : list src_ev),
  (forall tr s, MultiUse.mrun n true (MultiUse.minit kinds source) tr = Some s ->
     length tr <= (length source + 2) * (n + 2) + n
     /\ (MultiUse.mfinal n s = true \/ exists a s', MultiUse.mstep n true s a = Some s'))
  /\ exists tr s, MultiUse.mrun n true (MultiUse.minit kinds source) tr = Some s /\ MultiUse.mfinal n s = true.
Proof. exact MultiUseProofs.multiuse_quiesces_lem. Qed.

(* the source-panic case of the above made explicit (two consumers that read everything, the source panics at once),
   and the same start BEFORE `fix: a panic raised by the list that multiUse reads ...`: run is unwound, nothing is
   closed, both consumers are alive and no action is possible any more *)
Theorem multiuse_source_panic_strands_none :
  exists tr s, MultiUse.mrun 2 true (MultiUse.minit MultiUseProofs.leak_kinds [EvPanic]) tr = Some s /\ MultiUse.mfinal 2 s = true.
Proof. exact MultiUseProofs.multiuse_source_panic_recovered. Qed.

Theorem multiuse_source_panic_before_repair_refuted :
  exists s, MultiUse.mrun 2 false (MultiUse.minit MultiUseProofs.leak_kinds [EvPanic]) [MultiUse.AFetch] = Some s
            /\ MultiUse.mfinal 2 s = false /\ MultiUse.alive_count 2 (MultiUse.cs s) = 2
            /\ forall a, match a with MultiUse.ACons i => i < 2 -> MultiUse.mstep 2 false s a = None | _ => MultiUse.mstep 2 false s a = None end.
Proof. exact MultiUseProofs.multiuse_source_panic_unrecovered. Qed.

(* merge left by a panic on the evaluating goroutine (less function, closure of the consuming stage, stack guard): the
   flag that ends its reader goroutines is set by a DEFERRED store, i.e. on every exit path - within two steps both
   readers have returned, however long their operands are; with a plain store behind the call a panic skips it *)
Theorem merge_left_by_panic_quiesces : forall e remaining, merge_reader_steps true e remaining <= 2.
Proof. exact TokChanProofs.merge_left_quiesces. Qed.

Theorem merge_plain_store_refuted : forall bound, exists remaining, merge_reader_steps false MPanics remaining > bound.
Proof. exact TokChanProofs.merge_plain_store_unbounded. Qed.

(* non-vacuity: the witness input and the prediction of the model for it, with and without the drain *)
Example C12_nonvacuous :
  tokenize TokSysProofs.leak_cfg TokSysProofs.leak_input = [mkTok tNumber [49%N] 1; mkTok tClose [41%N] 1; mkTok tClose [41%N] 1]
  /\ TokChan.leaked false (tokenize TokSysProofs.leak_cfg TokSysProofs.leak_input) 2 = 1
  /\ TokChan.leaked true (tokenize TokSysProofs.leak_cfg TokSysProofs.leak_input) 2 = 0
  /\ TokChan.leaked false (tokenize TokSysProofs.leak_cfg [49; 32; 41]%N) 2 = 0.
Proof. vm_compute. repeat split. Qed.

(* non-vacuity of multiuse_quiesces, the timeout path: consumer 0 reads everything, consumer 1 never touches the list;
   run hands the element to 0, waits five seconds for 1, closes the channels and returns; both consumers return *)
Example multiuse_timeout_path :
  option_map (MultiUse.mfinal 2)
    (MultiUse.mrun 2 true (MultiUse.minit (fun i => if Nat.eqb i 0 then MultiUse.KRead None false else MultiUse.KNever false) [EvItem; EvItem])
       [MultiUse.AFetch; MultiUse.ASend; MultiUse.ATimeout; MultiUse.ACons 1; MultiUse.ACons 0]) = Some true.
Proof. vm_compute. reflexivity. Qed.

Print Assumptions drain_terminates_producer.
Print Assumptions no_goroutine_left.
Print Assumptions leak_iff_unsent_without_drain.
Print Assumptions no_goroutine_left_before_repair_refuted.
Print Assumptions success_leaves_none.
Print Assumptions tochan_quiesces_promptly.
Print Assumptions tochan_unwrapped_refuted.
Print Assumptions tochan_unwrapped_cost.
Print Assumptions par_stage_quiesces_refuted.
Print Assumptions stopped_stage_never_quiet.
Print Assumptions par_stage_quiesces_partial.
Print Assumptions source_panic_strands_none.
Print Assumptions source_panic_before_repair_refuted.
Print Assumptions merge_left_by_panic_quiesces.
Print Assumptions merge_plain_store_refuted.
Print Assumptions multiuse_quiesces.
Print Assumptions multiuse_source_panic_strands_none.
Print Assumptions multiuse_source_panic_before_repair_refuted.
