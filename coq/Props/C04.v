(* C04 - parsing is total: any input yields an AST or an error, never a panic or a hang.
   Only theorem statements; every proof is an exact lemma application.

   What is proved here (for ALL rune strings, configurations, parser behaviours and interleavings):
     - the scanner (model Lex/Tok.v of token.go, tied to the implementation token by token on every input of the
       correspondence run) terminates within length+2 iterations of its main loop and yields a token list: no
       comment opener at the end of input, no invalid UTF-8 (one U+FFFD per byte), no NUL can make it loop or fail;
     - the tokenizer goroutine and the parser cannot deadlock: the tokenizer's next action is always the send of
       the next token or the close, the parser (ANY consumer: it performs some number k of receives) blocks only
       in a receive, the deferred drain of Parse receives what the parser left, so every interleaving has at most
       max(#tokens, k) + 3 actions and ends with both goroutines returned.
     - the parser (model Syn/Parse.v of parser2.go, property C03, tied to the implementation by C03's correspondence
       run) returns an AST or an error for EVERY token list and EVERY configuration - never a panic (the index into
       the operator table is always in range), and fuel (2*|ops|+12)*(|tokens|+2), linear in the token count, suffices.
     - the optimizer calls inside Parse (model Syn/ParseOpt.v, the optimizer an arbitrary function that may panic on
       any call): under the recover of parser2.Optimize at the three call sites Parse still returns an AST or an error.
   What is NOT proved here: GenerateFunc (observed on every input that parses); what the optimizer of funcGen really
   computes (it is universally quantified here); wall-clock time and the absence of
   a deadlock in the Go runtime are observed by the correspondence run (isolated worker processes with a watchdog).

   Vocabulary: ops_ok cfg = no operator contains NUL (Lex/TokProofs.v); Conc/TokChan.v: init toks k = Parse has started,
   the tokenizer goroutine has toks to send, the parser will perform k receives; run true s tr = Some s' = the actions
   tr are possible one after the other from s in the repaired system (with the deferred drain) and lead to s'. *)
From P2 Require Import Base.Prelude Lex.Token Lex.Tok Lex.TokProofs.
From P2 Require Conc.TokChan Conc.TokChanProofs Conc.TokSysProofs.
From P2 Require Syn.Parse Syn.ParseTotal Syn.ParseOpt Syn.ParseOptProofs Syn.ParseOptSame.
Local Open Scope N_scope.

(* scanning is total, with fuel linear in the input *)
Theorem tokenize_total : forall cfg rs, ops_ok cfg ->
  exists ts, tokenize_fuel (length rs + 2) cfg rs = Some ts.
Proof. exact tokenize_total_lemma. Qed.

(* ... and the linear fuel yields exactly the list the specification-level function `tokenize` denotes *)
Theorem scan_steps_linear : forall cfg rs, ops_ok cfg ->
  tokenize_fuel (length rs + 2) cfg rs = Some (tokenize cfg rs).
Proof. exact TokSysProofs.tokenize_fuel_tokenize. Qed.

(* the consumer never waits in vain: whenever the parser or the drain loop is in a receive, the tokenizer's next
   action is the matching send or the close, or the channel is closed and the receive returns at once *)
Theorem no_blocking : forall (T : Type) (toks : list T) (k : nat) tr s c',
  TokChan.run true (TokChan.init toks k) tr = Some s -> TokChan.wants (TokChan.cs s) = Some c' ->
  (exists s', TokChan.step true s TokChan.ASync = Some s') \/ (exists s', TokChan.step true s TokChan.AClose = Some s')
  \/ (exists s', TokChan.step true s TokChan.ARecvEof = Some s') \/ (exists s', TokChan.step true s TokChan.ADrainEnd = Some s').
Proof. exact TokChanProofs.no_blocking_run. Qed.

(* Parse cannot deadlock and cannot run forever at the protocol level: for every input the scanner yields a token
   list, and for every number k of receives the parser performs, every interleaving is bounded by max(#tokens,k)+3
   actions and, as long as not both goroutines have returned, some action is possible *)
Theorem parse_cannot_deadlock : forall cfg rs, ops_ok cfg ->
  exists toks, tokenize_fuel (length rs + 2) cfg rs = Some toks /\
  forall k tr s, TokChan.run true (TokChan.init toks k) tr = Some s ->
    (length tr <= Nat.max (length toks) k + 3)%nat
    /\ (TokChan.final s = true \/ exists a s', TokChan.step true s a = Some s').
Proof. exact TokSysProofs.parse_cannot_deadlock_lem. Qed.

(* the parser returns an AST or an error for every configuration (the empty operator table and a prefix operator that
   is also the last binary operator included), every identifier chain and every token list, with linear fuel *)
Theorem parse_total : forall (pc : Parse.pcfg) ids ts f, (f >= Parse.fuel_for pc ts)%nat ->
  match Parse.parse_fuel pc f ids ts with Parse.POk _ | Parse.PErr => True | Parse.PPanic | Parse.POOF => False end.
Proof. exact ParseTotal.parse_total. Qed.

(* scanner and parser composed: for every rune string the tokens of the scanner model, handed to the parser model,
   yield an AST or an error *)
Theorem scan_then_parse_total : forall (tc : tcfg) (pc : Parse.pcfg) ids rs,
  match Parse.parse pc ids (map strip_line (tokenize tc rs)) with Parse.POk _ | Parse.PErr => True | Parse.PPanic | Parse.POOF => False end.
Proof. exact (fun tc pc ids rs => ParseTotal.parse_total pc ids (map strip_line (tokenize tc rs)) _ (le_n _)). Qed.

(* ---- the optimizer calls inside Parse (Syn/ParseOpt.v: the parser model with parser2.Optimize where parser2.go
   calls it - let value, func closure, final AST).  For EVERY optimizer - any function from trees to "a tree" or
   "panics, leaving this tree behind", in particular one that panics on every call - every configuration, identifier
   chain and token list: as long as every call site runs it under the recover of parser2.Optimize, Parse returns an
   AST or an error with the same linear fuel; it never panics, whatever the fuel *)
Theorem parse_opt_total : forall (pc : Parse.pcfg) (optimizer : option (Ast.ast -> ParseOpt.ores)) (recovers : ParseOpt.osite -> bool),
  (forall s, recovers s = true) ->
  forall ids ts f, (f >= Parse.fuel_for pc ts)%nat ->
  match ParseOpt.oparse_fuel pc optimizer recovers f ids ts with
  | Parse.POk _ | Parse.PErr => True | Parse.PPanic | Parse.POOF => False end.
Proof. exact ParseOptProofs.oparse_total. Qed.

Theorem parse_opt_no_panic : forall (pc : Parse.pcfg) (optimizer : option (Ast.ast -> ParseOpt.ores)) (recovers : ParseOpt.osite -> bool),
  (forall s, recovers s = true) ->
  forall f ids ts, ParseOpt.oparse_fuel pc optimizer recovers f ids ts <> Parse.PPanic.
Proof. exact ParseOptProofs.oparse_no_panic. Qed.

(* the model with the optimizer calls is the parser model of C03 when the optimizer changes nothing: no optimizer
   (p.optimizer == nil) or the identity - for every fuel, so every theorem about Syn/Parse.v carries over *)
Theorem parse_opt_no_opt_same_shape : forall (pc : Parse.pcfg) recovers f ids ts,
  ParseOpt.oparse_fuel pc None recovers f ids ts = Parse.parse_fuel pc f ids ts
  /\ ParseOpt.oparse_fuel pc (Some (fun a => ParseOpt.OOk a)) recovers f ids ts = Parse.parse_fuel pc f ids ts.
Proof. exact (fun pc r f ids ts => conj (ParseOptSame.oparse_none_same pc r f ids ts) (ParseOptSame.oparse_identity_same pc r f ids ts)). Qed.

(* the recover is what contains the panic (the statement "no panic at any site policy" is REFUTED): the program
   `func g(a) 1; 1`, an optimizer that panics on every call; with the func closure optimized outside the recover
   (opt(clo, ...) instead of Optimize(clo, ...)) the panic reaches the caller, under the recover an AST comes back *)
Theorem parse_opt_unrecovered_site_refuted :
  ParseOpt.oparse ParseOptSame.esc_cfg ParseOptSame.esc_opt (fun s => match s with ParseOpt.SiteFunc => false | _ => true end) [] ParseOptSame.esc_toks = Parse.PPanic
  /\ exists a, ParseOpt.oparse ParseOptSame.esc_cfg ParseOptSame.esc_opt (fun _ => true) [] ParseOptSame.esc_toks = Parse.POk a.
Proof. exact ParseOptSame.unrecovered_site_lets_panic_through. Qed.

(* scanner and parser with optimizer composed *)
Theorem scan_then_parse_opt_total : forall (tc : tcfg) (pc : Parse.pcfg) optimizer ids rs,
  match ParseOpt.oparse pc optimizer (fun _ => true) ids (map strip_line (tokenize tc rs)) with
  | Parse.POk _ | Parse.PErr => True | Parse.PPanic | Parse.POOF => False end.
Proof. exact (fun tc pc o ids rs => ParseOptProofs.oparse_total pc o (fun _ => true) (fun _ => eq_refl) ids (map strip_line (tokenize tc rs)) _ (le_n _)). Qed.

(* non-vacuity: an unterminated block comment, an invalid-UTF-8 replacement rune inside an operator, a NUL, an
   unterminated string; comments on *)
Example C04_nonvacuous :
  let cfg := mkCfg [[60; 61]; [43]] [] [] true false MSimple (fun c => (97 <=? c) && (c <=? 122)) (fun c => (48 <=? c) && (c <=? 57)) in
  tokenize cfg [97; 60; 65533; 61; 49; 32; 34; 120; 10; 98; 47; 42; 99; 0; 42]
  = [mkTok tIdent [97] 1; mkTok tInvalid [60] 1; mkTok tInvalid [65533] 1; mkTok tInvalid [61] 1; mkTok tNumber [49] 1;
     mkTok tInvalid [69; 79; 76] 1; mkTok tIdent [98] 1].
Proof. vm_compute. reflexivity. Qed.

Example C04_protocol_nonvacuous :
  (* three tokens, the parser stops after two receives: send, send, return, drain receives the third, close, drain ends *)
  option_map (fun s => (TokChan.final s, TokChan.got s))
    (TokChan.run true (TokChan.init [1; 2; 3] 2)
       [TokChan.ASync; TokChan.ASync; TokChan.AReturn; TokChan.ASync; TokChan.AClose; TokChan.ADrainEnd]) = Some (true, 3%nat).
Proof. vm_compute. reflexivity. Qed.

Print Assumptions tokenize_total.
Print Assumptions scan_steps_linear.
Print Assumptions no_blocking.
Print Assumptions parse_cannot_deadlock.
Print Assumptions parse_total.
Print Assumptions scan_then_parse_total.
Print Assumptions parse_opt_total.
Print Assumptions parse_opt_no_panic.
Print Assumptions parse_opt_no_opt_same_shape.
Print Assumptions parse_opt_unrecovered_site_refuted.
Print Assumptions scan_then_parse_opt_total.
