(* C08 - Laziness: short-circuit consumers demand only the prefix they need. *)
From P2 Require Import Base.Prelude Lib.Stream Lib.StreamProofs.

Theorem C08_build_is_free : forall p : pipe, fst (build p) = [].
Proof. exact build_log_nil. Qed.

Print Assumptions C08_build_is_free.
