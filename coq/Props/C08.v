(* C08 - Laziness: short-circuit consumers demand only the prefix they need.
   This file contains only the property theorems about the sequential pull-stream model of
   value/list.go + iterator (Lib/Stream.v); each is closed by an exact lemma application
   (proofs in Lib/StreamProofs.v).  All statements quantify over every pipeline built from
   map/accept/combine/number/iir/compact/skip/top/+/cross/merge and pass-through constructs over numbers(n) and literal lists, every
   closure (arbitrary total functions into ok/error), every consumer and every amount of fuel.

   The model follows the repaired code (repo commit "fix: top(n) stops after the n-th element instead
   of reading one element ahead"): before the repair List.Top used iterator.FirstN, whose read-ahead
   of one element of ITS input made numbers(100000000000).accept(x->x<5).top(5).size() scan the whole
   source; C08_top_no_read_ahead below is the statement that was false for that code. *)
From P2 Require Import Base.Prelude Lib.Stream Lib.StreamProofs Lib.StreamRefine Lib.StreamRefineCount.
Require Import Lia.
Local Open Scope Z_scope.

(* Building a pipeline evaluates no closure: the log of build is empty, and an expression whose value
   is an unconsumed list has an empty log and makes no step. *)
Theorem C08_build_is_free : forall p : pipe, fst (build p) = [].
Proof. exact build_log_nil. Qed.

Theorem C08_unconsumed_is_free : forall fuel p, run fuel TNone p = ([], OList, O).
Proof. exact run_none. Qed.

(* Demand bound.  One step of a pipeline asks each source for at most one element and runs each
   closure at most once per occurrence of its id; hence a consumer that stopped after n steps has run
   the closure(s) with identifier id at most (occurrences of id) * n times, and n <= fuel. *)
Theorem C08_demand_bound : forall id fuel t p l o n,
  run fuel t p = (l, o, n) ->
  (count id l <= (occ_pipe id p + occ_term id t) * n)%nat /\ (n <= fuel)%nat.
Proof. exact run_count. Qed.

(* Late errors (and anything else behind the decisive element) are invisible.  If a run made n steps
   with log l, then every pipeline of the same shape whose closures agree with the original ones on
   the argument tuples recorded in l, and whose numbers(.) sources are either unchanged or have at
   least n elements on both sides, gives the same outcome, the same log and the same number of steps.
   In particular a closure may be changed to fail (or not to fail) on every element it was not
   called with, and the sources may be cut after n elements or extended to any length. *)
Theorem C08_late_errors_invisible : forall fuel t t' p p' l o n,
  run fuel t p = (l, o, n) ->
  agree_pipe l (Z.of_nat n) p p' -> agree_term l t t' ->
  run fuel t' p' = (l, o, n).
Proof. exact run_agree. Qed.

(* ... specialised to the source length: numbers(10^11) or numbers(n) make no difference *)
Theorem C08_source_length_irrelevant : forall fuel t p l o n m,
  run fuel t p = (l, o, n) -> numbers_ge (Z.of_nat n) p -> Z.of_nat n <= m ->
  run fuel t (set_numbers m p) = (l, o, n).
Proof. exact run_length_independent. Qed.

(* Steps bound: a finished run needs exactly as much fuel as it made steps; with
   C08_source_length_irrelevant that number does not depend on the length of the sources. *)
Theorem C08_steps_bound : forall f t p l o n,
  run f t p = (l, o, n) -> o <> OutOfFuel ->
  forall f', (n <= f')%nat -> run f' t p = (l, o, n).
Proof. exact run_fuel_mono. Qed.

(* top(n) has no read-ahead: whatever its parent produces and whatever consumes it, a map closure
   directly under top(n) runs at most n times. *)
Theorem C08_top_no_read_ahead : forall id f p0 t n fuel l o m, 0 <= n ->
  occ_pipe id p0 = O -> occ_term id t = O ->
  run fuel t (PStage (STop n) (PStage (SMap id f) p0)) = (l, o, m) ->
  (count id l <= Z.to_nat n)%nat.
Proof. exact run_top_map. Qed.

(* Exact demand of the canonical shape numbers(n).map(f).present(p) with the decisive element at
   position k (the first element on which f fails or p does not answer false): exactly k+1 steps,
   for every n > k; by C08_demand_bound both closures run at most k+1 times. *)
Theorem C08_present_decided_at_k : forall id f id2 p n k fuel,
  0 <= k < n -> (forall j, 0 <= j < k -> undecided f p j) -> decides f p k -> (Z.to_nat k < fuel)%nat ->
  exists l o, run fuel (TPresent id2 p) (PStage (SMap id f) (PNumbers n)) = (l, o, S (Z.to_nat k))
              /\ o <> OutOfFuel.
Proof. exact run_present_exact. Qed.

(* ---------------------------------------------------------------- multiUse: recorded finding
   Full statement (what the property demands of a multiUse consumer): the pass over the source makes at
   most one step more than the consumer needs,
       forall fuel t p l o n l' o' n', run fuel t p = (l, o, n) -> o <> OutOfFuel ->
         run_multi1 fuel t p = (l', o', n') -> (n' <= n + 1)%nat.
   It is false for the model of iterator.CopyProducer (and for the implementation, see
   known_findings.json): the read-ahead is one element of multiUse's INPUT, and behind accept/compact
   that element may be arbitrarily far away. *)
Theorem C08_multiuse_read_ahead_refuted :
  exists fuel t p l o n l' o' n',
    run fuel t p = (l, o, n) /\ o <> OutOfFuel /\ run_multi1 fuel t p = (l', o', n') /\ o' = o /\ (n' > n + 50)%nat /\ (count 1 l' > count 1 l + 50)%nat.
Proof.
  exists 200%nat, (TPresent 3 (fun x => Ok (x =? 4))),
         (PStage (SAccept 2 (fun x => Ok (x <? 5))) (PStage (SMap 1 (fun x => Ok x)) (PNumbers 80))).
  do 6 eexists. split; [vm_compute; reflexivity|]. split; [discriminate|].
  split; [vm_compute; reflexivity|]. split; [reflexivity|]. split; vm_compute; lia.
Qed.

(* partial: when the pipeline's step after the decision is not a Skip (nothing is dropped between the
   source and multiUse at that point) the read-ahead is that single step and runs every closure at
   most once more; in general it costs as many steps as the pipeline needs to yield again. *)
Theorem C08_multiuse_read_ahead_partial : forall id f p q,
  is_skip (snd (next p q)) = false ->
  snd (drain (S f) p q) = 1%nat /\ (count id (fst (drain (S f) p q)) <= occ_pipe id p)%nat.
Proof. exact drain_one. Qed.

Theorem C08_multiuse_read_ahead_cost : forall id f p q,
  (count id (fst (drain f p q)) <= occ_pipe id p * snd (drain f p q))%nat.
Proof. exact drain_count. Qed.

(* ---------------------------------------------------------------- the lazy machine refines the eager specification
   "model = specification", what c08_is checks per case, here for all cases: for every pipeline p (all
   stages, +, cross, merge, pass-through constructs), every consumer t, all sources and closures: whenever
   the eager prefix semantics decides the consumer's result on the first N elements of the sources
   (spec_term t (spec_pipe N p) = Some o; in particular for the least such N found by spec_need), the lazy
   machine returns exactly o for every fuel from some bound on (C08_steps_bound: the number of steps of
   the run), and every closure id has run at most spec_bound N t p id times: once more than there are
   items in its stage's input on that prefix.  Nothing behind the prefix matters
   (C08_late_errors_invisible, C08_source_length_irrelevant). *)
Theorem C08_run_refines_spec : forall id p t N o,
  spec_term t (spec_pipe N p) = Some o ->
  exists F, forall fuel, (F <= fuel)%nat -> exists l n, run fuel t p = (l, o, n) /\
    (count id l <= spec_bound N t p id)%nat.
Proof. exact run_refines_spec_bound. Qed.

(* ... in the form c08_is evaluates it: the result and the bound for the least deciding prefix *)
Theorem C08_run_refines_spec_need : forall id B p t N o,
  spec_need B t p = Some (N, o) ->
  exists F, forall fuel, (F <= fuel)%nat -> exists l n, run fuel t p = (l, o, n) /\
    (count id l <= spec_bound N t p id)%nat.
Proof. exact run_refines_spec_need_bound. Qed.

(* the value part alone *)
Theorem C08_run_value_agrees : forall p t N o,
  spec_term t (spec_pipe N p) = Some o ->
  exists F, forall fuel, (F <= fuel)%nat -> exists l n, run fuel t p = (l, o, n).
Proof. exact run_refines_spec. Qed.

(* the prefix found by the specification's search (c08_is uses spec_need) decides the result *)
Theorem C08_spec_need_decides : forall B t p N o,
  spec_need B t p = Some (N, o) -> spec_term t (spec_pipe N p) = Some o.
Proof. exact spec_need_sound. Qed.

(* ---------------------------------------------------------------- pass-through constructs
   A lazy list that is the value of try/catch, a let binding, an if or switch branch, a closure or func
   that returns its argument, a map field, a list element or a host function argument is handed on
   unconsumed: PThrough has identity semantics, wherever it occurs in a pipeline (one step of the
   construct is one step of the list inside), so C08_demand_bound, C08_late_errors_invisible and all
   other theorems count such a pipeline exactly like the pipeline without the construct. *)
Theorem C08_through_is_identity : forall c p q, next (PThrough c p) q = next p q.
Proof. exact through_is_identity. Qed.

Theorem C08_through_run : forall c fuel t p, run fuel t (PThrough c p) = run fuel t p.
Proof. exact run_through. Qed.

(* ---------------------------------------------------------------- two-source demand: cross and merge
   cross: p1.cross(p2.map(f), g) with any first list p1, any list p0 under the map, any consumer: the
   closure f of the SECOND list runs at most once more than g, i.e. element j of the second list is
   evaluated only when a row reaches column j (the +1: f itself may fail, which ends the run).  The
   demand on the first list and on everything else is C08_demand_bound / C08_late_errors_invisible,
   which hold for pipelines containing cross and merge as for all others. *)
Theorem C08_cross_demand_second : forall ci g p1 id2 f p0 t fuel l o n, id2 <> ci ->
  occ_pipe id2 p1 = O -> occ_pipe id2 p0 = O -> occ_term id2 t = O ->
  run fuel t (PCross ci g p1 (PStage (SMap id2 f) p0)) = (l, o, n) ->
  (count id2 l <= count ci l + 1)%nat.
Proof. exact run_cross_second. Qed.

(* merge (sequential abstraction of iterator.Merge), demand on BOTH operands:
   pa.map(fa).merge(pb.map(fb), less).map(fm) with any lists pa, pb and any consumer: each operand is at
   most one element ahead of what the merge has delivered (counted by the closure fm directly above it). *)
Theorem C08_merge_demand_both : forall ida idb idm ci fa fb fm less pa pb t fuel l o n,
  ida <> idb -> idm <> ida -> idm <> idb -> ci <> ida -> ci <> idb ->
  occ_pipe ida pa = O -> occ_pipe ida pb = O -> occ_pipe idb pa = O -> occ_pipe idb pb = O ->
  occ_term ida t = O -> occ_term idb t = O ->
  run fuel t (PStage (SMap idm fm) (PMerge ci less (PStage (SMap ida fa) pa) (PStage (SMap idb fb) pb))) = (l, o, n) ->
  (count ida l <= count idm l + 1)%nat /\ (count idb l <= count idm l + 1)%nat.
Proof. exact run_merge_both. Qed.

(* ... and one step of a merge asks at most ONE of the two operands for one step: its log is the log of
   one step of the first operand, or of the second, or one call of the order closure, or empty *)
Theorem C08_merge_one_operand_per_step : forall ci less p1 p2 q,
  exists l r, next (PMerge ci less p1 p2) q = (l, r) /\
    ((exists q1, l = fst (next p1 q1)) \/ (exists q2, l = fst (next p2 q2)) \/ (exists x y, l = [Ev ci [x; y]]) \/ l = []).
Proof. exact merge_step_one_side. Qed.

(* merge, recorded finding: the implementation reads each operand through a goroutine (iterator.ToChan)
   that is one element OF THE OPERAND ahead, i.e. the operand is stepped until it yields again (`drain`),
   also after the consumer has stopped.  Full statement (what laziness demands): that read-ahead costs a
   bounded number of steps,  forall fuel p q, snd (drain fuel p q) <= 1.  False: behind accept/compact
   the next element may be arbitrarily far away or never come. *)
Theorem C08_merge_operand_read_ahead_refuted :
  exists fuel p, (snd (drain fuel p (init p)) > 200)%nat /\ (count 1 (fst (drain fuel p (init p))) > 200)%nat.
Proof.
  exists 1000%nat, (PStage (SAccept 2 (fun x => Ok (x =? 250))) (PStage (SMap 1 (fun x => Ok x)) (PNumbers 300))).
  split; vm_compute; lia.
Qed.

Theorem C08_merge_operand_read_ahead_partial : forall id f p q,
  is_skip (snd (next p q)) = false ->
  snd (drain (S f) p q) = 1%nat /\ (count id (fst (drain (S f) p q)) <= occ_pipe id p)%nat.
Proof. exact drain_one. Qed.

(* ---------------------------------------------------------------- non-vacuity *)

Definition ex_id : fn1 := fun x => Ok x.
Definition ex_fail6 : fn1 := fun x => if x =? 6 then Err e_throw else Ok x.
Definition ex_is5 : pr1 := fun y => Ok (y =? 5).
Definition ex_big := 100000000000.

(* numbers(10^11).map(x->x).present(x->x=5): true after 6 steps, 6 calls of each closure *)
Example C08_example_run :
  run 100 (TPresent 2 ex_is5) (PStage (SMap 1 ex_id) (PNumbers ex_big))
  = ([Ev 1 [0]; Ev 2 [0]; Ev 1 [1]; Ev 2 [1]; Ev 1 [2]; Ev 2 [2]; Ev 1 [3]; Ev 2 [3]; Ev 1 [4]; Ev 2 [4]; Ev 1 [5]; Ev 2 [5]],
     OBool true, 6%nat).
Proof. vm_compute. reflexivity. Qed.

(* the hypotheses of C08_late_errors_invisible hold for: element 6 made to fail, source cut to 7 *)
Example C08_late_errors_nonvacuous :
  let l := fst (fst (run 100 (TPresent 2 ex_is5) (PStage (SMap 1 ex_id) (PNumbers ex_big)))) in
  agree_pipe l 6 (PStage (SMap 1 ex_id) (PNumbers ex_big)) (PStage (SMap 1 ex_fail6) (PNumbers 7))
  /\ agree_term l (TPresent 2 ex_is5) (TPresent 2 ex_is5).
Proof.
  rewrite C08_example_run. cbn [fst agree_pipe agree_stage agree_term].
  split; [split; [split; [reflexivity|]|right; unfold ex_big; lia]|split; [reflexivity|intros x _; reflexivity]].
  intros x H. cbn [In] in H.
  repeat (destruct H as [H|H]; [inversion H; subst; reflexivity|]). contradiction.
Qed.

(* the hypotheses of C08_present_decided_at_k hold: k = 5 *)
Example C08_present_nonvacuous :
  (forall j, 0 <= j < 5 -> undecided ex_id ex_is5 j) /\ decides ex_id ex_is5 5.
Proof.
  split.
  - intros j Hj. exists j. split; [reflexivity|]. unfold ex_is5. destruct (Z.eqb_spec j 5); [lia|reflexivity].
  - right. exists 5. split; [reflexivity|]. unfold ex_is5. cbn. discriminate.
Qed.

(* top: numbers(10^11).map(f).accept(x<5).top(5).size() is 5 after 5 steps - the expression that
   scanned the whole source before the repair *)
Example C08_top_behind_accept :
  run 100 TSize (PStage (STop 5) (PStage (SAccept 2 (fun x => Ok (x <? 5))) (PStage (SMap 1 ex_id) (PNumbers ex_big))))
  = ([Ev 1 [0]; Ev 2 [0]; Ev 1 [1]; Ev 2 [1]; Ev 1 [2]; Ev 2 [2]; Ev 1 [3]; Ev 2 [3]; Ev 1 [4]; Ev 2 [4]], OInt 5, 6%nat).
Proof. vm_compute. reflexivity. Qed.

(* cross: [1,2,3].map(f).cross(numbers(5000).map(f'), g).first() evaluates one element of each list *)
Example C08_cross_first :
  run 100 TFirst (PCross 7 (fun a b => Ok (a * 100 + b)) (PStage (SMap 5 ex_id) (PList [1; 2; 3])) (PStage (SMap 6 ex_id) (PNumbers 5000)))
  = ([Ev 5 [1]; Ev 6 [0]; Ev 7 [1; 0]], OInt 100, 2%nat).
Proof. vm_compute. reflexivity. Qed.

(* merge: [0,7,14].map(f).merge(numbers(5000).map(3x+1), <).map(f'').first(): one element of each operand *)
Example C08_merge_first :
  run 100 TFirst (PStage (SMap 2 ex_id) (PMerge 7 (fun a b => Ok (a <? b))
       (PStage (SMap 5 ex_id) (PList [0; 7; 14])) (PStage (SMap 6 (fun x => Ok (x * 3 + 1))) (PNumbers 5000))))
  = ([Ev 5 [0]; Ev 6 [0]; Ev 7 [0; 1]; Ev 2 [0]], OInt 0, 3%nat).
Proof. vm_compute. reflexivity. Qed.

(* the hypothesis of C08_run_refines_spec holds, e.g. numbers(10^11).map(x->x).present(x->x=5) is decided by 6 elements *)
Example C08_refines_nonvacuous :
  spec_need 400 (TPresent 2 ex_is5) (PStage (SMap 1 ex_id) (PNumbers ex_big)) = Some (6%nat, OBool true).
Proof. vm_compute. reflexivity. Qed.

Print Assumptions C08_build_is_free.
Print Assumptions C08_unconsumed_is_free.
Print Assumptions C08_demand_bound.
Print Assumptions C08_late_errors_invisible.
Print Assumptions C08_source_length_irrelevant.
Print Assumptions C08_steps_bound.
Print Assumptions C08_top_no_read_ahead.
Print Assumptions C08_present_decided_at_k.
Print Assumptions C08_multiuse_read_ahead_refuted.
Print Assumptions C08_multiuse_read_ahead_partial.
Print Assumptions C08_multiuse_read_ahead_cost.
Print Assumptions C08_cross_demand_second.
Print Assumptions C08_merge_demand_both.
Print Assumptions C08_merge_one_operand_per_step.
Print Assumptions C08_merge_operand_read_ahead_refuted.
Print Assumptions C08_merge_operand_read_ahead_partial.
Print Assumptions C08_through_is_identity.
Print Assumptions C08_through_run.
Print Assumptions C08_run_refines_spec.
Print Assumptions C08_run_refines_spec_need.
Print Assumptions C08_run_value_agrees.
Print Assumptions C08_spec_need_decides.
