(* C02 - constant folding is unobservable: the Coq core (optimizer model Sem/Opt.v against the
   reference semantics Sem/Ref.v).  Only property theorems, each closed by an exact lemma; the
   coordinator merges this file into Props/C02.v.

   Reading guide.
   * [arel known s a t]   : t is an optimized form of a when the names in s are known constants
                            (every rule of the optimizer is a rule of this relation);
     [vrel known v v']    : v' is the value the optimized program has where the unoptimized one has v
                            (equal except inside closures, whose bodies are optimized forms);
     [wrel R r r']        : r' = Unsup (the optimized side left the exact float model), or both
                            outcomes are values related by R / the same thrown error / both panic.
   * fuel: the unoptimized evaluation is decided (neither out of fuel nor outside the model) with
     fuel n; the optimized program is then decided with every fuel m >= n and agrees.
   * the exact per-evaluation call COUNTS of impure functions are compared on the implementation by
     the correspondence run (counters in harness functions); the core model has no effect log, it
     proves that nothing impure is run at Generate time (the purity theorems below) and that the
     thrown text of `throw` is the same with and without optimizer (wrel relates Err t to Err t).

   Open (see the report): the closure-literal rule (a pure closure literal without outer
   identifiers becomes a constant) is in the model Opt.v but not covered by the soundness theorem;
   the theorems are stated for flags with f_closure = false (the optimize_sound_partial theorems). *)
From P2 Require Import Base.Prelude Sem.Num Sem.Syntax Sem.Ops Sem.Lib Sem.Ref Sem.Gen Sem.Opt
  Sem.OptRel Sem.OptRelProofs Sem.OptProofs Sem.OptSound Sem.OptFlagsProofs.

(* every optimized form simulates the original: all rewrite rules of the optimizer (operator and
   unary folds, regrouping under the exact law, constant if, list/map literals, index/member access,
   static functions, constant closures and methods run at Generate time, const-let propagation
   with shadowing) for all programs including closures, callbacks, try/catch and switch *)
Theorem optimized_form_sound : forall known n s a t env env' m,
  arel known s a t -> env_rel known s env env' -> n <= m ->
  decided (eval known n env a) ->
  wrel (vrel known) (eval known n env a) (eval known m env' t).
Proof. exact sim. Qed.

(* the optimizer model produces an optimized form, hence is sound - for every configuration whose
   flags satisfy the obligations, with the closure-literal rule switched off *)
Theorem optimize_sound_partial_no_closure_fold : forall fl known fuel,
  fold_agrees fl -> regroup_exact_ok fl ->
  f_closure fl = false -> f_fieldcheck fl = true -> f_map fl = true ->
  (forall n, app_agrees (gapp known fuel) (r_app (eval known n))) ->
  forall n env a,
  consts_fo a = true ->
  (forall x v, lookup x env = Some v -> vrel known v v) ->
  decided (eval known n env a) ->
  wrel (vrel known) (eval known n env a) (eval known n env (optimize fl known fuel a)).
Proof. exact optimize_sound_gen. Qed.

(* the flags of value.New() with regrouping and the closure-literal rule switched off *)
Theorem optimize_sound_partial_value : forall known fuel,
  (forall n, app_agrees (gapp known fuel) (r_app (eval known n))) ->
  forall n env a,
  consts_fo a = true ->
  (forall x v, lookup x env = Some v -> vrel known v v) ->
  decided (eval known n env a) ->
  wrel (vrel known) (eval known n env a)
       (eval known n env (optimize (no_closure_fold (no_regroup value_flags)) known fuel a)).
Proof.
  exact (fun known fuel =>
    optimize_sound_gen (no_closure_fold (no_regroup value_flags)) known fuel
      (fold_agrees_all _) (regroup_exact_no_regroup value_flags) eq_refl eq_refl eq_refl).
Qed.

(* folding with Impl.Calc agrees with the generated code (also for & and | after the repair) *)
Theorem fold_agrees_value : fold_agrees value_flags.
Proof. exact (fold_agrees_all value_flags). Qed.

(* regrouping: the flags of the pinned commit and of the current code violate the law *)
Theorem regroup_unsound_for_eq_refuted : ~ regroup_law op_eq.
Proof. exact OptFlagsProofs.regroup_unsound_for_eq_refuted. Qed.
Theorem regroup_unsound_for_or_refuted : ~ regroup_law op_or.
Proof. exact OptFlagsProofs.regroup_unsound_for_or_refuted. Qed.
Theorem regroup_unsound_for_and_refuted : ~ regroup_law op_and.
Proof. exact OptFlagsProofs.regroup_unsound_for_and_refuted. Qed.
(* mutations of the operator table (+ or - flagged commutative) are caught the same way *)
Theorem regroup_unsound_for_add_refuted : ~ regroup_law op_add.
Proof. exact OptFlagsProofs.regroup_unsound_for_add_refuted. Qed.
Theorem regroup_unsound_for_sub_refuted : ~ regroup_law op_sub.
Proof. exact OptFlagsProofs.regroup_unsound_for_sub_refuted. Qed.
Theorem regroup_ok_pinned_refuted : ~ regroup_ok pinned_flags.
Proof. exact OptFlagsProofs.regroup_ok_pinned_refuted. Qed.
(* FINDING: (2 * x) * 0.5 at x = 2^62 (int64 wrap-around before the conversion to float) *)
Theorem regroup_ok_value_refuted : ~ regroup_ok value_flags.
Proof. exact OptFlagsProofs.regroup_ok_value_refuted. Qed.
(* ... while on three integers both groupings agree exactly, also when the products wrap *)
Theorem regroup_ok_value_partial_int : forall c1 c2 x c,
  calc op_mul (VInt c1) (VInt c2) = Ok c ->
  calc op_mul c (VInt x) = bind (calc op_mul (VInt c1) (VInt x)) (fun r => calc op_mul r (VInt c2)) /\
  calc op_mul (VInt x) c = bind (calc op_mul (VInt x) (VInt c1)) (fun r => calc op_mul r (VInt c2)).
Proof. exact regroup_mul_partial_int. Qed.
Theorem regroup_ok_no_regroup_value : regroup_ok (no_regroup value_flags).
Proof. exact (regroup_ok_no_regroup value_flags). Qed.

(* FINDING (repaired in the repo): without the closure-field check the method rule folds
   {get: k -> 42, a: 7}.get("a") to 7 although the program evaluates to 42 *)
Definition field_witness : ast :=
  AMethod (AMap [(n_get, AClosure [[107%N]] (AConst (VInt 42)) [] false []); ([97%N], AConst (VInt 7))])
          n_get [AConst (VStr [97%N])].
Theorem method_fold_without_field_check_refuted :
  eval [] 100 [] field_witness = Ok (VInt 42) /\
  eval [] 100 [] (optimize pinned_flags [] 100 field_witness) = Ok (VInt 7) /\
  eval [] 100 [] (optimize value_flags [] 100 field_witness) = Ok (VInt 42).
Proof. vm_compute. repeat split. Qed.

(* folding never runs impure code: the purity result of GenerateFunc excludes every call of a static
   function that is not flagged pure; the optimizer runs a closure constant / folds a closure
   literal only with that purity result, and runs a static function only if it is flagged pure *)
Theorem folding_never_runs_impure : forall fl a, gen_pure fl a = true -> calls_impure fl a = false.
Proof. exact gen_pure_no_impure_call. Qed.
Theorem folding_closure_run_is_pure : forall fl c,
  clo_value_pure fl c = true ->
  exists ps body, c = VClo ps body [] [] /\ gen_pure fl body = true /\ calls_impure fl body = false.
Proof. exact closure_run_at_generate_is_pure. Qed.
Theorem folding_closure_literal_is_pure : forall fl ps body outer r this v,
  rule_closure fl ps body outer r this = AConst v ->
  v = VClo ps body [] [] /\ gen_pure fl body = true /\ calls_impure fl body = false.
Proof. exact closure_folded_is_pure. Qed.
Theorem folding_static_run_is_pure : forall fl f args,
  rule_static fl f args <> AStatic f args -> static_pure fl f = true.
Proof. exact static_run_at_generate_is_pure. Qed.

(* non-vacuity: operator fold, regrouping, constant if, const-let propagation into a closure body and
   a static function all fire, and the optimized program differs from the original *)
Definition nv_x : name := [120%N].
Definition nv_y : name := [121%N].
Definition nv_prog : ast :=
  ALet nv_y (AOp op_add (AConst (VInt 1)) (AConst (VInt 2)))
    (AIf (AOp op_lt (AConst (VInt 1)) (AConst (VInt 2)))
         (AOp op_mul (AOp op_mul (AConst (VInt 2)) (AIdent nv_x)) (AStatic n_abs [AUnary op_sub (AIdent nv_y)]))
         (AStatic n_throw [AConst (VStr nv_y)])).
Example C02_core_nonvacuous :
  optimize (no_closure_fold value_flags) [] 50 nv_prog = AOp op_mul (AConst (VInt 6)) (AIdent nv_x) /\
  consts_fo nv_prog = true /\
  eval [] 50 [(nv_x, VInt 7)] nv_prog = Ok (VInt 42) /\
  eval [] 50 [(nv_x, VInt 7)] (optimize (no_closure_fold value_flags) [] 50 nv_prog) = Ok (VInt 42).
Proof. vm_compute. repeat split. Qed.

Print Assumptions optimized_form_sound.
Print Assumptions optimize_sound_partial_no_closure_fold.
Print Assumptions optimize_sound_partial_value.
Print Assumptions fold_agrees_value.
Print Assumptions regroup_unsound_for_eq_refuted.
Print Assumptions regroup_unsound_for_or_refuted.
Print Assumptions regroup_unsound_for_and_refuted.
Print Assumptions regroup_unsound_for_add_refuted.
Print Assumptions regroup_unsound_for_sub_refuted.
Print Assumptions regroup_ok_pinned_refuted.
Print Assumptions regroup_ok_value_refuted.
Print Assumptions regroup_ok_value_partial_int.
Print Assumptions regroup_ok_no_regroup_value.
Print Assumptions method_fold_without_field_check_refuted.
Print Assumptions folding_never_runs_impure.
Print Assumptions folding_closure_run_is_pure.
Print Assumptions folding_closure_literal_is_pure.
Print Assumptions folding_static_run_is_pure.
