(* C09 - Lists and maps are persistent values: no operation changes an existing value.
   This file contains only the property theorems; each is closed by an exact lemma application.

   Model of the implementation: Heap/ListHeap.v (Go slices as views into backing arrays, *List objects,
   every list operation as a heap step; the capacity Go's append chooses when it allocates is an argument of
   the operation, so the theorems hold for EVERY growth policy) and Heap/MapHeap.v (ListMap slices, the
   wrapper storages of value/map.go).  Specification side: handle -> content, bound once (pstep / prun). *)
From P2 Require Import Base.Prelude Heap.ListHeap Heap.ListHeapProofs Heap.MapHeap Heap.MapHeapProofs.

(* the invariant of DESIGN.md: for every live list,  cap = len  \/  it is the sole owner of its spare
   capacity (no_clash), and a materialised list's iterable is its own items view; it holds after every history *)
Theorem C09_invariant : forall ops, inv (run ops).
Proof. exact run_inv. Qed.

(* one operation, any operation, any capacities: the invariant is kept, handles are only added,
   and NOBODY's content changes *)
Theorem C09_step_preserves : forall h o, inv h ->
  inv (step h o) /\ nobjs h <= nobjs (step h o) /\
  forall x, x < nobjs h -> icontent (step h o) x = icontent h x.
Proof. exact step_preserves_lemma. Qed.

(* all histories, no bound: what a live handle shows (through its iterable: string(), iteration, lazy
   children) never changes, whatever is done later to it or to anything derived from it *)
Theorem C09_history_persistent : forall ops more o, o < nobjs (run ops) ->
  icontent (run (ops ++ more)) o = icontent (run ops) o.
Proof. exact history_persistent_lemma. Qed.

(* ... and the items view (size(), [i], =) of a materialised list shows the same content *)
Theorem C09_history_items_view : forall ops more o ob, o < nobjs (run ops) ->
  get_obj (run (ops ++ more)) o = Some ob -> o_present ob = true ->
  items_content (run (ops ++ more)) o = icontent (run ops) o.
Proof. exact history_items_view_lemma. Qed.

(* the heap model refines the purely functional model: after every history every handle shows exactly the
   content the specification side binds it to *)
Theorem C09_run_refines : forall ops, abs (run ops) = prun ops.
Proof. exact run_refines_lemma. Qed.

(* two appends to the same parent (at any capacity state, with anything happening afterwards) are
   independent: each shows the parent's content plus its own element, the parent is unchanged *)
Theorem C09_siblings_independent : forall ops a x y c1 c2 c3 c4 more,
  let h := run ops in
  a < nobjs h ->
  let h2 := run (ops ++ [OAppend a x c1 c2; OAppend a y c3 c4] ++ more) in
  icontent h2 a = icontent h a /\
  icontent h2 (nobjs h) = icontent h a ++ [x] /\
  icontent h2 (S (nobjs h)) = icontent h a ++ [y].
Proof. exact siblings_independent_lemma. Qed.

(* observer-style operations (a built-in that takes existing handles as operands and only reads them: ~, =, +,
   sum, min, order, groupBy*, string(), ... - every list method and operator except append): in the model
   such a step is the materialisation (Eval) of any handles with any capacities and nothing else; it adds no
   handle, changes nobody's content and leaves the abstraction of the whole heap as it is.  That the real
   built-ins ARE such steps is checked by the correspondence run (every handle observed after every observer). *)
Theorem C09_observe_preserves : forall evs h, inv h ->
  let h' := run_from h (observe_ops evs) in
  inv h' /\ nobjs h' = nobjs h /\ (forall x, icontent h' x = icontent h x) /\ abs h' = abs h.
Proof. exact observe_preserves_lemma. Qed.

(* a materialisation (size(), eval(), [i], =, order ...) that is aborted by an error after k elements and is
   survived by the caller (try/catch, or a Go caller that goes on): List.Eval collects into a local slice and
   publishes it only at the end, so the step touches no object - the list is as lazy and as empty as before -,
   changes nobody's content, and the next successful materialisation shows exactly the bound content *)
Theorem C09_failed_eval_changes_nothing : forall h a k, inv h ->
  let h' := step h (OEvalFail a k) in
  inv h' /\ h_objs h' = h_objs h /\ (forall x, icontent h' x = icontent h x) /\
  forall c, a < nobjs h -> items_content (step h' (OForce a c)) a = icontent h a.
Proof. exact failed_eval_changes_nothing_lemma. Qed.

(* PRIVATE BUILDERS.  A list method that builds its result in a private slice - make([]Value, 0, c0), any sequence of
   `r = append(r, x)` with ARBITRARY growth decisions of the runtime (the capacity argument of every BAppend),
   re-slices `r = r[lo:hi]` within the length, finally NewList(r...) - is the operation OBuild c0 script.  For
   every script and every growth policy it is add_fresh of the script's content, up to arrays nobody can reach:
   the invariant is kept; exactly one handle is added and every existing handle's content is unchanged; the new
   handle shows exactly content_of script; the abstraction of the heap is that of add_fresh (any capacity); every
   array that existed is untouched, every existing object is the same object and refers to an old array (or to
   none) while the new object's slice lives in a new array - no existing object can reach the builder's arrays.
   OBuild is an ordinary `op`: C09_step_preserves, C09_history_persistent, C09_run_refines cover histories with it. *)
Theorem C09_private_builder_is_add_fresh : forall h c0 script c, inv h ->
  let h' := step h (OBuild c0 script) in
  let hf := add_fresh h (content_of script) c in
  inv h' /\
  (nobjs h' = nobjs hf /\ forall x, x < nobjs h -> icontent h' x = icontent h x) /\
  icontent h' (nobjs h) = content_of script /\
  abs h' = abs hf /\
  ((forall a, a < length (h_arrs h) -> nth a (h_arrs h') [] = nth a (h_arrs h) []) /\
   (forall i ob, get_obj h i = Some ob ->
      get_obj h' i = Some ob /\ (s_arr (o_items ob) < length (h_arrs h) \/ s_cap (o_items ob) = 0)) /\
   (exists nw, get_obj h' (nobjs h) = Some nw /\ length (h_arrs h) <= s_arr (o_items nw))).
Proof. exact private_builder_is_add_fresh_lemma. Qed.

(* maps: no operation of value/map.go changes what an existing map yields (Get, Iter, Size, sorted entries) *)
Theorem C09_map_step_preserves : forall h o i m, mwf h -> get_map h i = Some m ->
  mwf (mstep h o) /\ get_map (mstep h o) i = Some m /\
  (forall k, mget (mh_arrs (mstep h o)) m k = mget (mh_arrs h) m k) /\
  miter (mh_arrs (mstep h o)) m = miter (mh_arrs h) m /\
  msize (mh_arrs (mstep h o)) m = msize (mh_arrs h) m /\
  mcontent (mh_arrs (mstep h o)) m = mcontent (mh_arrs h) m.
Proof. exact map_step_preserves_lemma. Qed.

Theorem C09_map_history_persistent : forall ops more i m, get_map (mrun ops) i = Some m ->
  get_map (mrun (ops ++ more)) i = Some m /\
  (forall k, mget (mh_arrs (mrun (ops ++ more))) m k = mget (mh_arrs (mrun ops)) m k) /\
  miter (mh_arrs (mrun (ops ++ more))) m = miter (mh_arrs (mrun ops)) m /\
  msize (mh_arrs (mrun (ops ++ more))) m = msize (mh_arrs (mrun ops)) m /\
  mcontent (mh_arrs (mrun (ops ++ more))) m = mcontent (mh_arrs (mrun ops)) m.
Proof. exact map_history_persistent_lemma. Qed.

(* --- what does NOT hold ---------------------------------------------------------------------------------

   (1) value/list.go CombineN at the pinned commit (`st.Push(NewList(i...))`, i = the iterator's ring buffer),
       modelled by windows_alias: a window handed to the callback changes afterwards.  Full statement that
       fails:  forall h n a k, inv h -> icontent (windows_alias h n a) (nobjs h + k) = nth k (windows_of n (icontent h a)) [].
       Repaired in the repository (the window is copied); `step` models the repaired code and is covered
       by the theorems above. *)
Theorem C09_combineN_alias_refuted :
  exists ops n a, let h := run ops in
    inv h /\ a < nobjs h /\
    nth 0 (windows_of n (icontent h a)) [] <> icontent (windows_alias h n a) (nobjs h).
Proof. exact windows_alias_refuted_lemma. Qed.

(* (2) listMap.ListMap.Append is a builder operation, not a persistent one: it overwrites the value of an
       existing key in the receiver, and two appends to one receiver with spare capacity share a cell.
       Full statement that fails:  forall arrs l k v c, lm_rd (fst (lm_append arrs l k v c)) l = lm_rd arrs l. *)
Theorem C09_listmap_append_refuted :
  exists arrs l k v c, lm_rd (fst (lm_append arrs l k v c)) l <> lm_rd arrs l.
Proof. exact lm_append_overwrites_refuted_lemma. Qed.

Theorem C09_listmap_append_siblings_refuted :
  exists arrs l k1 v1 k2 v2 c,
    let r1 := lm_append arrs l k1 v1 c in
    let r2 := lm_append (fst r1) l k2 v2 c in
    lm_rd (fst r2) (snd r1) <> lm_rd (fst r1) (snd r1).
Proof. exact lm_append_siblings_refuted_lemma. Qed.

(*     Side condition under which it is harmless: the receiver lives in an array created after every live
       map (a builder's private ListMap) - which is how value/map.go uses it (C09_map_step_preserves). *)
Theorem C09_listmap_append_builder_partial : forall h l k v c i m,
  mwf h -> get_map h i = Some m ->
  length (mh_arrs h) <= lm_arr l ->
  forall arrs0, keeps (length (mh_arrs h)) (mh_arrs h) arrs0 -> lm_arr l < length arrs0 ->
  let arrs' := fst (lm_append arrs0 l k v c) in
  miter arrs' m = miter (mh_arrs h) m /\ (forall k', mget arrs' m k' = mget (mh_arrs h) m k').
Proof. exact lm_append_builder_partial_lemma. Qed.

(*     ... lifted to a WHOLE SCRIPT: listMap.New(size) followed by any sequence of ListMap.Append on that private
       ListMap, each with an arbitrary growth decision (MScript; the builders of map literal, map(), accept(),
       minMax, createFlat are such scripts).  Every existing map reads the same (Get, Iter, Size) from the
       builder's heap; the old arrays are untouched and the builder's ListMap lives in a new one; it holds exactly
       what the script put (last value per key, position of the first put); handing it to NewMap gives a
       well-formed heap with one more handle showing these entries.  MScript is an ordinary `mop`:
       C09_map_step_preserves and C09_map_history_persistent cover histories with it. *)
Theorem C09_listmap_builder_script : forall h size script, mwf h ->
  let r := lm_script (mh_arrs h) size script in
  let h' := mstep h (MScript size script) in
  (forall i m, get_map h i = Some m ->
     get_map h' i = Some m /\ (forall k, mget (fst r) m k = mget (mh_arrs h) m k) /\
     miter (fst r) m = miter (mh_arrs h) m /\ msize (fst r) m = msize (mh_arrs h) m) /\
  keeps (length (mh_arrs h)) (mh_arrs h) (fst r) /\ length (mh_arrs h) <= lm_arr (snd r) /\
  lm_rd (fst r) (snd r) = pl_build (script_entries script) /\
  mwf h' /\ get_map h' (nmaps h) = Some (SList (snd r)) /\
  mcontent (mh_arrs h') (SList (snd r)) = sort_entries (pl_build (script_entries script)).
Proof. exact listmap_builder_script_lemma. Qed.

(* non-vacuity of the builder theorems: a script that grows with odd capacities, re-slices and goes on appending *)
Example C09_builder_nonvacuous :
  let script := [BAppend 1 1; BAppend 2 7; BAppend 3 0; BReslice 1 3; BAppend 4 0; BAppend 5 2] in
  content_of script = [2; 3; 4; 5]%Z /\
  abs (run [OLit [9]%Z 3; OBuild 0 script; OAppend 0 8 0 0]) = [[9]; [2; 3; 4; 5]; [9; 8]]%Z.
Proof. vm_compute. split; reflexivity. Qed.

Example C09_map_builder_nonvacuous :
  let script := [MBAppend [97%N] 1 0; MBAppend [98%N] 2 9; MBAppend [97%N] 3 0] in
  lm_rd (fst (lm_script [] 1 script)) (snd (lm_script [] 1 script)) = [([97%N], 3%Z); ([98%N], 2%Z)].
Proof. vm_compute. reflexivity. Qed.

(* non-vacuity: a history with a three-way branch on a list of length 3 and capacity 4 (first append in
   place, the others copy), an append to a lazily produced list and windows; all hypotheses are satisfiable *)
Example C09_nonvacuous :
  let ops := [OLit [1; 2]%Z 0; OAppend 0 3 0 4; OAppend 1 4 0 0; OAppend 1 5 0 0; OAppend 1 6 0 0;
              OMap 10 1; OAppend 5 7 4 0; OAppend 5 8 0 0; OWindows 2 1] in
  abs (run ops) = [[1; 2]; [1; 2; 3]; [1; 2; 3; 4]; [1; 2; 3; 5]; [1; 2; 3; 6]; [11; 12; 13];
                   [11; 12; 13; 7]; [11; 12; 13; 8]; [1; 2]; [2; 3]]%Z
  /\ 1 < nobjs (run (firstn 2 ops))
  /\ s_cap (o_items (nth 2 (h_objs (run (firstn 3 ops))) dummy_obj)) = 4.
Proof. vm_compute. repeat split; auto. Qed.

Example C09_map_nonvacuous :
  exists m, get_map (mrun [MLit [([97%N], 1%Z)]; MPut 0 [98%N] 2; MReplace 1 [97%N] 5]) 1 = Some m
            /\ mcontent (mh_arrs (mrun [MLit [([97%N], 1%Z)]; MPut 0 [98%N] 2; MReplace 1 [97%N] 5])) m
               = [([97%N], 1%Z); ([98%N], 2%Z)].
Proof. eexists. split; vm_compute; reflexivity. Qed.

Print Assumptions C09_invariant.
Print Assumptions C09_step_preserves.
Print Assumptions C09_history_persistent.
Print Assumptions C09_history_items_view.
Print Assumptions C09_run_refines.
Print Assumptions C09_siblings_independent.
Print Assumptions C09_observe_preserves.
Print Assumptions C09_failed_eval_changes_nothing.
Print Assumptions C09_private_builder_is_add_fresh.
Print Assumptions C09_listmap_builder_script.
Print Assumptions C09_map_step_preserves.
Print Assumptions C09_map_history_persistent.
Print Assumptions C09_combineN_alias_refuted.
Print Assumptions C09_listmap_append_refuted.
Print Assumptions C09_listmap_append_siblings_refuted.
Print Assumptions C09_listmap_append_builder_partial.
