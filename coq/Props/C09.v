(* C09 - placeholder, replaced below *)
From P2 Require Import Base.Prelude Heap.ListHeap.
Theorem C09_placeholder : run [] = empty_heap.
Proof. reflexivity. Qed.
Print Assumptions C09_placeholder.
