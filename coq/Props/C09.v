(* C09 - Lists and maps are persistent values: no operation changes an existing value.
   This file contains only the property theorems; each is closed by an exact lemma application.

   Model of the implementation: Heap/ListHeap.v (Go slices as views into backing arrays, *List objects,
   every list operation as a heap step; the capacity Go's append chooses when it allocates is an argument of
   the operation, so the theorems hold for EVERY growth policy) and Heap/MapHeap.v (ListMap slices, the
   wrapper storages of value/map.go).  Specification side: handle -> content, bound once (pstep / prun). *)
From P2 Require Import Base.Prelude Heap.ListHeap Heap.ListHeapProofs Heap.MapHeap Heap.MapHeapProofs.

(* the invariant of DESIGN.md: for every live list,  cap = len  \/  it is the sole owner of its spare
   capacity (no_clash), and a materialised list's iterable is its own items view; it holds after every history *)
Theorem C09_invariant : forall ops, inv (run ops).
Proof. exact run_inv. Qed.

(* one operation, any operation, any capacities: the invariant is kept, handles are only added,
   and NOBODY's content changes *)
Theorem C09_step_preserves : forall h o, inv h ->
  inv (step h o) /\ nobjs h <= nobjs (step h o) /\
  forall x, x < nobjs h -> icontent (step h o) x = icontent h x.
Proof. exact step_preserves_lemma. Qed.

(* all histories, no bound: what a live handle shows (through its iterable: string(), iteration, lazy
   children) never changes, whatever is done later to it or to anything derived from it *)
Theorem C09_history_persistent : forall ops more o, o < nobjs (run ops) ->
  icontent (run (ops ++ more)) o = icontent (run ops) o.
Proof. exact history_persistent_lemma. Qed.

(* ... and the items view (size(), [i], =) of a materialised list shows the same content *)
Theorem C09_history_items_view : forall ops more o ob, o < nobjs (run ops) ->
  get_obj (run (ops ++ more)) o = Some ob -> o_present ob = true ->
  items_content (run (ops ++ more)) o = icontent (run ops) o.
Proof. exact history_items_view_lemma. Qed.

(* the heap model refines the purely functional model: after every history every handle shows exactly the
   content the specification side binds it to *)
Theorem C09_run_refines : forall ops, abs (run ops) = prun ops.
Proof. exact run_refines_lemma. Qed.

(* two appends to the same parent (at any capacity state, with anything happening afterwards) are
   independent: each shows the parent's content plus its own element, the parent is unchanged *)
Theorem C09_siblings_independent : forall ops a x y c1 c2 c3 c4 more,
  let h := run ops in
  a < nobjs h ->
  let h2 := run (ops ++ [OAppend a x c1 c2; OAppend a y c3 c4] ++ more) in
  icontent h2 a = icontent h a /\
  icontent h2 (nobjs h) = icontent h a ++ [x] /\
  icontent h2 (S (nobjs h)) = icontent h a ++ [y].
Proof. exact siblings_independent_lemma. Qed.

(* observer-style operations (a built-in that takes existing handles as operands and only reads them: ~, =, +,
   sum, min, order, groupBy*, string(), ... - every list method and operator except append): in the model
   such a step is the materialisation (Eval) of any handles with any capacities and nothing else; it adds no
   handle, changes nobody's content and leaves the abstraction of the whole heap as it is.  That the real
   built-ins ARE such steps is checked by the correspondence run (every handle observed after every observer). *)
Theorem C09_observe_preserves : forall evs h, inv h ->
  let h' := run_from h (observe_ops evs) in
  inv h' /\ nobjs h' = nobjs h /\ (forall x, icontent h' x = icontent h x) /\ abs h' = abs h.
Proof. exact observe_preserves_lemma. Qed.

(* a materialisation (size(), eval(), [i], =, order ...) that is aborted by an error after k elements and is
   survived by the caller (try/catch, or a Go caller that goes on): List.Eval collects into a local slice and
   publishes it only at the end, so the step touches no object - the list is as lazy and as empty as before -,
   changes nobody's content, and the next successful materialisation shows exactly the bound content *)
Theorem C09_failed_eval_changes_nothing : forall h a k, inv h ->
  let h' := step h (OEvalFail a k) in
  inv h' /\ h_objs h' = h_objs h /\ (forall x, icontent h' x = icontent h x) /\
  forall c, a < nobjs h -> items_content (step h' (OForce a c)) a = icontent h a.
Proof. exact failed_eval_changes_nothing_lemma. Qed.

(* maps: no operation of value/map.go changes what an existing map yields (Get, Iter, Size, sorted entries) *)
Theorem C09_map_step_preserves : forall h o i m, mwf h -> get_map h i = Some m ->
  mwf (mstep h o) /\ get_map (mstep h o) i = Some m /\
  (forall k, mget (mh_arrs (mstep h o)) m k = mget (mh_arrs h) m k) /\
  miter (mh_arrs (mstep h o)) m = miter (mh_arrs h) m /\
  msize (mh_arrs (mstep h o)) m = msize (mh_arrs h) m /\
  mcontent (mh_arrs (mstep h o)) m = mcontent (mh_arrs h) m.
Proof. exact map_step_preserves_lemma. Qed.

Theorem C09_map_history_persistent : forall ops more i m, get_map (mrun ops) i = Some m ->
  get_map (mrun (ops ++ more)) i = Some m /\
  (forall k, mget (mh_arrs (mrun (ops ++ more))) m k = mget (mh_arrs (mrun ops)) m k) /\
  miter (mh_arrs (mrun (ops ++ more))) m = miter (mh_arrs (mrun ops)) m /\
  msize (mh_arrs (mrun (ops ++ more))) m = msize (mh_arrs (mrun ops)) m /\
  mcontent (mh_arrs (mrun (ops ++ more))) m = mcontent (mh_arrs (mrun ops)) m.
Proof. exact map_history_persistent_lemma. Qed.

(* --- what does NOT hold ---------------------------------------------------------------------------------

   (1) value/list.go CombineN at the pinned commit (`st.Push(NewList(i...))`, i = the iterator's ring buffer),
       modelled by windows_alias: a window handed to the callback changes afterwards.  Full statement that
       fails:  forall h n a k, inv h -> icontent (windows_alias h n a) (nobjs h + k) = nth k (windows_of n (icontent h a)) [].
       Repaired in the repository (the window is copied); `step` models the repaired code and is covered
       by the theorems above. *)
Theorem C09_combineN_alias_refuted :
  exists ops n a, let h := run ops in
    inv h /\ a < nobjs h /\
    nth 0 (windows_of n (icontent h a)) [] <> icontent (windows_alias h n a) (nobjs h).
Proof. exact windows_alias_refuted_lemma. Qed.

(* (2) listMap.ListMap.Append is a builder operation, not a persistent one: it overwrites the value of an
       existing key in the receiver, and two appends to one receiver with spare capacity share a cell.
       Full statement that fails:  forall arrs l k v c, lm_rd (fst (lm_append arrs l k v c)) l = lm_rd arrs l. *)
Theorem C09_listmap_append_refuted :
  exists arrs l k v c, lm_rd (fst (lm_append arrs l k v c)) l <> lm_rd arrs l.
Proof. exact lm_append_overwrites_refuted_lemma. Qed.

Theorem C09_listmap_append_siblings_refuted :
  exists arrs l k1 v1 k2 v2 c,
    let r1 := lm_append arrs l k1 v1 c in
    let r2 := lm_append (fst r1) l k2 v2 c in
    lm_rd (fst r2) (snd r1) <> lm_rd (fst r1) (snd r1).
Proof. exact lm_append_siblings_refuted_lemma. Qed.

(*     Side condition under which it is harmless: the receiver lives in an array created after every live
       map (a builder's private ListMap) - which is how value/map.go uses it (C09_map_step_preserves). *)
Theorem C09_listmap_append_builder_partial : forall h l k v c i m,
  mwf h -> get_map h i = Some m ->
  length (mh_arrs h) <= lm_arr l ->
  forall arrs0, keeps (length (mh_arrs h)) (mh_arrs h) arrs0 -> lm_arr l < length arrs0 ->
  let arrs' := fst (lm_append arrs0 l k v c) in
  miter arrs' m = miter (mh_arrs h) m /\ (forall k', mget arrs' m k' = mget (mh_arrs h) m k').
Proof. exact lm_append_builder_partial_lemma. Qed.

(* non-vacuity: a history with a three-way branch on a list of length 3 and capacity 4 (first append in
   place, the others copy), an append to a lazily produced list and windows; all hypotheses are satisfiable *)
Example C09_nonvacuous :
  let ops := [OLit [1; 2]%Z 0; OAppend 0 3 0 4; OAppend 1 4 0 0; OAppend 1 5 0 0; OAppend 1 6 0 0;
              OMap 10 1; OAppend 5 7 4 0; OAppend 5 8 0 0; OWindows 2 1] in
  abs (run ops) = [[1; 2]; [1; 2; 3]; [1; 2; 3; 4]; [1; 2; 3; 5]; [1; 2; 3; 6]; [11; 12; 13];
                   [11; 12; 13; 7]; [11; 12; 13; 8]; [1; 2]; [2; 3]]%Z
  /\ 1 < nobjs (run (firstn 2 ops))
  /\ s_cap (o_items (nth 2 (h_objs (run (firstn 3 ops))) dummy_obj)) = 4.
Proof. vm_compute. repeat split; auto. Qed.

Example C09_map_nonvacuous :
  exists m, get_map (mrun [MLit [([97%N], 1%Z)]; MPut 0 [98%N] 2; MReplace 1 [97%N] 5]) 1 = Some m
            /\ mcontent (mh_arrs (mrun [MLit [([97%N], 1%Z)]; MPut 0 [98%N] 2; MReplace 1 [97%N] 5])) m
               = [([97%N], 1%Z); ([98%N], 2%Z)].
Proof. eexists. split; vm_compute; reflexivity. Qed.

Print Assumptions C09_invariant.
Print Assumptions C09_step_preserves.
Print Assumptions C09_history_persistent.
Print Assumptions C09_history_items_view.
Print Assumptions C09_run_refines.
Print Assumptions C09_siblings_independent.
Print Assumptions C09_observe_preserves.
Print Assumptions C09_failed_eval_changes_nothing.
Print Assumptions C09_map_step_preserves.
Print Assumptions C09_map_history_persistent.
Print Assumptions C09_combineN_alias_refuted.
Print Assumptions C09_listmap_append_refuted.
Print Assumptions C09_listmap_append_siblings_refuted.
Print Assumptions C09_listmap_append_builder_partial.
