(* C05 - No program can crash the host: every runtime fault is an ordinary error.
   This file contains only the property theorems; each is closed by an exact lemma application.

   Levels of the statement.
   (1) Operators and the modelled library never raise a Go panic (Sem/Ops.v, Sem/Lib.v, for ALL operands).
   (2) The crash model (Conc/Crash.v): a fault source inside a tree of contexts (closure, try/catch,
       map/accept stage with a schedule bit, downstream of a stage, merge operand, merge less,
       multiUse consumers), evaluated for ALL programs of that language, ALL schedules and ALL stack
       capacities D.  [code_sites] = where the code recovers after the repairs.

   The full property
       forall D sc p, class code_sites D sc p <> CFatal                                   (no_fatal)
   is REFUTED (C05_no_fatal_refuted): exhaustion of the Go stack cannot be recovered, and the
   10000-slot guard of funcGen.stackStorage.set does not bound the Go stack when recursion passes
   when one level nests many Go calls (known finding recursion-deep-body/any); recursion through
   fresh value stacks (map, accept, multiUse) was repaired (NewEmptyStackBelow) and is an error now.  C05_no_fatal_partial is the property under "no fault source exhausts
   the Go stack". *)
From P2 Require Import Base.Prelude Sem.Num Sem.Syntax Sem.Ops Sem.Lib Sem.Ref Conc.Crash Conc.CrashProofs Conc.NoPanicProofs Conc.TryProofs.
Require Import Sorted.
From P2 Require Sem.Gen Sem.Sim Sem.Guard Sem.GuardProofs Sem.GenNoPanicProofs.
Local Open Scope N_scope.

(* ---- (1) operators and library: every fault is a returned error, never a panic ---- *)

Theorem C05_ops_never_panic : forall op a b, calc op a b <> Panic.
Proof. exact calc_np. Qed.

Theorem C05_unary_never_panics : forall op a, ucalc op a <> Panic.
Proof. exact ucalc_np. Qed.

Theorem C05_equal_never_panics : forall a b, equal_fg a b <> Panic.
Proof. exact equal_fg_np. Qed.

Theorem C05_less_never_panics : forall a b, vless a b <> Panic.
Proof. exact vless_np. Qed.

Theorem C05_index_never_panics : forall l i, access_list l i <> Panic.
Proof. exact access_list_np. Qed.

Theorem C05_member_never_panics : forall m k, access_map m k <> Panic.
Proof. exact access_map_np. Qed.

Theorem C05_static_never_panics : forall f args, run_static f args <> Panic.
Proof. exact run_static_np. Qed.

(* methods, for any way of applying closures that does not panic itself *)
Theorem C05_method_never_panics : forall app, (forall c args, app c args <> Panic) ->
  forall recv m args, run_method app recv m args <> Panic.
Proof. exact run_method_np. Qed.

(* ---- (2) faults are errors of the evaluation call and are catchable ---- *)

(* a fault of class error or panic raised by the calling goroutine's own code is an error of Func.Eval *)
Theorem C05_main_fault_is_error : forall S D sc f,
  (fault_raw S D f = RErr \/ fault_raw S D f = RPanic) ->
  class S D sc (PLeaf f) = CErr /\ class S D sc (PCall (PLeaf f)) = CErr.
Proof. exact main_fault_is_error. Qed.

(* whatever runs inside try: if it ends in an error or a panic on the goroutine of the try, the catch value comes back *)
Theorem C05_faults_are_catchable : forall D sc p,
  (run code_sites D sc Main p = RErr \/ run code_sites D sc Main p = RPanic) ->
  class code_sites D sc (PTry p) = CCatch.
Proof. exact (fun D sc p => try_catches_class code_sites D sc p eq_refl). Qed.

(* the reference semantics of try/catch (Sem/Ref.v): whenever the try expression ends in a returned error
   - whatever its source - the value of the catch expression comes back (a catch closure with one
   parameter is applied to the message instead: excluded here) *)
Theorem C05_try_catches_returned_errors : forall known f env t c thrown v,
  eval known f env t = Err thrown -> eval known f env c = Ok v ->
  (forall p b cp s, v <> VClo [p] b cp s) ->
  eval known (S f) env (ATry t c) = Ok v.
Proof. exact eval_try_catches. Qed.

Theorem C05_try_keeps_values : forall known f env t c v,
  eval known f env t = Ok v -> eval known (S f) env (ATry t c) = Ok v.
Proof. exact eval_try_keeps_values. Qed.

(* ---- the property ---- *)

Theorem C05_no_fatal_partial : forall D sc p, leaves_ok code_sites D p = true -> class code_sites D sc p <> CFatal.
Proof. exact no_fatal_partial_code. Qed.

(* for any placement of the recovers: no panic source below a goroutine boundary that has no recover *)
Theorem C05_no_fatal_sites_partial : forall S D sc p,
  leaves_ok S D p = true -> guarded S D p = true -> class S D sc p <> CFatal.
Proof. exact no_fatal_partial_sites. Qed.

(* for every stack capacity there is a program that kills the process *)
Theorem C05_no_fatal_refuted : forall D sc, exists p, class code_sites D sc p = CFatal.
Proof. exact no_fatal_refuted_code. Qed.

(* the code before the repairs (kept as the description of what a deleted recover brings back) *)
Theorem C05_no_fatal_old_refuted :
  class old_sites 0 all_par (PStage 0 (PCall (PLeaf FHostPanic))) = CFatal /\
  class old_sites 0 all_par (PDown 0 (PCall (PLeaf FHostPanic))) = CFatal /\
  class old_sites 0 all_par (PMergeOp (PCall (PLeaf FHostPanic))) = CFatal /\
  class old_sites 0 all_par (PMultiUse [PCall (PLeaf FHostPanic); PLeaf FValue]) = CFatal /\
  class old_sites 0 all_par (PTry (PLeaf FHostPanic)) = CErr.
Proof. exact no_fatal_refuted_old. Qed.

(* the outcome does not depend on the timing decisions of MapAuto/FilterAuto *)
Theorem C05_schedule_independent : forall D sc sc' p, class code_sites D sc p = class code_sites D sc' p.
Proof. exact class_schedule_independent. Qed.

(* ---- the recursion guard ---- *)

(* on one storage: data never exceeds 10001 values, and more than 10001 writes at increasing indices
   (one new slot per recursion level) are stopped by the guard's panic *)
Theorem C05_guard_bounds_storage : forall idxs len len',
  len <= guard_limit + 1 -> run_sets len idxs = Some len' ->
  len' <= guard_limit + 1 /\ Forall (fun i => i <= guard_limit) idxs.
Proof. exact run_sets_bound. Qed.

Theorem C05_guard_bounds_depth : forall idxs len,
  len <= guard_limit + 1 -> StronglySorted N.lt idxs -> guard_limit + 1 < N.of_nat (length idxs) ->
  run_sets len idxs = None.
Proof. exact guard_stops_increasing_pushes. Qed.

Theorem C05_guarded_recursion_is_an_error : forall D top slots frames sc,
  1 <= slots -> (guard_limit + 2) * frames <= D ->
  class code_sites D sc (PLeaf (FRecShared top slots frames)) = CErr.
Proof.
  exact (fun D top slots frames sc Hs HD =>
           proj1 (main_fault_is_error code_sites D sc (FRecShared top slots frames)
                    (or_intror (rec_shared_is_panic D top slots frames Hs HD)))).
Qed.

(* recursion through fresh storages: for every capacity of the Go stack a finite depth exhausts it,
   and the guard never fires *)
Theorem C05_unguarded_recursion_refuted : forall S D frames, 1 <= frames ->
  fault_raw S D (FRecFresh frames (D + 1)) = RFatal.
Proof. exact rec_fresh_exceeds_any_stack. Qed.

(* recursion whose recursive call sits in the closure handed to ANY method m is stopped by the guard in
   the code as it is (no method starts its closures at depth 0 any more: s_fresh code_sites = []) *)
Theorem C05_recursion_through_method_is_an_error : forall D m slots frames depth,
  1 <= slots -> (guard_limit + 2) * frames <= D ->
  fault_raw code_sites D (FRecThrough m slots frames depth) <> RFatal.
Proof. exact rec_through_code_is_guarded. Qed.

(* for any table of methods that start a fresh storage: guarded outside the table, fatal at a finite depth
   inside it (old_sites: list.map, list.accept, list.multiUse - what a mutation that forgets the depth
   of the callers brings back) *)
Theorem C05_recursion_through_guarded_method_partial : forall S D m slots frames depth,
  mem_str m (s_fresh S) = false -> 1 <= slots -> (guard_limit + 2) * frames <= D ->
  fault_raw S D (FRecThrough m slots frames depth) <> RFatal.
Proof. exact rec_through_guarded. Qed.

Theorem C05_recursion_through_fresh_method_refuted : forall S D m slots frames,
  mem_str m (s_fresh S) = true -> 1 <= frames ->
  fault_raw S D (FRecThrough m slots frames (D + 1)) = RFatal.
Proof. exact rec_through_fresh_fatal. Qed.

(* mixed recursion: [between] direct levels between two hops through a stack-forking method *)
Theorem C05_mixed_recursion_is_an_error : forall D m between slots frames depth,
  1 <= slots -> (guard_limit + 2) * frames <= D ->
  fault_raw code_sites D (FRecMixed m between slots frames depth) <> RFatal.
Proof. exact rec_mixed_code_is_guarded. Qed.

Theorem C05_mixed_recursion_fresh_method_refuted : forall S D m between slots frames,
  mem_str m (s_fresh S) = true -> 1 <= slots -> 1 <= frames -> (between + 1) * slots <= guard_limit ->
  fault_raw S D (FRecMixed m between slots frames (D + guard_limit + 2)) = RFatal.
Proof. exact rec_mixed_fresh_fatal. Qed.

(* funcGen.Stack: NewEmptyStackBelow continues the depth count of its parent (base = base+offs+size) *)
Theorem C05_below_inherits_depth : forall p, stk_depth (stk_below p) = stk_depth p.
Proof. exact below_inherits_depth. Qed.

Theorem C05_push_guards_depth : forall s len s' len',
  k_offs s + k_size s = len -> stk_push s len = Some (s', len') ->
  stk_depth s <= guard_limit /\ stk_depth s' = stk_depth s + 1.
Proof. exact push_guards_depth. Qed.

(* lazy lists: a fault raised while item i is computed surfaces as an error (and is caught by try) whenever
   the consumer demands item i - whatever the stages between do with the item's value - under every
   schedule; it is invisible otherwise *)
Theorem C05_demanded_fault_is_error : forall D sc g d i f,
  i < d -> (fault_raw code_sites D f = RErr \/ fault_raw code_sites D f = RPanic) ->
  run code_sites D sc g (demand d i (PCall (PLeaf f))) = RErr /\
  class code_sites D sc (demand d i (PCall (PLeaf f))) = CErr /\
  class code_sites D sc (PTry (demand d i (PCall (PLeaf f)))) = CCatch.
Proof. exact demanded_fault_is_error. Qed.

Theorem C05_undemanded_fault_invisible : forall S D sc g d i q,
  d <= i -> run S D sc g (demand d i q) = RVal /\ class S D sc (demand d i q) = CVal /\ class S D sc (PTry (demand d i q)) = CVal.
Proof. exact undemanded_fault_invisible. Qed.

(* data whose depth grows with the steps of an ordinary loop: harmless while the observers' recursion is bounded
   (flattened chains: n <= 10), fatal at some finite number of steps when it is not (known findings deep-data/...) *)
Theorem C05_bounded_data_depth_survives : forall S D n frame, n * frame <= D -> fault_raw S D (FDeepData n frame) = RVal.
Proof. exact deep_data_bounded_survives. Qed.

Theorem C05_unbounded_data_depth_refuted : forall S D frame, 1 <= frame -> fault_raw S D (FDeepData (D + 1) frame) = RFatal.
Proof. exact deep_data_unbounded_fatal. Qed.

(* non-vacuity: a host panic in a forced-parallel map below a try is caught; a program with all context kinds is safe *)
Example C05_nonvacuous :
  class code_sites 1000 all_par (PTry (PStage 0 (PCall (PLeaf FHostPanic)))) = CCatch /\
  leaves_ok code_sites 1000 (PMultiUse [PDown 0 (PStage 1 (PLeaf FHostPanic)); PMergeOp (PMergeLess (PLeaf FOpErr))]) = true /\
  class code_sites 1000 all_par (PMultiUse [PDown 0 (PStage 1 (PLeaf FHostPanic)); PMergeOp (PMergeLess (PLeaf FOpErr))]) = CErr.
Proof. repeat split; reflexivity. Qed.

Print Assumptions C05_ops_never_panic.
Print Assumptions C05_unary_never_panics.
Print Assumptions C05_equal_never_panics.
Print Assumptions C05_less_never_panics.
Print Assumptions C05_index_never_panics.
Print Assumptions C05_member_never_panics.
Print Assumptions C05_static_never_panics.
Print Assumptions C05_method_never_panics.
Print Assumptions C05_main_fault_is_error.
Print Assumptions C05_faults_are_catchable.
Print Assumptions C05_try_catches_returned_errors.
(* ---------- the recursion guard in the semantic core (Sem/Guard.v) ----------
   The crash model above treats the guard abstractly (FRec* fault sources, storage_set / stk_push
   bookkeeping).  Sem/Guard.v puts the same guard - stackStorage.set panics when it APPENDS at an
   index n with base + n > limit - around the generator model of C01 as a wrapper: exec_guarded is
   one-step-for-one-step Gen.exec (guard_step is a copy of the step function that GenProofs.exec_S
   shows to be Gen.exec) with the depth base threaded and the five pushes guarded; Gen.exec itself is
   untouched.  The guard of the code is the instance limit = N.to_nat guard_limit. *)

(* the generator model alone never panics: a Panic of the guarded run is the guard *)
Theorem C05_exec_never_panics : forall known fuel am cm st offs size cs a,
  fst (Sem.Gen.exec known fuel am cm st offs size cs a) <> Panic.
Proof. exact Sem.GenNoPanicProofs.exec_never_panics_lemma. Qed.

(* below the limit the guard is invisible: unless it fires, the guarded run IS the run of Gen.exec
   (same outcome, same storage) - for every program, fuel, frame and depth base *)
Theorem C05_guarded_agrees_below_limit : forall known limit fuel db am cm st offs size cs a,
  fst (Sem.Guard.exec_guarded known limit fuel db am cm st offs size cs a) <> Panic ->
  Sem.Gen.exec known fuel am cm st offs size cs a =
  Sem.Guard.exec_guarded known limit fuel db am cm st offs size cs a.
Proof. exact Sem.GuardProofs.guarded_agrees_lemma. Qed.

(* the storage of a guarded run only grows and never holds more than limit + 1 - base values
   (index limit is the last one that can be appended), whatever the program does *)
Theorem C05_guarded_never_exceeds : forall known limit fuel db am cm st offs size cs a,
  (offs + size <= length st)%nat -> (db + length st <= S limit)%nat ->
  (length st <= length (snd (Sem.Guard.exec_guarded known limit fuel db am cm st offs size cs a)))%nat /\
  (db + length (snd (Sem.Guard.exec_guarded known limit fuel db am cm st offs size cs a)) <= S limit)%nat.
Proof. exact Sem.GuardProofs.guarded_never_exceeds_lemma. Qed.

(* the runaway recursion  func f(n) f(n+1); f(0)  (fault source FRecShared with one slot per level):
   for EVERY fuel from limit + 4 on the guarded run answers the guard's panic - the model stops
   because of the guard, not because it runs out of fuel *)
Theorem C05_guarded_terminates_on_runaway : forall known limit fuel, (limit + 4 <= fuel)%nat ->
  fst (Sem.Guard.exec_guarded known limit fuel 0%nat [] [] [] 0%nat 0%nat [] Sem.Guard.runaway) = Panic.
Proof. exact Sem.GuardProofs.guarded_runaway_lemma. Qed.


Print Assumptions C05_try_keeps_values.
Print Assumptions C05_no_fatal_partial.
Print Assumptions C05_no_fatal_sites_partial.
Print Assumptions C05_no_fatal_refuted.
Print Assumptions C05_no_fatal_old_refuted.
Print Assumptions C05_schedule_independent.
Print Assumptions C05_guard_bounds_storage.
Print Assumptions C05_guard_bounds_depth.
Print Assumptions C05_guarded_recursion_is_an_error.
Print Assumptions C05_unguarded_recursion_refuted.
Print Assumptions C05_recursion_through_method_is_an_error.
Print Assumptions C05_mixed_recursion_is_an_error.
Print Assumptions C05_mixed_recursion_fresh_method_refuted.
Print Assumptions C05_below_inherits_depth.
Print Assumptions C05_bounded_data_depth_survives.
Print Assumptions C05_unbounded_data_depth_refuted.
Print Assumptions C05_demanded_fault_is_error.
Print Assumptions C05_undemanded_fault_invisible.
Print Assumptions C05_push_guards_depth.
Print Assumptions C05_recursion_through_guarded_method_partial.
Print Assumptions C05_recursion_through_fresh_method_refuted.
Print Assumptions C05_exec_never_panics.
Print Assumptions C05_guarded_agrees_below_limit.
Print Assumptions C05_guarded_never_exceeds.
Print Assumptions C05_guarded_terminates_on_runaway.
