(* C20 - Binning conserves mass and is additive.  Only the property theorems; each is closed by an exact
   lemma application (proofs: Lib/BinningProofs.v, model and specification side: Lib/Binning.v). *)
From Coq Require Import QArith Qround.
From P2 Require Import Base.Prelude Lib.Binning Lib.BinningProofs.
Local Open Scope Q_scope.

(* every value is assigned to exactly the bin the statement names: underflow below start, bin i for
   start+(i-1)*size <= v < start+i*size, overflow from start+count*size; all v, all grids with size > 0 *)
Theorem C20_index_spec : forall (start size : Q) (count : N) (v : Q), 0 < size ->
  let a := new_axis start size count in
  let c := Z.of_N count in
  (get_index a v = 0%Z <-> v < start) /\
  (forall i : Z, (1 <= i <= c)%Z ->
     (get_index a v = i <-> start + inject_Z (i - 1) * size <= v /\ v < start + inject_Z i * size)) /\
  (get_index a v = (c + 1)%Z <-> start + inject_Z c * size <= v).
Proof. exact index_spec. Qed.

Print Assumptions C20_index_spec.
