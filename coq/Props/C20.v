(* C20 - Binning conserves mass and is additive.
   Only the property theorems; each is closed by an exact lemma application (proofs: Lib/BinningProofs.v;
   model of value/binning.go and the specification side: Lib/Binning.v).  All statements are over exact
   rationals and quantify over ALL lists, grids and splittings.  Lists of rationals are compared up to Qeq
   (leq = Forall2 Qeq, leq2 = Forall2 leq), because Q is not a canonical representation.
   The model follows the code after the repair of getIndex (repo commit "fix: binning clamps the bin index
   before converting to int"); the failing input of the old code is first in the harness corpus. *)
From Coq Require Import QArith Qround.
From P2 Require Import Base.Prelude Lib.Binning Lib.BinningProofs.
Local Open Scope Q_scope.

(* index_spec - every value is assigned to exactly the bin the statement names: underflow below start,
   bin i for start+(i-1)*size <= v < start+i*size, overflow from start+count*size *)
Theorem C20_index_spec : forall (start size : Q) (count : N) (v : Q), 0 < size ->
  let a := new_axis start size count in
  let c := Z.of_N count in
  (get_index a v = 0%Z <-> v < start) /\
  (forall i : Z, (1 <= i <= c)%Z ->
     (get_index a v = i <-> start + inject_Z (i - 1) * size <= v /\ v < start + inject_Z i * size)) /\
  (get_index a v = (c + 1)%Z <-> start + inject_Z c * size <= v).
Proof. exact index_spec. Qed.

(* the index never leaves the slice, whatever the size (no panic in Add) *)
Theorem C20_index_in_range : forall (a : axis) (v : Q), (2 <= a_bins a)%Z -> (0 <= get_index a v < a_bins a)%Z.
Proof. exact get_index_range. Qed.

(* the index is the specification's bin number (number of edges 0..count at or below v) *)
Theorem C20_index_is_spec : forall (a : axis) (v : Q), 0 < a_size a -> (2 <= a_bins a)%Z ->
  get_index a v = spec_index a v.
Proof. exact get_index_is_spec. Qed.

(* mass_conserved - the bins sum to the sum of the per-element values; every grid, also size <= 0 *)
Theorem C20_mass_conserved : forall (start size : Q) (count : N) (xs : list (Q * Q)),
  Qsum (snd (binning (new_axis start size count) xs)) == Qsum (map snd xs).
Proof. exact mass_conserved1. Qed.

Theorem C20_mass_conserved_2d : forall (xstart xsize : Q) (xcount : N) (ystart ysize : Q) (ycount : N)
  (xs : list (Q * Q * Q)),
  Qsum2 (map snd (snd (binning_2d (new_axis xstart xsize xcount) (new_axis ystart ysize ycount) xs)))
  == Qsum (map snd xs).
Proof. exact mass_conserved2. Qed.

(* descr_matches - (a) the description attached to slot i is the statement's bin i;
   (b) every element satisfies the bounds of the bin it is counted in, and of no other described bin;
   (c) bin i holds exactly the sum of the elements its description admits; (d) = the specification's values *)
Theorem C20_descr_is_spec : forall (a : axis) (i : Z), (2 <= a_bins a)%Z -> bdescr_eq (get_descr a i) (spec_descr a i).
Proof. exact get_descr_spec. Qed.

Theorem C20_descr_matches_element : forall (start size : Q) (count : N) (v : Q), 0 < size ->
  let a := new_axis start size count in in_descr (get_descr a (get_index a v)) v.
Proof. exact descr_matches_elem. Qed.

Theorem C20_descr_unique : forall (start size : Q) (count : N) (v : Q) (i : Z), 0 < size ->
  let a := new_axis start size count in
  (0 <= i < a_bins a)%Z -> in_descr (get_descr a i) v -> i = get_index a v.
Proof. exact descr_unique. Qed.

Theorem C20_descr_matches : forall (start size : Q) (count : N) (xs : list (Q * Q)) (i : nat), 0 < size ->
  let a := new_axis start size count in
  (i < length (snd (binning a xs)))%nat ->
  nth i (snd (binning a xs)) 0 ==
  Qsum (map snd (filter (fun e => in_descr_b (nth i (fst (binning a xs)) (None, None)) (fst e)) xs)).
Proof. exact bins_hold_admitted. Qed.

Theorem C20_values_are_spec : forall (start size : Q) (count : N) (xs : list (Q * Q)), 0 < size ->
  let a := new_axis start size count in leq (snd (binning a xs)) (spec_values a xs).
Proof. exact values_are_spec. Qed.

Theorem C20_descr_matches_2d : forall (xstart xsize : Q) (xcount : N) (ystart ysize : Q) (ycount : N)
  (xs : list (Q * Q * Q)) (i j : nat), 0 < xsize -> 0 < ysize ->
  let ax := new_axis xstart xsize xcount in
  let ay := new_axis ystart ysize ycount in
  (i < Z.to_nat (a_bins ax))%nat -> (j < Z.to_nat (a_bins ay))%nat ->
  nth j (nth i (binning2 ax ay xs) []) 0 ==
  Qsum (map snd (filter (fun e => in_descr_b (get_descr ax (Z.of_nat i)) (fst (fst e))
                                 && in_descr_b (get_descr ay (Z.of_nat j)) (snd (fst e))) xs)).
Proof. exact cells_hold_admitted. Qed.

Theorem C20_values_are_spec_2d : forall (xstart xsize : Q) (xcount : N) (ystart ysize : Q) (ycount : N)
  (xs : list (Q * Q * Q)), 0 < xsize -> 0 < ysize ->
  let ax := new_axis xstart xsize xcount in
  let ay := new_axis ystart ysize ycount in
  leq2 (binning2 ax ay xs) (spec_values2 ax ay xs).
Proof. exact values2_are_spec. Qed.

(* binning_additive - binning of a concatenation = entrywise sum of the binnings; every grid *)
Theorem C20_binning_additive : forall (start size : Q) (count : N) (xs ys : list (Q * Q)),
  let a := new_axis start size count in
  fst (binning a (xs ++ ys)) = fst (binning a xs) /\
  leq (snd (binning a (xs ++ ys))) (zip_add (snd (binning a xs)) (snd (binning a ys))).
Proof. exact binning_additive1. Qed.

Theorem C20_binning_additive_2d : forall (xstart xsize : Q) (xcount : N) (ystart ysize : Q) (ycount : N)
  (xs ys : list (Q * Q * Q)),
  let ax := new_axis xstart xsize xcount in
  let ay := new_axis ystart ysize ycount in
  leq2 (binning2 ax ay (xs ++ ys)) (zip_add2 (binning2 ax ay xs) (binning2 ax ay ys)).
Proof. exact binning_additive2. Qed.

(* collect_is_whole - collectBinning over the binnings of the parts of a list succeeds and returns the
   binning of the whole list: same descriptions, same values; every grid, every non-empty list of parts
   (parts may be empty lists; an empty list of parts is the documented error "no items") *)
Theorem C20_collect_is_whole : forall (start size : Q) (count : N) (parts : list (list (Q * Q))), parts <> [] ->
  let a := new_axis start size count in
  exists v, collect1 (map (binning a) parts) = COk (fst (binning a (concat parts)), v) /\
            leq v (snd (binning a (concat parts))).
Proof. exact collect_is_whole1. Qed.

Theorem C20_collect_is_whole_2d : forall (xstart xsize : Q) (xcount : N) (ystart ysize : Q) (ycount : N)
  (parts : list (list (Q * Q * Q))), parts <> [] ->
  let ax := new_axis xstart xsize xcount in
  let ay := new_axis ystart ysize ycount in
  let whole := binning_2d ax ay (concat parts) in
  exists v, collect2 (map (binning_2d ax ay) parts) = COk (fst whole, v) /\
            map fst v = map fst (snd whole) /\ leq2 (map snd v) (map snd (snd whole)).
Proof. exact collect_is_whole2. Qed.

(* collect_history - histories on the same partial results.  In the model a partial result is a value and
   cannot change, so "every partial result is still the binning of its own part after any number of
   collects" holds by construction (it is the correspondence run that checks it on the real, mutable
   objects: H1/H2 cases).  The remaining statement: EVERY collect of a history - any selection of the parts,
   any order, with repetition - returns the binning of the concatenation of the selected parts. *)
Theorem C20_collect_history : forall (start size : Q) (count : N) (parts : list (list (Q * Q))) (steps : list (list nat)),
  let a := new_axis start size count in
  Forall (fun idxs => idxs <> [] ->
            let sel := map (fun i => nth i parts []) idxs in
            exists v, collect1 (map (binning a) sel) = COk (fst (binning a (concat sel)), v) /\
                      leq v (snd (binning a (concat sel)))) steps.
Proof. exact collect_history1. Qed.

Theorem C20_collect_history_2d : forall (xstart xsize : Q) (xcount : N) (ystart ysize : Q) (ycount : N)
  (parts : list (list (Q * Q * Q))) (steps : list (list nat)),
  let ax := new_axis xstart xsize xcount in
  let ay := new_axis ystart ysize ycount in
  Forall (fun idxs => idxs <> [] ->
            let sel := map (fun i => nth i parts []) idxs in
            let whole := binning_2d ax ay (concat sel) in
            exists v, collect2 (map (binning_2d ax ay) sel) = COk (fst whole, v) /\
                      map fst v = map fst (snd whole) /\ leq2 (map snd v) (map snd (snd whole))) steps.
Proof. exact collect_history2. Qed.

(* descr_observers - the description as a map (value.bin is a MapStorage; Map.IsAvail/GetM/ContainsKey/
   List/Size/Equals modelled as the code computes them, IsAvail from the ok flag of Get): every observer
   answers from the description record, whose bounds are those of C20_descr_is_spec: min is available,
   gettable, contained and listed exactly for i <> 0, max exactly for i <> count+1, str always, other keys
   never; size() counts the listed entries; d = d *)
Theorem C20_descr_record : forall (a : axis) (i : Z), descr_of_bin (get_bin a i) = get_descr a i.
Proof. exact descr_of_get_bin. Qed.

Theorem C20_descr_observers : forall (a : axis) (i : Z), (2 <= a_bins a)%Z ->
  let b := get_bin a i in
  let d := get_descr a i in
  (map_is_avail b [KMin] = true <-> i <> 0%Z) /\ (map_is_avail b [KMax] = true <-> i <> (a_bins a - 1)%Z) /\
  map_is_avail b [KStr] = true /\ map_is_avail b [KOther] = false /\
  map_get b KMin = opt_num (fst d) /\ map_get b KMax = opt_num (snd d) /\
  map_get b KStr = Some BStr /\ map_get b KOther = None /\
  (forall k, map_contains b k = map_is_avail b [k]) /\
  (forall k, kv_get (bin_iter b) k = map_get b k) /\
  bin_size b = N.of_nat (length (bin_iter b)) /\
  bin_equals_self b = true.
Proof. exact descr_observers. Qed.

(* non-vacuity: a grid with size > 0, elements on an edge, in both outer bins and far outside, split in
   three parts (one empty); the computed result is the expected one *)
Example C20_nonvacuous :
  let a := new_axis 0 (1 # 2) 3 in
  let xs := [(1 # 2, 1); (- (5 # 1), 2); (10000000000000000000 # 1, 4); (3 # 2, 8); (1, 16)] in
  (0 < 1 # 2) /\
  snd (binning a xs) = [0 + 2; 0; 0 + 1; 0 + 16; 0 + 4 + 8] /\
  collect1 (map (binning a) [[(1 # 2, 1); (- (5 # 1), 2)]; []; [(10000000000000000000 # 1, 4); (3 # 2, 8); (1, 16)]])
  = COk (fst (binning a xs), [0 + (0 + 2) + 0 + 0; 0 + 0 + 0 + 0; 0 + (0 + 1) + 0 + 0; 0 + 0 + 0 + (0 + 16); 0 + 0 + 0 + (0 + 4 + 8)]).
Proof. vm_compute. split; [reflexivity | split; reflexivity]. Qed.

Print Assumptions C20_index_spec.
Print Assumptions C20_index_in_range.
Print Assumptions C20_index_is_spec.
Print Assumptions C20_mass_conserved.
Print Assumptions C20_mass_conserved_2d.
Print Assumptions C20_descr_is_spec.
Print Assumptions C20_descr_matches_element.
Print Assumptions C20_descr_unique.
Print Assumptions C20_descr_matches.
Print Assumptions C20_values_are_spec.
Print Assumptions C20_descr_matches_2d.
Print Assumptions C20_values_are_spec_2d.
Print Assumptions C20_binning_additive.
Print Assumptions C20_binning_additive_2d.
Print Assumptions C20_collect_is_whole.
Print Assumptions C20_collect_is_whole_2d.
Print Assumptions C20_collect_history.
Print Assumptions C20_collect_history_2d.
Print Assumptions C20_descr_record.
Print Assumptions C20_descr_observers.
