(* C15 - token layout, comments and literal escapes do not change meaning; and the tokenizer half of
   C04 (scanning is total).  Only theorem statements; every proof is an exact lemma application.

   The model Lex/Tok.v follows token.go AFTER the repairs on branch wp-tok of the repository
   (block comment reads as one blank / operator scanner skips comments; aliases only outside
   literals; a token reports the line it starts on; quoted identifiers take part in implicit
   multiplication).  On the unrepaired code the statements below were refuted by
   x+/*c*/1, then/*c*/1, /*a*//*b*/, "a•b", abc/*LF*/ + (kept as corpus cases of the check).

   Vocabulary (Lex/Tok.v, Lex/TokProofs.v):
     ops_ok cfg        no operator contains NUL
     lexeme_at cfg lt lb w toks lt' C
                       text w, read with lastTokenType = lt / lastWasBlank = lb and followed by any
                       input r with C r, yields exactly toks (on the line w starts on), leaves
                       lastTokenType = lt' and continues in front of r
     wf_layout         lexemes alternating with separator runs (blank, tab, CR, LF, // and /* */
                       comments with arbitrary bodies, comment running to the end of input); each
                       lexeme is followed by text its C admits
     expect items ln   the tokens of the lexemes, each on line ln + (number of LF before it) *)
From P2 Require Import Base.Prelude Lex.Token Lex.Tok Lex.TokProofs.
From P2 Require Syn.Ast Syn.Parse Syn.ParsePos Syn.ParsePosProofs Syn.TextErrLine Syn.TextToAst Syn.Lower Sem.Syntax Sem.Ref Sem.FromText Lex.TextProofs.
Local Open Scope N_scope.

(* ---- C04, tokenizer half: for every rune string and configuration the scanner terminates within
   length+2 iterations of run (every inner loop within the same bound) and yields a token list *)
Theorem tokenize_total : forall cfg rs, ops_ok cfg ->
  exists ts, tokenize_fuel (length rs + 2) cfg rs = Some ts.
Proof. exact tokenize_total_lemma. Qed.

(* ---- layouts: the scanner yields exactly the tokens of the lexemes, on the lines they start on *)
Theorem layout_tokens_and_lines : forall cfg lt lb items, ops_ok cfg -> wf_layout cfg lt lb items ->
  forall ln, lex cfg lt lb (fresh (layout_text items) ln) = expect items ln.
Proof. exact layout_correct. Qed.

(* inserting, removing or exchanging separators between the same lexemes never changes the tokens *)
Theorem layout_invariance : forall cfg items items', ops_ok cfg ->
  wf_layout cfg tInvalid false items -> wf_layout cfg tInvalid false items' ->
  lexeme_tokens items = lexeme_tokens items' ->
  map strip_line (tokenize cfg (layout_text items)) = map strip_line (tokenize cfg (layout_text items')).
Proof. exact layout_invariance_lemma. Qed.

(* the line of a token = 1 + number of LF before the first rune of its lexeme, LF inside block comments included *)
Theorem line_is_start_line : forall cfg pre w toks post, ops_ok cfg ->
  wf_layout cfg tInvalid false (pre ++ ILex w toks :: post) ->
  exists before after,
    tokenize cfg (layout_text (pre ++ ILex w toks :: post)) =
    before ++ map (at_line (1 + count_lf (layout_text pre))) toks ++ after.
Proof. exact line_is_start_line_lemma. Qed.

(* separators: skipped in front of any input; they set lastWasBlank and advance the line by their LFs *)
Theorem separators_skipped : forall l cfg lt lb r ln, ops_ok cfg -> seps_ok (c_comments cfg) l = true ->
  lex cfg lt lb (fresh (seps_text l ++ r) ln)
  = lex cfg lt (lb || negb (is_nil l)) (fresh r (ln + count_lf (seps_text l))).
Proof. exact lex_seps. Qed.

(* the lookahead behind a token is invisible *)
Theorem lookahead_invisible : forall cfg lt lb s, ops_ok cfg -> s_isLast s = false ->
  lex cfg lt lb (unread (snd (next (c_comments cfg) true s))) = lex cfg lt lb s.
Proof. exact lex_unread_next. Qed.

(* ---- literals *)
Theorem string_literal_roundtrip : forall cfg s, ops_ok cfg -> no_nul s ->
  tokenize cfg (string_literal s) = [mkTok tString s 1].
Proof. exact string_literal_roundtrip_lemma. Qed.

Theorem string_literal_lexeme : forall cfg lt lb s, ops_ok cfg -> no_nul s ->
  lexeme_at cfg lt lb (string_literal s) [(tString, s)] tInvalid anything.
Proof. exact lexeme_string. Qed.

Theorem quoted_ident_exact : forall cfg s, ops_ok cfg -> ~ In 0 s -> ~ In 39 s ->
  tokenize cfg (quoted_ident s) = [mkTok tIdent s 1].
Proof. exact quoted_ident_exact_lemma. Qed.

(* ... in particular when the content spells a keyword, a text operator, a number or an operator of the configuration *)
Theorem quoted_ident_literal : forall ops tops kws cm cf mk letter number s,
  nonul ops -> ~ In 0 s -> ~ In 39 s ->
  tokenize (mkCfg ops tops kws cm cf mk letter number) (quoted_ident s) = [mkTok tIdent s 1].
Proof. exact quoted_ident_literal_lemma. Qed.

Theorem quoted_ident_lexeme : forall cfg lt lb s, ops_ok cfg -> ~ In 0 s -> ~ In 39 s ->
  lexeme_at cfg lt lb (quoted_ident s) (mul_toks lt ++ [(tIdent, s)]) (this_ty cfg tIdent) anything.
Proof. exact lexeme_quoted. Qed.

(* ---- typographic spellings *)
Theorem superscripts : forall cfg lt lb n d, ops_ok cfg -> superscript n = Some d ->
  lexeme_at cfg lt lb [n] [(tOperate, [94]); (tNumber, [d])] tInvalid anything.
Proof. exact lexeme_superscript. Qed.

Theorem aliases_equal_ascii : forall cfg lt lb c w, ops_ok cfg -> headok (alias c) = true ->
  number_start cfg (alias c) = false -> ident_start cfg (alias c) = false ->
  trie_alive (c_ops cfg) (c :: w) = true ->
  lexeme_at cfg lt lb (c :: w) [op_tok cfg (map alias (c :: w))] tInvalid (op_follows cfg (c :: w)).
Proof. exact aliases_equal_ascii_lemma. Qed.

(* ---- lexemes that end by lookahead: numbers, identifiers / keywords / text operators, operators *)
Theorem number_lexeme : forall cfg lt lb c w, ops_ok cfg -> wordhead c = true -> forallb plainc w = true ->
  number_start cfg c = true -> chain (number_valid cfg) 0 (c :: w) = true ->
  lexeme_at cfg lt lb (c :: w) (mul_toks lt ++ [(tNumber, c :: w)]) (this_ty cfg tNumber)
            (stops cfg (number_valid cfg) (last w c)).
Proof. exact lexeme_number. Qed.

Theorem word_lexeme : forall cfg lt lb c w, ops_ok cfg -> wordhead c = true -> forallb plainc w = true ->
  number_start cfg c = false -> ident_start cfg c = true -> chain (ident_valid cfg) 0 (c :: w) = true ->
  lexeme_at cfg lt lb (c :: w) (fst (word_result cfg lt (c :: w))) (snd (word_result cfg lt (c :: w)))
            (stops cfg (ident_valid cfg) (last w c)).
Proof. exact lexeme_word. Qed.

Theorem operator_lexeme : forall cfg lt lb c w, ops_ok cfg -> headok (alias c) = true ->
  number_start cfg (alias c) = false -> ident_start cfg (alias c) = false ->
  trie_alive (c_ops cfg) (c :: w) = true ->
  lexeme_at cfg lt lb (c :: w) [op_tok cfg (c :: w)] tInvalid (op_follows cfg (c :: w)).
Proof. exact lexeme_operator. Qed.

Theorem punct_lexeme : forall cfg lt lb n ty, ops_ok cfg -> single_tok n = Some ty ->
  lexeme_at cfg lt lb [n] [(ty, [n])] tInvalid anything.
Proof. exact lexeme_punct. Qed.

Theorem open_lexeme : forall cfg lt lb, ops_ok cfg ->
  lexeme_at cfg lt lb [40] ((if mul_before_open lt lb then [(tOperate, [42])] else []) ++ [(tOpen, [40])]) tInvalid anything.
Proof. exact lexeme_open. Qed.

Theorem close_lexeme : forall cfg lt lb, ops_ok cfg ->
  lexeme_at cfg lt lb [41] [(tClose, [41])] (this_ty cfg tClose) anything.
Proof. exact lexeme_close. Qed.

(* a scan stops in front of every separator and at the end of the input *)
Theorem scan_stops_at_separator : forall cfg valid p x r, sep_ok (c_comments cfg) x = true -> sep_final x = false ->
  rejects_blanks valid p -> stops cfg valid p (sep_text x ++ r).
Proof. exact stops_sep. Qed.

Theorem operator_stops_at_separator : forall cfg w x r, ops_clean cfg -> sep_ok (c_comments cfg) x = true ->
  sep_final x = false -> noopen (c_comments cfg) w (sep_text x ++ r) = true -> op_follows cfg w (sep_text x ++ r).
Proof. exact op_follows_sep. Qed.

(* ---- comfort mode: the omitted multiplication sign.  The number / identifier / quoted-identifier /
   '(' lexemes above start with mul_toks lt resp. mul_before_open lt lb; in comfort mode these are: *)
Theorem comfort_implicit_mul : forall cfg, c_comfort cfg = true ->
  (this_ty cfg tNumber = tNumber /\ this_ty cfg tIdent = tIdent /\ this_ty cfg tClose = tClose) /\
  (forall lt, mul_toks lt = (if match lt with tNumber | tIdent | tClose => true | _ => false end
                             then [(tOperate, [42])] else [])) /\
  (forall lt lb, mul_before_open lt lb =
                 match lt with tNumber | tClose => true | tIdent => lb | _ => false end).
Proof. exact comfort_bookkeeping. Qed.

Theorem no_comfort_no_implicit_mul : forall cfg, c_comfort cfg = false -> forall t, this_ty cfg t = tInvalid.
Proof. exact no_comfort_bookkeeping. Qed.

(* ================================================================ from the text to the AST and to the value
   Compositions with the parser model (Syn/Parse.v; full grammar: Syn/Full*.v, Syn/TextToAst.v), the lowering to the
   semantic AST (Syn/Lower.v), the reference semantics (Sem/Ref.v) and the generator model (Sem/Gen.v,
   Sem/FromText.v run_text) for the value configuration value.New(). *)

(* two well-formed layouts of the same lexemes give the same parse result - the same AST or the same error -
   for every tokenizer configuration, every parser configuration and every identifier chain *)
Theorem C15_layout_ast_invariant :
  forall (tc : tcfg) (pc : P2.Syn.Parse.pcfg) (ids : P2.Syn.Parse.idents) items items',
  ops_ok tc -> wf_layout tc tInvalid false items -> wf_layout tc tInvalid false items' ->
  lexeme_tokens items = lexeme_tokens items' ->
  P2.Syn.Parse.parse_tokens pc ids (tokenize tc (layout_text items))
  = P2.Syn.Parse.parse_tokens pc ids (tokenize tc (layout_text items')).
Proof. exact P2.Syn.TextToAst.text_layout_irrelevant. Qed.

(* ... and the same outcome of Generate + Eval in the models (value configuration): value, error, or panic *)
Theorem C15_layout_meaning_invariant : forall tc known fuel argnames items items' args,
  ops_ok tc -> wf_layout tc tInvalid false items -> wf_layout tc tInvalid false items' ->
  lexeme_tokens items = lexeme_tokens items' ->
  P2.Sem.FromText.run_text tc known fuel argnames (layout_text items) args
  = P2.Sem.FromText.run_text tc known fuel argnames (layout_text items') args.
Proof. exact P2.Sem.FromText.text_layout_irrelevant_run. Qed.

(* every NUL-free string (any code points, quotes, backslashes, line breaks, alias runes): its literal spelling
   tokenizes to one string token with that content, parses to a constant, lowers to the string value, the reference
   semantics evaluates it to that string and so does the generated function *)
Theorem C15_string_literal_value : forall tc known fuel argnames s, ops_ok tc -> no_nul s ->
  tokenize tc (string_literal s) = [mkTok tString s 1] /\
  P2.Syn.Parse.parse_tokens P2.Syn.Lower.value_pcfg (P2.Syn.Lower.value_ids argnames) (tokenize tc (string_literal s))
    = P2.Syn.Parse.POk (P2.Syn.Ast.AConst (115 :: 58 :: s)) /\
  P2.Sem.FromText.text_ast tc argnames (string_literal s) = Some (P2.Sem.Syntax.AConst (P2.Sem.Syntax.VStr s)) /\
  (forall env, P2.Sem.Ref.eval known (S fuel) env (P2.Sem.Syntax.AConst (P2.Sem.Syntax.VStr s))
               = P2.Sem.Syntax.Ok (P2.Sem.Syntax.VStr s)) /\
  P2.Sem.FromText.run_text tc known (S fuel) [] (string_literal s) [] = P2.Sem.Syntax.Ok (P2.Sem.Syntax.VStr s).
Proof. exact P2.Lex.TextProofs.string_literal_value_lemma. Qed.

(* a quoted identifier denotes the name it contains: in  let 'c'=a;'c'  (argument a; ASCII letter/digit classes,
   comments on or off) the two quoted identifiers are the tokens tIdent c, the text parses to Let c a c, and the
   reference semantics returns the value of a - for every content c without NUL, quote and line break, whether or
   not c spells a keyword, an operator, a number, a built-in function or the argument itself *)
Theorem C15_quoted_ident_denotes_content : forall cm known fuel c v, ~ In 0 c -> ~ In 39 c -> ~ In 10 c ->
  let tc := P2.Lex.TextProofs.value_tcfg_ascii cm in
  let text := [108; 101; 116; 32] ++ quoted_ident c ++ [61; 97; 59] ++ quoted_ident c in
  map strip_line (tokenize tc text)
    = [(tKeyWord, [108; 101; 116]); (tIdent, c); (tOperate, [61]); (tIdent, [97]); (tSemicolon, [59]); (tIdent, c)] /\
  P2.Syn.Parse.parse_tokens P2.Syn.Lower.value_pcfg (P2.Syn.Lower.value_ids [[97]]) (tokenize tc text)
    = P2.Syn.Parse.POk (P2.Syn.Ast.ALet c (P2.Syn.Ast.AIdent [97] false) (P2.Syn.Ast.AIdent c false)) /\
  P2.Sem.FromText.text_ast tc [[97]] text
    = Some (P2.Sem.Syntax.ALet c (P2.Sem.Syntax.AIdent [97]) (P2.Sem.Syntax.AIdent c)) /\
  P2.Sem.Ref.eval known (S (S fuel)) [([97], v)]
    (P2.Sem.Syntax.ALet c (P2.Sem.Syntax.AIdent [97]) (P2.Sem.Syntax.AIdent c)) = P2.Sem.Syntax.Ok v.
Proof. exact P2.Lex.TextProofs.quoted_ident_denotes_lemma. Qed.

(* ---------------------------------------------------------------- error lines
   Syn/ParsePos.v is the parser model of Syn/Parse.v, function by function, on tokens that carry an annotation; its
   error result carries the annotation of the token parser2.go builds the error from - always the token the last
   tokenizer.Next() returned (t.Errorf, unexpected(.., t), found.Errorf, t.EnhanceErrorf), or the pseudo token
   TokenEof = Token{tEof, "EOF", -1} behind the end of the stream (QErr None: Error() prints no line).
     parse_pos pc ids ts     the annotation is the line: what Parser.Parse reports for the token stream ts
     parse_idx pc ids tks    the annotation is the position in the stream: WHICH token the error is built from
   The two are tied by naturality (the parser never looks at the annotation). *)

(* forgetting the position gives the parser model of C03 / C04: the same outcome kind, the same AST *)
Theorem C15_parse_pos_erasure : forall (pc : P2.Syn.Parse.pcfg) (ids : P2.Syn.Parse.idents) (ts : list token),
  P2.Syn.ParsePos.erase (P2.Syn.ParsePos.parse_pos pc ids ts) = P2.Syn.Parse.parse_tokens pc ids ts.
Proof. exact P2.Syn.ParsePosProofs.parse_pos_erase. Qed.

(* the position reported by the position instance is a position of the stream *)
Theorem C15_error_position_in_range : forall (pc : P2.Syn.Parse.pcfg) (ids : P2.Syn.Parse.idents) (tks : list P2.Syn.Parse.tk) i,
  P2.Syn.ParsePos.parse_idx pc ids tks = P2.Syn.ParsePos.QErr (Some i) -> (i < length tks)%nat.
Proof. exact P2.Syn.ParsePosProofs.parse_idx_in_range. Qed.

(* for every parser configuration, identifier chain and token stream with lines: when parsing fails with line L, L is
   the line of the token of the stream at the position the position instance reports - a position that depends on the
   types and images of the tokens only *)
Theorem C15_error_line_is_token_line : forall (pc : P2.Syn.Parse.pcfg) (ids : P2.Syn.Parse.idents) (ts : list token) L,
  P2.Syn.ParsePos.parse_pos pc ids ts = P2.Syn.ParsePos.QErr (Some L) ->
  exists i t, P2.Syn.ParsePos.parse_idx pc ids (map P2.Syn.Parse.untok ts) = P2.Syn.ParsePos.QErr (Some i)
              /\ nth_error ts i = Some t /\ tline t = L.
Proof. exact P2.Syn.ParsePosProofs.error_line_is_token_line_lemma. Qed.

(* conversely: an error at token number i reports the line of token number i, whatever the lines are *)
Theorem C15_error_at_token_reports_its_line : forall (pc : P2.Syn.Parse.pcfg) (ids : P2.Syn.Parse.idents) (ts : list token) i,
  P2.Syn.ParsePos.parse_idx pc ids (map P2.Syn.Parse.untok ts) = P2.Syn.ParsePos.QErr (Some i) ->
  exists t, nth_error ts i = Some t /\ P2.Syn.ParsePos.parse_pos pc ids ts = P2.Syn.ParsePos.QErr (Some (tline t)).
Proof. exact P2.Syn.ParsePosProofs.error_at_token_reports_its_line. Qed.

(* an error built from TokenEof (the input ends too early) carries no line; whether that happens depends on the types
   and images of the tokens only *)
Theorem C15_error_at_eof_has_no_line : forall (pc : P2.Syn.Parse.pcfg) (ids : P2.Syn.Parse.idents) (ts : list token),
  P2.Syn.ParsePos.parse_pos pc ids ts = P2.Syn.ParsePos.QErr None
  <-> P2.Syn.ParsePos.parse_idx pc ids (map P2.Syn.Parse.untok ts) = P2.Syn.ParsePos.QErr None.
Proof. exact P2.Syn.ParsePosProofs.error_at_eof_has_no_line. Qed.

(* from TEXT: in a well-formed layout, if the offending token (number i of the lexemes' tokens) belongs to the lexeme w,
   the line reported is 1 + the number of LF in the text in front of w - LF inside block comments and behind line
   comments included; CR does not count (token.go increments the line on LF only, so CRLF counts once) *)
Theorem C15_error_line_layout :
  forall (tc : tcfg) (pc : P2.Syn.Parse.pcfg) (ids : P2.Syn.Parse.idents) pre w toks post i,
  ops_ok tc -> wf_layout tc tInvalid false (pre ++ ILex w toks :: post) ->
  P2.Syn.ParsePos.parse_idx pc ids (lexeme_tokens (pre ++ ILex w toks :: post)) = P2.Syn.ParsePos.QErr (Some i) ->
  (length (lexeme_tokens pre) <= i < length (lexeme_tokens pre) + length toks)%nat ->
  P2.Syn.ParsePos.parse_pos pc ids (tokenize tc (layout_text (pre ++ ILex w toks :: post)))
  = P2.Syn.ParsePos.QErr (Some (1 + count_lf (layout_text pre))).
Proof. exact P2.Syn.TextErrLine.error_line_layout_lemma. Qed.

(* ... and every line reported for a well-formed layout arises that way *)
Theorem C15_error_line_layout_exists :
  forall (tc : tcfg) (pc : P2.Syn.Parse.pcfg) (ids : P2.Syn.Parse.idents) items L,
  ops_ok tc -> wf_layout tc tInvalid false items ->
  P2.Syn.ParsePos.parse_pos pc ids (tokenize tc (layout_text items)) = P2.Syn.ParsePos.QErr (Some L) ->
  exists pre w toks post i, items = pre ++ ILex w toks :: post
    /\ P2.Syn.ParsePos.parse_idx pc ids (lexeme_tokens items) = P2.Syn.ParsePos.QErr (Some i)
    /\ (length (lexeme_tokens pre) <= i < length (lexeme_tokens pre) + length toks)%nat
    /\ L = 1 + count_lf (layout_text pre).
Proof. exact P2.Syn.TextErrLine.error_line_layout_exists_lemma. Qed.

(* two well-formed layouts of the same lexemes: the same outcome and AST, an error at the SAME token (one run of the
   position instance on the lexemes), each text reporting the line that token has in it *)
Theorem C15_error_token_layout_invariant :
  forall (tc : tcfg) (pc : P2.Syn.Parse.pcfg) (ids : P2.Syn.Parse.idents) items items',
  ops_ok tc -> wf_layout tc tInvalid false items -> wf_layout tc tInvalid false items' ->
  lexeme_tokens items = lexeme_tokens items' ->
  P2.Syn.ParsePos.parse_pos pc ids (tokenize tc (layout_text items))
    = P2.Syn.ParsePosProofs.qmap nat N (P2.Syn.ParsePosProofs.line_at (tokenize tc (layout_text items)))
        (P2.Syn.ParsePos.parse_idx pc ids (lexeme_tokens items))
  /\ P2.Syn.ParsePos.parse_pos pc ids (tokenize tc (layout_text items'))
    = P2.Syn.ParsePosProofs.qmap nat N (P2.Syn.ParsePosProofs.line_at (tokenize tc (layout_text items')))
        (P2.Syn.ParsePos.parse_idx pc ids (lexeme_tokens items)).
Proof. exact P2.Syn.TextErrLine.error_token_layout_invariant_lemma. Qed.

(* ---------------------------------------------------------------- non-vacuity *)
(* a configuration with comments and comfort mode; letters a-z, digits 0-9 *)
Definition cfgE : tcfg :=
  mkCfg [[43]; [45]; [42]; [47]; [94]; [45; 62]; [60; 61]; [60]] [] [[105; 102]] true true MSimple
        (fun c => (97 <=? c) && (c <=? 122)) (fun c => (48 <=? c) && (c <=? 57)).

Lemma cfgE_ops_ok : ops_ok cfgE.
Proof.
  intros o H. cbn in H.
  repeat (destruct H as [<-|H]; [cbn; intuition discriminate|]). destruct H.
Qed.

(* x, block comment with a line break, 12 (comfort: product), blank, the operator "–" written as alias, "s\n" *)
Definition itemsE : list item :=
  [ILex [120] [(tIdent, [120])]; ISep [SBlockC [99; 10]];
   ILex [49; 50] [(tOperate, [42]); (tNumber, [49; 50])]; ISep [SBlank; SLineC [34] 10];
   ILex [8211] [(tOperate, [45])]; ILex (string_literal [115; 10]) [(tString, [115; 10])];
   ISep [SLineE [42; 47]]].

Lemma sE_no_nul : no_nul [115; 10].
Proof. intro H. cbn in H. intuition discriminate. Qed.

Example itemsE_wf : wf_layout cfgE tInvalid false itemsE.
Proof.
  unfold itemsE.
  eapply wf_lex; [exact (lexeme_word cfgE tInvalid false 120 [] cfgE_ops_ok eq_refl eq_refl eq_refl eq_refl eq_refl)
                 |reflexivity|intro ln; right; reflexivity|].
  eapply wf_sep; [reflexivity|].
  eapply wf_lex; [exact (lexeme_number cfgE tIdent true 49 [50] cfgE_ops_ok eq_refl eq_refl eq_refl eq_refl)
                 |reflexivity|intro ln; right; reflexivity|].
  eapply wf_sep; [reflexivity|].
  eapply wf_lex; [exact (lexeme_operator cfgE tNumber true 8211 [] cfgE_ops_ok eq_refl eq_refl eq_refl eq_refl)
                 |reflexivity|split; [reflexivity|intro ln; reflexivity]|].
  eapply wf_lex; [exact (lexeme_string cfgE tInvalid false [115; 10] cfgE_ops_ok sE_no_nul)
                 |reflexivity|exact I|].
  exact (wf_sep_final cfgE tInvalid false [] (SLineE [42; 47]) eq_refl eq_refl eq_refl).
Qed.

(* the theorem, instantiated: tokens and lines of that input *)
Example itemsE_tokens :
  tokenize cfgE (layout_text itemsE)
  = [mkTok tIdent [120] 1; mkTok tOperate [42] 2; mkTok tNumber [49; 50] 2; mkTok tOperate [45] 3;
     mkTok tString [115; 10] 3].
Proof.
  rewrite (tokenize_lex cfgE _ cfgE_ops_ok). rewrite (layout_correct cfgE _ _ itemsE cfgE_ops_ok itemsE_wf). reflexivity.
Qed.

(* ... and the executable model computes the same *)
Example itemsE_model : tokenize_fuel (length (layout_text itemsE) + 2) cfgE (layout_text itemsE)
  = Some [mkTok tIdent [120] 1; mkTok tOperate [42] 2; mkTok tNumber [49; 50] 2; mkTok tOperate [45] 3;
          mkTok tString [115; 10] 3].
Proof. vm_compute. reflexivity. Qed.

(* the keyword of cfgE, quoted: an identifier *)
Example quoted_keyword_is_identifier :
  tokenize cfgE (quoted_ident [105; 102]) = [mkTok tIdent [105; 102] 1] /\ tokenize cfgE [105; 102] = [mkTok tKeyWord [105; 102] 1].
Proof. split; vm_compute; reflexivity. Qed.

(* C04 non-vacuity: replacement rune inside an operator, NUL inside a string (ends it as EOL) and inside a quoted
   identifier (ends it), implicit products in comfort mode, unterminated block comment at the end *)
Example malformed_input_tokens :
  tokenize_fuel 24 cfgE [60; 65533; 61; 32; 34; 97; 0; 98; 32; 39; 113; 10; 47; 42; 32; 42; 99; 0; 100; 47; 42; 120]
  = Some [mkTok tOperate [60] 1; mkTok tInvalid [65533] 1; mkTok tInvalid [61] 1; mkTok tInvalid [69; 79; 76] 1;
          mkTok tIdent [98] 1; mkTok tOperate [42] 1; mkTok tIdent [113; 10; 47; 42; 32; 42; 99] 1;
          mkTok tOperate [42] 1; mkTok tIdent [100] 1].
Proof. vm_compute. reflexivity. Qed.

(* the composed theorems on concrete inputs, by computation of the models: the string  "\"  LF •  and the quoted keyword 'if' *)
Example string_value_computed :
  P2.Sem.FromText.run_text (P2.Lex.TextProofs.value_tcfg_ascii true) [] 5 [] (string_literal [34; 92; 10; 8226]) []
  = P2.Sem.Syntax.Ok (P2.Sem.Syntax.VStr [34; 92; 10; 8226]).
Proof. vm_compute. reflexivity. Qed.

Example quoted_keyword_binding_computed :
  P2.Sem.FromText.run_text (P2.Lex.TextProofs.value_tcfg_ascii true) [] 9 [[97]]
    ([108; 101; 116; 32] ++ quoted_ident [105; 102] ++ [61; 97; 59] ++ quoted_ident [105; 102]) [P2.Sem.Syntax.VInt 7]
  = P2.Sem.Syntax.Ok (P2.Sem.Syntax.VInt 7).
Proof. vm_compute. reflexivity. Qed.

(* error lines, non-vacuity: the layout itemsE (x, block comment with LF, 12, blank, line comment, -, "s\n") under a
   parser configuration without a string handler: the string token (number 4, the 6th item, on line 3) is the offending
   token; the hypotheses of C15_error_line_layout hold and the theorem gives line 3; the executable models compute the same *)
Definition pcfgE : P2.Syn.Parse.pcfg := P2.Syn.Parse.mkPcfg [[45]; [42]] [] (Some (fun s => Some s)) None.
Definition idsE : P2.Syn.Parse.idents := [P2.Syn.Parse.SMap []].
Definition preE : list item := firstn 5 itemsE.

Example error_position_computed :
  P2.Syn.ParsePos.parse_idx pcfgE idsE (lexeme_tokens itemsE) = P2.Syn.ParsePos.QErr (Some 4%nat).
Proof. vm_compute. reflexivity. Qed.

Example error_line_by_theorem :
  P2.Syn.ParsePos.parse_pos pcfgE idsE (tokenize cfgE (layout_text itemsE)) = P2.Syn.ParsePos.QErr (Some 3).
Proof.
  exact (C15_error_line_layout cfgE pcfgE idsE preE (string_literal [115; 10]) [(tString, [115; 10])]
           [ISep [SLineE [42; 47]]] 4%nat cfgE_ops_ok itemsE_wf error_position_computed
           (conj (le_n 4) (le_n 5))).
Qed.

Example error_line_computed :
  P2.Syn.ParsePos.parse_pos pcfgE idsE (tokenize cfgE (layout_text itemsE)) = P2.Syn.ParsePos.QErr (Some 3).
Proof. vm_compute. reflexivity. Qed.

(* the input ends too early ( x - ): the error is built from TokenEof and carries no line;
   a stray token behind a complete expression ( x LF LF ) ): line 3 *)
Example error_at_eof_computed :
  P2.Syn.ParsePos.parse_pos pcfgE idsE (tokenize cfgE [120; 10; 45]) = P2.Syn.ParsePos.QErr None
  /\ P2.Syn.ParsePos.parse_pos pcfgE idsE (tokenize cfgE [120; 10; 10; 41]) = P2.Syn.ParsePos.QErr (Some 3).
Proof. split; vm_compute; reflexivity. Qed.

Print Assumptions tokenize_total.
Print Assumptions layout_tokens_and_lines.
Print Assumptions layout_invariance.
Print Assumptions line_is_start_line.
Print Assumptions separators_skipped.
Print Assumptions lookahead_invisible.
Print Assumptions string_literal_roundtrip.
Print Assumptions string_literal_lexeme.
Print Assumptions quoted_ident_exact.
Print Assumptions quoted_ident_literal.
Print Assumptions quoted_ident_lexeme.
Print Assumptions superscripts.
Print Assumptions aliases_equal_ascii.
Print Assumptions number_lexeme.
Print Assumptions word_lexeme.
Print Assumptions operator_lexeme.
Print Assumptions punct_lexeme.
Print Assumptions open_lexeme.
Print Assumptions close_lexeme.
Print Assumptions scan_stops_at_separator.
Print Assumptions operator_stops_at_separator.
Print Assumptions comfort_implicit_mul.
Print Assumptions no_comfort_no_implicit_mul.
Print Assumptions C15_layout_ast_invariant.
Print Assumptions C15_layout_meaning_invariant.
Print Assumptions C15_string_literal_value.
Print Assumptions C15_quoted_ident_denotes_content.
Print Assumptions C15_parse_pos_erasure.
Print Assumptions C15_error_position_in_range.
Print Assumptions C15_error_line_is_token_line.
Print Assumptions C15_error_at_token_reports_its_line.
Print Assumptions C15_error_at_eof_has_no_line.
Print Assumptions C15_error_line_layout.
Print Assumptions C15_error_line_layout_exists.
Print Assumptions C15_error_token_layout_invariant.
