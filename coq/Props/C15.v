(* C15 - token layout, comments and literal escapes do not change meaning (+ tokenizer half of C04). *)
From P2 Require Import Base.Prelude Lex.Token Lex.Tok Lex.TokProofs.
