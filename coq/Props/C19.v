(* C19 - the generic generator is correct for any value type.  (preliminary: table obligations only) *)
From P2 Require Import Base.Prelude Sem.Num Gen.Generic Gen.Instances Generated.ExampleCfg.

Theorem C19_float_samples_ok : float_samples_ok = true.
Proof. vm_compute. reflexivity. Qed.

Print Assumptions C19_float_samples_ok.
