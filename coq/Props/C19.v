(* C19 - The generic generator is correct for any value type.
   This file contains only the property theorems; each is closed by an exact lemma application (or by
   vm_compute of a decidable obligation on the tables regenerated from example/bool.go and example/minimal.go).

   Model (Gen/Generic.v): funcGen.New[V] with optional handlers absent - [run cfg opt args tokens vals] is
   Parser.Parse (Syn/Parse.v) . optimizer (opt = true; with the parse-time constant propagation of parseLet) or
   no optimizer (SetOptimizer(nil)) . GenerateFunc + Func.Eval on the value stack.
   Specification (Gen/Generic.v): [denote cfg rho e] - the operators' own definitions on the source tree e, whose
   structure is the grouping the declared priorities must reproduce; None = an error.
   [to_rt e] is e as a rendering tree; [flatten (pp d r)] the tokens of r with the parentheses the table demands
   plus [d node] redundant pairs around every node: ANY layout of the expression fragment (Syn/Render.v, C03).
   [regroup_ok cfg]: for every operator flagged commutative, whenever c1 op c2 = c is defined,
   (c1 op x) op c2 = c op x and (x op c1) op c2 = x op c for ALL x on which the left side is defined.
   [cfg_ok cfg] (decidable): distinct binary operators, function / constant names distinct, constants are not numbers.
   Purity is built into the model: operators and static functions are functions of their operands. *)
From P2 Require Import Base.Prelude Sem.Num Lex.Token Syn.Ast Syn.Parse Syn.Render Gen.Generic Gen.GenericProofs
  Gen.Instances Gen.InstanceProofs Generated.ExampleCfg Syn.Full Gen.GenericFull Gen.GenericFullProofs Gen.TextExample Syn.RenderComfort Gen.ComfortText.
From P2 Require Lex.Tok Lex.TokProofs.
Local Open Scope N_scope.

(* ---------- any value type, any table ---------- *)
(* every source expression of the expression fragment (constants, variables, unary, binary, static calls), every
   layout, every assignment, optimizer on and off: the generated function returns the value of the definitions *)
Theorem C19_generic : forall V (cfg : gcfg V), cfg_ok V cfg = true -> regroup_ok V cfg ->
  forall e r d args vals v (opt : bool),
    to_rt cfg e = Some r -> snames_ok e = true -> length args = length vals ->
    denote cfg (rho_of args vals) e = Some v ->
    run cfg opt args (flatten (pcfg_of cfg) (pp (pcfg_of cfg) d r)) vals = ROk v.
Proof. exact generic_correct. Qed.

(* let / if forms included, from the parsed tree on: for EVERY tree the generator accepts (gen_check: names bound,
   no redeclaration, static calls with the declared arity) whose environment semantics [geval] is defined, the
   code generated from the tree - optimized or not - computes it; in particular the optimizer (constant folding,
   regrouping, constant if, pure static calls on constants, constant-let propagation) is unobservable *)
Theorem C19_generic_ast : forall V (cfg : gcfg V), regroup_ok V cfg ->
  forall a args vals v,
    names_ok V cfg a = true -> gen_check cfg args a = true -> length args = length vals ->
    geval V cfg (combine args vals) a = Some v ->
    forall opt : bool, run_gast cfg args (if opt then opt_all cfg [] a else a) vals = ROk v.
Proof. exact gast_correct. Qed.

(* the three parts separately: slot discipline of the generated code, optimizer soundness, optimizer keeps trees compilable *)
Theorem C19_exec_sound : forall V (cfg : gcfg V) a am env data size v,
  gen_check cfg am a = true -> geval V cfg env a = Some v -> inv V am env data size ->
  exists data', exec cfg am a data size = (XOk v, data') /\ ext V data data' size.
Proof. exact exec_sound. Qed.

Theorem C19_opt_sound : forall V (cfg : gcfg V), regroup_ok V cfg -> forall a sub env env' v,
  env_rel V sub env env' -> geval V cfg env a = Some v -> geval V cfg env' (opt_all cfg sub a) = Some v.
Proof. exact opt_all_sound. Qed.

(* ---------- bool: no hypothesis left ---------- *)
(* the obligations on the regenerated table of example/bool.go (operators = their regenerated truth tables):
   side conditions and the regrouping law on all 8 triples per flagged operator ... *)
Theorem C19_bool_table_ok_finite : bool_table_ok bool_cfg = true.
Proof. vm_compute. reflexivity. Qed.

(* ... and for every one of the 2^4 settings of the commutative flags *)
Theorem C19_bool_flags_ok_finite : bool_flags_ok = true.
Proof. vm_compute. reflexivity. Qed.

(* the declared priorities of the two examples (lowest first): what the pinned source texts of the corpus are read with *)
Theorem C19_declared_priorities_finite :
  map (fun o => fst (fst (fst o))) ex_bool_ops = [[94]; [61]; [124]; [38]] /\
  map (fun o => fst (fst o)) ex_float_ops = [[61]; [60]; [62]; [43]; [45]; [42]; [47]; [94]] /\
  map fst ex_bool_unary = [[33]] /\ ex_float_unary = [[45]].
Proof. vm_compute. repeat split. Qed.

(* every prefix operator of every table the run uses has, in the REAL parser, the binary position the parser model
   computes (Parser.Parse unaryEntry.opPos = Syn/Parse.v op_pos): the two examples and the float table with
   0, 1, 2 and 3 prefix operators that are also binary (first, middle, last priority position) *)
Theorem C19_prefix_positions_finite : prefix_tables_ok ex_prefix_tables = true.
Proof. vm_compute. reflexivity. Qed.

Theorem C19_bool : forall e r d args vals v (opt : bool),
  to_rt bool_cfg e = Some r -> snames_ok e = true -> length args = length vals ->
  denote bool_cfg (rho_of args vals) e = Some v ->
  run bool_cfg opt args (flatten (pcfg_of bool_cfg) (pp (pcfg_of bool_cfg) d r)) vals = ROk v.
Proof. exact (bool_correct_cfg bool_cfg C19_bool_table_ok_finite). Qed.

Theorem C19_bool_any_flags : forall fl, In fl (all_flags (length ex_bool_ops)) ->
  forall e r d args vals v (opt : bool),
    to_rt (with_flags fl bool_cfg) e = Some r -> snames_ok e = true -> length args = length vals ->
    denote (with_flags fl bool_cfg) (rho_of args vals) e = Some v ->
    run (with_flags fl bool_cfg) opt args
        (flatten (pcfg_of (with_flags fl bool_cfg)) (pp (pcfg_of (with_flags fl bool_cfg)) d r)) vals = ROk v.
Proof. exact (bool_correct_flags C19_bool_flags_ok_finite). Qed.

Theorem C19_bool_ast : forall a args vals v,
  names_ok bool bool_cfg a = true -> gen_check bool_cfg args a = true -> length args = length vals ->
  geval bool bool_cfg (combine args vals) a = Some v ->
  forall opt : bool, run_gast bool_cfg args (if opt then opt_all bool_cfg [] a else a) vals = ROk v.
Proof. exact (bool_ast_correct_cfg bool_cfg C19_bool_table_ok_finite). Qed.

(* ---------- float ---------- *)
(* the model operators agree with the real ones on every regenerated sample the model decides *)
Theorem C19_float_samples_ok : float_samples_ok = true.
Proof. vm_compute. reflexivity. Qed.

Theorem C19_float_table_ok : cfg_ok fl float_cfg = true.
Proof. vm_compute. reflexivity. Qed.

(* the equality operator flagged commutative (example/minimal.go before the repair) refutes the regrouping law: *)
Theorem regroup_ok_float_eq_refuted : ~ regroup_ok fl float_cfg_old.
Proof. exact regroup_float_eq_refuted. Qed.

(* the repaired table no longer flags the equality operator: only sum and product are flagged *)
Theorem C19_float_flags_finite : map (fun o => (fst (fst o), snd o)) ex_float_ops =
  [([61], false); ([60], false); ([62], false); ([43], true); ([45], false); ([42], true); ([47], false); ([94], false)].
Proof. vm_compute. reflexivity. Qed.

(* the regrouping law of sum and product holds on the property's grid of exactly representable operands (13^3 triples each) *)
Theorem C19_float_regroup_on_grid_finite : float_regroup_on_grid float_cfg = true.
Proof. vm_compute. reflexivity. Qed.

(* ... and '=' fails it there *)
Theorem C19_float_old_regroup_on_grid_refuted : float_regroup_on_grid float_cfg_old = false.
Proof. vm_compute. reflexivity. Qed.

(* the flagged operators of the regenerated table are among sum and product ... *)
Theorem C19_float_flags_justified : float_flags_justified ex_float_ops = true.
Proof. vm_compute. reflexivity. Qed.

(* ... whose regrouping law holds for ALL operands (Sem/NumProofs.v: exact dyadic addition and multiplication are
   commutative and associative through the normalisation, signed zeros included; an operand that is not the normal
   form of a binary64 value is rejected by the operator): whenever c1 op c2, c1 op x and (c1 op x) op c2 are
   exactly representable, (c1 op c2) op x is, with the same value *)
Theorem C19_float_regroup_ok : regroup_ok fl float_cfg.
Proof. exact (float_regroup_ok C19_float_flags_justified). Qed.

(* the float instance, under no_inexact only: [denote ... = Some v] says that every intermediate result of the
   source expression is exactly representable (None = inexact / outside the exact model) *)
Theorem C19_float : forall e r d args vals v (opt : bool),
  to_rt float_cfg e = Some r -> snames_ok e = true -> length args = length vals ->
  denote float_cfg (rho_of args vals) e = Some v ->
  run float_cfg opt args (flatten (pcfg_of float_cfg) (pp (pcfg_of float_cfg) d r)) vals = ROk v.
Proof. exact (float_correct C19_float_flags_justified C19_float_table_ok). Qed.

(* the same table with no operator flagged (no regrouping at all) *)
Theorem C19_float_unflagged : 
  forall e r d args vals v (opt : bool),
    to_rt float_cfg_unflagged e = Some r -> snames_ok e = true -> length args = length vals ->
    denote float_cfg_unflagged (rho_of args vals) e = Some v ->
    run float_cfg_unflagged opt args
        (flatten (pcfg_of float_cfg_unflagged) (pp (pcfg_of float_cfg_unflagged) d r)) vals = ROk v.
Proof. exact (float_correct_unflagged float_cfg_unflagged eq_refl eq_refl). Qed.

Theorem C19_float_ast : forall a args vals v,
  names_ok fl float_cfg a = true -> gen_check float_cfg args a = true -> length args = length vals ->
  geval fl float_cfg (combine args vals) a = Some v ->
  forall opt : bool, run_gast float_cfg args (if opt then opt_all float_cfg [] a else a) vals = ROk v.
Proof. exact (float_ast_correct C19_float_flags_justified). Qed.

(* ---------- the full grammar: let and if-then-else, from the TOKENS and from the TEXT ---------- *)
(* Specification (Gen/GenericFull.v): [fdenote cfg rho r] - the operators' own definitions on the rendering tree r of
   Syn/Full.v (an expression tree with explicit parentheses; identifiers, numbers, binary and prefix operators,
   static calls, let x = v; b and if c then t else e under lexical scoping); every other form has no value.
   [fwf r]: parentheses are left out only where the declared priorities allow it, let only where parseLet is called.
   [accepts cfg args r] (decidable, on the tree): the tree denotes an AST on which Generate without the optimizer
   returns no error - names resolve, no let redeclares a visible name, calls are static calls with the declared
   arity - and identifiers are not reserved slot names.
   The implementation side runs the parser model on the tokens (parseLet's constant propagation included), then
   optimizer (with the optimize-at-parse-time pass of parseLet, opt_all) or no optimizer, then generator. *)
Theorem C19_generic_tokens : forall V (cfg : gcfg V), cfg_ok V cfg = true -> regroup_ok V cfg ->
  forall r args vals v (opt : bool),
    fwf (pcfg_of cfg) r = true -> accepts V cfg args r = true -> length args = length vals ->
    fdenote cfg (rho_of args vals) r = Some v ->
    run_tree cfg opt args r vals = ROk v.
Proof. exact generic_tree_correct. Qed.

(* ... and from text in EVERY well-formed layout (C15: lexemes separated by arbitrary runs of blanks, tabs, CR, LF,
   line and block comments) whose lexemes denote the tokens of the tree: tokenizer model, parser model, optimizer
   on or off, generator - Generate(text).Eval(vals) is the value of the definitions *)
Theorem C19_generic_text : forall V (cfg : gcfg V), cfg_ok V cfg = true -> regroup_ok V cfg ->
  forall tc items r args vals v (opt : bool),
    P2.Lex.TokProofs.ops_ok tc -> P2.Lex.TokProofs.wf_layout tc tInvalid false items ->
    P2.Lex.TokProofs.lexeme_tokens items = fflatten (pcfg_of cfg) r ->
    fwf (pcfg_of cfg) r = true -> accepts V cfg args r = true -> length args = length vals ->
    fdenote cfg (rho_of args vals) r = Some v ->
    run_text cfg tc opt args (P2.Lex.Tok.layout_text items) vals = ROk v.
Proof. exact generic_text_correct. Qed.

Theorem C19_bool_tokens : forall r args vals v (opt : bool),
  fwf (pcfg_of bool_cfg) r = true -> accepts bool bool_cfg args r = true -> length args = length vals ->
  fdenote bool_cfg (rho_of args vals) r = Some v -> run_tree bool_cfg opt args r vals = ROk v.
Proof. exact (bool_tree_correct_cfg bool_cfg C19_bool_table_ok_finite). Qed.

Theorem C19_bool_text : forall tc items r args vals v (opt : bool),
  P2.Lex.TokProofs.ops_ok tc -> P2.Lex.TokProofs.wf_layout tc tInvalid false items ->
  P2.Lex.TokProofs.lexeme_tokens items = fflatten (pcfg_of bool_cfg) r ->
  fwf (pcfg_of bool_cfg) r = true -> accepts bool bool_cfg args r = true -> length args = length vals ->
  fdenote bool_cfg (rho_of args vals) r = Some v ->
  run_text bool_cfg tc opt args (P2.Lex.Tok.layout_text items) vals = ROk v.
Proof. exact (bool_text_correct_cfg bool_cfg C19_bool_table_ok_finite). Qed.

(* float: no side condition beyond exactness ([fdenote ... = Some v]: every intermediate result is representable);
   the regrouping law of the flagged operators is C19_float_regroup_ok *)
Theorem C19_float_tokens : forall r args vals v (opt : bool),
  fwf (pcfg_of float_cfg) r = true -> accepts fl float_cfg args r = true -> length args = length vals ->
  fdenote float_cfg (rho_of args vals) r = Some v -> run_tree float_cfg opt args r vals = ROk v.
Proof. exact (float_tree_correct C19_float_flags_justified C19_float_table_ok). Qed.

Theorem C19_float_text : forall tc items r args vals v (opt : bool),
  P2.Lex.TokProofs.ops_ok tc -> P2.Lex.TokProofs.wf_layout tc tInvalid false items ->
  P2.Lex.TokProofs.lexeme_tokens items = fflatten (pcfg_of float_cfg) r ->
  fwf (pcfg_of float_cfg) r = true -> accepts fl float_cfg args r = true -> length args = length vals ->
  fdenote float_cfg (rho_of args vals) r = Some v ->
  run_text float_cfg tc opt args (P2.Lex.Tok.layout_text items) vals = ROk v.
Proof. exact (float_text_correct C19_float_flags_justified C19_float_table_ok). Qed.

(* COMFORT MODE (example/minimal.go calls SetComfort(true): Generated/ExampleCfg.ex_float_comfort): the text of a tree
   with multiplication signs LEFT OUT and lexemes set tight ([render_comfort], [cspellable]: Syn/RenderComfort.v, C03 -
   a sign is left out only where the scanner of token.go puts it back:  2a ,  2 a ,  a b ,  2(a) ,  a (b) ,  (a+1)(1-a) )
   evaluates to what the operators' definitions give for the tree - the value of the explicit products - for every
   tokenizer configuration, every tree of the fragment, every admissible choice of omissions, optimizer on or off *)
Theorem C19_generic_text_comfort : forall V (cfg : gcfg V), cfg_ok V cfg = true -> regroup_ok V cfg ->
  forall tc r ds args vals v (opt : bool),
    cspellable tc (pcfg_of cfg) r ds = true ->
    fwf (pcfg_of cfg) r = true -> accepts V cfg args r = true -> length args = length vals ->
    fdenote cfg (rho_of args vals) r = Some v ->
    run_text cfg tc opt args (render_comfort (pcfg_of cfg) r ds) vals = ROk v.
Proof. exact generic_text_comfort_correct. Qed.

Theorem C19_float_text_comfort : forall tc r ds args vals v (opt : bool),
  cspellable tc (pcfg_of float_cfg) r ds = true ->
  fwf (pcfg_of float_cfg) r = true -> accepts fl float_cfg args r = true -> length args = length vals ->
  fdenote float_cfg (rho_of args vals) r = Some v ->
  run_text float_cfg tc opt args (render_comfort (pcfg_of float_cfg) r ds) vals = ROk v.
Proof. exact (float_text_comfort_correct C19_float_flags_justified C19_float_table_ok). Qed.

(* ---------- non-vacuity ---------- *)
(* the commented three-line program of Gen/TextExample.v
     let x = a & b; // bind
     if x /* test */ then !c
     else x
   is a well-formed layout (ex_items_wf) of a well-formed accepted tree; by the theorem, for a,b,c = true,true,false: *)
Example C19_nonvacuous_text : forall opt : bool,
  run_text bool_cfg bool_tc opt bool_args ex_text [true; true; false] = ROk true.
Proof. exact (text_example C19_bool_table_ok_finite). Qed.

(* let y = a + 1; if y < b then y * 2 else -y   on the float table, a = 2, b = 4: 6; a = 2, b = 0.5: -3;
   the constant let  let k = 2; k * a  leaves no Let node (parseLet binds k as a constant) *)
Example C19_nonvacuous_float_let_if :
  let r := FLet [121] (FBin 3 (FIdent [97]) (FNum [49]))
             (FIf (FBin 1 (FIdent [121]) (FIdent [98])) (FBin 5 (FIdent [121]) (FNum [50])) (FUn [45] (FIdent [121]))) in
  fwf (pcfg_of float_cfg) r = true /\ accepts fl float_cfg float_args r = true /\
  fdenote float_cfg (rho_of float_args [FFin 1 1; FFin 1 2]) r = Some (FFin 3 1) /\
  run_tree float_cfg true float_args r [FFin 1 1; FFin 1 2] = ROk (FFin 3 1) /\
  run_tree float_cfg false float_args r [FFin 1 1; FFin 1 (-1)] = ROk (FFin (-3) 0) /\
  parse_opt float_cfg false float_args (fflatten (pcfg_of float_cfg) (FLet [107] (FNum [50]) (FBin 5 (FIdent [107]) (FIdent [97]))))
    = POk (GOp [42] (GConst (FFin 1 1)) (GIdent [97] false)).
Proof. vm_compute. repeat split. Qed.


(* !(a & b) | c  written with full parentheses, a=true b=true c=false; the optimizer on *)
Example C19_nonvacuous_bool :
  let e := SBin [124] (SUn [33] (SBin [38] (SName [97]) (SName [98]))) (SName [99]) in
  exists r, to_rt bool_cfg e = Some r /\ snames_ok e = true /\
            denote bool_cfg (rho_of bool_args [true; true; false]) e = Some false /\
            run bool_cfg true bool_args (flatten (pcfg_of bool_cfg) (pp_full (pcfg_of bool_cfg) r)) [true; true; false] = ROk false.
Proof. vm_compute. eexists. repeat split. Qed.

(* let x = a & true; if x then !b else x  as a tree: the optimizer folds nothing away here, the let pushes a slot *)
Example C19_nonvacuous_let_if :
  let a := GLet [120] (GOp [38] (GIdent [97] false) (GConst true))
             (GIf (GIdent [120] false) (GUn [33] (GIdent [98] false)) (GIdent [120] false)) in
  names_ok bool bool_cfg a = true /\ gen_check bool_cfg bool_args a = true /\
  geval bool bool_cfg (combine bool_args [true; false; false]) a = Some true /\
  run_gast bool_cfg bool_args (opt_all bool_cfg [] a) [true; false; false] = ROk true.
Proof. vm_compute. repeat split. Qed.

(* (2 = a) = 1 at a = 2 on the old float table: the definitions give 1, the optimized code 0 *)
Example C19_old_table_witness :
  let ts := [(tOpen, [40]); (tNumber, [50]); (tOperate, [61]); (tIdent, [97]); (tClose, [41]); (tOperate, [61]); (tNumber, [49])] in
  run float_cfg_old false [[97]] ts [FFin 1 1] = ROk (FFin 1 0) /\
  run float_cfg_old true [[97]] ts [FFin 1 1] = ROk (FFin 0 0) /\
  run float_cfg true [[97]] ts [FFin 1 1] = ROk (FFin 1 0).
Proof. vm_compute. repeat split. Qed.

(* (2 + a) + 0.5 with the optimizer: regrouped to 2.5 + a; and (a * 2) * 0.5 at a = -0 keeps the sign of zero *)
Example C19_nonvacuous_float_regroup :
  opt_all float_cfg [] (GOp [43] (GOp [43] (GConst (FFin 1 1)) (GIdent [97] false)) (GConst (FFin 1 (-1))))
  = GOp [43] (GConst (FFin 5 (-1))) (GIdent [97] false) /\
  run_gast float_cfg [[97]] (opt_all float_cfg [] (GOp [42] (GOp [42] (GIdent [97] false) (GConst (FFin 1 1))) (GConst (FFin 1 (-1)))))
           [FNegZero] = ROk FNegZero.
Proof. vm_compute. split; reflexivity. Qed.

(* comfort mode, non-vacuity, with the tokenizer of example/minimal.go (float_tc: comfort flag from the example): the
   trees of  2*a ,  (a+1)*(1-a) ,  2*(a) ,  a*b  are admissible with the directives that write them
     2a    (a+1)(1-a)    2(a)    a b
   they are accepted trees, and at a = 2, b = 4 the texts give 4, -3, 4, 8 - what the explicit texts give *)
Example C19_nonvacuous_comfort :
  let pc := pcfg_of float_cfg in
  let vals := [FFin 1 1; FFin 1 2] in
  P2.Lex.Tok.c_comfort float_tc = true /\
  map (fun p => render_comfort pc (fst p) (snd p)) [(cx_2a, cd_2a); (cx_prod, cd_prod); (cx_2pa, cd_2pa); (cx_ab, cd_ab)]
    = [[50; 97]; [40; 97; 43; 49; 41; 40; 49; 45; 97; 41]; [50; 40; 97; 41]; [97; 32; 98]] /\
  forallb (fun p => cspellable float_tc pc (fst p) (snd p) && fwf pc (fst p) && accepts fl float_cfg float_args (fst p))
    [(cx_2a, cd_2a); (cx_prod, cd_prod); (cx_2pa, cd_2pa); (cx_ab, cd_ab)] = true /\
  map (fdenote float_cfg (rho_of float_args vals)) [cx_2a; cx_prod; cx_2pa; cx_ab]
    = [Some (FFin 1 2); Some (FFin (-3) 0); Some (FFin 1 2); Some (FFin 1 3)] /\
  map (fun t => run_text float_cfg float_tc true float_args t vals) [[50; 97]; [40; 97; 43; 49; 41; 40; 49; 45; 97; 41]; [50; 40; 97; 41]; [97; 32; 98]]
    = [ROk (FFin 1 2); ROk (FFin (-3) 0); ROk (FFin 1 2); ROk (FFin 1 3)] /\
  map (fun t => run_text float_cfg float_tc false float_args t vals) [[50; 42; 97]; [40; 97; 43; 49; 41; 42; 40; 49; 45; 97; 41]; [50; 42; 40; 97; 41]; [97; 42; 98]]
    = [ROk (FFin 1 2); ROk (FFin (-3) 0); ROk (FFin 1 2); ROk (FFin 1 3)].
Proof. vm_compute. repeat split; reflexivity. Qed.

Print Assumptions C19_generic.
Print Assumptions C19_generic_tokens.
Print Assumptions C19_generic_text.
Print Assumptions C19_bool_tokens.
Print Assumptions C19_bool_text.
Print Assumptions C19_float_tokens.
Print Assumptions C19_float_text.
Print Assumptions C19_generic_text_comfort.
Print Assumptions C19_float_text_comfort.
Print Assumptions C19_generic_ast.
Print Assumptions C19_exec_sound.
Print Assumptions C19_opt_sound.
Print Assumptions C19_bool_table_ok_finite.
Print Assumptions C19_bool_flags_ok_finite.
Print Assumptions C19_declared_priorities_finite.
Print Assumptions C19_prefix_positions_finite.
Print Assumptions C19_bool.
Print Assumptions C19_bool_any_flags.
Print Assumptions C19_bool_ast.
Print Assumptions C19_float_samples_ok.
Print Assumptions C19_float_table_ok.
Print Assumptions regroup_ok_float_eq_refuted.
Print Assumptions C19_float_flags_finite.
Print Assumptions C19_float_regroup_on_grid_finite.
Print Assumptions C19_float_old_regroup_on_grid_refuted.
Print Assumptions C19_float_flags_justified.
Print Assumptions C19_float_regroup_ok.
Print Assumptions C19_float.
Print Assumptions C19_float_unflagged.
Print Assumptions C19_float_ast.
