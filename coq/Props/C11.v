(* C11 - placeholder until the proofs are in place (see Heap/ConcurrentProofs.v) *)
From P2 Require Import Base.Prelude Heap.ListHeap Heap.FuncState Heap.Concurrent.
