(* C11 - one generated function may be evaluated concurrently from many goroutines.
   This file contains only the property theorems; each is closed by an exact lemma application.

   Model: Heap/Concurrent.v - evaluations are scripts of heap steps (Heap/FuncState.v) interleaved under an
   explicit schedule; the write log of a step is COMPUTED (shared objects / cells of shared arrays whose value
   changed); each thread's stack and the objects it allocates are private by construction.
   frozen n0 h := every shared list object is materialised and has cap = len.

   What is proved for ALL schedules, thread counts, programs, arguments, capacity policies:
     - on a frozen heap no step of any evaluation writes a shared location (frozen_eval_is_readonly), the heap
       stays frozen (frozen_is_preserved), and every finished thread has its isolated outcome
       (concurrent_equals_isolated_partial: the side condition is `frozen`);
     - if heap steps are atomic (NOT true of List.Eval / List.Append in value/list.go at this commit: they are
       sequences of unsynchronised field writes) the outcomes are the isolated ones on every heap
       (concurrent_equals_isolated_atomic): the only thing that breaks C11 is the data race itself.
   What fails at this commit (refuted, with witnesses): Generate leaves constants that are not frozen, and
   evaluations write them (frozen_value_refuted, two_evals_conflict_refuted, lost_update_refuted).

   Full statement that fails (kept visible):
     forall cp p F calls sched, snd (generated cp p) = Some F -> all calls are calls of F ->
       [every finished thread has its isolated outcome] /\ [the write log of the run is empty]
   - it needs `frozen (nobjs h) h` for the heap h that Generate leaves. *)
From P2 Require Import Base.Prelude Heap.ListHeap Heap.ListHeapProofs Heap.FuncState Heap.FuncStateProofs
     Heap.Concurrent Heap.ConcurrentProofs Heap.MapHeap Heap.MapHeapProofs Heap.MapState Heap.MapStateProofs.

(* DESIGN.md: frozen_eval_is_readonly + frozen_is_preserved, for every interleaving of any number of evaluations *)
Theorem C11_frozen_eval_is_readonly : forall cp h calls sched, inv h ->
  Forall (fun c => func_ok h (c_fun c)) calls -> frozen (nobjs h) h ->
  let n0 := nobjs h in let a0 := length (h_arrs h) in
  let ts := map (call_script cp) calls in
  Forall (fun e => snd e = []) (sched_log n0 a0 h ts sched) /\
  shared_same n0 a0 h (fst (run_sched h ts sched)) /\
  frozen n0 (fst (run_sched h ts sched)).
Proof. exact frozen_readonly_lemma. Qed.

Theorem C11_frozen_is_preserved : forall cp h calls sched, inv h ->
  Forall (fun c => func_ok h (c_fun c)) calls -> frozen (nobjs h) h ->
  frozen (nobjs h) (fst (run_sched h (map (call_script cp) calls) sched)).
Proof. exact frozen_is_preserved_lemma. Qed.

(* DESIGN.md: concurrent_equals_isolated, under the side condition `frozen`: all steps on shared state are
   reads, so the interleaving semantics is justified for the Go code, and every finished thread shows the
   specification's outcome for its own call = the outcome of its isolated evaluation *)
Theorem C11_concurrent_equals_isolated_partial : forall cp h calls sched i r, inv h ->
  Forall (fun c => func_ok h (c_fun c)) calls -> frozen (nobjs h) h ->
  nth_error (snd (run_sched h (map (call_script cp) calls) sched)) i = Some (Done r) ->
  exists c, nth_error calls i = Some c /\ r = call_spec h c /\ r = snd (run_iso h (call_script cp c)).
Proof. exact concurrent_equals_isolated_partial_lemma. Qed.

(* ... and without the side condition, for code whose heap steps are atomic (what a repair of List.Eval /
   List.Append by a lock would establish): C09's persistence makes every interleaving harmless *)
Theorem C11_concurrent_equals_isolated_atomic : forall cp h calls sched i r, inv h ->
  Forall (fun c => func_ok h (c_fun c)) calls ->
  nth_error (snd (run_sched h (map (call_script cp) calls) sched)) i = Some (Done r) ->
  exists c, nth_error calls i = Some c /\ r = call_spec h c /\ r = snd (run_iso h (call_script cp c)).
Proof. exact concurrent_equals_isolated_lemma. Qed.

(* the heap Generate leaves on a new generator satisfies the hypotheses inv / func_ok of the theorems above *)
Theorem C11_generated_heap_ok : forall cp p,
  inv (fst (run_iso empty_heap (sc_generate cp p))) /\
  forall F, snd (run_iso empty_heap (sc_generate cp p)) = Some F -> func_ok (fst (run_iso empty_heap (sc_generate cp p))) F.
Proof. exact generated_heap_ok. Qed.

(* --- what does NOT hold at this commit ------------------------------------------------------------------ *)

(* `let c0=[1,2,3]; let c1=c0.map(e->e+1); c1[a0]+c1.append(a0).size()`: Generate leaves the lazy constant c1
   un-materialised, and the evaluation with a0 = 0 writes shared objects *)
Theorem C11_frozen_value_refuted : exists cp p args j F,
  snd (run_iso empty_heap (sc_generate cp p)) = Some F /\
  let h := fst (run_iso empty_heap (sc_generate cp p)) in
  frozenb (nobjs h) h = false /\ writes_shared cp h F args j <> [].
Proof. exact frozen_value_refuted_lemma. Qed.

(* `let c0=[1,2]; let c1=c0.append(3); c1.append(a0)` (c1: len 3, spare capacity): the evaluations with 7 and
   with 8 both write the constant's slice header and cell 3 of its backing array *)
Theorem C11_two_evals_conflict_refuted : exists cp p args1 args2 j F,
  snd (run_iso empty_heap (sc_generate cp p)) = Some F /\
  let h := fst (run_iso empty_heap (sc_generate cp p)) in
  common_writes (writes_shared cp h F args1 j) (writes_shared cp h F args2 j) = [LObj 1; LCell 1 3].
Proof. exact two_evals_conflict_refuted_lemma. Qed.

(* ... and two evaluations of the lazy-constant program both write the constant's items/itemsPresent/iterable *)
Theorem C11_two_lazy_evals_conflict_refuted : exists cp p args1 args2 j F,
  snd (run_iso empty_heap (sc_generate cp p)) = Some F /\
  let h := fst (run_iso empty_heap (sc_generate cp p)) in
  In (LObj 1) (common_writes (writes_shared cp h F args1 j) (writes_shared cp h F args2 j)).
Proof. exact two_lazy_evals_conflict_refuted_lemma. Qed.

(* List.Append's three unsynchronised accesses, both goroutines reading the header before either caps it:
   the first goroutine's result list shows the SECOND goroutine's element (observed on the real code:
   [2, 4, 6, 1] returned for x = 0) *)
Theorem C11_lost_update_refuted : exists ops a x y, let h := run ops in
  inv h /\ a < nobjs h /\
  fst (racy_append_pair h a x y) <> icontent h a ++ [x] /\
  fst (racy_append_pair h a x y) = icontent h a ++ [y].
Proof. exact lost_update_refuted_lemma. Qed.

(* the MAP fragment (Heap/MapState.v): an evaluation with put / + / field access / size on constant maps builds wrapper
   storages and READS entry arrays; it writes nothing (it is a function, not a heap step: every map constant is
   "frozen" by construction of value/map.go).  Whatever map operations other threads perform before or between its
   reads (`ops`: any sequence of MapHeap operations - they only add arrays and maps), its outcome is the isolated one *)
Theorem C11_map_concurrent_equals_isolated : forall h ops cs args b, mwf h -> consts_of h cs ->
  meval_on (fold_left mstep ops h) cs args b = meval_on h cs args b.
Proof. exact map_eval_history_independent_lemma. Qed.

(* constants that are closures returned by built-ins folded at Generate time (createLowPass, createInterpolation,
   linearReg) are frozen as the code is: they capture immutable data.  The shape that would break C11 - a captured
   mutable cell, e.g. an interval hint validated before use - is a function of its argument alone when run
   isolated, and gives another evaluation's interval under the schedule A.check; B.check; A.use.  (Witness for
   the MUTATED design; the correspondence run evaluates these built-ins from 8-12 goroutines under -race.) *)
Theorem C11_constant_with_state_discriminates : exists xs ys xa xb last,
  lookup_isolated xs ys xa last = 400%Z /\ lookup_interleaved xs ys xa xb last = 0%Z.
Proof. exact constant_with_state_lemma. Qed.

(* non-vacuity: a frozen heap with a generated function exists (the constant is forced at Generate time by
   `let n0=c1.size();`; with a capacity policy that allocates exactly, both lists have cap = len), three evaluations interleaved step by step *)
Example C11_nonvacuous :
  let cpx := mkCaps (fun n => n) (fun n => n) in
  let p := mkP [DL (LLit [4; 5; 6]%Z); DL (LAccept (SLit 6) (LConst 0)); DS 1]
               (BZ (ZAdd (ZS (SCst 0)) (ZSize (LAppend (LConst 1) (ZS (SArg 0)))))) in
  let h := fst (run_iso empty_heap (sc_generate cpx p)) in
  exists F, snd (run_iso empty_heap (sc_generate cpx p)) = Some F /\
  frozenb (nobjs h) h = true /\
  let calls := [mkCall F [1%Z] 0; mkCall F [2%Z] 0; mkCall F [3%Z] 0] in
  let sched := [0; 1; 2; 2; 1; 0; 0; 1; 2; 0; 1; 2] in
  map result_of (snd (run_sched h (map (call_script cpx) calls) sched)) = [Some (OInt 5); Some (OInt 5); Some (OInt 5)].
Proof. cbv zeta. eexists. split; [vm_compute; reflexivity|]. vm_compute. split; reflexivity. Qed.

Print Assumptions C11_frozen_eval_is_readonly.
Print Assumptions C11_frozen_is_preserved.
Print Assumptions C11_concurrent_equals_isolated_partial.
Print Assumptions C11_concurrent_equals_isolated_atomic.
Print Assumptions C11_generated_heap_ok.
Print Assumptions C11_frozen_value_refuted.
Print Assumptions C11_two_evals_conflict_refuted.
Print Assumptions C11_two_lazy_evals_conflict_refuted.
Print Assumptions C11_lost_update_refuted.
Print Assumptions C11_map_concurrent_equals_isolated.
Print Assumptions C11_constant_with_state_discriminates.
