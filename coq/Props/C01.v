(* C01 - Compiled evaluation equals lexically-scoped reference semantics.
   This file contains only the property theorems (each closed by an exact lemma application or by
   computation on a regenerated table), non-vacuity examples and Print Assumptions.

   Model side:      Sem/Gen.v   exec / run  (slot indices, shared stack, reserved slots, closure contexts)
   Specification:   Sem/Ref.v   eval        (environments, nearest binding, call-by-value, left to right)
   Side conditions: Sem/Sim.v   wf (every used name resolves; no let redeclares a name of its frame;
                    OuterIdents resolve, exclude the closure's own name and cover the body; constants
                    are first-order or context-free closures), frame_ok (slot i of the frame holds the
                    value of the name compiled to index i, context entry j the value of captured name j),
                    vrel / orel (closures: same parameters and body, every name the body can use
                    resolves to related values, the reference may capture more).

   Part 1 (simulation, all programs / fuel / frames): exec_sim, C01_from_ast, C01_generated, ...,
           call_frame_independent, exec_sim_pinned_refuted.
   Part 2 (tie to the code): C01_tables_ok - the arity tables the models use agree with the tables
           regenerated from value.New(); C01_pinned_discipline_refuted - the pinned call-site
           discipline on the program that was probed on the real code (505 instead of 506).
   Part 3 (from the text): C01_from_text / C01_from_text_tokens / C01_text_layout_irrelevant - tokenizer model, parser
           model, lowering and generator model composed, against the reference semantics.
   The step text -> AST of the REAL code (tokenizer, parser, annotations) is covered by the correspondence run:
   the specification side of the run evaluates the harness's own unannotated tree, the model side the
   AST dumped from the real parser, and Run/C01Run.v counts on how many dumped ASTs the hypotheses
   of C01_generated (gen_check, side_ok) hold. *)
From P2 Require Import Base.Prelude Sem.Num Sem.Syntax Sem.Ops Sem.Lib Sem.Ref Sem.Gen Sem.Sim
     Sem.SimExamples Sem.Pinned Sem.RelProofs Sem.OpsProofs Sem.LibProofs Sem.GenProofs Sem.PinnedProofs
     Sem.GenBuggy Sem.GenBuggyProofs Sem.Examples Generated.ValueCfg Run.C01Run.
From P2 Require Import Lex.Token Syn.Parse Syn.Full Syn.Lower Syn.RenderText Sem.FromText.
From P2 Require Lex.Tok Lex.TokProofs Syn.Render.
From P2 Require Lib.Builtins Lib.SemLibAgreeProofs.

(* ================= Part 1: the simulation theorems ================= *)

(* T1: for every fuel, program, frame and storage - lock-step simulation (same fuel on both sides,
   out-of-fuel only related to out-of-fuel), and nothing below the top of the frame is disturbed *)
Theorem exec_sim : forall known fuel a env am cm st offs size cs,
  frame_ok am cm st offs size cs env -> wf am cm a ->
  orel (eval known fuel env a) (fst (exec known fuel am cm st offs size cs a)) /\
  same_below (offs + size) st (snd (exec known fuel am cm st offs size cs a)).
Proof. exact exec_sim_lemma. Qed.

(* Generate(ast, argnames...) then Eval(args...), for every program that Generate accepts, every
   fuel and every pair of related argument tuples (closures may be passed in) *)
Theorem C01_from_ast : forall known fuel a argnames args1 args2,
  wf (map Some argnames) [] a ->
  gen_check (S (ast_size a)) (map Some argnames) [] a = true ->
  Forall2 vrel args1 args2 -> length args2 = length argnames ->
  orel (eval known fuel (combine argnames args1) a) (run known fuel a argnames args2).
Proof. exact C01_from_ast_lemma. Qed.

(* Generate accepts exactly the well-formed programs, up to the two things it does not look at
   (side_ok: constants first-order; a closure literal's own name is not among its OuterIdents) *)
Theorem gen_check_implies_wf : forall f a am cm,
  gen_check f am cm a = true -> side_ok a = true -> wf am cm a.
Proof. exact gen_check_wf_lemma. Qed.

Theorem C01_generated : forall known fuel a argnames args1 args2,
  gen_check (S (ast_size a)) (map Some argnames) [] a = true -> side_ok a = true ->
  Forall2 vrel args1 args2 -> length args2 = length argnames ->
  orel (eval known fuel (combine argnames args1) a) (run known fuel a argnames args2).
Proof. exact C01_generated_lemma. Qed.

(* ... in particular for one first-order argument tuple on both sides *)
Theorem C01_from_ast_fo : forall known fuel a argnames args,
  wf (map Some argnames) [] a ->
  gen_check (S (ast_size a)) (map Some argnames) [] a = true ->
  forallb fo args = true -> length args = length argnames ->
  orel (eval known fuel (combine argnames args) a) (run known fuel a argnames args).
Proof. exact C01_from_ast_fo_lemma. Qed.

(* a first-order reference result (numbers, strings, bools, lists and maps of such) is reproduced
   exactly, not just up to the closure relation *)
Theorem C01_first_order_result_exact : forall (r1 r2 : res value) v,
  orel r1 r2 -> r1 = Ok v -> fo v = true -> r2 = Ok v.
Proof. exact orel_fo_eq. Qed.

(* the observation made by the caller of the generated function (panic = error) *)
Theorem C01_outcome : forall r1 r2, orel r1 r2 -> out_rel (outcome_of r1) (outcome_of r2).
Proof. exact orel_outcome. Qed.

(* applying a closure: on the shared storage at any base with anything above and below the frame,
   or on a fresh storage (as the model does for callbacks of built-in methods) - both results are
   related to the same reference result; the caller's storage below the frame top is untouched *)
Theorem call_frame_independent : forall known fuel ps b c1 c2 s1 s2 vs1 vs2 stk base,
  vrel (VClo ps b c1 s1) (VClo ps b c2 s2) ->
  Forall2 vrel vs1 vs2 -> length vs2 = length ps ->
  base + length ps <= length stk -> pushedv stk base vs2 ->
  let r := r_app (eval known fuel) (VClo ps b c1 s1) vs1 in
  orel r (fst (g_call (exec known fuel) (VClo ps b c2 s2) (length ps) stk base)) /\
  orel r (g_app (exec known fuel) (VClo ps b c2 s2) vs2) /\
  same_below (base + length ps) stk
             (snd (g_call (exec known fuel) (VClo ps b c2 s2) (length ps) stk base)).
Proof. exact call_frame_independent_lemma. Qed.

(* the theorem discriminates: the call-site discipline of the pinned commit (Sem/Pinned.v: the same
   step function with the reserved slots removed from the compilation of call arguments - finding F1,
   repaired in the repo by "fix: locals created inside call arguments no longer overwrite pending
   arguments") violates the statement of exec_sim on (\(a,b). b)(x, let y = x+1 in y), x = 5:
   reference 6, repaired model 6, pinned discipline 5 *)
Theorem exec_sim_pinned_refuted :
  exists a env am cm st offs size cs,
    frame_ok am cm st offs size cs env /\ wf am cm a /\
    eval [] 10 env a = Ok (VInt 6) /\
    fst (exec [] 10 am cm st offs size cs a) = Ok (VInt 6) /\
    fst (exec_pinned [] 10 am cm st offs size cs a) = Ok (VInt 5) /\
    ~ orel (eval [] 10 env a) (fst (exec_pinned [] 10 am cm st offs size cs a)).
Proof. exact exec_sim_pinned_refuted_lemma. Qed.

(* operators and built-ins are shared by both semantics and never look inside a closure *)
Theorem calc_respects_vrel : forall op a a' b b',
  vrel a a' -> vrel b b' -> orel (calc op a b) (calc op a' b').
Proof. exact calc_rel. Qed.

Theorem run_static_respects_vrel : forall f args args',
  Forall2 vrel args args' -> orel (run_static f args) (run_static f args').
Proof. exact run_static_rel. Qed.

Theorem run_method_respects_vrel : forall app1 app2,
  (forall c c' vs vs', vrel c c' -> Forall2 vrel vs vs' -> orel (app1 c vs) (app2 c' vs')) ->
  forall rv rv' mname args args',
  vrel rv rv' -> Forall2 vrel args args' ->
  orel (run_method app1 rv mname args) (run_method app2 rv' mname args').
Proof. exact run_method_rel. Qed.

(* the side condition can be decided: wfb is a sound boolean check of wf *)
Theorem wfb_implies_wf : forall a am cm, wfb am cm a = true -> wf am cm a.
Proof. exact wfb_sound. Qed.

(* non-vacuity: a recursive func, a three-level closure capturing the argument, a let inside the
   second argument of a call, a let inside the argument of a map-field closure call
     func fac(n) if n<2 then 1 else n*fac(n-1);
     let h = a->b->c->a+b+c+x; let g = (a,b)->b; let m = {f: p->p+x};
     fac(x) + h(1)(2)(3) + g(x, let y=x+1; y) + m.f(let y=10; y)          with x = 5 *)
Example C01_core_nonvacuous :
  wf (map Some [ex_nx]) [] ex_prog /\
  gen_check (S (ast_size ex_prog)) (map Some [ex_nx]) [] ex_prog = true /\
  side_ok ex_prog = true /\
  eval [] 60 (combine [ex_nx] [VInt 5]) ex_prog = Ok (VInt 152) /\
  run [] 60 ex_prog [ex_nx] [VInt 5] = Ok (VInt 152).
Proof.
  split; [apply wfb_sound; vm_compute; reflexivity|].
  split; [vm_compute; reflexivity|]. split; [vm_compute; reflexivity|]. split; vm_compute; reflexivity.
Qed.

(* the side condition on a closure's own name is needed: Generate accepts this annotated tree (own
   name f listed as an outer identifier, Recursive not set - a shape the parser never produces),
   the reference binds f to the closure itself, the generated code to the captured argument *)
Example side_condition_this_needed :
  gen_check (S (ast_size bad_this)) (map Some [ex_nf]) [] bad_this = true /\
  side_ok bad_this = false /\
  run [] 20 bad_this [ex_nf] [VInt 7] = Ok (VInt 7) /\
  eval [] 20 (combine [ex_nf] [VInt 7]) bad_this <> Ok (VInt 7).
Proof. repeat split; try (vm_compute; reflexivity). vm_compute. discriminate. Qed.

(* the hypothesis "Generate accepts the program" of C01_from_ast cannot be dropped: wf alone does not
   exclude Generate-time errors in code that is never evaluated (here: sqr() with no argument in the
   untaken branch - the reference, which has no compile step, answers 1) *)
Example C01_from_ast_needs_gen_check :
  wf (map Some []) [] arity_in_dead_branch /\
  gen_check (S (ast_size arity_in_dead_branch)) (map Some []) [] arity_in_dead_branch = false /\
  eval [] 20 (combine [] []) arity_in_dead_branch = Ok (VInt 1) /\
  run [] 20 arity_in_dead_branch [] [] = Err None.
Proof. split; [cbn; auto|]. repeat split; vm_compute; reflexivity. Qed.


(* ================= Part 2: tables, the probed witness, examples on dumped ASTs ================= *)

(* the decidable obligation on the regenerated tables: every static function / method the models
   implement exists in value.New() with the modelled number of arguments *)
Theorem C01_tables_ok : c01_tables_ok = true.
Proof. vm_compute. reflexivity. Qed.

(* Full statement the pinned commit violated (kept visible):
     forall a names args fuel, wf a -> orel (Ref.eval fuel (combine names args) a) (run_buggy fuel a names args).
   Refuted: func f(a,b) a*100+b; f(x, let y=x+1; y) with x = 5. *)
Theorem C01_pinned_discipline_refuted :
  exists (a : ast) (names : list name) (args : list value),
    (forall known, Ref.eval known 8 (combine names args) a = Ok (VInt 506)) /\
    run_buggy 8 a names args = Ok (VInt 505).
Proof. exact pinned_discipline_refuted. Qed.

Theorem C01_repaired_discipline_on_witness :
  forall known, Gen.run known 8 witness_ast [nm 120] [VInt 5] = Ok (VInt 506).
Proof. exact repaired_discipline_on_witness. Qed.

(* ---- non-vacuity: reference semantics on the surface tree = generator model on the parser's AST ---- *)

Example C01_ex_let_in_second_argument :
  Ref.eval value_methods 50 [(x_, VInt 5)] ex_let_in_arg_T = Ok (VInt 506) /\
  Gen.run value_methods 50 ex_let_in_arg_A [x_] [VInt 5] = Ok (VInt 506).
Proof. split; vm_compute; reflexivity. Qed.

Example C01_ex_map_field_closure :
  Ref.eval value_methods 50 [(x_, VInt 5)] ex_map_field_T = Ok (VInt 506) /\
  Gen.run value_methods 50 ex_map_field_A [x_] [VInt 5] = Ok (VInt 506).
Proof. split; vm_compute; reflexivity. Qed.

Example C01_ex_three_closure_levels :
  Ref.eval value_methods 50 [(x_, VInt 5)] ex_three_levels_T = Ok (VInt 25) /\
  Gen.run value_methods 50 ex_three_levels_A [x_] [VInt 5] = Ok (VInt 25).
Proof. split; vm_compute; reflexivity. Qed.

Example C01_ex_recursive_func :
  Ref.eval value_methods 50 [(x_, VInt 5)] ex_fac_T = Ok (VInt 120) /\
  Gen.run value_methods 50 ex_fac_A [x_] [VInt 5] = Ok (VInt 120).
Proof. split; vm_compute; reflexivity. Qed.

(* the annotations matter: without Recursive the generator model reports a Generate error *)
Example C01_ex_recursion_needs_annotation :
  Gen.run value_methods 50 ex_fac_T [x_] [VInt 5] = Err None.
Proof. vm_compute. reflexivity. Qed.

(* ================= Part 3: from the TEXT ================= *)

(* Vocabulary: Lex/Tok.v tokenize (tokenizer model, C15), Lex/TokProofs.v wf_layout / lexeme_tokens (lexemes separated
   by arbitrary blanks, line breaks and comments), Syn/Parse.v parse_tokens (parser model, C03), Syn/Full.v rendering
   trees of the full grammar with fwf / fflatten / ferase (annotated AST incl. OuterIdents, Recursive, constant lets),
   Syn/Lower.v lower (parser AST -> the AST of Part 1, value configuration), value_pcfg / value_ids argnames
   (operator table and identifiers of value.New() with Generate's arguments),
     text_ast tc argnames text  = lower (parse (tokenize text))
     run_text tc known fuel argnames text args = Gen.run on text_ast (a text without AST is a Generate error).
   C01_from_text: for EVERY well-formed layout of the lexemes of a well-formed program tree whose annotated AST lowers
   to a, under the hypotheses of C01_generated on a: the text yields a, and the function generated FROM THE TEXT agrees
   with the reference semantics of a (the conclusion of C01_generated).  It is the composition of C03_text_to_ast
   with C01_generated; lower and the concrete configuration are tied to the code by the text-to-ast condition of
   the correspondence run (Run/C01TextRun.v). *)
Theorem C01_from_text : forall tc known fuel argnames items r e u a args1 args2,
  P2.Lex.TokProofs.ops_ok tc -> P2.Lex.TokProofs.wf_layout tc tInvalid false items ->
  P2.Lex.TokProofs.lexeme_tokens items = fflatten value_pcfg r ->
  fwf value_pcfg r = true -> ferase value_pcfg (value_ids argnames) r = Some (e, u) -> lower e = Some a ->
  gen_check (S (ast_size a)) (map Some argnames) [] a = true -> side_ok a = true ->
  Forall2 vrel args1 args2 -> length args2 = length argnames ->
  text_ast tc argnames (P2.Lex.Tok.layout_text items) = Some a /\
  orel (eval known fuel (combine argnames args1) a)
       (run_text tc known fuel argnames (P2.Lex.Tok.layout_text items) args2).
Proof. exact from_text. Qed.

(* the same with a computable hypothesis on a concrete text: the tokenizer model delivers the tokens of the tree *)
Theorem C01_from_text_tokens : forall tc known fuel argnames text r e u a args1 args2,
  map untok (P2.Lex.Tok.tokenize tc text) = fflatten value_pcfg r ->
  fwf value_pcfg r = true -> ferase value_pcfg (value_ids argnames) r = Some (e, u) -> lower e = Some a ->
  gen_check (S (ast_size a)) (map Some argnames) [] a = true -> side_ok a = true ->
  Forall2 vrel args1 args2 -> length args2 = length argnames ->
  text_ast tc argnames text = Some a /\
  orel (eval known fuel (combine argnames args1) a) (run_text tc known fuel argnames text args2).
Proof. exact from_text_tokens. Qed.

(* blanks, line breaks and comments between the same lexemes do not change the generated function *)
Theorem C01_text_layout_irrelevant : forall tc known fuel argnames items items' args,
  P2.Lex.TokProofs.ops_ok tc ->
  P2.Lex.TokProofs.wf_layout tc tInvalid false items -> P2.Lex.TokProofs.wf_layout tc tInvalid false items' ->
  P2.Lex.TokProofs.lexeme_tokens items = P2.Lex.TokProofs.lexeme_tokens items' ->
  run_text tc known fuel argnames (P2.Lex.Tok.layout_text items) args
  = run_text tc known fuel argnames (P2.Lex.Tok.layout_text items') args.
Proof. exact text_layout_irrelevant_run. Qed.

(* C01 from the CANONICAL TEXT of a program tree: C01_from_text with the layout hypotheses replaced by the boolean
   [spellable] of Syn/RenderText.v (C03_render_roundtrip) - everything about the text is decidable: render_text writes
   the tokens of the tree as lexemes separated by one blank; the text yields a, and the function generated from it
   agrees with the reference semantics of a.  For the value configuration the conditions of [spellable] on the
   configuration hold whenever the blank is neither letter nor digit, so only the per-token check remains. *)
Theorem C01_from_rendered_text : forall tc known fuel argnames r e u a args1 args2,
  spellable tc value_pcfg r = true ->
  fwf value_pcfg r = true -> ferase value_pcfg (value_ids argnames) r = Some (e, u) -> lower e = Some a ->
  gen_check (S (ast_size a)) (map Some argnames) [] a = true -> side_ok a = true ->
  Forall2 vrel args1 args2 -> length args2 = length argnames ->
  text_ast tc argnames (render_text value_pcfg r) = Some a /\
  orel (eval known fuel (combine argnames args1) a)
       (run_text tc known fuel argnames (render_text value_pcfg r) args2).
Proof. exact from_rendered_text. Qed.

Theorem C01_value_render_roundtrip : forall comments letter number argnames r e u,
  letter 32%N = false -> number 32%N = false ->
  forallb (spell_tok (value_tcfg comments letter number)) (fflatten value_pcfg r) = true ->
  fwf value_pcfg r = true -> ferase value_pcfg (value_ids argnames) r = Some (e, u) ->
  parse_tokens value_pcfg (value_ids argnames)
    (P2.Lex.Tok.tokenize (value_tcfg comments letter number) (render_text value_pcfg r)) = POk e.
Proof. exact value_render_roundtrip. Qed.

(* the configuration of value.New() satisfies the side conditions of C03 / C15 *)
Theorem C01_value_configuration_ok :
  P2.Syn.Render.table_ok value_pcfg = true /\
  forall comments letter number, P2.Lex.TokProofs.ops_ok (value_tcfg comments letter number).
Proof. exact (conj value_table_ok value_ops_ok). Qed.

(* non-vacuity: the program text (line comment, block comment, line breaks; a constant let, a closure, two method calls)
     let k = 2; // double
     [1, 2, x].map(e -> e * k /* scale */ + y)
       .sum()
   with arguments x, y.  Every hypothesis of C01_from_text_tokens is discharged by computation, and the conclusion is
   instantiated: the function generated from the text agrees with the reference semantics of its AST; on x = 5, y = 1
   both give 19. *)
Definition ft_letter (c : N) : bool := (((65 <=? c) && (c <=? 90)) || ((97 <=? c) && (c <=? 122)))%N.
Definition ft_digit (c : N) : bool := ((48 <=? c) && (c <=? 57))%N.
Definition ft_tc : P2.Lex.Tok.tcfg := value_tcfg true ft_letter ft_digit.
Definition ft_text : list N := [108; 101; 116; 32; 107; 32; 61; 32; 50; 59; 32; 47; 47; 32; 100; 111; 117; 98; 108; 101; 10; 91; 49; 44; 32; 50; 44; 32; 120; 93; 46; 109; 97; 112; 40; 101; 32; 45; 62; 32; 101; 32; 42; 32; 107; 32; 47; 42; 32; 115; 99; 97; 108; 101; 32; 42; 47; 32; 43; 32; 121; 41; 10; 32; 32; 46; 115; 117; 109; 40; 41]%N.
Definition ft_args : list str := [[120]%N; [121]%N].
Definition ft_tree : ft :=
  FLet [107]%N (FNum [50]%N)
    (FMethod (FMethod (FList (FA_cons (FNum [49]%N) (FA_cons (FNum [50]%N) (FA_last (FIdent [120]%N))))) [109; 97; 112]%N
                (FA_last (FClo1 [101]%N (FBin 9 (FBin 13 (FIdent [101]%N) (FIdent [107]%N)) (FIdent [121]%N)))))
             [115; 117; 109]%N FA_nil).
Definition ft_ast : ast :=
  AMethod (AMethod (AList [AConst (VInt 1); AConst (VInt 2); AIdent [120]%N]) [109; 97; 112]%N
             [AClosure [[101]%N] (AOp [43]%N (AOp [42]%N (AIdent [101]%N) (AConst (VInt 2))) (AIdent [121]%N))
                       [[121]%N] false []])
          [115; 117; 109]%N [].

Example C01_from_text_nonvacuous :
  map untok (P2.Lex.Tok.tokenize ft_tc ft_text) = fflatten value_pcfg ft_tree /\
  fwf value_pcfg ft_tree = true /\
  (exists e u, ferase value_pcfg (value_ids ft_args) ft_tree = Some (e, u) /\ lower e = Some ft_ast) /\
  gen_check (S (ast_size ft_ast)) (map Some ft_args) [] ft_ast = true /\ side_ok ft_ast = true.
Proof.
  split; [vm_compute; reflexivity|]. split; [vm_compute; reflexivity|]. split; [|split; vm_compute; reflexivity].
  eexists. eexists. split; [vm_compute; reflexivity|vm_compute; reflexivity].
Qed.

Example C01_from_text_instance : forall fuel,
  text_ast ft_tc ft_args ft_text = Some ft_ast /\
  orel (eval value_methods fuel (combine ft_args [VInt 5; VInt 1]) ft_ast)
       (run_text ft_tc value_methods fuel ft_args ft_text [VInt 5; VInt 1]).
Proof.
  intros fuel. destruct C01_from_text_nonvacuous as (Ht & W & (e & u & E & La) & G & S).
  apply (C01_from_text_tokens ft_tc value_methods fuel ft_args ft_text ft_tree e u ft_ast [VInt 5; VInt 1] [VInt 5; VInt 1]
           Ht W E La G S); [|reflexivity].
  repeat constructor; apply fo_vrel; reflexivity.
Qed.

Example C01_from_text_value :
  run_text ft_tc value_methods 100 ft_args ft_text [VInt 5; VInt 1] = Ok (VInt 19) /\
  eval value_methods 100 (combine ft_args [VInt 5; VInt 1]) ft_ast = Ok (VInt 19).
Proof. split; vm_compute; reflexivity. Qed.

(* ================= Part 4: the list stages of the pool against C07's models ================= *)

(* The eager list stages of Sem/Lib.v - the pool that exec_sim and the optimizer proof cover - compute
   what C07's IMPLEMENTATION models of the same Go loops (Lib/Builtins.v: lazy streams, validated
   against value/list.go and the iterator package by C07's correspondence run) yield when the stream
   is collected, for callbacks cb args := app f args and every way [app] of applying a closure.
   compact and merge: C07 turns every non-bool answer of the callback into an error, Sem/Lib.v keeps
   the opaque text of a caught error outside the modelled fragment; they agree whenever the callback
   does not answer such a text. *)
Theorem C01_lib_agrees_with_C07_models : forall (app : value -> list value -> res value) (f : value),
  let collect := Lib.Builtins.collect in let of_list := Lib.Builtins.of_list in
  (forall l i, collect (Lib.Builtins.s_number (fun a b => app f [a; b]) i (of_list l)) =
               mapargs_app app f (number_args i l)) /\
  (forall l, collect (Lib.Builtins.s_combine (fun a b => app f [a; b]) (of_list l)) =
             mapargs_app app f (match l with [] => [] | x :: r => pair_args x r end)) /\
  (forall l, collect (Lib.Builtins.s_combine3 (fun a b c => app f [a; b; c]) (of_list l)) =
             mapargs_app app f (match l with x :: y :: r => triple_args x y r | _ => [] end)) /\
  (forall n l, (1 <= n)%nat ->
             collect (Lib.Builtins.s_combineN n (fun w => app f [w]) (of_list l)) = mapargs_app app f (windows n l)) /\
  (forall three ini l,
             collect (Lib.Builtins.s_iirmap (fun x => app ini [x]) (Lib.SemLibAgreeProofs.step_of app f three) (of_list l)) =
             iir_app app three ini f l) /\
  (forall l1 l2, collect (Lib.Builtins.s_cross (fun a b => app f [a; b]) (of_list l1) l2) =
                 mapargs_app app f (cross_args l1 l2)) /\
  (forall l, Lib.Builtins.t_minMax (fun x => app f [x]) (of_list l) =
             match l with
             | [] => Ok (Lib.minmax_map (VInt 0) (VInt 0) (VInt 0) (VInt 0) false)
             | x :: r => bind (app f [x]) (fun k => minmax_app app f k k x x r)
             end) /\
  ((forall args t, app f args <> Ok (VErrText t)) ->
   (forall l, collect (Lib.Builtins.s_compact (fun a b => app f [a; b]) (of_list l)) =
              match l with [] => Ok [] | x :: r => bind (compact_app app f x r) (fun ys => Ok (x :: ys)) end) /\
   (forall l1 l2, collect (Lib.Builtins.s_merge (fun a b => app f [a; b]) (of_list l1) l2) = merge_app app f l1 l2)).
Proof. exact Lib.SemLibAgreeProofs.lib_agrees_lemma. Qed.

(* the first-order string methods of the pool (trim toLower toUpper contains indexOf split cut replace toInt)
   are the string functions of C07's implementation model; behind / behindList have no C07 model *)
Theorem C01_string_pool_is_C07_string_model : forall (app : value -> list value -> res value) (s : str),
  run_method app (VStr s) n_trim [] = bind (Sem.StrLib.str_trim s) (fun r => Ok (VStr r)) /\
  run_method app (VStr s) n_toLower [] = bind (Sem.StrLib.str_lower s) (fun r => Ok (VStr r)) /\
  run_method app (VStr s) n_toUpper [] = bind (Sem.StrLib.str_upper s) (fun r => Ok (VStr r)) /\
  (forall p, run_method app (VStr s) n_contains [VStr p] = Ok (VBool (Sem.Ops.contains_str s p))) /\
  (forall p, run_method app (VStr s) n_indexOf [VStr p] = Ok (VInt (Sem.StrLib.index_of s p 0))) /\
  (forall p, run_method app (VStr s) n_split [VStr p] = Ok (VList (map VStr (Sem.StrLib.str_split s p)))) /\
  (forall p n, run_method app (VStr s) n_cut [VInt p; VInt n] = Ok (VStr (Sem.StrLib.str_cut s p n))) /\
  (forall o n, run_method app (VStr s) n_replace [VStr o; VStr n] = Ok (VStr (Sem.StrLib.str_replace s o n))) /\
  run_method app (VStr s) n_toInt [] = Sem.StrLib.str_to_int s.
Proof. exact Lib.SemLibAgreeProofs.str_pool_agrees. Qed.

(* List.Visit is the loop of iterator.MapReduce as C07 models it, List.Set is C07's m_set *)
Theorem C01_visit_set_agree_with_C07_models : forall (app : value -> list value -> res value) (f : value),
  (forall l init, is_func f 2 = true ->
     run_method app (VList l) n_visit [init; f]
     = Lib.Builtins.t_fold (fun a b => app f [a; b]) init (Lib.Builtins.of_list l)) /\
  (forall l i x, run_method app (VList l) n_set [VInt i; x]
                 = bind (Lib.Builtins.m_set i x l) (fun r => Ok (VList r))).
Proof. exact Lib.SemLibAgreeProofs.visit_set_agree. Qed.

(* non-vacuity: the new built-ins compute, and a two-parameter closure satisfies is_func f 2 *)
Example C01_new_builtins_compute :
  run_method (fun _ _ => Unsup) (VStr [32; 97; 44; 98; 32]%N) n_trim [] = Ok (VStr [97; 44; 98]%N) /\
  run_method (fun _ _ => Unsup) (VStr [97; 44; 98]%N) n_split [VStr [44]%N] = Ok (VList [VStr [97]%N; VStr [98]%N]) /\
  run_method (fun _ _ => Unsup) (VStr [97; 233; 98]%N) n_indexOf [VStr [98]%N] = Ok (VInt 3) /\
  run_method (fun _ _ => Unsup) (VStr [97; 233; 98]%N) n_toUpper [] = Unsup /\
  run_method (fun _ _ => Unsup) (VStr [45; 49; 50]%N) n_toInt [] = Ok (VInt (-12)) /\
  run_method (fun _ _ => Unsup) (VStr [49; 97]%N) n_toInt [] = Err None /\
  run_method (fun _ _ => Unsup) (VStr [97]%N) n_cut [VStr [49]%N; VInt 1] = Err None /\
  run_method (fun _ _ => Unsup) (VList [VInt 1; VInt 2]) n_set [VInt 1; VInt 9] = Ok (VList [VInt 1; VInt 9]) /\
  run_method (fun _ _ => Unsup) (VList [VInt 1; VInt 2]) n_set [VInt 2; VInt 9] = Err None /\
  is_func (VClo [[97]%N; [98]%N] (AIdent [97]%N) [] []) 2 = true /\
  run_method (fun _ _ => Unsup) (VClo [[97]%N; [98]%N] (AIdent [97]%N) [] []) n_args [] = Ok (VInt 2).
Proof. repeat split; vm_compute; reflexivity. Qed.


(* canonical text, non-vacuity: the tree of the program above is spellable in the value configuration (by computation);
   its canonical text is  let k = 2 ; [ 1 , 2 , x ] . map ( e -> e * k + y ) . sum ( )  - the theorem applies and both
   sides give 19.  The same tree with the let-name  const  (a keyword of value.New(), not of the parser) is well-formed
   and denotes the same AST, but is rejected by [spellable]; quoting is not attempted for ASCII words *)
Example C01_from_rendered_text_nonvacuous :
  spellable ft_tc value_pcfg ft_tree = true /\
  render_text value_pcfg ft_tree
  = [108; 101; 116; 32; 107; 32; 61; 32; 50; 32; 59; 32; 91; 32; 49; 32; 44; 32; 50; 32; 44; 32; 120; 32; 93; 32; 46; 32;
     109; 97; 112; 32; 40; 32; 101; 32; 45; 62; 32; 101; 32; 42; 32; 107; 32; 43; 32; 121; 32; 41; 32; 46; 32; 115; 117;
     109; 32; 40; 32; 41; 32]%N.
Proof. split; vm_compute; reflexivity. Qed.

Example C01_from_rendered_text_instance : forall fuel,
  text_ast ft_tc ft_args (render_text value_pcfg ft_tree) = Some ft_ast /\
  orel (eval value_methods fuel (combine ft_args [VInt 5; VInt 1]) ft_ast)
       (run_text ft_tc value_methods fuel ft_args (render_text value_pcfg ft_tree) [VInt 5; VInt 1]).
Proof.
  intros fuel. destruct C01_from_text_nonvacuous as (_ & W & (e & u & E & La) & G & S).
  destruct C01_from_rendered_text_nonvacuous as (Hs & _).
  apply (C01_from_rendered_text ft_tc value_methods fuel ft_args ft_tree e u ft_ast [VInt 5; VInt 1] [VInt 5; VInt 1]
           Hs W E La G S); [|reflexivity].
  repeat constructor; apply fo_vrel; reflexivity.
Qed.

Definition ft_tree_const : ft :=
  FLet [99; 111; 110; 115; 116]%N (FNum [50]%N) (FBin 13 (FIdent [120]%N) (FIdent [99; 111; 110; 115; 116]%N)).
Example C01_from_rendered_text_values :
  run_text ft_tc value_methods 100 ft_args (render_text value_pcfg ft_tree) [VInt 5; VInt 1] = Ok (VInt 19) /\
  spellable ft_tc value_pcfg ft_tree_const = false /\ fwf value_pcfg ft_tree_const = true /\
  (exists e u, ferase value_pcfg (value_ids ft_args) ft_tree_const = Some (e, u)) /\
  text_ast ft_tc ft_args (render_text value_pcfg ft_tree_const) = None.
Proof.
  split; [vm_compute; reflexivity|]. split; [vm_compute; reflexivity|]. split; [vm_compute; reflexivity|].
  split; [eexists; eexists; vm_compute; reflexivity|vm_compute; reflexivity].
Qed.

Print Assumptions exec_sim.
Print Assumptions C01_from_ast.
Print Assumptions gen_check_implies_wf.
Print Assumptions C01_generated.
Print Assumptions C01_from_ast_fo.
Print Assumptions C01_first_order_result_exact.
Print Assumptions C01_outcome.
Print Assumptions call_frame_independent.
Print Assumptions exec_sim_pinned_refuted.
Print Assumptions calc_respects_vrel.
Print Assumptions run_static_respects_vrel.
Print Assumptions run_method_respects_vrel.
Print Assumptions wfb_implies_wf.
Print Assumptions C01_tables_ok.
Print Assumptions C01_pinned_discipline_refuted.
Print Assumptions C01_repaired_discipline_on_witness.
Print Assumptions C01_from_text.
Print Assumptions C01_from_text_tokens.
Print Assumptions C01_text_layout_irrelevant.
Print Assumptions C01_from_rendered_text.
Print Assumptions C01_value_render_roundtrip.
Print Assumptions C01_value_configuration_ok.
Print Assumptions C01_lib_agrees_with_C07_models.
Print Assumptions C01_string_pool_is_C07_string_model.
Print Assumptions C01_visit_set_agree_with_C07_models.
