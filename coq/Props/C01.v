(* C01 - Compiled evaluation equals lexically-scoped reference semantics.

   What is stated here NOW (the simulation theorem exec_sim - Gen.exec refines Ref.eval for ALL
   programs, argument tuples and fuel - is proved separately in Sem/GenProofs.v and will be added
   to this file; until then the equality of compiled and reference evaluation on arbitrary
   programs is established by the three-way correspondence run, not by a theorem):

     C01_tables_ok                     the arity tables the models use for built-in functions and
                                       methods agree with the tables regenerated from value.New()
     C01_pinned_discipline_refuted     the call-site discipline of the pinned commit (arguments
                                       compiled without reserved slots) is NOT lexically scoped:
                                       computed witness, 505 instead of 506
     C01_repaired_discipline_on_witness  ... and the repaired discipline modelled in Sem/Gen.v is,
                                       on that witness
     Examples (non-vacuity)            concrete programs with a recursive func, three closure levels
                                       capturing an argument, a let inside the 2nd argument of a
                                       call and a map-field closure evaluate to the same value
                                       under Ref.eval (on the unannotated tree) and Gen.run (on the
                                       parser's AST).
   Each theorem is closed by an exact lemma application or by computation on a regenerated table. *)
From P2 Require Import Base.Prelude Sem.Num Sem.Syntax Sem.Ops Sem.Lib Sem.Ref Sem.Gen Sem.GenBuggy
                       Sem.GenBuggyProofs Sem.Examples Generated.ValueCfg Run.C01Run.

(* the decidable obligation on the regenerated tables: every static function / method the models
   implement exists in value.New() with the modelled number of arguments *)
Theorem C01_tables_ok : c01_tables_ok = true.
Proof. vm_compute. reflexivity. Qed.

(* Full statement the pinned commit violated (kept visible):
     forall a names args fuel, wf a -> orel (Ref.eval fuel (combine names args) a) (run_buggy fuel a names args).
   Refuted: func f(a,b) a*100+b; f(x, let y=x+1; y) with x = 5. *)
Theorem C01_pinned_discipline_refuted :
  exists (a : ast) (names : list name) (args : list value),
    (forall known, Ref.eval known 8 (combine names args) a = Ok (VInt 506)) /\
    run_buggy 8 a names args = Ok (VInt 505).
Proof. exact pinned_discipline_refuted. Qed.

Theorem C01_repaired_discipline_on_witness :
  forall known, Gen.run known 8 witness_ast [nm 120] [VInt 5] = Ok (VInt 506).
Proof. exact repaired_discipline_on_witness. Qed.

(* ---- non-vacuity: reference semantics on the surface tree = generator model on the parser's AST ---- *)

Example C01_ex_let_in_second_argument :
  Ref.eval value_methods 50 [(x_, VInt 5)] ex_let_in_arg_T = Ok (VInt 506) /\
  Gen.run value_methods 50 ex_let_in_arg_A [x_] [VInt 5] = Ok (VInt 506).
Proof. split; vm_compute; reflexivity. Qed.

Example C01_ex_map_field_closure :
  Ref.eval value_methods 50 [(x_, VInt 5)] ex_map_field_T = Ok (VInt 506) /\
  Gen.run value_methods 50 ex_map_field_A [x_] [VInt 5] = Ok (VInt 506).
Proof. split; vm_compute; reflexivity. Qed.

Example C01_ex_three_closure_levels :
  Ref.eval value_methods 50 [(x_, VInt 5)] ex_three_levels_T = Ok (VInt 25) /\
  Gen.run value_methods 50 ex_three_levels_A [x_] [VInt 5] = Ok (VInt 25).
Proof. split; vm_compute; reflexivity. Qed.

Example C01_ex_recursive_func :
  Ref.eval value_methods 50 [(x_, VInt 5)] ex_fac_T = Ok (VInt 120) /\
  Gen.run value_methods 50 ex_fac_A [x_] [VInt 5] = Ok (VInt 120).
Proof. split; vm_compute; reflexivity. Qed.

(* the annotations matter: without Recursive the generator model reports a Generate error *)
Example C01_ex_recursion_needs_annotation :
  Gen.run value_methods 50 ex_fac_T [x_] [VInt 5] = Err None.
Proof. vm_compute. reflexivity. Qed.

Print Assumptions C01_tables_ok.
Print Assumptions C01_pinned_discipline_refuted.
Print Assumptions C01_repaired_discipline_on_witness.
