(* C01 - Compiled evaluation equals lexically-scoped reference semantics.
   This file contains only the property theorems (each closed by an exact lemma application or by
   computation on a regenerated table), non-vacuity examples and Print Assumptions.

   Model side:      Sem/Gen.v   exec / run  (slot indices, shared stack, reserved slots, closure contexts)
   Specification:   Sem/Ref.v   eval        (environments, nearest binding, call-by-value, left to right)
   Side conditions: Sem/Sim.v   wf (every used name resolves; no let redeclares a name of its frame;
                    OuterIdents resolve, exclude the closure's own name and cover the body; constants
                    are first-order or context-free closures), frame_ok (slot i of the frame holds the
                    value of the name compiled to index i, context entry j the value of captured name j),
                    vrel / orel (closures: same parameters and body, every name the body can use
                    resolves to related values, the reference may capture more).

   Part 1 (simulation, all programs / fuel / frames): exec_sim, C01_from_ast, C01_generated, ...,
           call_frame_independent, exec_sim_pinned_refuted.
   Part 2 (tie to the code): C01_tables_ok - the arity tables the models use agree with the tables
           regenerated from value.New(); C01_pinned_discipline_refuted - the pinned call-site
           discipline on the program that was probed on the real code (505 instead of 506).
   The step text -> AST (tokenizer, parser, annotations) is covered by the correspondence run:
   the specification side of the run evaluates the harness's own unannotated tree, the model side the
   AST dumped from the real parser, and Run/C01Run.v counts on how many dumped ASTs the hypotheses
   of C01_generated (gen_check, side_ok) hold. *)
From P2 Require Import Base.Prelude Sem.Num Sem.Syntax Sem.Ops Sem.Lib Sem.Ref Sem.Gen Sem.Sim
     Sem.SimExamples Sem.Pinned Sem.RelProofs Sem.OpsProofs Sem.LibProofs Sem.GenProofs Sem.PinnedProofs
     Sem.GenBuggy Sem.GenBuggyProofs Sem.Examples Generated.ValueCfg Run.C01Run.

(* ================= Part 1: the simulation theorems ================= *)

(* T1: for every fuel, program, frame and storage - lock-step simulation (same fuel on both sides,
   out-of-fuel only related to out-of-fuel), and nothing below the top of the frame is disturbed *)
Theorem exec_sim : forall known fuel a env am cm st offs size cs,
  frame_ok am cm st offs size cs env -> wf am cm a ->
  orel (eval known fuel env a) (fst (exec known fuel am cm st offs size cs a)) /\
  same_below (offs + size) st (snd (exec known fuel am cm st offs size cs a)).
Proof. exact exec_sim_lemma. Qed.

(* Generate(ast, argnames...) then Eval(args...), for every program that Generate accepts, every
   fuel and every pair of related argument tuples (closures may be passed in) *)
Theorem C01_from_ast : forall known fuel a argnames args1 args2,
  wf (map Some argnames) [] a ->
  gen_check (S (ast_size a)) (map Some argnames) [] a = true ->
  Forall2 vrel args1 args2 -> length args2 = length argnames ->
  orel (eval known fuel (combine argnames args1) a) (run known fuel a argnames args2).
Proof. exact C01_from_ast_lemma. Qed.

(* Generate accepts exactly the well-formed programs, up to the two things it does not look at
   (side_ok: constants first-order; a closure literal's own name is not among its OuterIdents) *)
Theorem gen_check_implies_wf : forall f a am cm,
  gen_check f am cm a = true -> side_ok a = true -> wf am cm a.
Proof. exact gen_check_wf_lemma. Qed.

Theorem C01_generated : forall known fuel a argnames args1 args2,
  gen_check (S (ast_size a)) (map Some argnames) [] a = true -> side_ok a = true ->
  Forall2 vrel args1 args2 -> length args2 = length argnames ->
  orel (eval known fuel (combine argnames args1) a) (run known fuel a argnames args2).
Proof. exact C01_generated_lemma. Qed.

(* ... in particular for one first-order argument tuple on both sides *)
Theorem C01_from_ast_fo : forall known fuel a argnames args,
  wf (map Some argnames) [] a ->
  gen_check (S (ast_size a)) (map Some argnames) [] a = true ->
  forallb fo args = true -> length args = length argnames ->
  orel (eval known fuel (combine argnames args) a) (run known fuel a argnames args).
Proof. exact C01_from_ast_fo_lemma. Qed.

(* a first-order reference result (numbers, strings, bools, lists and maps of such) is reproduced
   exactly, not just up to the closure relation *)
Theorem C01_first_order_result_exact : forall (r1 r2 : res value) v,
  orel r1 r2 -> r1 = Ok v -> fo v = true -> r2 = Ok v.
Proof. exact orel_fo_eq. Qed.

(* the observation made by the caller of the generated function (panic = error) *)
Theorem C01_outcome : forall r1 r2, orel r1 r2 -> out_rel (outcome_of r1) (outcome_of r2).
Proof. exact orel_outcome. Qed.

(* applying a closure: on the shared storage at any base with anything above and below the frame,
   or on a fresh storage (as the model does for callbacks of built-in methods) - both results are
   related to the same reference result; the caller's storage below the frame top is untouched *)
Theorem call_frame_independent : forall known fuel ps b c1 c2 s1 s2 vs1 vs2 stk base,
  vrel (VClo ps b c1 s1) (VClo ps b c2 s2) ->
  Forall2 vrel vs1 vs2 -> length vs2 = length ps ->
  base + length ps <= length stk -> pushedv stk base vs2 ->
  let r := r_app (eval known fuel) (VClo ps b c1 s1) vs1 in
  orel r (fst (g_call (exec known fuel) (VClo ps b c2 s2) (length ps) stk base)) /\
  orel r (g_app (exec known fuel) (VClo ps b c2 s2) vs2) /\
  same_below (base + length ps) stk
             (snd (g_call (exec known fuel) (VClo ps b c2 s2) (length ps) stk base)).
Proof. exact call_frame_independent_lemma. Qed.

(* the theorem discriminates: the call-site discipline of the pinned commit (Sem/Pinned.v: the same
   step function with the reserved slots removed from the compilation of call arguments - finding F1,
   repaired in the repo by "fix: locals created inside call arguments no longer overwrite pending
   arguments") violates the statement of exec_sim on (\(a,b). b)(x, let y = x+1 in y), x = 5:
   reference 6, repaired model 6, pinned discipline 5 *)
Theorem exec_sim_pinned_refuted :
  exists a env am cm st offs size cs,
    frame_ok am cm st offs size cs env /\ wf am cm a /\
    eval [] 10 env a = Ok (VInt 6) /\
    fst (exec [] 10 am cm st offs size cs a) = Ok (VInt 6) /\
    fst (exec_pinned [] 10 am cm st offs size cs a) = Ok (VInt 5) /\
    ~ orel (eval [] 10 env a) (fst (exec_pinned [] 10 am cm st offs size cs a)).
Proof. exact exec_sim_pinned_refuted_lemma. Qed.

(* operators and built-ins are shared by both semantics and never look inside a closure *)
Theorem calc_respects_vrel : forall op a a' b b',
  vrel a a' -> vrel b b' -> orel (calc op a b) (calc op a' b').
Proof. exact calc_rel. Qed.

Theorem run_static_respects_vrel : forall f args args',
  Forall2 vrel args args' -> orel (run_static f args) (run_static f args').
Proof. exact run_static_rel. Qed.

Theorem run_method_respects_vrel : forall app1 app2,
  (forall c c' vs vs', vrel c c' -> Forall2 vrel vs vs' -> orel (app1 c vs) (app2 c' vs')) ->
  forall rv rv' mname args args',
  vrel rv rv' -> Forall2 vrel args args' ->
  orel (run_method app1 rv mname args) (run_method app2 rv' mname args').
Proof. exact run_method_rel. Qed.

(* the side condition can be decided: wfb is a sound boolean check of wf *)
Theorem wfb_implies_wf : forall a am cm, wfb am cm a = true -> wf am cm a.
Proof. exact wfb_sound. Qed.

(* non-vacuity: a recursive func, a three-level closure capturing the argument, a let inside the
   second argument of a call, a let inside the argument of a map-field closure call
     func fac(n) if n<2 then 1 else n*fac(n-1);
     let h = a->b->c->a+b+c+x; let g = (a,b)->b; let m = {f: p->p+x};
     fac(x) + h(1)(2)(3) + g(x, let y=x+1; y) + m.f(let y=10; y)          with x = 5 *)
Example C01_core_nonvacuous :
  wf (map Some [ex_nx]) [] ex_prog /\
  gen_check (S (ast_size ex_prog)) (map Some [ex_nx]) [] ex_prog = true /\
  side_ok ex_prog = true /\
  eval [] 60 (combine [ex_nx] [VInt 5]) ex_prog = Ok (VInt 152) /\
  run [] 60 ex_prog [ex_nx] [VInt 5] = Ok (VInt 152).
Proof.
  split; [apply wfb_sound; vm_compute; reflexivity|].
  split; [vm_compute; reflexivity|]. split; [vm_compute; reflexivity|]. split; vm_compute; reflexivity.
Qed.

(* the side condition on a closure's own name is needed: Generate accepts this annotated tree (own
   name f listed as an outer identifier, Recursive not set - a shape the parser never produces),
   the reference binds f to the closure itself, the generated code to the captured argument *)
Example side_condition_this_needed :
  gen_check (S (ast_size bad_this)) (map Some [ex_nf]) [] bad_this = true /\
  side_ok bad_this = false /\
  run [] 20 bad_this [ex_nf] [VInt 7] = Ok (VInt 7) /\
  eval [] 20 (combine [ex_nf] [VInt 7]) bad_this <> Ok (VInt 7).
Proof. repeat split; try (vm_compute; reflexivity). vm_compute. discriminate. Qed.

(* the hypothesis "Generate accepts the program" of C01_from_ast cannot be dropped: wf alone does not
   exclude Generate-time errors in code that is never evaluated (here: sqr() with no argument in the
   untaken branch - the reference, which has no compile step, answers 1) *)
Example C01_from_ast_needs_gen_check :
  wf (map Some []) [] arity_in_dead_branch /\
  gen_check (S (ast_size arity_in_dead_branch)) (map Some []) [] arity_in_dead_branch = false /\
  eval [] 20 (combine [] []) arity_in_dead_branch = Ok (VInt 1) /\
  run [] 20 arity_in_dead_branch [] [] = Err None.
Proof. split; [cbn; auto|]. repeat split; vm_compute; reflexivity. Qed.


(* ================= Part 2: tables, the probed witness, examples on dumped ASTs ================= *)

(* the decidable obligation on the regenerated tables: every static function / method the models
   implement exists in value.New() with the modelled number of arguments *)
Theorem C01_tables_ok : c01_tables_ok = true.
Proof. vm_compute. reflexivity. Qed.

(* Full statement the pinned commit violated (kept visible):
     forall a names args fuel, wf a -> orel (Ref.eval fuel (combine names args) a) (run_buggy fuel a names args).
   Refuted: func f(a,b) a*100+b; f(x, let y=x+1; y) with x = 5. *)
Theorem C01_pinned_discipline_refuted :
  exists (a : ast) (names : list name) (args : list value),
    (forall known, Ref.eval known 8 (combine names args) a = Ok (VInt 506)) /\
    run_buggy 8 a names args = Ok (VInt 505).
Proof. exact pinned_discipline_refuted. Qed.

Theorem C01_repaired_discipline_on_witness :
  forall known, Gen.run known 8 witness_ast [nm 120] [VInt 5] = Ok (VInt 506).
Proof. exact repaired_discipline_on_witness. Qed.

(* ---- non-vacuity: reference semantics on the surface tree = generator model on the parser's AST ---- *)

Example C01_ex_let_in_second_argument :
  Ref.eval value_methods 50 [(x_, VInt 5)] ex_let_in_arg_T = Ok (VInt 506) /\
  Gen.run value_methods 50 ex_let_in_arg_A [x_] [VInt 5] = Ok (VInt 506).
Proof. split; vm_compute; reflexivity. Qed.

Example C01_ex_map_field_closure :
  Ref.eval value_methods 50 [(x_, VInt 5)] ex_map_field_T = Ok (VInt 506) /\
  Gen.run value_methods 50 ex_map_field_A [x_] [VInt 5] = Ok (VInt 506).
Proof. split; vm_compute; reflexivity. Qed.

Example C01_ex_three_closure_levels :
  Ref.eval value_methods 50 [(x_, VInt 5)] ex_three_levels_T = Ok (VInt 25) /\
  Gen.run value_methods 50 ex_three_levels_A [x_] [VInt 5] = Ok (VInt 25).
Proof. split; vm_compute; reflexivity. Qed.

Example C01_ex_recursive_func :
  Ref.eval value_methods 50 [(x_, VInt 5)] ex_fac_T = Ok (VInt 120) /\
  Gen.run value_methods 50 ex_fac_A [x_] [VInt 5] = Ok (VInt 120).
Proof. split; vm_compute; reflexivity. Qed.

(* the annotations matter: without Recursive the generator model reports a Generate error *)
Example C01_ex_recursion_needs_annotation :
  Gen.run value_methods 50 ex_fac_T [x_] [VInt 5] = Err None.
Proof. vm_compute. reflexivity. Qed.

Print Assumptions exec_sim.
Print Assumptions C01_from_ast.
Print Assumptions gen_check_implies_wf.
Print Assumptions C01_generated.
Print Assumptions C01_from_ast_fo.
Print Assumptions C01_first_order_result_exact.
Print Assumptions C01_outcome.
Print Assumptions call_frame_independent.
Print Assumptions exec_sim_pinned_refuted.
Print Assumptions calc_respects_vrel.
Print Assumptions run_static_respects_vrel.
Print Assumptions run_method_respects_vrel.
Print Assumptions wfb_implies_wf.
Print Assumptions C01_tables_ok.
Print Assumptions C01_pinned_discipline_refuted.
Print Assumptions C01_repaired_discipline_on_witness.
