(* MapAuto = sequential prefix + initParallel, FilterAuto on top of it: delivered logs compared with the sequential
   Map/Filter for every k, every switch decision, every worker count and every complete schedule; absence of
   deadlock (a complete schedule exists from every reachable state, enabled steps strictly decrease a measure). *)
From P2 Require Import Base.Prelude Conc.ParMap Conc.ConcProofs.
From Coq Require Import Lia Permutation.

(* ---------------------------------------------------------------- logs of a parallel stage vs the sequential log *)
Section LogRel.
Context {B : Type}.

(* Lf = sequential log of what was fed, Lr = of what was never fed because `done` had been closed *)
Definition log_rel (Lseq Lpar : list (res B)) : Prop :=
  exists Lf Lr, Lseq = Lf ++ Lr /\ Forall2 (@le_res B) Lf Lpar /\ (noerr Lf = true -> Lr = [] /\ Lpar = Lf).

Lemma forall2_le_refl : forall l : list (res B), Forall2 (@le_res B) l l.
Proof. induction l as [|x l IH]; constructor; [left; reflexivity|exact IH]. Qed.

Lemma log_rel_refl : forall l : list (res B), log_rel l l.
Proof. intro l. exists l, []. rewrite app_nil_r. split; [reflexivity|]. split; [apply forall2_le_refl|auto]. Qed.

Lemma log_rel_app : forall c a b : list (res B), log_rel a b -> log_rel (c ++ a) (c ++ b).
Proof.
  intros c a b (Lf & Lr & Ha & Hf & Hn). exists (c ++ Lf), Lr. rewrite Ha, app_assoc. split; [reflexivity|].
  split; [apply Forall2_app; [apply forall2_le_refl|exact Hf]|].
  unfold noerr. rewrite forallb_app. intro H. apply andb_true_iff in H. destruct H as (_ & H).
  destruct (Hn H) as (-> & ->). auto.
Qed.

Lemma ok_prefix_le : forall a b : list (res B), Forall2 (@le_res B) a b -> is_prefix (ok_prefix b) (ok_prefix a).
Proof.
  intros a b H. induction H as [|x y a b Hxy _ IH]; [exists []; reflexivity|].
  destruct Hxy as [->| ->]; [|exists (ok_prefix (x :: a)); reflexivity].
  destruct x as [v|]; [|exists []; reflexivity].
  cbn [ok_prefix]. destruct IH as (t & Ht). exists t. rewrite Ht. reflexivity.
Qed.

Lemma noerr_false_outcome : forall l : list (res B), noerr l = false -> outcome l = None.
Proof.
  induction l as [|x l IH]; intro H; [discriminate|]. destruct x as [v|]; [|reflexivity].
  cbn [outcome]. cbn in H. rewrite (IH H). reflexivity.
Qed.

Lemma le_noerr_false : forall a b : list (res B), Forall2 (@le_res B) a b -> noerr a = false -> noerr b = false.
Proof.
  intros a b H. induction H as [|x y a b Hxy _ IH]; intro Hn; [discriminate|].
  destruct Hxy as [->| ->]; [|reflexivity]. destruct x as [v|]; [|reflexivity]. cbn in *. apply IH, Hn.
Qed.

Lemma ok_prefix_app_err : forall a r : list (res B), noerr a = false -> ok_prefix (a ++ r) = ok_prefix a.
Proof.
  induction a as [|x a IH]; intros r H; [discriminate|]. destruct x as [v|]; [|reflexivity].
  cbn [app ok_prefix]. f_equal. apply IH. exact H.
Qed.

Lemma outcome_app_none : forall a r : list (res B), outcome a = None -> outcome (a ++ r) = None.
Proof.
  induction a as [|x a IH]; intros r H; [discriminate|]. destruct x as [v|]; [|reflexivity].
  cbn [app outcome] in *. destruct (outcome a); [discriminate|]. rewrite (IH r eq_refl). reflexivity.
Qed.

Lemma log_rel_delivered : forall a b : list (res B), log_rel a b -> delivered_as_seq a b.
Proof.
  intros a b (Lf & Lr & -> & Hf & Hn). destruct (noerr Lf) eqn:E.
  - destruct (Hn eq_refl) as (-> & ->). rewrite app_nil_r. repeat split; auto. exists []. rewrite app_nil_r. reflexivity.
  - split; [|split].
    + rewrite (noerr_false_outcome b (le_noerr_false _ _ Hf E)).
      rewrite (outcome_app_none Lf Lr (noerr_false_outcome Lf E)). reflexivity.
    + rewrite (ok_prefix_app_err Lf Lr E). apply ok_prefix_le, Hf.
    + unfold noerr. rewrite forallb_app. fold (noerr Lf). rewrite E. discriminate.
Qed.
End LogRel.

(* ---------------------------------------------------------------- any never-stopping consumer is a fold over the log *)
Section FoldSim.
Context {A B C : Type}.
Variable f : nat -> A -> res B.
Variable g : C -> res B -> C.
Variable c0 : C.

Definition yg (c : C) (x : res B) : C * bool := (g c x, true).
Definition hfold (log : list (res B)) : C := fold_left g log c0.

Definition map_coll (s : coll (B := B) (C := list (res B))) : coll (B := B) (C := C) :=
  mkColl (nextOut s) (buffer s) (cerr s) (doneOpen s) (hfold (cst s)) (alive s) (stuck s).
Definition map_p (s : pstate (A := A) (B := B) (C := list (res B))) : pstate (A := A) (B := B) (C := C) :=
  mkP (src s) (nexti s) (workers s) (feederDone s) (map_coll (col s)) (trace s).

Lemma hfold_snoc : forall l x, hfold (l ++ [x]) = g (hfold l) x.
Proof. intros l x. unfold hfold. rewrite fold_left_app. reflexivity. Qed.

Lemma flush_sim : forall fuel s, flush yg fuel (map_coll s) = map_coll (flush log_yield fuel s).
Proof.
  induction fuel as [|fuel IH]; intro s; cbn [flush map_coll nextOut buffer cst cerr doneOpen alive stuck];
    destruct (lookup (nextOut s) (buffer s)) as [e|]; try reflexivity.
  unfold yg, log_yield. rewrite <- hfold_snoc. rewrite <- IH. reflexivity.
Qed.

Lemma arrive_sim : forall s r, arrive yg (map_coll s) r = map_coll (arrive log_yield s r).
Proof.
  intros [no bu ce dop cs al st] r. unfold arrive. cbn [map_coll nextOut buffer cst cerr doneOpen alive stuck].
  destruct al; cbn [negb]; [|reflexivity].
  destruct (is_err (snd r) && negb ce); cbn [map_coll nextOut buffer cst cerr doneOpen alive stuck];
    (destruct (fst r =? no); [|reflexivity]); unfold yg at 1, log_yield at 1; rewrite <- hfold_snoc;
    match goal with |- _ = map_coll (flush _ ?n ?x) => exact (flush_sim n x) end.
Qed.

Lemma step_sim : forall s c, ParMap.step f yg (map_p s) c = map_p (ParMap.step f log_yield s c).
Proof.
  intros s c. destruct c as [w|w|]; cbn [ParMap.step map_p src nexti workers feederDone col trace].
  - destruct (feederDone s); [reflexivity|]. destruct (src s); [reflexivity|].
    destruct (nth_error (workers s) w) as [[r0|]|]; reflexivity.
  - destruct (nth_error (workers s) w) as [[r|]|]; try reflexivity.
    cbn [map_coll alive]. destruct (alive (col s)); [|reflexivity].
    unfold map_p. cbn [src nexti workers feederDone col trace]. rewrite <- arrive_sim. reflexivity.
  - destruct (feederDone s); [reflexivity|]. destruct (src s); [reflexivity|].
    cbn [map_coll doneOpen]. destruct (doneOpen (col s)); reflexivity.
Qed.

Lemma run_sim : forall sched s, ParMap.run f yg (map_p s) sched = map_p (ParMap.run f log_yield s sched).
Proof.
  induction sched as [|c sched IH]; intro s; [reflexivity|]. cbn [ParMap.run fold_left].
  rewrite step_sim. apply IH.
Qed.

Lemma par_init_sim : forall i nw items, map_p (par_init i nw items ([] : list (res B))) = par_init i nw items c0.
Proof. reflexivity. Qed.

Lemma complete_sim : forall s, complete (map_p s) = complete s.
Proof. reflexivity. Qed.

Lemma seq_map_sim : forall items i log,
  seq_map f yg i items (hfold log) = (hfold (fst (seq_map f log_yield i items log)), true).
Proof.
  induction items as [|x items IH]; intros i log; [reflexivity|].
  cbn [seq_map]. unfold yg at 1, log_yield at 1. rewrite <- hfold_snoc. apply IH.
Qed.
End FoldSim.

(* ---------------------------------------------------------------- initParallel: the delivered log, not only its outcome *)
Section ParLog.
Context {A B : Type}.
Variable f : nat -> A -> res B.

(* the log of the sequential Map started at index i *)
Definition slog (i : nat) (l : list (res A)) : list (res B) :=
  map (fun p => snd (work f p)) (combine (seq i (length l)) l).

Lemma slog_app : forall a b i, slog i (a ++ b) = slog i a ++ slog (i + length a) b.
Proof.
  intros a b i. unfold slog. rewrite app_length, seq_app.
  rewrite combine_app' by (rewrite seq_length; reflexivity). apply map_app.
Qed.

Lemma seq_map_slog : forall l i c, seq_map f log_yield i l c = (c ++ slog i l, true).
Proof. intros l i c. apply seq_map_log. Qed.

Lemma noerr_forall : forall (l : list (res B)), noerr l = true -> forall x, In x l -> is_err x = false.
Proof.
  intros l H x Hx. unfold noerr in H. rewrite forallb_forall in H. specialize (H x Hx).
  destruct (is_err x); [discriminate|reflexivity].
Qed.

Lemma par_log_rel : forall i0 nw (items : list (res A)) sched,
  let s := ParMap.run f log_yield (par_init i0 nw items ([] : list (res B))) sched in
  complete s = true ->
  stuck (col s) = false /\ log_rel (slog i0 items) (cst (col s)).
Proof.
  intros i0 nw items sched s Hcomplete.
  pose proof (pinv_run f i0 items sched _ (pinv_init f i0 items nw)) as Hinv. fold s in Hinv.
  destruct Hinv as ((fed & Hitems & Hnext & Hperm) & Hcol & Hdone).
  set (out := out_of f i0 items).
  assert (Hout : forall l rest, items = l ++ rest ->
            map (work f) (indexed i0 l) = map (fun k => (k, out k)) (seq i0 (length l))).
  { intros l rest Hl. unfold indexed. apply work_indexed. intros j x Hj. unfold out, out_of.
    replace (i0 + j - i0) with j by lia. rewrite Hl, nth_error_app1 by (apply nth_error_Some; congruence).
    rewrite Hj. reflexivity. }
  assert (Hnd : NoDup (map fst (held s ++ trace s)) /\ forall k v, In (k, v) (held s ++ trace s) -> i0 <= k < i0 + length fed /\ v = out k).
  { rewrite (Hout fed (src s) Hitems) in Hperm. split.
    - apply (Permutation_NoDup (l := map fst (map (fun k => (k, out k)) (seq i0 (length fed))))).
      + apply Permutation_map, Permutation_sym, Hperm.
      + rewrite map_map. cbn [fst]. rewrite map_id. apply seq_NoDup.
    - intros k v Hin. apply (Permutation_in _ Hperm) in Hin. apply in_map_iff in Hin.
      destruct Hin as (k' & Heq & Hk'). injection Heq as <- <-. apply in_seq in Hk'. split; [lia|reflexivity]. }
  destruct Hnd as (Hnd & Hvals).
  assert (Halive : alive (col s) = true).
  { assert (Hc : cinv out i0 true (rev (map fst (trace s)) ++ []) (col s)).
    { rewrite Hcol. apply collect_inv; [apply cinv_init| |].
      - rewrite map_app in Hnd. apply nodup_app_r in Hnd. exact Hnd.
      - intros k v Hin. destruct (Hvals k v) as (H1 & H2); [apply in_or_app; right; exact Hin|]. repeat split; [lia|exact H2|intros []]. }
    destruct Hc as (Ha & _). exact Ha. }
  unfold complete in Hcomplete. rewrite Halive in Hcomplete. cbn [negb orb] in Hcomplete.
  apply andb_true_iff in Hcomplete. destruct Hcomplete as (Hfd & Hidle).
  assert (Hheld : held s = []).
  { unfold held. clear -Hidle. induction (workers s) as [|w ws IH]; [reflexivity|].
    cbn [forallb] in Hidle. apply andb_true_iff in Hidle. destruct Hidle as (Hw & Hws).
    destruct w; [discriminate|]. cbn [flat_map app]. apply IH, Hws. }
  rewrite Hheld in *. cbn [app] in *.
  rewrite (Hout fed (src s) Hitems) in Hperm.
  assert (Hp1 : Permutation (map fst (trace s)) (seq i0 (length fed))).
  { apply (Permutation_map fst) in Hperm. rewrite map_map in Hperm. cbn [fst] in Hperm. rewrite map_id in Hperm. exact Hperm. }
  assert (Hv1 : forall k v, In (k, v) (trace s) -> v = out k) by (intros k v Hin; apply (Hvals k v Hin)).
  destruct (collect_final out i0 (length fed) (trace s) Hp1 Hv1) as (Hstuck & _ & _ & Hle & Hexact).
  rewrite <- Hcol in *. split; [exact Hstuck|].
  assert (Hslog : forall l rest, items = l ++ rest -> slog i0 l = map out (seq i0 (length l))).
  { intros l rest Hl. pose proof (Hout l rest Hl) as H. unfold indexed in H.
    apply (f_equal (map snd)) in H. rewrite !map_map in H. cbn [snd] in H. exact H. }
  exists (slog i0 fed), (slog (i0 + length fed) (src s)).
  split; [rewrite Hitems at 1; apply slog_app|].
  rewrite (Hslog fed (src s) Hitems). split; [exact Hle|].
  intro Hn. destruct Hexact as (Hcst & Hopen).
  { intros k Hk. apply (noerr_forall _ Hn). apply in_map. apply in_seq. lia. }
  destruct (Hdone Hfd) as [Hsrc|Hclosed]; [|congruence].
  rewrite Hsrc. split; [reflexivity|exact Hcst].
Qed.
End ParLog.

(* ---------------------------------------------------------------- MapAuto *)
Section MapAuto.
Context {A B : Type}.
Variable f : nat -> A -> res B.

Definition snoc_log (c : list (res B)) (x : res B) : list (res B) := c ++ [x].

Lemma hfold_snoc_log : forall c1 l, hfold snoc_log c1 l = c1 ++ l.
Proof.
  intros c1 l. revert c1. unfold hfold. induction l as [|x l IH]; intro c1; [rewrite app_nil_r; reflexivity|].
  cbn [fold_left]. rewrite IH. unfold snoc_log. rewrite <- app_assoc. reflexivity.
Qed.

(* the protocol started with a consumer that has already received c1 *)
Lemma run_prefix : forall i nw (items : list (res A)) c1 sched,
  ParMap.run f log_yield (par_init i nw items c1) sched
  = map_p snoc_log c1 (ParMap.run f log_yield (par_init i nw items ([] : list (res B))) sched).
Proof. intros i nw items c1 sched. exact (run_sim f snoc_log c1 sched (par_init i nw items [])). Qed.

Lemma map_auto_log_rel_lem : forall (k : nat) (decide : bool) (nw : nat) (sched : list choice) (items : list (res A)),
  let m := map_auto_run f log_yield k decide nw sched items ([] : list (res B)) in
  ma_complete m = true ->
  log_rel (slog f 0 items) (ma_cst m).
Proof.
  intros k decide nw sched items m Hc.
  assert (Hsplit : slog f 0 items = slog f 0 (firstn k items) ++ slog f (length (firstn k items)) (skipn k items)).
  { rewrite <- (firstn_skipn k items) at 1. rewrite slog_app. reflexivity. }
  subst m. unfold map_auto_run in *. rewrite seq_map_slog in *. cbn [negb app] in *.
  destruct (skipn k items) as [|x rest] eqn:Hrest.
  - cbn [ma_cst]. rewrite Hsplit. unfold slog at 3. cbn. rewrite app_nil_r. apply log_rel_refl.
  - assert (Hk : length (firstn k items) = k).
    { apply firstn_length_le. destruct (Nat.le_gt_cases k (length items)) as [H|H]; [exact H|].
      rewrite skipn_all2 in Hrest by lia. discriminate. }
    rewrite Hsplit, Hk. destruct decide.
    + cbn [ma_cst ma_complete] in *. rewrite run_prefix in *.
      cbn [map_p col map_coll cst]. rewrite hfold_snoc_log. apply log_rel_app.
      rewrite complete_sim in Hc. apply (par_log_rel f k nw (x :: rest) sched Hc).
    + rewrite seq_map_slog. cbn [ma_cst]. apply log_rel_refl.
Qed.

Lemma map_auto_eq_seq_lem : forall (k : nat) (decide : bool) (nw : nat) (sched : list choice) (items : list (res A)),
  let m := map_auto_run f log_yield k decide nw sched items ([] : list (res B)) in
  ma_complete m = true ->
  delivered_as_seq (fst (seq_map f log_yield 0 items [])) (ma_cst m).
Proof.
  intros k decide nw sched items m Hc. apply log_rel_delivered. rewrite seq_map_slog. cbn [fst app].
  apply map_auto_log_rel_lem. exact Hc.
Qed.
End MapAuto.

(* ---------------------------------------------------------------- no deadlock *)
Section Progress.
Context {A B : Type}.
Variable f : nat -> A -> res B.
Notation pstate := (pstate (A := A) (B := B) (C := list (res B))).
Notation stepL := (ParMap.step f (@log_yield B)).
Notation runL := (ParMap.run f (@log_yield B)).

Lemma flush_alive : forall fuel (s : coll (B := B) (C := list (res B))), alive s = true -> alive (flush log_yield fuel s) = true.
Proof.
  induction fuel as [|fuel IH]; intros s H; cbn [flush]; destruct (lookup (nextOut s) (buffer s)); auto.
  unfold log_yield. apply IH. reflexivity.
Qed.

Lemma arrive_alive : forall (s : coll (B := B) (C := list (res B))) r, alive s = true -> alive (arrive log_yield s r) = true.
Proof.
  intros s r H. unfold arrive. rewrite H. cbn [negb].
  destruct (is_err (snd r) && negb (cerr s)); cbn [nextOut buffer cerr doneOpen cst alive stuck];
    destruct (fst r =? nextOut s); unfold log_yield; try (apply flush_alive; reflexivity); cbn [alive]; auto.
Qed.

Lemma set_nth_length : forall (X : Type) w (x : X) l, length (set_nth w x l) = length l.
Proof. intros X w x l. revert w. induction l as [|y l IH]; intros [|w]; cbn [set_nth length]; auto. Qed.

Lemma busy_set_some : forall (ws : list (option (nat * res B))) w r, nth_error ws w = Some None ->
  busy (set_nth w (Some r) ws) = S (busy ws).
Proof.
  unfold busy. induction ws as [|x ws IH]; intros [|w] r H; cbn [nth_error] in H; try discriminate.
  - injection H as ->. reflexivity.
  - cbn [set_nth filter]. destruct (negb (idle x)); cbn [length]; rewrite (IH w r H); reflexivity.
Qed.

Lemma busy_set_none : forall (ws : list (option (nat * res B))) w r, nth_error ws w = Some (Some r) ->
  S (busy (set_nth w None ws)) = busy ws.
Proof.
  unfold busy. induction ws as [|x ws IH]; intros [|w] r H; cbn [nth_error] in H; try discriminate.
  - injection H as ->. reflexivity.
  - cbn [set_nth filter]. destruct (negb (idle x)); cbn [length]; rewrite <- (IH w r H); reflexivity.
Qed.

Lemma step_disabled : forall (s : pstate) c, enabled s c = false -> stepL s c = s.
Proof.
  intros s c H. destruct s as [sr ni ws fd co tr]. destruct c as [w|w|]; cbn [enabled ParMap.step src nexti workers feederDone col trace] in *.
  - destruct fd; [reflexivity|]. cbn [negb andb] in H. destruct sr as [|x0 sr0]; [discriminate|].
    destruct (nth_error ws w) as [[r|]|]; try reflexivity. discriminate.
  - destruct (nth_error ws w) as [[r|]|]; try reflexivity. rewrite H. reflexivity.
  - destruct fd; [reflexivity|]. cbn [negb andb] in H. destruct sr as [|x0 sr0]; [reflexivity|].
    destruct (doneOpen co); [reflexivity|discriminate].
Qed.

Lemma step_enabled : forall (s : pstate) c, enabled s c = true -> measure (stepL s c) < measure s.
Proof.
  intros s c H. destruct s as [sr ni ws fd co tr]. unfold measure.
  destruct c as [w|w|]; cbn [enabled ParMap.step src nexti workers feederDone col trace] in *.
  - destruct fd; [discriminate|]. cbn [negb andb] in H. destruct sr as [|x sr].
    + cbn [src workers feederDone length]. lia.
    + destruct (nth_error ws w) as [[r|]|] eqn:Hw; try discriminate.
      cbn [src workers feederDone length]. rewrite (busy_set_some _ _ _ Hw). lia.
  - destruct (nth_error ws w) as [[r|]|] eqn:Hw; try discriminate. rewrite H.
    cbn [src workers feederDone]. rewrite <- (busy_set_none _ _ _ Hw). lia.
  - destruct fd; [discriminate|]. cbn [negb andb] in H. destruct sr as [|x sr]; [discriminate|].
    destruct (doneOpen co); [discriminate|]. cbn [src workers feederDone length]. lia.
Qed.

Lemma busy_worker : forall ws : list (option (nat * res B)), forallb idle ws = false ->
  exists w r, nth_error ws w = Some (Some r).
Proof.
  induction ws as [|x ws IH]; intro H; [discriminate|]. cbn [forallb] in H.
  destruct x as [r|]; [exists 0, r; reflexivity|]. cbn in H. destruct (IH H) as (w & r & Hw). exists (S w), r. exact Hw.
Qed.

Lemma all_idle_nth : forall (ws : list (option (nat * res B))) w, forallb idle ws = true -> w < length ws -> nth_error ws w = Some None.
Proof.
  induction ws as [|x ws IH]; intros w H Hw; [cbn in Hw; lia|]. cbn [forallb] in H. apply andb_true_iff in H.
  destruct H as (Hx & Hws). destruct x; [discriminate|]. destruct w; [reflexivity|]. apply IH; [exact Hws|cbn in Hw; lia].
Qed.

(* a state that is not final can move *)
Lemma progress : forall s : pstate, alive (col s) = true -> 1 <= length (workers s) -> complete s = false ->
  exists c, enabled s c = true.
Proof.
  intros s Hal Hnw Hc. unfold complete in Hc. rewrite Hal in Hc. cbn [negb orb] in Hc.
  destruct (forallb idle (workers s)) eqn:Hidle.
  - rewrite andb_true_r in Hc. exists (Feed 0). cbn [enabled]. rewrite Hc. cbn [negb andb].
    destruct (src s); [reflexivity|]. rewrite (all_idle_nth _ 0 Hidle) by lia. reflexivity.
  - destruct (busy_worker _ Hidle) as (w & r & Hw). exists (Deliver w). cbn [enabled]. rewrite Hw. exact Hal.
Qed.

Definition good (s : pstate) : Prop := alive (col s) = true /\ 1 <= length (workers s).

Lemma good_step : forall s c, good s -> good (stepL s c).
Proof.
  intros s c Hg. destruct (enabled s c) eqn:Hen; [|rewrite step_disabled by exact Hen; exact Hg].
  destruct Hg as (Hal & Hnw). destruct s as [sr ni ws fd co tr]. unfold good.
  destruct c as [w|w|]; cbn [enabled ParMap.step src nexti workers feederDone col trace] in *.
  - destruct fd; [discriminate|]. destruct sr as [|x0 sr0]; [split; assumption|].
    destruct (nth_error ws w) as [[r|]|]; try discriminate. cbn [col workers]. rewrite set_nth_length. split; assumption.
  - destruct (nth_error ws w) as [[r|]|]; try discriminate. rewrite Hal. cbn [col workers].
    rewrite set_nth_length. split; [apply arrive_alive; exact Hal|exact Hnw].
  - destruct fd; [discriminate|]. destruct sr as [|x0 sr0]; [discriminate|]. destruct (doneOpen co); [discriminate|].
    split; assumption.
Qed.

Lemma good_run : forall sched s, good s -> good (runL s sched).
Proof. induction sched as [|c sched IH]; intros s H; [exact H|]. cbn [ParMap.run fold_left]. apply IH, good_step, H. Qed.

(* from every good state a schedule of at most `measure` steps reaches a final state *)
Lemma complete_exists : forall n (s : pstate), measure s <= n -> good s ->
  exists sched, length sched <= n /\ complete (runL s sched) = true.
Proof.
  induction n as [|n IH]; intros s Hm Hg.
  - destruct (complete s) eqn:Hc; [exists []; split; [reflexivity|exact Hc]|].
    destruct Hg as (Hal & Hnw). destruct (progress s Hal Hnw Hc) as (c & Hen). apply step_enabled in Hen. lia.
  - destruct (complete s) eqn:Hc; [exists []; split; [cbn; lia|exact Hc]|].
    pose proof Hg as (Hal & Hnw). destruct (progress s Hal Hnw Hc) as (c & Hen).
    pose proof (step_enabled s c Hen) as Hlt.
    destruct (IH (stepL s c)) as (sched & Hlen & Hdone); [lia|apply good_step; exact Hg|].
    exists (c :: sched). split; [cbn; lia|exact Hdone].
Qed.

(* schedules in which every step can fire *)
Fixpoint all_enabled (s : pstate) (sched : list choice) : bool :=
  match sched with [] => true | c :: r => enabled s c && all_enabled (stepL s c) r end.

Lemma enabled_bounded : forall sched (s : pstate), all_enabled s sched = true -> length sched + measure (runL s sched) <= measure s.
Proof.
  induction sched as [|c sched IH]; intros s H; [cbn; lia|]. cbn [all_enabled] in H. apply andb_true_iff in H.
  destruct H as (Hen & Hrest). specialize (IH _ Hrest). pose proof (step_enabled s c Hen). cbn [length ParMap.run fold_left] in *.
  unfold ParMap.run in IH. lia.
Qed.

Lemma par_init_good : forall i nw (items : list (res A)) c1, 1 <= nw -> good (par_init i nw items c1).
Proof. intros i nw items c1 H. split; [reflexivity|]. cbn [par_init workers]. rewrite repeat_length. exact H. Qed.

(* MapAuto: whatever has happened so far (any k, any decision, any schedule prefix), the run can be completed;
   a state that is not final has an enabled step; schedules of enabled steps are bounded by the measure *)
Lemma map_auto_no_deadlock_lem : forall (k : nat) (decide : bool) (nw : nat) (sched : list choice) (items : list (res A)),
  1 <= nw ->
  (exists sched', ma_complete (map_auto_run f log_yield k decide nw (sched ++ sched') items ([] : list (res B))) = true) /\
  (forall s, map_auto_run f log_yield k decide nw sched items ([] : list (res B)) = MAPar s ->
     (complete s = false -> exists c, enabled s c = true) /\
     (forall more, all_enabled s more = true -> length more <= measure s)).
Proof.
  intros k decide nw sched items Hnw. unfold map_auto_run.
  destruct (seq_map f log_yield 0 (firstn k items) []) as [c1 go].
  destruct (negb go); [split; [exists []; reflexivity|intros s H; discriminate]|].
  destruct (skipn k items) as [|x rest]; [split; [exists []; reflexivity|intros s H; discriminate]|].
  destruct decide.
  - pose proof (good_run sched _ (par_init_good k nw (x :: rest) c1 Hnw)) as Hg. split.
    + destruct (complete_exists _ _ (le_n _) Hg) as (sched' & _ & Hdone). exists sched'.
      cbn [ma_complete]. unfold ParMap.run in *. rewrite fold_left_app. exact Hdone.
    + intros s Hs. injection Hs as <-. split.
      * destruct Hg as (Hal & Hw). apply progress; assumption.
      * intros more Hen. pose proof (enabled_bounded more _ Hen). lia.
  - destruct (seq_map f log_yield k (x :: rest) c1). split; [exists []; reflexivity|intros s H; discriminate].
Qed.
End Progress.

(* ---------------------------------------------------------------- MapAuto as a function: the canonical completion *)
Section Drive.
Context {A B : Type}.
Variable f : nat -> A -> res B.
Notation pstate := (pstate (A := A) (B := B) (C := list (res B))).
Notation stepL := (ParMap.step f (@log_yield B)).
Notation runL := (ParMap.run f (@log_yield B)).

Lemma first_busy_none : forall (ws : list (option (nat * res B))) i, first_busy ws i = None -> forallb idle ws = true.
Proof. induction ws as [|[r|] ws IH]; intros i H; cbn in *; [reflexivity|discriminate|apply (IH (S i) H)]. Qed.

Lemma first_busy_some : forall (ws : list (option (nat * res B))) i w, first_busy ws i = Some w ->
  i <= w /\ exists r, nth_error ws (w - i) = Some (Some r).
Proof.
  induction ws as [|[r|] ws IH]; intros i w H; cbn [first_busy] in H; [discriminate| |].
  - injection H as <-. split; [lia|]. rewrite Nat.sub_diag. exists r. reflexivity.
  - destruct (IH _ _ H) as (Hle & r & Hr). split; [lia|]. exists r.
    replace (w - i) with (S (w - S i)) by lia. exact Hr.
Qed.

Lemma pick_enabled : forall s : pstate, good s -> complete s = false -> enabled s (pick s) = true.
Proof.
  intros s (Hal & Hnw) Hc. unfold complete in Hc. rewrite Hal in Hc. cbn [negb orb] in Hc. unfold pick.
  destruct (first_busy (workers s) 0) as [w|] eqn:Hfb.
  - destruct (first_busy_some _ _ _ Hfb) as (_ & r & Hr). rewrite Nat.sub_0_r in Hr. cbn [enabled]. rewrite Hr. exact Hal.
  - pose proof (first_busy_none _ _ Hfb) as Hidle. rewrite Hidle, andb_true_r in Hc.
    cbn [enabled]. rewrite Hc. cbn [negb andb]. destruct (src s); [reflexivity|].
    rewrite (all_idle_nth _ 0 Hidle) by lia. reflexivity.
Qed.

Lemma drive_complete : forall n (s : pstate), measure s <= n -> good s -> complete (drive f log_yield n s) = true.
Proof.
  induction n as [|n IH]; intros s Hm Hg; cbn [drive].
  - destruct (complete s) eqn:Hc; [reflexivity|]. pose proof (step_enabled f s _ (pick_enabled s Hg Hc)). lia.
  - destruct (complete s) eqn:Hc; [exact Hc|]. pose proof (step_enabled f s _ (pick_enabled s Hg Hc)).
    apply IH; [lia|apply good_step; exact Hg].
Qed.

Lemma drive_sched : forall n (s : pstate), exists sched, drive f log_yield n s = runL s sched.
Proof.
  induction n as [|n IH]; intro s; cbn [drive]; [exists []; reflexivity|].
  destruct (complete s); [exists []; reflexivity|]. destruct (IH (stepL s (pick s))) as (sched & H).
  exists (pick s :: sched). exact H.
Qed.

(* the function map_auto is map_auto_run under the given schedule extended by some completion, and that run is complete *)
Lemma map_auto_as_run : forall k decide nw sched (items : list (res A)), 1 <= nw ->
  exists sched', ma_complete (map_auto_run f log_yield k decide nw (sched ++ sched') items []) = true /\
                 fst (map_auto f log_yield k decide nw sched items []) = ma_cst (map_auto_run f log_yield k decide nw (sched ++ sched') items []).
Proof.
  intros k decide nw sched items Hnw. unfold map_auto, map_auto_run.
  destruct (seq_map f log_yield 0 (firstn k items) []) as [c1 go].
  destruct (negb go); [exists []; split; reflexivity|].
  destruct (skipn k items) as [|x rest]; [exists []; split; reflexivity|].
  destruct decide.
  - set (s := runL (par_init k nw (x :: rest) c1) sched).
    assert (Hg : good s) by (apply good_run, par_init_good; exact Hnw).
    destruct (drive_sched (measure s) s) as (sched' & Hd). exists sched'.
    unfold ParMap.run in *. rewrite fold_left_app. fold s. cbn [ma_complete ma_cst fst]. rewrite <- Hd.
    split; [apply drive_complete; [apply le_n|exact Hg]|reflexivity].
  - destruct (seq_map f log_yield k (x :: rest) c1). exists []. split; reflexivity.
Qed.

Lemma map_auto_log_rel : forall k decide nw sched (items : list (res A)), 1 <= nw ->
  log_rel (slog f 0 items) (fst (map_auto f log_yield k decide nw sched items [])).
Proof.
  intros k decide nw sched items Hnw. destruct (map_auto_as_run k decide nw sched items Hnw) as (sched' & Hc & ->).
  exact (map_auto_log_rel_lem f k decide nw (sched ++ sched') items Hc).
Qed.

Lemma map_auto_delivered : forall k decide nw sched (items : list (res A)), 1 <= nw ->
  delivered_as_seq (slog f 0 items) (fst (map_auto f log_yield k decide nw sched items [])).
Proof. intros. apply log_rel_delivered, map_auto_log_rel. assumption. Qed.
End Drive.

(* the same for any never-stopping consumer g: it sees the fold of g over the log *)
Section DriveSim.
Context {A B C : Type}.
Variable f : nat -> A -> res B.
Variable g : C -> res B -> C.
Variable c0 : C.

Lemma drive_sim : forall n s, drive f (yg g) n (map_p g c0 s) = map_p g c0 (drive f log_yield n s).
Proof.
  induction n as [|n IH]; intro s; cbn [drive]; [reflexivity|]. rewrite complete_sim.
  destruct (complete s); [reflexivity|]. change (pick (map_p g c0 s)) with (pick s). rewrite step_sim. apply IH.
Qed.

Lemma map_auto_sim : forall k decide nw sched (items : list (res A)),
  fst (map_auto f (yg g) k decide nw sched items c0) = hfold g c0 (fst (map_auto f log_yield k decide nw sched items [])).
Proof.
  intros k decide nw sched items. unfold map_auto, map_auto_run.
  change c0 with (hfold g c0 []) at 1. rewrite seq_map_sim. rewrite seq_map_slog. cbn [fst negb app].
  destruct (skipn k items) as [|x rest]; [reflexivity|]. destruct decide.
  - change (par_init k nw (x :: rest) (hfold g c0 (slog f 0 (firstn k items))))
      with (map_p g c0 (par_init k nw (x :: rest) (slog f 0 (firstn k items)))).
    rewrite run_sim. change (measure (map_p g c0 ?s)) with (measure s).
    match goal with |- context [drive f (yg g) ?n (map_p g c0 ?s)] => rewrite (drive_sim n s) end. reflexivity.
  - rewrite seq_map_sim, seq_map_slog. reflexivity.
Qed.
Lemma map_auto_run_sim : forall k decide nw sched (items : list (res A)),
  ma_complete (map_auto_run f (yg g) k decide nw sched items c0) = ma_complete (map_auto_run f log_yield k decide nw sched items [])
  /\ ma_cst (map_auto_run f (yg g) k decide nw sched items c0) = hfold g c0 (ma_cst (map_auto_run f log_yield k decide nw sched items [])).
Proof.
  intros k decide nw sched items. unfold map_auto_run.
  pose proof (seq_map_sim f g c0 (firstn k items) 0 []) as H1. change (hfold g c0 []) with c0 in H1. rewrite H1.
  rewrite seq_map_slog. cbn [fst negb app].
  destruct (skipn k items) as [|x rest]; [split; reflexivity|]. destruct decide.
  - change (par_init k nw (x :: rest) (hfold g c0 (slog f 0 (firstn k items))))
      with (map_p g c0 (par_init k nw (x :: rest) (slog f 0 (firstn k items)))).
    rewrite run_sim. split; reflexivity.
  - rewrite seq_map_sim, seq_map_slog. split; reflexivity.
Qed.
End DriveSim.

(* ---------------------------------------------------------------- FilterAuto *)
Section Filter.
Context {V : Type}.
Variable accept : V -> res bool.

Definition fpiece (r : res (V * bool)) : list (res V) :=
  match r with ROk (x, true) => [ROk x] | ROk (_, false) => [] | RErr => [RErr] end.

Lemma filter_fold : forall l acc, fold_left (@filter_step V) l acc = acc ++ flat_map fpiece l.
Proof.
  induction l as [|r l IH]; intro acc; cbn [fold_left flat_map]; [rewrite app_nil_r; reflexivity|].
  rewrite IH. destruct r as [[x [|]]|]; cbn [filter_step fpiece app]; rewrite <- ?app_assoc; reflexivity.
Qed.

Lemma seq_filter_slog : forall (items : list (res V)) i, seq_filter accept items = flat_map fpiece (slog (filter_mapper accept) i items).
Proof.
  induction items as [|x items IH]; intro i; [reflexivity|].
  unfold slog. cbn [length seq combine map flat_map]. fold (slog (filter_mapper accept) (S i) items). rewrite <- IH.
  destruct x as [v|]; cbn [seq_filter work snd fst]; [|reflexivity].
  unfold filter_mapper. destruct (accept v) as [[|]|]; reflexivity.
Qed.

Lemma noerr_pieces : forall l : list (res (V * bool)), noerr (flat_map fpiece l) = noerr l.
Proof.
  induction l as [|r l IH]; [reflexivity|]. cbn [flat_map]. unfold noerr in *. rewrite forallb_app, IH.
  destruct r as [[x [|]]|]; reflexivity.
Qed.

Lemma ok_prefix_pieces : forall a b R, Forall2 (@le_res (V * bool)) a b ->
  is_prefix (ok_prefix (flat_map fpiece b)) (ok_prefix (flat_map fpiece a ++ R)).
Proof.
  intros a b R H. induction H as [|x y a b Hxy _ IH]; [exists (ok_prefix R); reflexivity|].
  destruct Hxy as [->| ->]; [|exists (ok_prefix (flat_map fpiece (x :: a) ++ R)); reflexivity].
  destruct x as [[v [|]]|]; cbn [flat_map fpiece app ok_prefix]; [|exact IH|exists []; reflexivity].
  destruct IH as (t & Ht). exists t. rewrite Ht. reflexivity.
Qed.

Lemma filter_delivered : forall Lseq Lpar : list (res (V * bool)), log_rel Lseq Lpar ->
  delivered_as_seq (flat_map fpiece Lseq) (flat_map fpiece Lpar).
Proof.
  intros Lseq Lpar (Lf & Lr & -> & Hf & Hn). destruct (noerr Lf) eqn:E.
  - destruct (Hn eq_refl) as (-> & ->). rewrite app_nil_r. repeat split; auto. exists []. rewrite app_nil_r. reflexivity.
  - rewrite flat_map_app. split; [|split].
    + rewrite (noerr_false_outcome (flat_map fpiece Lpar)) by (rewrite noerr_pieces; apply (le_noerr_false _ _ Hf E)).
      rewrite outcome_app_none; [reflexivity|]. apply noerr_false_outcome. rewrite noerr_pieces. exact E.
    + apply ok_prefix_pieces. exact Hf.
    + unfold noerr. rewrite forallb_app. fold (noerr (flat_map fpiece Lf)). rewrite noerr_pieces, E. discriminate.
Qed.

(* FilterAuto = Filter: any k, any decision, any worker count, any complete schedule *)
Lemma filter_auto_eq_seq_lem : forall (k : nat) (decide : bool) (nw : nat) (sched : list choice) (items : list (res V)),
  let m := filter_auto_run accept k decide nw sched items in
  ma_complete m = true ->
  delivered_as_seq (seq_filter accept items) (ma_cst m).
Proof.
  intros k decide nw sched items m Hc. subst m. unfold filter_auto_run in *.
  (* the filtering consumer is a fold over the log of the recording consumer *)
  pose proof (map_auto_run_sim (filter_mapper accept) (@filter_step V) [] k decide nw sched items) as Hsim.
  change (yg (@filter_step V)) with (@filter_yield V) in Hsim.
  destruct Hsim as (Hc' & ->). rewrite Hc' in Hc.
  unfold hfold. rewrite filter_fold. cbn [app]. rewrite (seq_filter_slog items 0).
  apply filter_delivered. exact (map_auto_log_rel_lem (filter_mapper accept) k decide nw sched items Hc).
Qed.
End Filter.

(* FilterAuto runs the same feeder/workers/collector; its consumer never stops: a complete schedule exists from every
   reachable state *)
Lemma filter_auto_no_deadlock_lem : forall (V : Type) (accept : V -> res bool) (k : nat) (decide : bool) (nw : nat)
  (sched : list choice) (items : list (res V)), 1 <= nw ->
  exists sched', ma_complete (filter_auto_run accept k decide nw (sched ++ sched') items) = true.
Proof.
  intros V accept k decide nw sched items Hnw.
  destruct (map_auto_no_deadlock_lem (filter_mapper accept) k decide nw sched items Hnw) as ((sched' & H) & _).
  exists sched'. unfold filter_auto_run.
  pose proof (map_auto_run_sim (filter_mapper accept) (@filter_step V) [] k decide nw (sched ++ sched') items) as (Hc & _).
  change (yg (@filter_step V)) with (@filter_yield V) in Hc. rewrite Hc. exact H.
Qed.
