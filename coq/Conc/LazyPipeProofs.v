(* Early stopping composed through a whole lazy pipeline (Conc/LazyPipe.v): by induction over the stages, from the
   per-stage prefix lemmas of EarlyStopProofs.v, strengthened by "no error is delivered unless the sequential stream
   of the stage contains one". *)
From P2 Require Import Base.Prelude Conc.ParMap Conc.Pipeline Conc.ConcProofs Conc.MapAutoProofs Conc.MergeChanProofs Conc.EarlyStopProofs Conc.LazyPipe.
From Coq Require Import Lia Permutation.

(* ---- the recording run at any moment: if the sequential log has no error, what was delivered has none ------------- *)
Section NoErr.
Context {A B : Type}.
Variable f : nat -> A -> res B.

Lemma noerr_app : forall (X : Type) (a b : list (res X)), noerr (a ++ b) = noerr a && noerr b.
Proof. intros X a b. unfold noerr. apply forallb_app. Qed.

Lemma noerr_prefix : forall (X : Type) (a b : list (res X)), is_prefix a b -> noerr b = true -> noerr a = true.
Proof. intros X a b (t & ->) H. rewrite noerr_app in H. apply andb_prop in H. apply H. Qed.

Lemma par_log_noerr : forall i0 nw (items : list (res A)) sched,
  noerr (slog f i0 items) = true ->
  noerr (cst (col (ParMap.run f log_yield (par_init i0 nw items ([] : list (res B))) sched))) = true
  /\ doneOpen (col (ParMap.run f log_yield (par_init i0 nw items ([] : list (res B))) sched)) = true.
Proof.
  intros i0 nw items sched Hne. set (s := ParMap.run f log_yield (par_init i0 nw items []) sched).
  pose proof (pinv_run f i0 items sched _ (pinv_init f i0 items nw)) as Hinv. fold s in Hinv.
  destruct Hinv as ((fed & Hitems & Hnext & Hperm) & Hcol & Hdone).
  set (out := out_of f i0 items).
  assert (Hout : forall l rest, items = l ++ rest ->
            map (work f) (indexed i0 l) = map (fun k => (k, out k)) (seq i0 (length l))).
  { intros l rest Hl. unfold indexed. apply work_indexed. intros j x Hj. unfold out, out_of.
    replace (i0 + j - i0) with j by lia. rewrite Hl, nth_error_app1 by (apply nth_error_Some; congruence).
    rewrite Hj. reflexivity. }
  assert (Hnd : NoDup (map fst (held s ++ trace s)) /\ forall k v, In (k, v) (held s ++ trace s) -> i0 <= k < i0 + length fed /\ v = out k).
  { rewrite (Hout fed (src s) Hitems) in Hperm. split.
    - apply (Permutation_NoDup (l := map fst (map (fun k => (k, out k)) (seq i0 (length fed))))).
      + apply Permutation_map, Permutation_sym, Hperm.
      + rewrite map_map. cbn [fst]. rewrite map_id. apply seq_NoDup.
    - intros k v Hin. apply (Permutation_in _ Hperm) in Hin. apply in_map_iff in Hin.
      destruct Hin as (k' & Heq & Hk'). injection Heq as <- <-. apply in_seq in Hk'. split; [lia|reflexivity]. }
  destruct Hnd as (Hnd & Hvals).
  assert (Hc : cinv out i0 true (rev (map fst (trace s)) ++ []) (col s)).
  { rewrite Hcol. apply collect_inv; [apply cinv_init| |].
    - rewrite map_app in Hnd. apply nodup_app_r in Hnd. exact Hnd.
    - intros k v Hin. destruct (Hvals k v) as (H1 & H2); [apply in_or_app; right; exact Hin|]. repeat split; [lia|exact H2|intros []]. }
  destruct Hc as (_ & _ & Hi & Hall & _ & _ & _ & Hce & Hiff & Hdo).
  set (n := nextOut (col s) - i0) in *.
  assert (Hn : n <= length fed).
  { destruct (Nat.eq_dec n 0) as [->|Hne0]; [lia|].
    assert (Hin : In (nextOut (col s) - 1) (rev (map fst (trace s)) ++ [])) by (apply Hall; lia).
    rewrite app_nil_r in Hin. apply in_rev, in_map_iff in Hin. destruct Hin as ([k v] & Hk & Hin). cbn in Hk. subst k.
    destruct (Hvals _ v (in_or_app _ _ _ (or_intror Hin))) as (Hr & _). lia. }
  assert (Hlen : length items = length fed + length (src s)) by (rewrite Hitems at 1; apply app_length).
  assert (Hslog : slog f i0 items = map out (seq i0 (length items))).
  { pose proof (Hout items [] (eq_sym (app_nil_r items))) as H. unfold indexed in H.
    apply (f_equal (map snd)) in H. rewrite !map_map in H. cbn [snd] in H. exact H. }
  assert (Hok : forall k, i0 <= k < i0 + length items -> is_err (out k) = false).
  { intros k Hk. apply (noerr_forall _ Hne). rewrite Hslog. apply in_map, in_seq. lia. }
  assert (Hcerr : cerr (col s) = false).
  { apply Hiff. intros k Hin. rewrite app_nil_r in Hin. apply in_rev, in_map_iff in Hin.
    destruct Hin as ([k' v] & Hk & Hin). cbn in Hk. subst k'.
    destruct (Hvals _ v (in_or_app _ _ _ (or_intror Hin))) as (Hr & _). apply Hok. lia. }
  split; [|rewrite Hdo, Hcerr; reflexivity].
  rewrite (Hce Hcerr). unfold noerr. apply forallb_forall. intros x Hx. apply in_map_iff in Hx.
  destruct Hx as (k & <- & Hk). apply in_seq in Hk. rewrite Hok by lia. reflexivity.
Qed.
End NoErr.

(* ---- MapAuto in front of any consumer, with the no-error clause -------------------------------------------------- *)
Section MapAutoStop2.
Context {A B C : Type}.
Variable f : nat -> A -> res B.
Variable g : C -> res B -> C.
Variable cont : C -> res B -> bool.
Variable c0 : C.

Lemma map_auto_stop_noerr : forall (k : nat) (decide : bool) (nw : nat) (sched : list choice) (items : list (res A)),
  noerr (slog f 0 items) = true ->
  exists P, noerr P = true /\
            ma_cst (map_auto_run f (ystop g cont) k decide nw sched items c0) = hfold g c0 P.
Proof.
  intros k decide nw sched items Hne. unfold map_auto_run.
  assert (Hsplit : slog f 0 items = slog f 0 (firstn k items) ++ slog f (length (firstn k items)) (skipn k items)).
  { rewrite <- (firstn_skipn k items) at 1. rewrite slog_app. reflexivity. }
  rewrite Hsplit, noerr_app in Hne. apply andb_prop in Hne. destruct Hne as (Hne1 & Hne2).
  destruct (seq_map_stop f g cont c0 (firstn k items) 0 []) as (n & go & Hn & Hle & Hgo).
  change (hfold g c0 []) with c0 in Hn. rewrite Hn. cbn [app] in *.
  destruct go; cbn [negb].
  - rewrite (Hgo eq_refl) in *. clear Hn. rewrite firstn_all2 by (unfold slog; rewrite map_length, combine_length, seq_length; lia).
    destruct (skipn k items) as [|x rest] eqn:Hrest.
    + exists (slog f 0 (firstn k items)). split; [exact Hne1|reflexivity].
    + assert (Hk : length (firstn k items) = k).
      { apply firstn_length_le. destruct (Nat.le_gt_cases k (length items)) as [H|H]; [exact H|].
        rewrite skipn_all2 in Hrest by lia. discriminate. }
      rewrite Hk in *. destruct decide.
      * set (L1 := slog f 0 (firstn k items)) in *.
        assert (Hrel : prel g c0 (par_init k nw (x :: rest) (hfold g c0 L1)) (par_init k nw (x :: rest) L1)).
        { left. split; reflexivity. }
        apply (run_stop f g cont c0 sched) in Hrel. cbn [ma_cst].
        pose proof (proj1 (par_log_noerr f k nw (x :: rest) sched Hne2)) as Hpart.
        rewrite (run_prefix f k nw (x :: rest) L1 sched) in Hrel.
        destruct Hrel as [(_ & He)|(_ & P & HP & Hc)].
        -- rewrite He. cbn [map_p col map_coll cst]. rewrite hfold_snoc_log. eexists. split; [|reflexivity].
           rewrite noerr_app, Hne1, Hpart. reflexivity.
        -- cbn [map_p col map_coll cst] in HP. rewrite hfold_snoc_log in HP.
           exists P. split; [|exact Hc]. apply (noerr_prefix _ _ _ HP). rewrite noerr_app, Hne1, Hpart. reflexivity.
      * destruct (seq_map_stop f g cont c0 (x :: rest) k (slog f 0 (firstn k items))) as (n' & go' & Hn' & _ & _).
        rewrite Hn'. cbn [ma_cst]. eexists. split; [|reflexivity].
        rewrite noerr_app, Hne1. cbn [andb]. apply (noerr_prefix _ _ _ (firstn_prefix _ n' _) Hne2).
  - exists (firstn n (slog f 0 (firstn k items))). split; [|reflexivity].
    apply (noerr_prefix _ _ _ (firstn_prefix _ n _) Hne1).
Qed.
End MapAutoStop2.

(* ---- lazy_rel: reflexive, transitive ------------------------------------------------------------------------------ *)
Lemma lazy_rel_refl : forall l, lazy_rel l l.
Proof. intro l. split; [apply prefix_refl|auto]. Qed.

Lemma lazy_rel_trans : forall a b c, lazy_rel a b -> lazy_rel b c -> lazy_rel a c.
Proof. intros a b c (H1 & H2) (H3 & H4). split; [eapply prefix_trans; eassumption|auto]. Qed.

Lemma prefix_cons_inv : forall (X : Type) (x y : X) a b, is_prefix (x :: a) (y :: b) -> x = y /\ is_prefix a b.
Proof. intros X x y a b (t & H). cbn in H. injection H as -> ->. split; [reflexivity|exists t; reflexivity]. Qed.

Lemma prefix_cons : forall (X : Type) (x : X) a b, is_prefix a b -> is_prefix (x :: a) (x :: b).
Proof. intros X x a b (t & ->). exists t. reflexivity. Qed.

Lemma prefix_nil : forall (X : Type) (b : list X), is_prefix [] b.
Proof. intros X b. exists b. reflexivity. Qed.

Lemma prefix_nil_inv : forall (X : Type) (x : X) a, ~ is_prefix (x :: a) [].
Proof. intros X x a (t & H). discriminate. Qed.

(* an error-free log whose values are a prefix of the sequential values IS a prefix of the sequential log *)
Lemma prefix_of_ok : forall (X : Type) (L S : list (res X)), noerr L = true -> is_prefix (ok_prefix L) (ok_prefix S) -> is_prefix L S.
Proof.
  intros X L. induction L as [|[x|] L IH]; intros S Hn Hp; [apply prefix_nil| |discriminate].
  destruct S as [|[y|] S]; cbn [ok_prefix] in Hp; try (exfalso; exact (prefix_nil_inv _ _ _ Hp)).
  apply prefix_cons_inv in Hp. destruct Hp as (<- & Hp). apply prefix_cons, IH; [exact Hn|exact Hp].
Qed.

(* ---- the sequential stages are monotone for lazy_rel -------------------------------------------------------------- *)
Section SeqMono.
Context {A B : Type}.
Variable f : nat -> A -> res B.

Lemma slog_cons : forall i x (r : list (res A)), slog f i (x :: r) = snd (work f (i, x)) :: slog f (S i) r.
Proof. intros i x r. reflexivity. Qed.

Lemma slog_okprefix_mono : forall (L S : list (res A)) i,
  is_prefix (ok_prefix L) (ok_prefix S) -> is_prefix (ok_prefix (slog f i L)) (ok_prefix (slog f i S)).
Proof.
  induction L as [|[x|] L IH]; intros S i Hp; try apply prefix_nil.
  destruct S as [|[y|] S]; cbn [ok_prefix] in Hp; try (exfalso; exact (prefix_nil_inv _ _ _ Hp)).
  apply prefix_cons_inv in Hp. destruct Hp as (<- & Hp). rewrite !slog_cons. cbn [work snd fst].
  destruct (f i x) as [v|]; cbn [ok_prefix]; [|apply prefix_nil]. apply prefix_cons, IH, Hp.
Qed.

Lemma slog_noerr_src : forall (S : list (res A)) i, noerr (slog f i S) = true -> noerr S = true.
Proof.
  induction S as [|[x|] S IH]; intros i H; [reflexivity| |discriminate].
  rewrite slog_cons in H. change (noerr (ROk x :: S)) with (noerr S). apply (IH (Datatypes.S i)).
  change (noerr (?a :: ?b)) with (negb (is_err a) && noerr b) in H. apply andb_prop in H. apply H.
Qed.

Lemma slog_prefix_mono : forall (L S : list (res A)) i, is_prefix L S -> is_prefix (slog f i L) (slog f i S).
Proof. intros L S i (t & ->). rewrite slog_app. eexists. reflexivity. Qed.
End SeqMono.

Lemma smap_mono : forall (f : nat -> Z -> res Z) (S L : list (res Z)), lazy_rel S L ->
  lazy_rel (fst (seq_map f log_yield 0 S [])) (fst (seq_map f log_yield 0 L [])).
Proof.
  intros f S L (Hp & Hn). rewrite !seq_map_slog. cbn [fst app]. split; [apply slog_okprefix_mono, Hp|].
  intro H. pose proof (Hn (slog_noerr_src f S 0 H)) as HL.
  apply (noerr_prefix _ _ _ (slog_prefix_mono f L S 0 (prefix_of_ok _ L S HL Hp)) H).
Qed.

Section FilterMono.
Variable accept : Z -> res bool.

Lemma seq_filter_app : forall a b : list (res Z), seq_filter accept (a ++ b) = seq_filter accept a ++ seq_filter accept b.
Proof.
  induction a as [|[x|] a IH]; intro b; cbn [app seq_filter]; [reflexivity| |rewrite IH; reflexivity].
  destruct (accept x) as [[|]|]; rewrite IH; reflexivity.
Qed.

Lemma seq_filter_okprefix_mono : forall (L S : list (res Z)),
  is_prefix (ok_prefix L) (ok_prefix S) -> is_prefix (ok_prefix (seq_filter accept L)) (ok_prefix (seq_filter accept S)).
Proof.
  induction L as [|[x|] L IH]; intros S Hp; try apply prefix_nil.
  destruct S as [|[y|] S]; cbn [ok_prefix] in Hp; try (exfalso; exact (prefix_nil_inv _ _ _ Hp)).
  apply prefix_cons_inv in Hp. destruct Hp as (<- & Hp). cbn [seq_filter].
  destruct (accept x) as [[|]|]; cbn [ok_prefix]; [apply prefix_cons, IH, Hp|apply IH, Hp|apply prefix_nil].
Qed.

Lemma seq_filter_noerr_src : forall S : list (res Z), noerr (seq_filter accept S) = true -> noerr S = true.
Proof.
  induction S as [|[x|] S IH]; intro H; [reflexivity| |discriminate].
  change (noerr (ROk x :: S)) with (noerr S). apply IH. cbn [seq_filter] in H.
  destruct (accept x) as [[|]|]; [exact H|exact H|discriminate].
Qed.

Lemma seq_filter_mono : forall S L : list (res Z), lazy_rel S L -> lazy_rel (seq_filter accept S) (seq_filter accept L).
Proof.
  intros S L (Hp & Hn). split; [apply seq_filter_okprefix_mono, Hp|].
  intro H. pose proof (Hn (seq_filter_noerr_src S H)) as HL.
  destruct (prefix_of_ok _ L S HL Hp) as (t & ->). rewrite seq_filter_app in H. apply (noerr_prefix _ _ _ (prefix_app_r _ _ _) H).
Qed.
End FilterMono.

Section ScanMono.
Variable step : lstep.

Lemma ok_prefix_app_ok : forall (a b : list (res Z)), noerr a = true -> ok_prefix (a ++ b) = ok_prefix a ++ ok_prefix b.
Proof. induction a as [|[x|] a IH]; intros b H; [reflexivity| |discriminate]. cbn [app ok_prefix]. rewrite (IH b H). reflexivity. Qed.

Lemma scan_stage_okprefix_mono : forall (L S : list (res Z)) st,
  is_prefix (ok_prefix L) (ok_prefix S) -> is_prefix (ok_prefix (scan_stage step st L)) (ok_prefix (scan_stage step st S)).
Proof.
  induction L as [|[x|] L IH]; intros S st Hp; try apply prefix_nil.
  destruct S as [|[y|] S]; cbn [ok_prefix] in Hp; try (exfalso; exact (prefix_nil_inv _ _ _ Hp)).
  apply prefix_cons_inv in Hp. destruct Hp as (<- & Hp). cbn [scan_stage]. destruct (step st x) as [st' outs].
  destruct (noerr outs) eqn:E.
  - rewrite !ok_prefix_app_ok by exact E. apply prefix_app, IH, Hp.
  - rewrite !ok_prefix_app_err by exact E. apply prefix_refl.
Qed.

Lemma scan_stage_noerr_src : forall (S : list (res Z)) st, noerr (scan_stage step st S) = true -> noerr S = true.
Proof.
  induction S as [|[x|] S IH]; intros st H; [reflexivity| |discriminate].
  change (noerr (ROk x :: S)) with (noerr S). cbn [scan_stage] in H. destruct (step st x) as [st' outs].
  rewrite noerr_app in H. apply andb_prop in H. exact (IH st' (proj2 H)).
Qed.

Lemma scan_stage_prefix_mono : forall (L S : list (res Z)) st, is_prefix L S -> is_prefix (scan_stage step st L) (scan_stage step st S).
Proof.
  induction L as [|x L IH]; intros S st Hp; [apply prefix_nil|].
  destruct S as [|y S]; [exfalso; exact (prefix_nil_inv _ _ _ Hp)|]. apply prefix_cons_inv in Hp. destruct Hp as (<- & Hp).
  destruct x as [x|]; cbn [scan_stage].
  - destruct (step st x) as [st' outs]. apply prefix_app, IH, Hp.
  - apply prefix_cons, IH, Hp.
Qed.

Lemma scan_stage_mono : forall st (S L : list (res Z)), lazy_rel S L -> lazy_rel (scan_stage step st S) (scan_stage step st L).
Proof.
  intros st S L (Hp & Hn). split; [apply scan_stage_okprefix_mono, Hp|].
  intro H. pose proof (Hn (scan_stage_noerr_src S st H)) as HL.
  exact (noerr_prefix _ _ _ (scan_stage_prefix_mono L S st (prefix_of_ok _ L S HL Hp)) H).
Qed.
End ScanMono.

(* the consumer that stops: a prefix; it has stopped, or it was handed everything *)
Lemma take_until_spec : forall stopf l seen,
  exists n, fst (take_until stopf seen l) = seen ++ firstn n l
            /\ (snd (take_until stopf seen l) = true -> stopf (fst (take_until stopf seen l)) = true)
            /\ (snd (take_until stopf seen l) = false -> fst (take_until stopf seen l) = seen ++ l).
Proof.
  intros stopf. induction l as [|x l IH]; intro seen; cbn [take_until].
  - exists 0. cbn [fst snd firstn]. rewrite app_nil_r. split; [reflexivity|]. split; [discriminate|reflexivity].
  - destruct (stopf (seen ++ [x])) eqn:E.
    + exists 1. cbn [fst snd firstn]. split; [reflexivity|]. split; [intros _; exact E|discriminate].
    + destruct (IH (seen ++ [x])) as (n & H1 & H2 & H3). exists (S n). cbn [firstn].
      split; [rewrite H1, <- app_assoc; reflexivity|]. split; [exact H2|]. intro H. rewrite (H3 H), <- app_assoc. reflexivity.
Qed.

Lemma lazy_rel_firstn : forall n (l : list (res Z)), lazy_rel l (firstn n l).
Proof. intros n l. split; [apply ok_prefix_firstn|apply noerr_prefix, firstn_prefix]. Qed.

Lemma lstage_seq_mono : forall s S L, lazy_rel S L -> lazy_rel (lstage_seq s S) (lstage_seq s L).
Proof. intros [p|p|init step] S L H; cbn [lstage_seq]; [apply smap_mono|apply seq_filter_mono|apply scan_stage_mono]; exact H. Qed.

(* ---- one stage under its schedule inputs against the sequential stage on the same source --------------------------- *)
Lemma map_stage_rel : forall (f : nat -> Z -> res Z) stopf k decide nw sched (items : list (res Z)),
  lazy_rel (fst (seq_map f log_yield 0 items []))
           (ma_cst (map_auto_run f (stop_yield stopf) k decide nw sched items [])).
Proof.
  intros f stopf k decide nw sched items. split.
  - exact (proj2 (proj2 (map_auto_early_stop_lem _ _ f stopf k decide nw sched items))).
  - rewrite seq_map_slog. cbn [fst app]. intro Hne.
    destruct (map_auto_stop_noerr f snoc_log (fun c x => negb (stopf (c ++ [x]))) [] k decide nw sched items Hne) as (P & HP & HL).
    change (ystop snoc_log (fun c x => negb (stopf (c ++ [x])))) with (stop_yield stopf) in HL.
    rewrite HL, hfold_snoc_log. exact HP.
Qed.

Lemma accept_stage_rel : forall (accept : Z -> res bool) stopf k decide nw sched (items : list (res Z)),
  lazy_rel (seq_filter accept items)
           (ma_cst (map_auto_run (filter_mapper accept) (filter_stop_yield stopf) k decide nw sched items [])).
Proof.
  intros accept stopf k decide nw sched items. split.
  - exact (filter_auto_early_stop_lem _ accept stopf k decide nw sched items).
  - rewrite (seq_filter_slog accept items 0), noerr_pieces. intro Hne.
    destruct (map_auto_stop_noerr (filter_mapper accept) (@filter_step Z)
               (fun c r => match r with ROk (_, false) => true | _ => negb (stopf (filter_step c r)) end) [] k decide nw sched items Hne) as (P & HP & HL).
    change (ystop (@filter_step Z) (fun c r => match r with ROk (_, false) => true | _ => negb (stopf (filter_step c r)) end))
      with (filter_stop_yield stopf) in HL.
    rewrite HL. unfold hfold. rewrite filter_fold. cbn [app]. rewrite noerr_pieces. exact HP.
Qed.

Lemma seq_stage_rel : forall (f : nat -> Z -> res Z) stopf (items : list (res Z)),
  lazy_rel (fst (seq_map f log_yield 0 items [])) (fst (seq_map f (stop_yield stopf) 0 items [])).
Proof.
  intros f stopf items. rewrite seq_map_slog. cbn [fst app].
  destruct (seq_map_stop f snoc_log (fun c x => negb (stopf (c ++ [x]))) [] items 0 []) as (n & go & Hn & _ & _).
  change (ystop snoc_log (fun c x => negb (stopf (c ++ [x])))) with (stop_yield stopf) in Hn.
  change (hfold snoc_log [] []) with (@nil (res Z)) in Hn. rewrite Hn, hfold_snoc_log. cbn [fst app]. split.
  - apply ok_prefix_firstn.
  - apply noerr_prefix, firstn_prefix.
Qed.

Lemma lstage_par_rel : forall lp s items, lazy_rel (lstage_seq s items) (lstage_par lp s items).
Proof.
  intros lp [p|p|init step] items; cbn [lstage_seq lstage_par]; [apply map_stage_rel|apply accept_stage_rel|].
  destruct (take_until_spec (lp_stop lp) (scan_stage step init items) []) as (n & -> & _). apply lazy_rel_firstn.
Qed.

(* ---- composition over the pipeline --------------------------------------------------------------------------------- *)
Lemma lazy_par_rel : forall stages asg pos S L, lazy_rel S L -> lazy_rel (lazy_seq stages S) (lazy_par_from asg pos stages L).
Proof.
  induction stages as [|s stages IH]; intros asg pos S L H; [exact H|]. cbn [lazy_seq lazy_par_from].
  apply IH. eapply lazy_rel_trans; [apply lstage_seq_mono, H|apply lstage_par_rel].
Qed.

(* ---- the consumer ---------------------------------------------------------------------------------------------------- *)
Lemma scan_result_mono : forall (R : Type) (cons : list Z -> option R) r (L S : list (res Z)) seen,
  is_prefix (ok_prefix L) (ok_prefix S) -> scan_from cons seen L = VResult r -> scan_from cons seen S = VResult r.
Proof.
  intros R cons r. induction L as [|[x|] L IH]; intros S seen Hp H; cbn [scan_from] in H; try discriminate.
  destruct S as [|[y|] S]; cbn [ok_prefix] in Hp; try (exfalso; exact (prefix_nil_inv _ _ _ Hp)).
  apply prefix_cons_inv in Hp. destruct Hp as (<- & Hp). cbn [scan_from].
  destruct (cons (seen ++ [x])); [exact H|]. apply IH; assumption.
Qed.

Lemma scan_fail_err : forall (R : Type) (cons : list Z -> option R) (L : list (res Z)) seen,
  scan_from cons seen L = VFail -> noerr L = false.
Proof.
  intros R cons. induction L as [|[x|] L IH]; intros seen H; cbn [scan_from] in H; try discriminate; [|reflexivity].
  change (noerr (ROk x :: L)) with (noerr L). destruct (cons (seen ++ [x])); [discriminate|]. exact (IH _ H).
Qed.

Lemma pipeline_par_early_stop_lem : forall (R : Type) (cons : list Z -> option R) (stages : list lstage)
  (asg : lassignment) (items : list (res Z)),
  let L := lazy_par asg stages items in
  let S := lazy_seq stages items in
  (forall r, scan cons L = VResult r -> scan cons S = VResult r)
  /\ (scan cons L = VFail -> noerr S = false)
  /\ (scan cons S = VFail -> forall r, scan cons L <> VResult r)
  /\ (noerr S = true -> is_prefix L S).
Proof.
  intros R cons stages asg items L S.
  destruct (lazy_par_rel stages asg 0 items items (lazy_rel_refl items)) as (Hp & Hn). fold (lazy_par asg stages items) in Hp, Hn. fold L in Hp, Hn. fold S in Hp, Hn.
  assert (H1 : forall r, scan cons L = VResult r -> scan cons S = VResult r).
  { intros r H. exact (scan_result_mono R cons r L S [] Hp H). }
  split; [exact H1|]. split; [|split].
  - intro H. apply scan_fail_err in H. destruct (noerr S); [rewrite (Hn eq_refl) in H; discriminate|reflexivity].
  - intros HS r HL. rewrite (H1 r HL) in HS. discriminate.
  - intro H. apply prefix_of_ok; [exact (Hn H)|exact Hp].
Qed.

(* the naive statement "the consumer's verdict equals the sequential one" fails: an error raised by a read-ahead element
   BEHIND the decisive one is attached by the collector of initParallel to the next element it emits (the sticky `err`).
   numbers(5).map(x -> x = 3 fails).top(2): item 0 on the caller, three workers take items 1, 2, 3; the result of item 3
   (the error) reaches the collector before that of item 1 *)
Definition refute_sp : sp := mkSP 1 0 0 0 1 3 true 0 0 false 0 0.
Lemma pipeline_par_early_stop_naive_refuted_lem :
  exists (stages : list lstage) (asg : lassignment) (items : list (res Z)),
    scan (c_top 2) (lazy_seq stages items) = VResult [0; 1]%Z
    /\ scan (c_top 2) (lazy_par asg stages items) = VFail.
Proof.
  exists [LMap refute_sp],
         (fun _ _ => mkLP (mkPP 1 true 3 [Feed 0; Feed 1; Feed 2; Deliver 2; Deliver 0] []) (cons_stop (c_top 2))),
         (map (@ROk Z) [0; 1; 2; 3; 4]%Z).
  vm_compute. split; reflexivity.
Qed.

(* ================= liveness: complete runs with coupled stop moments ================================================== *)
Section Live.
Context {A B C : Type}.
Variable f : nat -> A -> res B.
Variable g : C -> res B -> C.
Variable cont : C -> res B -> bool.
Variable c0 : C.
Variable stopped : C -> bool.
Hypothesis Hstop : forall c x, cont c x = false -> stopped (g c x) = true.

Notation ys := (ystop g cont).
Notation collC := (coll (B := B) (C := C)).
Notation pstateC := (pstate (A := A) (B := B) (C := C)).

(* once the consumer has answered false its state says so *)
Definition cgood (s : collC) : Prop := alive s = false -> stopped (cst s) = true.

Lemma flush_cgood : forall fuel (s : collC), cgood s -> cgood (flush ys fuel s).
Proof.
  induction fuel as [|fuel IH]; intros s Hs; cbn [flush]; destruct (lookup (nextOut s) (buffer s)) as [e|]; try exact Hs.
  unfold ystop at 1. destruct (cont (cst s) (snd e)) eqn:Hc.
  - apply IH. intro H. discriminate.
  - intros _. cbn [cst]. apply Hstop, Hc.
Qed.

Lemma arrive_cgood : forall (s : collC) r, cgood s -> cgood (arrive ys s r).
Proof.
  intros s r Hs. unfold arrive. destruct (negb (alive s)) eqn:Hal; [exact Hs|].
  apply Bool.negb_false_iff in Hal.
  destruct (is_err (snd r) && negb (cerr s)); cbn [nextOut buffer cerr doneOpen cst alive stuck];
    (destruct (fst r =? nextOut s); [|intro H; cbn [alive] in H; congruence]); unfold ystop at 1;
    match goal with |- context [cont ?c ?x] => destruct (cont c x) eqn:Hc end;
    try (apply flush_cgood; intro H; discriminate); intros _; cbn [cst]; apply Hstop, Hc.
Qed.

Definition pgood (s : pstateC) : Prop := cgood (col s).

Lemma step_pgood : forall (s : pstateC) c, pgood s -> pgood (ParMap.step f ys s c).
Proof.
  intros s c Hs. destruct c as [w|w|]; cbn [ParMap.step].
  - destruct (feederDone s); [exact Hs|]. destruct (src s); [exact Hs|].
    destruct (nth_error (workers s) w) as [[r0|]|]; exact Hs.
  - destruct (nth_error (workers s) w) as [[r0|]|]; try exact Hs.
    destruct (alive (col s)); [|exact Hs]. unfold pgood. cbn [col]. apply arrive_cgood, Hs.
  - destruct (feederDone s); [exact Hs|]. destruct (src s); [exact Hs|].
    destruct (doneOpen (col s)); exact Hs.
Qed.

Lemma run_pgood : forall sched (s : pstateC), pgood s -> pgood (ParMap.run f ys s sched).
Proof. induction sched as [|c sched IH]; intros s H; [exact H|]. cbn [ParMap.run fold_left]. apply IH, step_pgood, H. Qed.

Lemma drive_pgood : forall n (s : pstateC), pgood s -> pgood (drive f ys n s).
Proof.
  induction n as [|n IH]; intros s H; cbn [drive]; [exact H|]. destruct (complete s); [exact H|]. apply IH, step_pgood, H.
Qed.

Lemma drive_as_run : forall n (s : pstateC), exists sched, drive f ys n s = ParMap.run f ys s sched.
Proof.
  induction n as [|n IH]; intro s; cbn [drive]; [exists []; reflexivity|].
  destruct (complete s); [exists []; reflexivity|]. destruct (IH (ParMap.step f ys s (pick s))) as (sched & H).
  exists (pick s :: sched). exact H.
Qed.

Lemma drive_dead : forall n (s : pstateC), alive (col s) = false -> drive f ys n s = s.
Proof. intros [|n] s H; cbn [drive]; [reflexivity|]. unfold complete. rewrite H. reflexivity. Qed.

Lemma run_log_prefix : forall sched (s : pstate (A := A) (B := B) (C := list (res B))),
  is_prefix (cst (col s)) (cst (col (ParMap.run f log_yield s sched))).
Proof.
  induction sched as [|c sched IH]; intro s; [apply prefix_refl|]. cbn [ParMap.run fold_left].
  eapply prefix_trans; [apply (step_log_prefix f s c)|apply IH].
Qed.

(* the simulation of EarlyStopProofs carried through the canonical completion *)
Lemma drive_stop : forall n sy sl, prel g c0 sy sl -> prel g c0 (drive f ys n sy) (drive f log_yield n sl).
Proof.
  induction n as [|n IH]; intros sy sl H; [exact H|].
  destruct H as [(Hal & ->)|(Hal & P & HP & Hc)].
  - cbn [drive]. rewrite complete_sim. destruct (complete sl); [left; split; [exact Hal|reflexivity]|].
    change (pick (map_p g c0 sl)) with (pick sl). apply IH. apply step_stop. left. split; [exact Hal|reflexivity].
  - rewrite (drive_dead _ _ Hal). right. split; [exact Hal|]. exists P. split; [|exact Hc].
    destruct (drive_sched f (S n) sl) as (sched & ->). eapply prefix_trans; [exact HP|apply run_log_prefix].
Qed.

(* the sequential Map in front of the stopping consumer: everything was handed over, or the consumer has stopped *)
Lemma seq_map_live : forall items i log,
  (seq_map f ys i items (hfold g c0 log) = (hfold g c0 (log ++ slog f i items), true))
  \/ (snd (seq_map f ys i items (hfold g c0 log)) = false /\ stopped (fst (seq_map f ys i items (hfold g c0 log))) = true).
Proof.
  induction items as [|x items IH]; intros i log.
  - left. cbn. rewrite app_nil_r. reflexivity.
  - cbn [seq_map]. unfold ystop at 1 3 5. destruct (cont (hfold g c0 log) (snd (work f (i, x)))) eqn:Hc.
    + rewrite <- (hfold_snoc g c0). destruct (IH (S i) (log ++ [snd (work f (i, x))])) as [H|H].
      * left. rewrite H, slog_cons, <- app_assoc. reflexivity.
      * right. exact H.
    + right. cbn [fst snd]. split; [reflexivity|]. apply Hstop, Hc.
Qed.

Lemma live_gen : forall (k : nat) (decide : bool) (nw : nat) (sched : list choice) (items : list (res A)), 1 <= nw ->
  let m := ma_final f ys k decide nw sched items c0 in
  stopped (ma_cst m) = true
  \/ exists P, log_rel (slog f 0 items) P /\ ma_cst m = hfold g c0 P /\ (noerr (slog f 0 items) = true -> ma_closed m = false).
Proof.
  intros k decide nw sched items Hnw m. subst m. unfold ma_final, map_auto_run.
  assert (Hsplit : slog f 0 items = slog f 0 (firstn k items) ++ slog f (length (firstn k items)) (skipn k items)).
  { rewrite <- (firstn_skipn k items) at 1. rewrite slog_app. reflexivity. }
  destruct (seq_map_live (firstn k items) 0 []) as [H1|(H1 & H1')]; change (hfold g c0 []) with c0 in *.
  2:{ destruct (seq_map f ys 0 (firstn k items) c0) as [c1 go]. cbn [fst snd] in *. subst go. cbn [negb ma_cst]. left. exact H1'. }
  rewrite H1. cbn [negb app].
  destruct (skipn k items) as [|x rest] eqn:Hrest.
  - right. exists (slog f 0 (firstn k items)). cbn [ma_cst ma_closed negb]. rewrite Hsplit. unfold slog at 3. cbn [length seq combine map].
    rewrite app_nil_r. split; [apply log_rel_refl|]. split; [reflexivity|reflexivity].
  - assert (Hk : length (firstn k items) = k).
    { apply firstn_length_le. destruct (Nat.le_gt_cases k (length items)) as [H|H]; [exact H|].
      rewrite skipn_all2 in Hrest by lia. discriminate. }
    rewrite Hk in Hsplit. set (L1 := slog f 0 (firstn k items)) in *. destruct decide.
    + (* parallel *)
      assert (Hrel : prel g c0 (par_init k nw (x :: rest) (hfold g c0 L1)) (par_init k nw (x :: rest) L1)).
      { left. split; reflexivity. }
      apply (run_stop f g cont c0 sched) in Hrel.
      set (sy := ParMap.run f ys (par_init k nw (x :: rest) (hfold g c0 L1)) sched) in *.
      set (sl := ParMap.run f log_yield (par_init k nw (x :: rest) L1) sched) in *.
      assert (Hpg : pgood (drive f ys (measure sy) sy)).
      { apply drive_pgood, run_pgood. intro H. discriminate. }
      cbn [ma_cst ma_closed].
      destruct Hrel as [(Hal & He)|(Hal & _)].
      2:{ left. rewrite (drive_dead _ _ Hal). rewrite (drive_dead _ _ Hal) in Hpg. exact (Hpg Hal). }
      assert (Hm : measure sy = measure sl) by (rewrite He; reflexivity).
      assert (Hgood : good sl) by (apply good_run, par_init_good; exact Hnw).
      pose proof (drive_complete f (measure sl) sl (le_n _) Hgood) as Hcomp.
      assert (Hrel2 : prel g c0 (drive f ys (measure sy) sy) (drive f log_yield (measure sl) sl)).
      { rewrite Hm. apply drive_stop. left. split; [exact Hal|exact He]. }
      destruct Hrel2 as [(Hal2 & He2)|(Hal2 & _)]; [|left; exact (Hpg Hal2)].
      right. destruct (drive_sched f (measure sl) sl) as (sched' & Hd). rewrite Hd in *.
      unfold sl in He2, Hcomp. unfold ParMap.run in He2, Hcomp. rewrite <- fold_left_app in He2, Hcomp.
      fold (ParMap.run f log_yield (par_init k nw (x :: rest) L1) (sched ++ sched')) in He2, Hcomp.
      rewrite (run_prefix f k nw (x :: rest) L1 (sched ++ sched')) in He2, Hcomp. rewrite complete_sim in Hcomp.
      destruct (par_log_rel f k nw (x :: rest) (sched ++ sched') Hcomp) as (_ & Hlr).
      exists (L1 ++ cst (col (ParMap.run f log_yield (par_init k nw (x :: rest) []) (sched ++ sched')))).
      split; [rewrite Hsplit; apply log_rel_app; exact Hlr|]. rewrite He2. cbn [map_p col map_coll cst doneOpen]. rewrite hfold_snoc_log.
      split; [reflexivity|]. intro Hne. rewrite Hsplit, noerr_app in Hne. apply andb_prop in Hne.
      rewrite (proj2 (par_log_noerr f k nw (x :: rest) (sched ++ sched') (proj2 Hne))). reflexivity.
    + destruct (seq_map_live (x :: rest) k L1) as [H2|(H2 & H2')].
      * rewrite H2. right. exists (L1 ++ slog f k (x :: rest)). cbn [ma_cst ma_closed negb]. rewrite Hsplit.
        split; [apply log_rel_refl|]. split; reflexivity.
      * destruct (seq_map f ys k (x :: rest) (hfold g c0 L1)) as [c2 go2]. cbn [fst snd] in *. left. exact H2'.
Qed.

Lemma ma_final_as_run : forall (k : nat) (decide : bool) (nw : nat) (sched : list choice) (items : list (res A)),
  exists sched', ma_cst (ma_final f ys k decide nw sched items c0) = ma_cst (map_auto_run f ys k decide nw (sched ++ sched') items c0).
Proof.
  intros k decide nw sched items. unfold ma_final, map_auto_run.
  destruct (seq_map f ys 0 (firstn k items) c0) as [c1 go]. destruct (negb go); [exists []; reflexivity|].
  destruct (skipn k items) as [|x rest]; [exists []; reflexivity|]. destruct decide.
  - destruct (drive_as_run (measure (ParMap.run f ys (par_init k nw (x :: rest) c1) sched)) (ParMap.run f ys (par_init k nw (x :: rest) c1) sched)) as (sched' & H).
    exists sched'. cbn [ma_cst]. rewrite H. unfold ParMap.run. rewrite fold_left_app. reflexivity.
  - exists []. destruct (seq_map f ys k (x :: rest) c1). reflexivity.
Qed.
End Live.

(* ---- the stages of the lazy embedding, run to completion ------------------------------------------------------------ *)
Lemma noerr_outcome_some : forall (X : Type) (l : list (res X)), noerr l = true -> exists v, outcome l = Some v.
Proof.
  intros X l. induction l as [|[x|] l IH]; intro H; [exists []; reflexivity| |discriminate].
  destruct (IH H) as (v & Hv). exists (x :: v). cbn [outcome]. rewrite Hv. reflexivity.
Qed.

Lemma delivered_noerr_eq : forall (X : Type) (Lseq Lpar : list (res X)),
  delivered_as_seq Lseq Lpar -> noerr Lpar = true -> noerr Lseq = true /\ Lpar = Lseq.
Proof.
  intros X Lseq Lpar (Ho & _ & He) Hn. destruct (noerr Lseq) eqn:E; [split; [reflexivity|apply He; reflexivity]|].
  destruct (noerr_outcome_some _ _ Hn) as (v & Hv). rewrite (noerr_false_outcome Lseq E), Hv in Ho. discriminate.
Qed.

Definition map_cont (stopf : list (res Z) -> bool) (c : list (res Z)) (x : res Z) : bool := negb (stopf (c ++ [x])).
Definition filter_cont (stopf : list (res Z) -> bool) (c : list (res Z)) (r : res (Z * bool)) : bool :=
  match r with ROk (_, false) => true | _ => negb (stopf (filter_step c r)) end.

Lemma map_cont_stop : forall stopf c x, map_cont stopf c x = false -> stopf (snoc_log c x) = true.
Proof. intros stopf c x H. apply Bool.negb_false_iff in H. exact H. Qed.

Lemma filter_cont_stop : forall stopf c r, filter_cont stopf c r = false -> stopf (filter_step c r) = true.
Proof. intros stopf c [[v [|]]|] H; cbn [filter_cont] in H; try discriminate; apply Bool.negb_false_iff in H; exact H. Qed.

Lemma lstage_fin_live : forall lp s items, 1 <= pp_nw (lp_pp lp) ->
  lp_stop lp (fst (lstage_fin lp s items)) = true
  \/ (delivered_as_seq (lstage_seq s items) (fst (lstage_fin lp s items))
      /\ (noerr (lstage_seq s items) = true -> snd (lstage_fin lp s items) = false)).
Proof.
  intros lp [p|p|init step] items Hnw; cbn [lstage_fin lstage_seq fst snd].
  3:{ destruct (take_until_spec (lp_stop lp) (scan_stage step init items) []) as (n & _ & H2 & H3).
      destruct (snd (take_until (lp_stop lp) [] (scan_stage step init items))) eqn:E; [left; exact (H2 eq_refl)|].
      right. rewrite (H3 eq_refl). cbn [app]. split; [apply log_rel_delivered, log_rel_refl|reflexivity]. }
  - destruct (live_gen (lmap_fn p) snoc_log (map_cont (lp_stop lp)) [] (lp_stop lp) (map_cont_stop (lp_stop lp))
                (pp_k (lp_pp lp)) (pp_decide (lp_pp lp)) (pp_nw (lp_pp lp)) (pp_sched (lp_pp lp)) items Hnw) as [H|(P & Hlr & Hc & Hcl)].
    + left. exact H.
    + right. change (ystop snoc_log (map_cont (lp_stop lp))) with (stop_yield (lp_stop lp)) in Hc, Hcl.
      rewrite seq_map_slog. cbn [fst app]. rewrite Hc, hfold_snoc_log. cbn [app].
      split; [apply log_rel_delivered, Hlr|exact Hcl].
  - destruct (live_gen (filter_mapper (laccept_fn p)) (@filter_step Z) (filter_cont (lp_stop lp)) [] (lp_stop lp) (filter_cont_stop (lp_stop lp))
                (pp_k (lp_pp lp)) (pp_decide (lp_pp lp)) (pp_nw (lp_pp lp)) (pp_sched (lp_pp lp)) items Hnw) as [H|(P & Hlr & Hc & Hcl)].
    + left. exact H.
    + right. change (ystop (@filter_step Z) (filter_cont (lp_stop lp))) with (filter_stop_yield (lp_stop lp)) in Hc, Hcl.
      rewrite Hc. unfold hfold. rewrite filter_fold. cbn [app]. rewrite (seq_filter_slog (laccept_fn p) items 0).
      split; [apply filter_delivered, Hlr|]. rewrite noerr_pieces. exact Hcl.
Qed.

Lemma lstage_fin_rel : forall lp s items, lazy_rel (lstage_seq s items) (fst (lstage_fin lp s items)).
Proof.
  intros lp [p|p|init step] items; cbn [lstage_fin lstage_seq fst].
  3:{ destruct (take_until_spec (lp_stop lp) (scan_stage step init items) []) as (n & -> & _). apply lazy_rel_firstn. }
  - destruct (ma_final_as_run (lmap_fn p) snoc_log (map_cont (lp_stop lp)) []
                (pp_k (lp_pp lp)) (pp_decide (lp_pp lp)) (pp_nw (lp_pp lp)) (pp_sched (lp_pp lp)) items) as (sched' & H).
    change (ystop snoc_log (map_cont (lp_stop lp))) with (stop_yield (lp_stop lp)) in H. rewrite H. apply map_stage_rel.
  - destruct (ma_final_as_run (filter_mapper (laccept_fn p)) (@filter_step Z) (filter_cont (lp_stop lp)) []
                (pp_k (lp_pp lp)) (pp_decide (lp_pp lp)) (pp_nw (lp_pp lp)) (pp_sched (lp_pp lp)) items) as (sched' & H).
    change (ystop (@filter_step Z) (filter_cont (lp_stop lp))) with (filter_stop_yield (lp_stop lp)) in H. rewrite H. apply accept_stage_rel.
Qed.

Lemma lazy_run_rel : forall pps cstop stages pos S L, lazy_rel S L -> lazy_rel (lazy_seq stages S) (lazy_run_from pps cstop pos stages L).
Proof.
  induction stages as [|s stages IH]; intros pos S L H; [exact H|]. cbn [lazy_seq lazy_run_from].
  apply IH. eapply lazy_rel_trans; [apply lstage_seq_mono, H|apply lstage_fin_rel].
Qed.

Lemma lstage_seq_noerr_src : forall s items, noerr (lstage_seq s items) = true -> noerr items = true.
Proof.
  intros [p|p|init step] items H; cbn [lstage_seq] in H; try (rewrite seq_map_slog in H; cbn [fst app] in H; exact (slog_noerr_src _ _ _ H)).
  - exact (seq_filter_noerr_src _ _ H).
  - exact (scan_stage_noerr_src _ _ _ H).
Qed.

Lemma lazy_seq_noerr_src : forall stages items, noerr (lazy_seq stages items) = true -> noerr items = true.
Proof.
  induction stages as [|s stages IH]; intros items H; [exact H|]. cbn [lazy_seq] in H. exact (lstage_seq_noerr_src _ _ (IH _ H)).
Qed.

(* complete runs, coupled stop moments: if what the consumer was given is error-free and the consumer has not stopped,
   EVERYTHING was delivered (and no stage has told its upstream to stop) *)
Lemma lazy_run_live : forall pps cstop, passignment_ok pps -> forall stages pos items,
  noerr (lazy_run_from pps cstop pos stages items) = true -> cstop (lazy_run_from pps cstop pos stages items) = false ->
  lazy_run_from pps cstop pos stages items = lazy_seq stages items /\ lazy_stops pps cstop pos stages items = false.
Proof.
  intros pps cstop Hok. induction stages as [|s r IH]; intros pos items Hne Hcs; [split; [reflexivity|exact Hcs]|].
  cbn [lazy_run_from lazy_seq lazy_stops] in *.
  set (lp := mkLP (pps pos items) (lazy_stops pps cstop (S pos) r)) in *.
  destruct (IH (S pos) (fst (lstage_fin lp s items)) Hne Hcs) as (Heq & Hns).
  destruct (lstage_fin_live lp s items (Hok pos items)) as [H|(Hd & Hcl)].
  - cbn [lp_stop lp] in H. rewrite Hns in H. discriminate.
  - rewrite Heq in Hne. apply lazy_seq_noerr_src in Hne.
    destruct (delivered_noerr_eq _ _ _ Hd Hne) as (Hnseq & HL). split; [rewrite Heq, HL; reflexivity|exact (Hcl Hnseq)].
Qed.

Lemma scan_more_noerr : forall (R : Type) (cons : list Z -> option R) (L : list (res Z)) seen,
  scan_from cons seen L = VMore -> noerr L = true.
Proof.
  intros R cons. induction L as [|[x|] L IH]; intros seen H; cbn [scan_from] in H; try discriminate; [reflexivity|].
  change (noerr (ROk x :: L)) with (noerr L). destruct (cons (seen ++ [x])); [discriminate|]. exact (IH _ H).
Qed.

Lemma pipeline_par_early_stop_complete_lem : forall (R : Type) (cons : list Z -> option R) (stages : list lstage)
  (pps : passignment) (items : list (res Z)), passignment_ok pps ->
  let L := lazy_run pps (cons_stop cons) stages items in
  let S := lazy_seq stages items in
  (scan cons L = scan cons S \/ (scan cons L = VFail /\ noerr S = false))
  /\ (scan cons S = VFail -> scan cons L = VFail)
  /\ (scan cons L = VMore -> L = S).
Proof.
  intros R cons stages pps items Hok L S.
  destruct (lazy_run_rel pps (cons_stop cons) stages 0 items items (lazy_rel_refl items)) as (Hp & Hn).
  fold (lazy_run pps (cons_stop cons) stages items) in Hp, Hn. fold L in Hp, Hn. fold S in Hp, Hn.
  assert (Hmore : scan cons L = VMore -> L = S).
  { intro H. apply (lazy_run_live pps (cons_stop cons) Hok stages 0 items).
    - exact (scan_more_noerr R cons L [] H).
    - change (cons_stop cons L = false). unfold cons_stop. rewrite H. reflexivity. }
  assert (Hmain : scan cons L = scan cons S \/ (scan cons L = VFail /\ noerr S = false)).
  { destruct (scan cons L) as [r| |] eqn:E.
    - left. symmetry. exact (scan_result_mono R cons r L S [] Hp E).
    - right. split; [reflexivity|]. apply scan_fail_err in E. destruct (noerr S); [rewrite (Hn eq_refl) in E; discriminate|reflexivity].
    - left. rewrite <- (Hmore eq_refl). symmetry. exact E. }
  split; [exact Hmain|]. split; [|exact Hmore].
  intro HS. destruct Hmain as [H|(H & _)]; [rewrite H; exact HS|exact H].
Qed.

(* non-vacuity / nested: numbers(40).map(slow).number(..).map(slow) in front of top(15), both maps switched, 3 workers;
   an error at element 30 (behind the decisive one and not read ahead under this schedule) is invisible *)
