(* The merge stage of Conc/Pipeline.v (specification: merge_fuel, the textbook merge with a comparison that may fail)
   against the goroutine protocol of Conc/MergeChan.v: the sequential merge machine computes merge_fuel, hence - by
   merge_chan_eq_seq - so does the protocol under every interleaving. *)
From P2 Require Import Base.Prelude Conc.ParMap Conc.Pipeline Conc.MergeChan Conc.MergeChanProofs Conc.MapAutoProofs.
From Coq Require Import Lia.
Local Open Scope nat_scope.

Section Lift.
Variable lessO : Z -> Z -> option bool.
Definition lessR (x y : Z) : res bool := to_res (lessO x y).
Notation never := (fun _ : list (res Z) => false).
Notation state := (list (res Z) * list (res Z) * @mcons Z)%type.
Notation sstepN := (sstep lessR never).
Notation siterN := (siter lessR never).

(* the final state of the sequential machine *)
Definition fin (t : state) : state := siterN (smeasure t) t.

Lemma fin_done : forall t, is_done (snd (fin t)) = true.
Proof. intro t. apply siter_reaches_done. lia. Qed.

Lemma fin_any : forall t n, smeasure t <= n -> siterN n t = fin t.
Proof.
  intros t n H. apply siter_done_unique; [apply siter_reaches_done; exact H|apply fin_done].
Qed.

Lemma fin_step : forall t, is_done (snd t) = false -> fin t = fin (sstepN t).
Proof.
  intros t H. pose proof (sstep_dec lessR never t H) as Hd.
  unfold fin at 1. destruct (smeasure t) as [|n] eqn:E; [lia|]. cbn [siter]. apply fin_any. lia.
Qed.

Lemma fin_of_done : forall t, is_done (snd t) = true -> fin t = t.
Proof. intros t H. apply siter_fix, H. Qed.

Lemma fin_log_prefix : forall t, is_prefix (clog (snd t)) (clog (snd (fin t))).
Proof. intro t. apply siter_prefix. Qed.

Lemma outcome_prefix_err : forall (log L : list (res Z)), is_prefix (log ++ [RErr]) L -> outcome L = None.
Proof.
  intros log L (t & ->). rewrite <- app_assoc. induction log as [|[v|] log IH]; cbn [app outcome]; [reflexivity| |reflexivity].
  cbn [app] in IH. rewrite IH. reflexivity.
Qed.

Lemma outcome_app : forall (a b : list (res Z)),
  outcome (a ++ b) = match outcome a, outcome b with Some x, Some y => Some (x ++ y) | _, _ => None end.
Proof.
  induction a as [|[v|] a IH]; intro b; cbn [app outcome].
  - destruct (outcome b); reflexivity.
  - rewrite IH. destruct (outcome a), (outcome b); reflexivity.
  - reflexivity.
Qed.

Lemma outcome_oks : forall l : list Z, outcome (map (@ROk Z) l) = Some l.
Proof. induction l as [|x l IH]; [reflexivity|]. cbn [map outcome]. rewrite IH. reflexivity. Qed.

(* copying the rest of one list *)
Lemma fin_copyB : forall o la log, clog (snd (fin (la, map (@ROk Z) o, mkCons None None CopyB log))) = log ++ map (@ROk Z) o.
Proof.
  induction o as [|y o IH]; intros la log.
  - rewrite fin_step by reflexivity. cbn [sstep wants cw map on_eof]. rewrite fin_of_done by reflexivity. cbn. rewrite app_nil_r. reflexivity.
  - rewrite fin_step by reflexivity. cbn [sstep wants cw map on_recv]. unfold emit. cbn [clog].
    rewrite IH, <- app_assoc. reflexivity.
Qed.

Lemma fin_copyA : forall l lb log, clog (snd (fin (map (@ROk Z) l, lb, mkCons None None CopyA log))) = log ++ map (@ROk Z) l.
Proof.
  induction l as [|x l IH]; intros lb log.
  - rewrite fin_step by reflexivity. cbn [sstep wants cw map on_eof]. rewrite fin_of_done by reflexivity. cbn. rewrite app_nil_r. reflexivity.
  - rewrite fin_step by reflexivity. cbn [sstep wants cw map on_recv]. unfold emit. cbn [clog].
    rewrite IH, <- app_assoc. reflexivity.
Qed.

Definition expect_out (log : list (res Z)) (m : option (list Z)) : option (list Z) :=
  match outcome log, m with Some a, Some b => Some (a ++ b) | _, _ => None end.

Lemma expect_snoc : forall log x m, expect_out (log ++ [ROk x]) m = expect_out log (bind m (fun r => Some (x :: r))).
Proof.
  intros log x m. unfold expect_out. rewrite outcome_app. cbn [outcome]. destruct (outcome log), m; cbn [bind]; try reflexivity.
  rewrite <- app_assoc. reflexivity.
Qed.

Definition MS0 (l o : list Z) log : state := (map (@ROk Z) l, map (@ROk Z) o, mkCons None None WaitA log).
Definition MSA x (l o : list Z) log : state := (map (@ROk Z) l, map (@ROk Z) o, mkCons (Some (ROk x)) None WaitB log).
Definition MSB y (l o : list Z) log : state := (map (@ROk Z) l, map (@ROk Z) o, mkCons None (Some (ROk y)) WaitA log).
Definition MBoth x y (l o : list Z) log : state := (map (@ROk Z) l, map (@ROk Z) o, both lessR never (ROk x) (ROk y) log).

Definition out_of_fin (t : state) : option (list Z) := outcome (clog (snd (fin t))).

Lemma machine_is_merge : forall n,
  (forall l o log fu, length l + length o <= n -> length l + length o < fu ->
     out_of_fin (MS0 l o log) = expect_out log (merge_fuel fu lessO l o)) /\
  (forall x l o log fu, S (length l) + length o <= n -> S (length l) + length o < fu ->
     out_of_fin (MSA x l o log) = expect_out log (merge_fuel fu lessO (x :: l) o)) /\
  (forall y l o log fu, length l + S (length o) <= n -> length l + S (length o) < fu ->
     out_of_fin (MSB y l o log) = expect_out log (merge_fuel fu lessO l (y :: o))).
Proof.
  induction n as [|n (IH0 & IHA & IHB)].
  - split; [|split]; try (intros; lia). intros l o log fu Hn Hfu. destruct l, o; cbn in Hn; try lia.
    destruct fu as [|fu]; [lia|]. unfold out_of_fin, MS0. rewrite fin_step by reflexivity. cbn [sstep wants cw map on_eof hb clog].
    pose proof (fin_copyB [] [] log) as Hc. cbn [map] in Hc. rewrite Hc. cbn [merge_fuel]. unfold expect_out. rewrite app_nil_r. destruct (outcome log); [rewrite app_nil_r|]; reflexivity.
  - assert (HBoth : forall x y l o log fu, S (length l) + S (length o) <= S n -> S (length l) + S (length o) < fu ->
              out_of_fin (MBoth x y l o log) = expect_out log (merge_fuel fu lessO (x :: l) (y :: o))).
    { intros x y l o log fu Hn Hfu. destruct fu as [|fu]; [lia|]. cbn [merge_fuel]. unfold MBoth, both, lessR.
      destruct (lessO x y) as [[|]|]; cbn [to_res bind]; unfold emit; cbn [app].
      - change (map (@ROk Z) l, map (@ROk Z) o, mkCons None (Some (ROk y)) WaitA (log ++ [ROk x])) with (MSB y l o (log ++ [ROk x])).
        rewrite (IHB y l o (log ++ [ROk x]) fu) by (cbn in *; lia). apply expect_snoc.
      - change (map (@ROk Z) l, map (@ROk Z) o, mkCons (Some (ROk x)) None WaitB (log ++ [ROk y])) with (MSA x l o (log ++ [ROk y])).
        rewrite (IHA x l o (log ++ [ROk y]) fu) by (cbn in *; lia). apply expect_snoc.
      - unfold out_of_fin. rewrite (outcome_prefix_err log); [unfold expect_out; destruct (outcome log); reflexivity|].
        apply (fin_log_prefix (map (@ROk Z) l, map (@ROk Z) o, mkCons (Some (ROk x)) None WaitB (log ++ [RErr]))). }
    assert (HA : forall x l o log fu, S (length l) + length o <= S n -> S (length l) + length o < fu ->
              out_of_fin (MSA x l o log) = expect_out log (merge_fuel fu lessO (x :: l) o)).
    { intros x l o log fu Hn Hfu. destruct fu as [|fu]; [lia|]. unfold out_of_fin, MSA. rewrite fin_step by reflexivity.
      destruct o as [|y o]; cbn [sstep wants cw map on_eof on_recv ha hb clog].
      - unfold emit. cbn [app]. rewrite fin_copyA. cbn [merge_fuel]. unfold expect_out.
        rewrite outcome_app, outcome_app. cbn [outcome]. rewrite outcome_oks. destruct (outcome log); [|reflexivity].
        rewrite <- app_assoc. reflexivity.
      - apply (HBoth x y l o log (S fu)); cbn in *; lia. }
    assert (HB : forall y l o log fu, length l + S (length o) <= S n -> length l + S (length o) < fu ->
              out_of_fin (MSB y l o log) = expect_out log (merge_fuel fu lessO l (y :: o))).
    { intros y l o log fu Hn Hfu. destruct fu as [|fu]; [lia|]. unfold out_of_fin, MSB. rewrite fin_step by reflexivity.
      destruct l as [|x l]; cbn [sstep wants cw map on_eof on_recv ha hb clog].
      - unfold emit. cbn [app]. rewrite fin_copyB. cbn [merge_fuel]. unfold expect_out.
        rewrite outcome_app, outcome_app. cbn [outcome]. rewrite outcome_oks. destruct (outcome log); [|reflexivity].
        rewrite <- app_assoc. reflexivity.
      - apply (HBoth x y l o log (S fu)); cbn in *; lia. }
    split; [|split; [exact HA|exact HB]].
    intros l o log fu Hn Hfu. destruct fu as [|fu]; [lia|]. unfold out_of_fin, MS0. rewrite fin_step by reflexivity.
    destruct l as [|x l]; cbn [sstep wants cw map on_eof on_recv ha hb clog].
    + rewrite fin_copyB. cbn [merge_fuel]. unfold expect_out. rewrite outcome_app, outcome_oks. destruct (outcome log); reflexivity.
    + apply (HA x l o log (S fu)); cbn in *; lia.
Qed.

(* the sequential merge machine over two lists of values computes the merge of the specification *)
Lemma merge_seq_is_merge_fuel : forall l o,
  outcome (merge_seq lessR never (map (@ROk Z) l) (map (@ROk Z) o)) = merge_fuel (S (length l + length o)) lessO l o.
Proof.
  intros l o. unfold merge_seq.
  rewrite (fin_any (map (@ROk Z) l, map (@ROk Z) o, mcons_init)) by (cbn; rewrite !map_length; lia).
  destruct (machine_is_merge (length l + length o)) as (H0 & _ & _).
  change (map (@ROk Z) l, map (@ROk Z) o, @mcons_init Z) with (MS0 l o []).
  change (outcome (clog (snd (fin (MS0 l o []))))) with (out_of_fin (MS0 l o [])).
  rewrite (H0 l o [] (S (length l + length o))) by lia. unfold expect_out. cbn [outcome app].
  destruct (merge_fuel (S (length l + length o)) lessO l o); reflexivity.
Qed.
End Lift.
