(* Protocol model of the tokenizer goroutine and the parser of parser2.go / token.go (C04, C12).

   Tokenizer.Start:  go t.run(t.tok)         t.tok = make(chan Token)    -- unbuffered: a rendezvous
   Tokenizer.run:    tokens <- tok   for every token, in order, then   close(tokens); return
   Parser.Parse:     parseLet / Next / Peek / PeekPeek receive through   tok, ok := <-t.tok
                     (a receive on the closed channel returns at once with ok = false: TokenEof);
                     after the repair `fix: Parse lets the tokenizer goroutine terminate when parsing
                     stops early` a deferred   for range tokenizer.tok {}   runs on EVERY return path
                     (error, trailing tokens, panic passing through).

   The producer is a list of tokens followed by the close - for the real tokenizer this list is
   Tok.tokenize cfg rs (Lex/TokProofs.tokenize_total: it exists for every input).  The parser is ANY
   consumer: it performs some number k of receive operations and then returns; the theorems quantify
   over every k (and every token list), so they hold whatever Syn/Parse does.

   State:   unsent   tokens the tokenizer goroutine still has to send (its next action is the send
                     of the head, or the close when the list is empty)
            closed   close(tokens) has happened = the tokenizer goroutine has returned
            cs       CParse k : the parser is running and will perform k more receives
                     CDrain   : the parser has returned, the deferred drain loop is receiving
                     CRet     : Parse has returned to its caller
            got      ghost: number of tokens handed over so far
   Actions: a rendezvous needs both parties (ASync); everything else is a step of one party.  A
   schedule is a list of actions; `run` fails (None) on an action that is not enabled, so the
   theorems about `run ... = Some s` speak about every possible interleaving.

   drain = true  : the repaired Parse;  drain = false : Parse before the repair (returns at once).
   Definitions only; proofs are in Conc/TokChanProofs.v. *)
From P2 Require Import Base.Prelude.
Set Implicit Arguments.

Inductive cons := CParse (k : nat) | CDrain | CRet.

Inductive act :=
| ASync       (* tokens <- tok  meets  <-t.tok : one token changes hands *)
| AClose      (* close(tokens); return   (never blocks) *)
| ARecvEof    (* the parser receives on the closed channel: TokenEof (never blocks) *)
| AReturn     (* the parser returns (result, error or panic): the deferred function starts *)
| ADrainEnd.  (* the drain loop sees the channel closed: Parse returns to its caller *)

Section TokChan.
Variable T : Type.

Record sys := mkSys { unsent : list T; closed : bool; cs : cons; got : nat }.

(* the consumer is blocked in (or about to perform) a receive; the state it continues in after a token arrived *)
Definition wants (c : cons) : option cons :=
  match c with
  | CParse (S k) => Some (CParse k)
  | CDrain => Some CDrain
  | _ => None
  end.

Definition step (drain : bool) (s : sys) (a : act) : option sys :=
  match a with
  | ASync =>
      if closed s then None else
      match unsent s, wants (cs s) with
      | _ :: r, Some c' => Some (mkSys r false c' (S (got s)))
      | _, _ => None
      end
  | AClose =>
      if closed s then None else
      match unsent s with
      | [] => Some (mkSys [] true (cs s) (got s))
      | _ :: _ => None
      end
  | ARecvEof =>
      if closed s then
        match cs s with
        | CParse (S k) => Some (mkSys (unsent s) true (CParse k) (got s))
        | _ => None
        end
      else None
  | AReturn =>
      match cs s with
      | CParse O => Some (mkSys (unsent s) (closed s) (if drain then CDrain else CRet) (got s))
      | _ => None
      end
  | ADrainEnd =>
      if closed s then
        match cs s with
        | CDrain => Some (mkSys (unsent s) true CRet (got s))
        | _ => None
        end
      else None
  end.

Fixpoint run (drain : bool) (s : sys) (l : list act) : option sys :=
  match l with
  | [] => Some s
  | a :: r => match step drain s a with Some s' => run drain s' r | None => None end
  end.

(* Parse(str): the tokenizer has toks to send, the parser will perform k receives *)
Definition init (toks : list T) (k : nat) : sys := mkSys toks false (CParse k) 0.

(* both goroutines are done: the tokenizer has returned, Parse has returned *)
Definition final (s : sys) : bool :=
  closed s && match cs s with CRet => true | _ => false end.

(* nothing can happen any more *)
Definition stuck (drain : bool) (s : sys) : Prop := forall a, step drain s a = None.

(* the tokenizer goroutine is left behind: it has not returned and never will *)
Definition producer_blocked_forever (drain : bool) (s : sys) : Prop := stuck drain s /\ closed s = false.

(* the number of actions still to come (TokChanProofs.step_mu: every action lowers it by exactly one
   in the repaired system) *)
Definition mu (s : sys) : nat :=
  length (unsent s) + (if closed s then 0 else 1)
  + match cs s with
    | CParse k => (k - length (unsent s)) + 2
    | CDrain => 1
    | CRet => 0
    end.

(* the canonical schedule used by the correspondence run: serve the parser, let it return, drain, close *)
Fixpoint canon (fuel : nat) (drain : bool) (s : sys) : sys :=
  match fuel with
  | O => s
  | S f =>
      match step drain s ASync with Some s' => canon f drain s' | None =>
      match step drain s AClose with Some s' => canon f drain s' | None =>
      match step drain s ARecvEof with Some s' => canon f drain s' | None =>
      match step drain s AReturn with Some s' => canon f drain s' | None =>
      match step drain s ADrainEnd with Some s' => canon f drain s' | None => s
      end end end end end
  end.

(* goroutines left behind by one call of Parse whose parser performs k receives: 0 or 1 *)
Definition leaked (drain : bool) (toks : list T) (k : nat) : nat :=
  if closed (canon (length toks + k + 4) drain (init toks k)) then 0 else 1.

End TokChan.
