(* Composition: a pipeline of Conc/Pipeline.v (stages with nested operand pipelines) evaluated with its map/accept
   stages running through the MapAuto/FilterAuto protocol under ANY assignment of schedule inputs has the sequential
   denotation. *)
From P2 Require Import Base.Prelude Conc.ParMap Conc.Pipeline Conc.ConcProofs Conc.MapAutoProofs Conc.MergeChan Conc.MergeChanProofs Conc.MergeLift Conc.CopyProdStop Conc.MultiUseLift.
From Coq Require Import Lia.

Lemma outcome_map_slog : forall p l i,
  outcome (slog (fun (_ : nat) x => to_res (map_fn p x)) i (map (@ROk Z) l)) = mapM (map_fn p) l.
Proof.
  intros p l. induction l as [|x l IH]; intro i; [reflexivity|].
  unfold slog. cbn [map length seq combine]. fold (slog (fun (_ : nat) x => to_res (map_fn p x)) (S i) (map (@ROk Z) l)).
  cbn [work snd fst mapM]. destruct (map_fn p x) as [y|]; cbn [to_res outcome bind]; [|reflexivity].
  rewrite IH. destruct (mapM (map_fn p) l); reflexivity.
Qed.

Lemma par_map_with_seq : forall pp p l, 1 <= pp_nw pp -> par_map_with pp p l = mapM (map_fn p) l.
Proof.
  intros pp p l Hnw. unfold par_map_with.
  destruct (map_auto_delivered (fun (_ : nat) x => to_res (map_fn p x)) (pp_k pp) (pp_decide pp) (pp_nw pp) (pp_sched pp) (map (@ROk Z) l) Hnw) as (Ho & _).
  rewrite Ho. apply outcome_map_slog.
Qed.

(* a parallel map over items of any type *)
Lemma outcome_fn_slog : forall (X : Type) (g : X -> option Z) (xs : list X) i,
  outcome (slog (fun (_ : nat) x => to_res (g x)) i (map (@ROk X) xs)) = mapM g xs.
Proof.
  intros X g xs. induction xs as [|x xs IH]; intro i; [reflexivity|].
  unfold slog. cbn [map length seq combine]. fold (slog (fun (_ : nat) x => to_res (g x)) (S i) (map (@ROk X) xs)).
  cbn [work snd fst mapM]. destruct (g x) as [y|]; cbn [to_res outcome bind]; [|reflexivity].
  rewrite IH. destruct (mapM g xs); reflexivity.
Qed.

Lemma par_fn_with_seq : forall (X : Type) pp (g : X -> option Z) xs, 1 <= pp_nw pp -> par_fn_with pp g xs = mapM g xs.
Proof.
  intros X pp g xs Hnw. unfold par_fn_with.
  destruct (map_auto_delivered (fun (_ : nat) x => to_res (g x)) (pp_k pp) (pp_decide pp) (pp_nw pp) (pp_sched pp) (map (@ROk X) xs) Hnw) as (Ho & _).
  rewrite Ho. apply outcome_fn_slog.
Qed.

Lemma outcome_seq_filter : forall p l,
  outcome (seq_filter (fun x => to_res (accept_fn p x)) (map (@ROk Z) l)) = filterM (accept_fn p) l.
Proof.
  intros p l. induction l as [|x l IH]; [reflexivity|].
  cbn [map seq_filter filterM]. destruct (accept_fn p x) as [[|]|]; cbn [to_res outcome bind]; try reflexivity.
  - rewrite IH. destruct (filterM (accept_fn p) l); reflexivity.
  - rewrite IH. destruct (filterM (accept_fn p) l); reflexivity.
Qed.

Lemma par_accept_with_seq : forall pp p l, 1 <= pp_nw pp -> par_accept_with pp p l = filterM (accept_fn p) l.
Proof.
  intros pp p l Hnw. unfold par_accept_with.
  change (@filter_yield Z) with (yg (@filter_step Z)). rewrite map_auto_sim.
  unfold hfold. rewrite filter_fold. cbn [app].
  pose proof (map_auto_log_rel (filter_mapper (fun x => to_res (accept_fn p x))) (pp_k pp) (pp_decide pp) (pp_nw pp) (pp_sched pp) (map (@ROk Z) l) Hnw) as Hrel.
  destruct (filter_delivered _ _ Hrel) as (Ho & _). rewrite Ho.
  rewrite <- (seq_filter_slog (fun x => to_res (accept_fn p x)) (map (@ROk Z) l) 0). apply outcome_seq_filter.
Qed.

(* merge through two producer goroutines and the stop flag, any schedule *)
Lemma par_merge_with_seq : forall pp p l o,
  par_merge_with pp p l o = merge_fuel (S (length l + length o)) (merge_less p) l o.
Proof.
  intros pp p l o. unfold par_merge_with.
  rewrite (merge_fun_eq_seq (fun x y => to_res (merge_less p x y)) (fun _ => false) (map (@ROk Z) l) (map (@ROk Z) o) (pp_msched pp)).
  apply (merge_seq_is_merge_fuel (merge_less p)).
Qed.

Definition assignment_ok (asg : assignment) : Prop := forall k p l, 1 <= pp_nw (asg k p l).

Lemma stage_par_with_seq : forall asg, assignment_ok asg ->
  forall k p o l, stage_par_with asg k p o l = stage_seq k p o l.
Proof.
  intros asg Hok k p o l. destruct k; try reflexivity; cbn [stage_par_with stage_seq].
  - apply par_map_with_seq, Hok.
  - apply par_accept_with_seq, Hok.
  - destruct o as [o|]; [|reflexivity]. cbn [bind]. apply par_merge_with_seq.
  - apply par_merge_with_seq.
  - destruct (esc_items e p o l); [|reflexivity]. cbn [bind]. apply par_fn_with_seq, Hok.
  - apply par_fn_with_seq, Hok.
Qed.

(* induction over stages with their nested operand pipelines *)
Section PstageInd.
Variable P : pstage -> Prop.
Hypothesis HP : forall k p sub, Forall P sub -> P (PS k p sub).
Fixpoint pstage_ind' (s : pstage) : P s :=
  match s with
  | PS k p sub =>
      HP k p sub ((fix go (l : list pstage) : Forall P l :=
                     match l with
                     | [] => Forall_nil P
                     | x :: r => Forall_cons x (pstage_ind' x) (go r)
                     end) sub)
  end.
End PstageInd.

Lemma bind_ext : forall (X Y : Type) (o : option X) (g1 g2 : X -> option Y), (forall x, g1 x = g2 x) -> bind o g1 = bind o g2.
Proof. intros X Y [x|] g1 g2 H; [apply H|reflexivity]. Qed.

(* two stage interpreters that agree on every stage agree on every pipeline, nested operand pipelines included *)
Lemma stage_run_ext : forall st1 st2 : skind -> sp -> option (list Z) -> list Z -> option (list Z),
  (forall k p o l, st1 k p o l = st2 k p o l) ->
  forall s l, stage_run st1 s l = stage_run st2 s l.
Proof.
  intros st1 st2 H s. induction s as [k p sub IH] using pstage_ind'. intro l. cbn [stage_run].
  rewrite H. f_equal. apply bind_ext. induction IH as [|s' r Hs' _ IHr]; intro o; [reflexivity|].
  rewrite Hs'. apply bind_ext. exact IHr.
Qed.

Lemma stages_run_ext : forall st1 st2 : skind -> sp -> option (list Z) -> list Z -> option (list Z),
  (forall k p o l, st1 k p o l = st2 k p o l) ->
  forall stages l, stages_run st1 stages l = stages_run st2 stages l.
Proof.
  intros st1 st2 H stages. induction stages as [|s r IH]; intro l; [reflexivity|].
  cbn [stages_run]. rewrite (stage_run_ext st1 st2 H). apply bind_ext. exact IH.
Qed.

Lemma term_par_with_seq : forall tsched t p l, term_par_with tsched t p l = term_seq t p l.
Proof. intros tsched t p l. destruct t; try reflexivity. apply par_multiuse_with_seq. Qed.

(* every pipeline, every assignment of schedule inputs to its concurrent stages and to a multiUse terminal - the assignment
   may differ from traversal to traversal: the outcome is the sequential denotation.  Every stage and terminal that the
   library runs on more than one goroutine (map, accept and the maps of the escaping-list / nested-list stages through
   MapAuto/FilterAuto, merge through two ToChan producers, multiUse through CopyProducer) is denoted by its protocol on
   the parallel side; all other stages run on the calling goroutine in the library as well. *)
Lemma pipeline_par_eq_seq_lem : forall asg tsched, assignment_ok asg ->
  forall n stages t tp, pipe_par_with asg tsched n stages t tp = pipe_seq n stages t tp.
Proof.
  intros asg tsched Hok n stages t tp. unfold pipe_par_with, pipe_seq.
  rewrite (stages_run_ext _ _ (stage_par_with_seq asg Hok)). apply bind_ext. intro l. apply term_par_with_seq.
Qed.

Lemma run_assignment_ok : forall nw, (1 <= nw)%N -> assignment_ok (run_assignment nw).
Proof. intros nw H k p l. cbn. lia. Qed.
