(* Merge over two ToChan producers with the stop flag = the sequential merge of the two lists, for every interleaving
   of the two producers and the consumer; what has been delivered at any moment is a prefix of it; no deadlock. *)
From P2 Require Import Base.Prelude Conc.ParMap Conc.MergeChan.
From Coq Require Import Lia.

Section MergeProofs.
Context {V : Type}.
Variable less : V -> V -> res bool.
Variable stopf : list (res V) -> bool.

Notation cons := (@mcons V).
Notation on_recv := (on_recv less stopf).
Notation on_eof := (on_eof stopf).
Notation sstep := (sstep less stopf).
Notation siter := (siter less stopf).
Notation mstep := (mstep less stopf).
Notation mrun := (mrun less stopf).
Notation state := (list (res V) * list (res V) * cons)%type.

(* ---- the sequential merge terminates and its result is unique ------------------------------------------ *)
Definition smeasure (t : state) : nat := let '(la, lb, c) := t in length la + length lb + crank c.

Lemma crank_emit : forall h1 h2 log x next, crank (emit stopf h1 h2 log x next) <= crank (mkCons h1 h2 next log).
Proof. intros. unfold emit, crank. cbn [cw]. destruct (stopf (log ++ [x])); [lia|reflexivity]. Qed.

Lemma crank_both : forall a b log, crank (both less stopf a b log) <= 2.
Proof.
  intros a b log. unfold both.
  destruct (match a, b with ROk va, ROk vb => match less va vb with ROk t => (t, false) | RErr => (false, true) end | _, _ => (false, true) end) as [[|] err];
    (eapply Nat.le_trans; [apply crank_emit|cbn; lia]).
Qed.

Lemma crank_recv : forall c x, crank (on_recv c x) <= crank c.
Proof.
  intros c x. unfold on_recv. destruct c as [a b w log]. cbn [cw ha hb clog]. destruct w; cbn [crank cw]; try lia.
  - destruct b; [apply crank_both|cbn; lia].
  - destruct a; [apply crank_both|cbn; lia].
  - eapply Nat.le_trans; [apply crank_emit|cbn; lia].
  - eapply Nat.le_trans; [apply crank_emit|cbn; lia].
Qed.

Lemma crank_eof : forall c, is_done c = false -> crank (on_eof c) < crank c.
Proof.
  intros c H. unfold on_eof. destruct c as [a b w log]. unfold is_done in H. cbn [cw ha hb clog] in *.
  destruct w; try discriminate; cbn [crank cw]; try lia.
  - destruct b; [eapply Nat.le_lt_trans; [apply crank_emit|cbn; lia]|cbn; lia].
  - destruct a; [eapply Nat.le_lt_trans; [apply crank_emit|cbn; lia]|cbn; lia].
Qed.

Lemma wants_done : forall c : cons, wants c = None <-> is_done c = true.
Proof. intro c. unfold wants, is_done. destruct (cw c); split; intro; try discriminate; reflexivity. Qed.

Lemma sstep_dec : forall t : state, is_done (snd t) = false -> smeasure (sstep t) < smeasure t.
Proof.
  intros [[la lb] c] H. cbn [snd] in H. unfold sstep.
  destruct (wants c) as [[|]|] eqn:Hw.
  - destruct la as [|x la]; cbn [smeasure length]; [pose proof (crank_eof c H)|pose proof (crank_recv c x)]; lia.
  - destruct lb as [|x lb]; cbn [smeasure length]; [pose proof (crank_eof c H)|pose proof (crank_recv c x)]; lia.
  - apply wants_done in Hw. congruence.
Qed.

Lemma sstep_done : forall t : state, is_done (snd t) = true -> sstep t = t.
Proof. intros [[la lb] c] H. cbn [snd] in H. unfold sstep. apply wants_done in H. rewrite H. reflexivity. Qed.

Lemma siter_S : forall n (t : state), siter (S n) t = sstep (siter n t).
Proof. induction n as [|n IH]; intro t; [reflexivity|]. cbn [MergeChan.siter] in *. rewrite <- IH. reflexivity. Qed.

Lemma siter_add : forall a b (t : state), siter (a + b) t = siter b (siter a t).
Proof. induction a as [|a IH]; intros b t; [reflexivity|]. cbn [plus MergeChan.siter]. apply IH. Qed.

Lemma siter_fix : forall n (t : state), is_done (snd t) = true -> siter n t = t.
Proof. induction n as [|n IH]; intros t H; [reflexivity|]. cbn [MergeChan.siter]. rewrite sstep_done by exact H. apply IH, H. Qed.

Lemma siter_reaches_done : forall n (t : state), smeasure t <= n -> is_done (snd (siter n t)) = true.
Proof.
  induction n as [|n IH]; intros t H; cbn [MergeChan.siter].
  - destruct (is_done (snd t)) eqn:E; [reflexivity|]. pose proof (sstep_dec t E). lia.
  - destruct (is_done (snd t)) eqn:E.
    + rewrite sstep_done by exact E. rewrite siter_fix by exact E. exact E.
    + apply IH. pose proof (sstep_dec t E). lia.
Qed.

Lemma siter_done_unique : forall n k (t : state),
  is_done (snd (siter n t)) = true -> is_done (snd (siter k t)) = true -> siter n t = siter k t.
Proof.
  intros n k t Hn Hk. destruct (Nat.le_ge_cases n k) as [H|H].
  - replace k with (n + (k - n)) by lia. rewrite siter_add. symmetry. apply siter_fix, Hn.
  - replace n with (k + (n - k)) by lia. rewrite siter_add. apply siter_fix, Hk.
Qed.

(* the log only grows *)
Lemma emit_prefix : forall h1 h2 log x next, is_prefix log (clog (emit stopf h1 h2 log x next)).
Proof. intros. exists [x]. reflexivity. Qed.

Lemma prefix_refl : forall (X : Type) (l : list X), is_prefix l l.
Proof. intros X l. exists []. rewrite app_nil_r. reflexivity. Qed.

Lemma prefix_trans : forall (X : Type) (a b c : list X), is_prefix a b -> is_prefix b c -> is_prefix a c.
Proof. intros X a b c (t & ->) (u & ->). exists (t ++ u). rewrite app_assoc. reflexivity. Qed.

Lemma both_prefix : forall a b log, is_prefix log (clog (both less stopf a b log)).
Proof.
  intros a b log. unfold both.
  destruct (match a, b with ROk va, ROk vb => match less va vb with ROk t => (t, false) | RErr => (false, true) end | _, _ => (false, true) end) as [[|] err];
    apply emit_prefix.
Qed.

Lemma recv_prefix : forall c x, is_prefix (clog c) (clog (on_recv c x)).
Proof.
  intros [a b w log] x. unfold on_recv. cbn [cw ha hb clog]. destruct w; try apply prefix_refl; try apply emit_prefix.
  - destruct b; [apply both_prefix|apply prefix_refl].
  - destruct a; [apply both_prefix|apply prefix_refl].
Qed.

Lemma eof_prefix : forall c, is_prefix (clog c) (clog (on_eof c)).
Proof.
  intros [a b w log]. unfold on_eof. cbn [cw ha hb clog]. destruct w; try apply prefix_refl.
  - destruct b; [apply emit_prefix|apply prefix_refl].
  - destruct a; [apply emit_prefix|apply prefix_refl].
Qed.

Lemma sstep_prefix : forall t : state, is_prefix (clog (snd t)) (clog (snd (sstep t))).
Proof.
  intros [[la lb] c]. unfold sstep. cbn [snd]. destruct (wants c) as [[|]|]; [| |apply prefix_refl].
  - destruct la; cbn [snd]; [apply eof_prefix|apply recv_prefix].
  - destruct lb; cbn [snd]; [apply eof_prefix|apply recv_prefix].
Qed.

Lemma siter_prefix : forall n (t : state), is_prefix (clog (snd t)) (clog (snd (siter n t))).
Proof.
  induction n as [|n IH]; intro t; [apply prefix_refl|]. cbn [MergeChan.siter].
  eapply prefix_trans; [apply sstep_prefix|apply IH].
Qed.

(* ---- the protocol refines the sequential merge ---------------------------------------------------------- *)
Notation mstate := (@mstate V).
Definition stt (m : mstate) : state := (pitems (pa m), pitems (pb m), mc m).
Definition closed_ok (p : @prod V) : Prop := pph p = PClosed -> pitems p = [].

Variables la0 lb0 : list (res V).
Notation init := (la0, lb0, @mcons_init V).

Definition minv (m : mstate) : Prop :=
  exists n, snd (siter n init) = mc m /\
    (is_done (mc m) = false ->
       siter n init = stt m /\ stopped m = false /\ doneClosed m = false /\ closed_ok (pa m) /\ closed_ok (pb m)).

Lemma mstep_disabled : forall m ch, menabled m ch = false -> mstep m ch = m.
Proof.
  intros m ch H. destruct ch as [s|s|s|s]; cbn [menabled MergeChan.mstep] in *.
  - destruct (pph (get s m)); try reflexivity. discriminate.
  - destruct (pph (get s m)); try reflexivity. destruct (pitems (get s m)); [reflexivity|]. rewrite H. reflexivity.
  - destruct (pph (get s m)); try reflexivity. destruct (pitems (get s m)); [reflexivity|]. rewrite H. reflexivity.
  - destruct (pph (get s m)); try reflexivity. rewrite H. reflexivity.
Qed.

Lemma wants_side_spec : forall (m : mstate) s, wants_side m s = true -> wants (mc m) = Some s /\ is_done (mc m) = false.
Proof.
  intros m s H. unfold wants_side in H. destruct (wants (mc m)) as [s'|] eqn:Hw; [|discriminate].
  split.
  - destruct s, s'; try discriminate; reflexivity.
  - destruct (is_done (mc m)) eqn:E; [|reflexivity]. apply wants_done in E. congruence.
Qed.

Lemma minv_step : forall m ch, minv m -> minv (mstep m ch).
Proof.
  intros m ch Hinv. destruct (menabled m ch) eqn:Hen; [|rewrite mstep_disabled by exact Hen; exact Hinv].
  destruct Hinv as (n & Hc & Hnd). destruct m as [pa pb c st dc]. cbn [mc MergeChan.stopped MergeChan.doneClosed MergeChan.pa MergeChan.pb] in *.
  destruct ch as [s|s|s|s]; cbn [menabled MergeChan.mstep] in *.
  - (* the producer takes its next item: nothing the consumer can see changes *)
    destruct s; cbn [get set MergeChan.pa MergeChan.pb MergeChan.stopped] in *.
    + destruct pa as [items ph]. cbn [pph pitems] in *. destruct ph; try discriminate.
      exists n. destruct items as [|x r]; cbn [set mc]; (split; [exact Hc|]); intro Hd; destruct (Hnd Hd) as (H1 & H2 & H3 & H4 & H5);
        unfold stt in *; cbn [MergeChan.pa MergeChan.pb mc pitems MergeChan.stopped MergeChan.doneClosed] in *.
      * repeat split; auto; intros _; reflexivity.
      * rewrite H2; repeat split; auto; intro Hx; discriminate.
    + destruct pb as [items ph]. cbn [pph pitems] in *. destruct ph; try discriminate.
      exists n. destruct items as [|x r]; cbn [set mc]; (split; [exact Hc|]); intro Hd; destruct (Hnd Hd) as (H1 & H2 & H3 & H4 & H5);
        unfold stt in *; cbn [MergeChan.pa MergeChan.pb mc pitems MergeChan.stopped MergeChan.doneClosed] in *.
      * repeat split; auto; intros _; reflexivity.
      * rewrite H2; repeat split; auto; intro Hx; discriminate.
  - (* hand-over of an item = one step of the sequential merge *)
    destruct (pph (get s {| pa := pa; pb := pb; mc := c; stopped := st; doneClosed := dc |})) eqn:Hph; try discriminate.
    destruct (pitems (get s {| pa := pa; pb := pb; mc := c; stopped := st; doneClosed := dc |})) as [|x r] eqn:Hit; [discriminate|].
    rewrite Hen. destruct (wants_side_spec _ _ Hen) as (Hw & Hd). cbn [mc] in Hw, Hd.
    destruct (Hnd Hd) as (H1 & H2 & H3 & H4 & H5). unfold stt in H1. cbn [MergeChan.pa MergeChan.pb mc] in H1.
    exists (S n). rewrite siter_S, H1. unfold MergeChan.sstep. rewrite Hw.
    destruct s; cbn [get MergeChan.pa MergeChan.pb] in Hph, Hit; rewrite Hit; cbn [snd]; unfold with_cons, stt;
      cbn [set mc MergeChan.pa MergeChan.pb pitems MergeChan.stopped MergeChan.doneClosed];
      (split; [reflexivity|]); intro Hd'; rewrite Hd', H2, H3; cbn [orb]; repeat split; auto; intro Hx; discriminate.
  - (* the done case of the select: only after the consumer has returned *)
    destruct (pph (get s {| pa := pa; pb := pb; mc := c; stopped := st; doneClosed := dc |})) eqn:Hph; try discriminate.
    destruct (pitems (get s {| pa := pa; pb := pb; mc := c; stopped := st; doneClosed := dc |})) as [|x r] eqn:Hit; [discriminate|].
    rewrite Hen. cbn [MergeChan.doneClosed] in Hen. subst dc.
    assert (Hd : is_done c = true).
    { destruct (is_done c) eqn:E; [reflexivity|]. destruct (Hnd eq_refl) as (_ & _ & H3 & _). discriminate. }
    exists n. destruct s; cbn [set mc]; (split; [exact Hc|]); intro Hx; congruence.
  - (* the channel is closed because the list is exhausted = the sequential merge finds its list empty *)
    destruct (pph (get s {| pa := pa; pb := pb; mc := c; stopped := st; doneClosed := dc |})) eqn:Hph; try discriminate.
    rewrite Hen. destruct (wants_side_spec _ _ Hen) as (Hw & Hd). cbn [mc] in Hw, Hd.
    destruct (Hnd Hd) as (H1 & H2 & H3 & H4 & H5). unfold stt in H1. cbn [MergeChan.pa MergeChan.pb mc] in H1.
    exists (S n). rewrite siter_S, H1. unfold MergeChan.sstep. rewrite Hw.
    destruct s; cbn [get MergeChan.pa MergeChan.pb] in Hph; [rewrite (H4 Hph)|rewrite (H5 Hph)]; cbn [snd]; unfold with_cons, stt;
      cbn [mc MergeChan.pa MergeChan.pb pitems MergeChan.stopped MergeChan.doneClosed];
      (split; [reflexivity|]); intro Hd'; rewrite Hd', H2, H3; cbn [orb]; [rewrite (H4 Hph)|rewrite (H5 Hph)]; repeat split; auto.
Qed.

Lemma minv_run : forall sched m, minv m -> minv (mrun m sched).
Proof. induction sched as [|ch sched IH]; intros m H; [exact H|]. cbn [MergeChan.mrun fold_left]. apply IH, minv_step, H. Qed.

Lemma minv_init : minv (minit la0 lb0).
Proof.
  exists 0. cbn [MergeChan.siter snd minit mc]. split; [reflexivity|]. intros _.
  unfold stt, closed_ok. cbn. repeat split; auto; intro H; discriminate.
Qed.

(* the sequential merge is done within |la|+|lb|+3 steps *)
Lemma merge_seq_done : is_done (snd (siter (length la0 + length lb0 + 3) init)) = true.
Proof. apply siter_reaches_done. cbn. lia. Qed.

(* every interleaving: when the consumer has returned it has been given exactly the sequential merge *)
Lemma merge_chan_eq_seq_lem : forall sched,
  let m := mrun (minit la0 lb0) sched in
  is_done (mc m) = true -> clog (mc m) = merge_seq less stopf la0 lb0.
Proof.
  intros sched m Hd. destruct (minv_run sched _ minv_init) as (n & Hc & _). fold m in Hc.
  unfold merge_seq. rewrite <- Hc in *.
  rewrite (siter_done_unique n (length la0 + length lb0 + 3) init Hd merge_seq_done). reflexivity.
Qed.

(* at every moment of every interleaving what has been delivered is a prefix of the sequential merge *)
Lemma merge_chan_prefix_lem : forall sched,
  is_prefix (clog (mc (mrun (minit la0 lb0) sched))) (merge_seq less stopf la0 lb0).
Proof.
  intro sched. destruct (minv_run sched _ minv_init) as (n & Hc & _). rewrite <- Hc. unfold merge_seq.
  set (F := length la0 + length lb0 + 3).
  destruct (Nat.le_ge_cases n F) as [H|H].
  - replace F with (n + (F - n)) by lia. rewrite siter_add. apply siter_prefix.
  - replace n with (F + (n - F)) by lia. rewrite siter_add. rewrite siter_fix by apply merge_seq_done. apply prefix_refl.
Qed.

(* ---- no deadlock ----------------------------------------------------------------------------------------- *)
Definition ready_ok (m : mstate) : Prop := forall s, pph (get s m) = PReady -> pitems (get s m) <> [].

Lemma ready_step : forall m ch, ready_ok m -> ready_ok (mstep m ch).
Proof.
  intros m ch H. destruct (menabled m ch) eqn:Hen; [|rewrite mstep_disabled by exact Hen; exact H].
  destruct m as [[ia pha] [ib phb] c st dc]. intros s'.
  pose proof (H SA) as HA; pose proof (H SB) as HB; cbn [get pph pitems MergeChan.pa MergeChan.pb] in HA, HB.
  destruct ch as [s|s|s|s]; destruct s; cbn [menabled MergeChan.mstep get pph pitems MergeChan.pa MergeChan.pb] in *.
  - destruct pha; try discriminate. destruct ia; destruct s'; cbn [get set with_cons pph pitems MergeChan.pa MergeChan.pb];
      first [exact HA | exact HB | intros Hp Hx; discriminate].
  - destruct phb; try discriminate. destruct ib; destruct s'; cbn [get set with_cons pph pitems MergeChan.pa MergeChan.pb];
      first [exact HA | exact HB | intros Hp Hx; discriminate].
  - destruct pha; try discriminate. destruct ia; [discriminate|]. rewrite Hen. destruct s'; cbn [get set with_cons pph pitems MergeChan.pa MergeChan.pb];
      first [exact HA | exact HB | intros Hp Hx; discriminate].
  - destruct phb; try discriminate. destruct ib; [discriminate|]. rewrite Hen. destruct s'; cbn [get set with_cons pph pitems MergeChan.pa MergeChan.pb];
      first [exact HA | exact HB | intros Hp Hx; discriminate].
  - destruct pha; try discriminate. destruct ia; [discriminate|]. rewrite Hen. destruct s'; cbn [get set with_cons pph pitems MergeChan.pa MergeChan.pb];
      first [exact HA | exact HB | intros Hp Hx; discriminate].
  - destruct phb; try discriminate. destruct ib; [discriminate|]. rewrite Hen. destruct s'; cbn [get set with_cons pph pitems MergeChan.pa MergeChan.pb];
      first [exact HA | exact HB | intros Hp Hx; discriminate].
  - destruct pha; try discriminate. rewrite Hen. destruct s'; cbn [get set with_cons pph pitems MergeChan.pa MergeChan.pb];
      first [exact HA | exact HB | intros Hp Hx; discriminate].
  - destruct phb; try discriminate. rewrite Hen. destruct s'; cbn [get set with_cons pph pitems MergeChan.pa MergeChan.pb];
      first [exact HA | exact HB | intros Hp Hx; discriminate].
Qed.

Lemma mstep_enabled : forall m ch, menabled m ch = true -> mmeasure (mstep m ch) < mmeasure m.
Proof.
  intros m ch Hen. destruct m as [[ia pha] [ib phb] c st dc]. unfold mmeasure, prank.
  destruct ch as [s|s|s|s]; destruct s; cbn [menabled MergeChan.mstep get pph pitems MergeChan.pa MergeChan.pb] in *.
  - destruct pha; try discriminate. destruct ia; cbn [set MergeChan.pa MergeChan.pb MergeChan.stopped mc pitems pph length]; [lia|destruct st; lia].
  - destruct phb; try discriminate. destruct ib; cbn [set MergeChan.pa MergeChan.pb MergeChan.stopped mc pitems pph length]; [lia|destruct st; lia].
  - destruct pha; try discriminate. destruct ia as [|x r]; [discriminate|]. rewrite Hen.
    cbn [with_cons set MergeChan.pa MergeChan.pb mc pitems pph length]. pose proof (crank_recv c x). lia.
  - destruct phb; try discriminate. destruct ib as [|x r]; [discriminate|]. rewrite Hen.
    cbn [with_cons set MergeChan.pa MergeChan.pb mc pitems pph length]. pose proof (crank_recv c x). lia.
  - destruct pha; try discriminate. destruct ia as [|x r]; [discriminate|]. rewrite Hen.
    cbn [set MergeChan.pa MergeChan.pb MergeChan.stopped mc pitems pph length]. lia.
  - destruct phb; try discriminate. destruct ib as [|x r]; [discriminate|]. rewrite Hen.
    cbn [set MergeChan.pa MergeChan.pb MergeChan.stopped mc pitems pph length]. lia.
  - destruct pha; try discriminate. rewrite Hen. destruct (wants_side_spec _ _ Hen) as (_ & Hd). cbn [mc] in Hd.
    cbn [with_cons MergeChan.pa MergeChan.pb mc pitems pph]. pose proof (crank_eof c Hd). lia.
  - destruct phb; try discriminate. rewrite Hen. destruct (wants_side_spec _ _ Hen) as (_ & Hd). cbn [mc] in Hd.
    cbn [with_cons MergeChan.pa MergeChan.pb mc pitems pph]. pose proof (crank_eof c Hd). lia.
Qed.

(* as long as the consumer has not returned, something can happen *)
Lemma mprogress : forall m : mstate, ready_ok m -> is_done (mc m) = false -> exists ch, menabled m ch = true.
Proof.
  intros m Hr Hd. destruct (wants (mc m)) as [s|] eqn:Hw; [|apply wants_done in Hw; congruence].
  assert (Hws : wants_side m s = true) by (unfold wants_side; rewrite Hw; destruct s; reflexivity).
  destruct (pph (get s m)) eqn:Hph.
  - exists (MCheck s). cbn [menabled]. rewrite Hph. reflexivity.
  - exists (MXfer s). cbn [menabled]. rewrite Hph. pose proof (Hr s Hph) as Hne.
    destruct (pitems (get s m)); [congruence|exact Hws].
  - exists (MEof s). cbn [menabled]. rewrite Hph. exact Hws.
Qed.

Lemma mcomplete_exists : forall n (m : mstate), mmeasure m <= n -> ready_ok m ->
  exists sched, length sched <= n /\ is_done (mc (mrun m sched)) = true.
Proof.
  induction n as [|n IH]; intros m Hm Hr.
  - destruct (is_done (mc m)) eqn:Hd; [exists []; split; [reflexivity|exact Hd]|].
    destruct (mprogress m Hr Hd) as (ch & Hen). apply mstep_enabled in Hen. lia.
  - destruct (is_done (mc m)) eqn:Hd; [exists []; split; [cbn; lia|exact Hd]|].
    destruct (mprogress m Hr Hd) as (ch & Hen). pose proof (mstep_enabled m ch Hen).
    destruct (IH (mstep m ch)) as (sched & Hl & Hdone); [lia|apply ready_step; exact Hr|].
    exists (ch :: sched). split; [cbn; lia|exact Hdone].
Qed.

Fixpoint mall_enabled (m : mstate) (sched : list mchoice) : bool :=
  match sched with [] => true | ch :: r => menabled m ch && mall_enabled (mstep m ch) r end.

Lemma menabled_bounded : forall sched (m : mstate), mall_enabled m sched = true -> length sched + mmeasure (mrun m sched) <= mmeasure m.
Proof.
  induction sched as [|ch sched IH]; intros m H; [cbn; lia|]. cbn [mall_enabled] in H. apply andb_true_iff in H.
  destruct H as (Hen & Hrest). specialize (IH _ Hrest). pose proof (mstep_enabled m ch Hen).
  cbn [length MergeChan.mrun fold_left] in *. unfold MergeChan.mrun in IH. lia.
Qed.

Lemma ready_run : forall sched m, ready_ok m -> ready_ok (mrun m sched).
Proof. induction sched as [|ch sched IH]; intros m H; [exact H|]. cbn [MergeChan.mrun fold_left]. apply IH, ready_step, H. Qed.

Lemma ready_init : forall la lb, ready_ok (minit la lb).
Proof. intros la lb s. destruct s; cbn; discriminate. Qed.

Lemma mpick_enabled : forall m : mstate, ready_ok m -> is_done (mc m) = false -> menabled m (mpick m) = true.
Proof.
  intros m Hr Hd. unfold mpick. destruct (wants (mc m)) as [s|] eqn:Hw; [|apply wants_done in Hw; congruence].
  assert (Hws : wants_side m s = true) by (unfold wants_side; rewrite Hw; destruct s; reflexivity).
  destruct (pph (get s m)) eqn:Hph; cbn [menabled]; rewrite Hph; auto.
  pose proof (Hr s Hph) as Hne. destruct (pitems (get s m)); [congruence|exact Hws].
Qed.

Lemma mdrive_done : forall n (m : mstate), mmeasure m <= n -> ready_ok m -> is_done (mc (mdrive less stopf n m)) = true.
Proof.
  induction n as [|n IH]; intros m Hm Hr; cbn [mdrive].
  - destruct (is_done (mc m)) eqn:Hd; [reflexivity|]. pose proof (mstep_enabled m _ (mpick_enabled m Hr Hd)). lia.
  - destruct (is_done (mc m)) eqn:Hd; [exact Hd|]. pose proof (mstep_enabled m _ (mpick_enabled m Hr Hd)).
    apply IH; [lia|apply ready_step; exact Hr].
Qed.

Lemma mdrive_sched : forall n (m : mstate), exists sched, mdrive less stopf n m = mrun m sched.
Proof.
  induction n as [|n IH]; intro m; cbn [mdrive]; [exists []; reflexivity|].
  destruct (is_done (mc m)); [exists []; reflexivity|]. destruct (IH (mstep m (mpick m))) as (sched & H).
  exists (mpick m :: sched). exact H.
Qed.

(* the protocol as a function of the schedule: the schedule, then the canonical completion *)
Lemma merge_fun_eq_seq : forall sched,
  let m1 := mrun (minit la0 lb0) sched in
  clog (mc (mdrive less stopf (mmeasure m1) m1)) = merge_seq less stopf la0 lb0.
Proof.
  intros sched m1. destruct (mdrive_sched (mmeasure m1) m1) as (sched' & Hs).
  pose proof (mdrive_done (mmeasure m1) m1 (le_n _) (ready_run sched _ (ready_init la0 lb0))) as Hd.
  rewrite Hs in *. unfold m1 in *. unfold MergeChan.mrun in *. rewrite <- fold_left_app in *.
  apply (merge_chan_eq_seq_lem (sched ++ sched')). exact Hd.
Qed.

(* from every reachable state the consumer can be brought to its end; while it has not returned some step is enabled;
   schedules of enabled steps are bounded *)
Lemma merge_no_deadlock_lem : forall la lb sched,
  let m := mrun (minit la lb) sched in
  (exists sched', is_done (mc (mrun (minit la lb) (sched ++ sched'))) = true) /\
  (is_done (mc m) = false -> exists ch, menabled m ch = true) /\
  (forall more, mall_enabled m more = true -> length more <= mmeasure m).
Proof.
  intros la lb sched m. pose proof (ready_run sched _ (ready_init la lb)) as Hr. fold m in Hr. split; [|split].
  - destruct (mcomplete_exists _ m (le_n _) Hr) as (sched' & _ & Hd). exists sched'.
    unfold MergeChan.mrun in *. rewrite fold_left_app. exact Hd.
  - apply mprogress. exact Hr.
  - intros more H. pose proof (menabled_bounded more m H). lia.
Qed.
End MergeProofs.

(* ---- a consumer that stops early is given a prefix of what a never-stopping consumer is given ------------------- *)
Section MergeStopPrefix.
Context {V : Type}.
Variable less : V -> V -> res bool.
Variable stopf : list (res V) -> bool.
Notation never := (fun _ : list (res V) => false).
Notation state := (list (res V) * list (res V) * @mcons V)%type.

Definition crel1 (c1 c2 : @mcons V) : Prop := c1 = c2 \/ (is_done c1 = true /\ clog c1 = clog c2).

Lemma emit_rel : forall h1 h2 log x next, crel1 (emit stopf h1 h2 log x next) (emit never h1 h2 log x next).
Proof. intros. unfold emit. destruct (stopf (log ++ [x])); [right; split; reflexivity|left; reflexivity]. Qed.

Lemma both_rel : forall a b log, crel1 (both less stopf a b log) (both less never a b log).
Proof.
  intros a b log. unfold both.
  destruct (match a, b with ROk va, ROk vb => match less va vb with ROk t => (t, false) | RErr => (false, true) end | _, _ => (false, true) end) as [[|] err];
    apply emit_rel.
Qed.

Lemma recv_rel : forall c x, crel1 (on_recv less stopf c x) (on_recv less never c x).
Proof.
  intros [a b w log] x. unfold on_recv. cbn [cw ha hb clog]. destruct w; try (left; reflexivity); try apply emit_rel.
  - destruct b; [apply both_rel|left; reflexivity].
  - destruct a; [apply both_rel|left; reflexivity].
Qed.

Lemma eof_rel : forall c, crel1 (on_eof stopf c) (on_eof never c).
Proof.
  intros [a b w log]. unfold on_eof. cbn [cw ha hb clog]. destruct w; try (left; reflexivity).
  - destruct b; [apply emit_rel|left; reflexivity].
  - destruct a; [apply emit_rel|left; reflexivity].
Qed.

Definition srel (t1 t2 : state) : Prop := t1 = t2 \/ (is_done (snd t1) = true /\ is_prefix (clog (snd t1)) (clog (snd t2))).

Lemma lift_rel : forall la lb c1 c2, crel1 c1 c2 -> srel (la, lb, c1) (la, lb, c2).
Proof. intros la lb c1 c2 [->|(Hd & Hl)]; [left; reflexivity|right; cbn [snd]; split; [exact Hd|rewrite Hl; apply prefix_refl]]. Qed.

Lemma sstep_rel : forall t1 t2, srel t1 t2 -> srel (sstep less stopf t1) (sstep less never t2).
Proof.
  intros t1 t2 [->|(Hd & Hp)].
  - destruct t2 as [[la lb] c]. unfold sstep. destruct (wants c) as [[|]|]; [| |left; reflexivity].
    + destruct la; apply lift_rel; [apply eof_rel|apply recv_rel].
    + destruct lb; apply lift_rel; [apply eof_rel|apply recv_rel].
  - right. rewrite (sstep_done less stopf t1 Hd). split; [exact Hd|].
    eapply prefix_trans; [exact Hp|apply sstep_prefix].
Qed.

Lemma siter_rel : forall n t1 t2, srel t1 t2 -> srel (siter less stopf n t1) (siter less never n t2).
Proof. induction n as [|n IH]; intros t1 t2 H; [exact H|]. cbn [siter]. apply IH, sstep_rel, H. Qed.

Lemma merge_seq_stop_prefix_lem : forall la lb, is_prefix (merge_seq less stopf la lb) (merge_seq less never la lb).
Proof.
  intros la lb. unfold merge_seq.
  destruct (siter_rel (length la + length lb + 3) (la, lb, mcons_init) (la, lb, mcons_init) (or_introl eq_refl)) as [->|(_ & H)];
    [apply prefix_refl|exact H].
Qed.
End MergeStopPrefix.
