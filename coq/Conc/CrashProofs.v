(* Proofs about the crash model (Conc/Crash.v). *)
From P2 Require Import Base.Prelude Conc.Crash.
Require Import Lia ZifyBool Sorted.
Local Open Scope N_scope.

(* ---------- induction over programs (the consumers of multiUse are a nested list) ---------- *)

Section ProgInd.
Variable P : prog -> Prop.
Hypothesis Hleaf : forall f, P (PLeaf f).
Hypothesis Hcall : forall q, P q -> P (PCall q).
Hypothesis Htry : forall q, P q -> P (PTry q).
Hypothesis Hstage : forall id q, P q -> P (PStage id q).
Hypothesis Hdown : forall id q, P q -> P (PDown id q).
Hypothesis Hmop : forall q, P q -> P (PMergeOp q).
Hypothesis Hmless : forall q, P q -> P (PMergeLess q).
Hypothesis Hmulti : forall qs, Forall P qs -> P (PMultiUse qs).

Fixpoint prog_ind_n (p : prog) : P p :=
  match p with
  | PLeaf f => Hleaf f
  | PCall q => Hcall q (prog_ind_n q)
  | PTry q => Htry q (prog_ind_n q)
  | PStage id q => Hstage id q (prog_ind_n q)
  | PDown id q => Hdown id q (prog_ind_n q)
  | PMergeOp q => Hmop q (prog_ind_n q)
  | PMergeLess q => Hmless q (prog_ind_n q)
  | PMultiUse qs =>
      Hmulti qs ((fix go (l : list prog) : Forall P l :=
                    match l with
                    | [] => Forall_nil P
                    | x :: r => Forall_cons x (prog_ind_n x) (go r)
                    end) qs)
  end.
End ProgInd.

(* ---------- the recursion guard ---------- *)

Lemma storage_set_bound : forall len n len',
  len <= guard_limit + 1 -> storage_set len n = Some len' -> len' <= guard_limit + 1 /\ n <= guard_limit.
Proof.
  unfold storage_set, guard_limit. intros len n len' Hlen H.
  destruct (n =? len) eqn:E1.
  - destruct (10000 <? n) eqn:E2; [discriminate|]. inversion H; subst. lia.
  - destruct (n <? len) eqn:E3; [|discriminate]. inversion H; subst. lia.
Qed.

(* on one storage the data never grows beyond 10001 values, and every successful write is at an index <= 10000 *)
Lemma run_sets_bound : forall idxs len len',
  len <= guard_limit + 1 -> run_sets len idxs = Some len' ->
  len' <= guard_limit + 1 /\ Forall (fun i => i <= guard_limit) idxs.
Proof.
  induction idxs as [|n r IH]; intros len len' Hlen H; simpl in H.
  - inversion H; subst. split; [assumption|constructor].
  - destruct (storage_set len n) as [l|] eqn:E; [|discriminate].
    destruct (storage_set_bound _ _ _ Hlen E) as [Hl Hn].
    destruct (IH _ _ Hl H) as [H1 H2]. split; [assumption|constructor; assumption].
Qed.

Lemma sorted_bounded_length : forall (M : N) l lo,
  Forall (fun i => lo <= i /\ i <= M) l -> StronglySorted N.lt l -> N.of_nat (length l) <= M + 1 - lo.
Proof.
  intros M l. induction l as [|x r IH]; intros lo HF HS; simpl length.
  - lia.
  - inversion HF as [|? ? [Hx1 Hx2] HFr]; subst. inversion HS as [|? ? HSr Hlt]; subst.
    assert (HF' : Forall (fun i => x + 1 <= i /\ i <= M) r).
    { rewrite Forall_forall in *. intros i Hi. specialize (HFr i Hi). specialize (Hlt i Hi). lia. }
    specialize (IH (x + 1) HF' HSr). lia.
Qed.

(* a recursion that writes at least one new, higher slot per level on one storage is stopped by the
   guard (a panic, not an exhausted Go stack) before level 10002 *)
Lemma guard_stops_increasing_pushes : forall idxs len,
  len <= guard_limit + 1 -> StronglySorted N.lt idxs -> guard_limit + 1 < N.of_nat (length idxs) ->
  run_sets len idxs = None.
Proof.
  intros idxs len Hlen HS Hlong.
  destruct (run_sets len idxs) as [l|] eqn:E; [|reflexivity]. exfalso.
  destruct (run_sets_bound _ _ _ Hlen E) as [_ HF].
  assert (HF' : Forall (fun i => 0 <= i /\ i <= guard_limit) idxs).
  { rewrite Forall_forall in *. intros i Hi. specialize (HF i Hi). lia. }
  pose proof (sorted_bounded_length guard_limit idxs 0 HF' HS). lia.
Qed.

(* with at least one slot per level the model's runaway recursion ends in the guard's panic whenever the
   Go stack holds the (at most 10002) levels the guard lets through *)
Lemma rec_shared_is_panic : forall D top slots frames,
  1 <= slots -> (guard_limit + 2) * frames <= D ->
  rec_shared_raw D top slots frames = RPanic.
Proof.
  unfold rec_shared_raw, guard_limit. intros D top slots frames Hs HD.
  destruct (slots =? 0) eqn:E0; [lia|].
  assert (Hlev : (10000 + 1 - top) / slots + 1 <= 10002).
  { assert ((10000 + 1 - top) / slots <= 10000 + 1 - top) by (apply N.div_le_upper_bound; nia). lia. }
  destruct (D <? ((10000 + 1 - top) / slots + 1) * frames) eqn:E1; [|reflexivity]. nia.
Qed.

Lemma rec_fresh_exceeds_any_stack : forall S D frames, 1 <= frames -> fault_raw S D (FRecFresh frames (D + 1)) = RFatal.
Proof.
  intros S D frames Hf. simpl. destruct (D <? frames * (D + 1)) eqn:E; [reflexivity|nia].
Qed.

(* recursion through a method: stopped by the guard iff the method does not start a fresh storage *)
Lemma rec_through_guarded : forall S D m slots frames depth,
  mem_str m (s_fresh S) = false -> 1 <= slots -> (guard_limit + 2) * frames <= D ->
  fault_raw S D (FRecThrough m slots frames depth) <> RFatal.
Proof.
  intros S D m slots frames depth Hm Hs HD. cbn [fault_raw]. rewrite Hm.
  destruct (slots =? 0) eqn:E0; [lia|].
  destruct (depth <=? (guard_limit + 1) / slots) eqn:E1.
  - assert ((guard_limit + 1) / slots <= guard_limit + 1) by (apply N.div_le_upper_bound; nia).
    destruct (D <? frames * depth) eqn:E2; [|discriminate]. unfold guard_limit in *. nia.
  - rewrite (rec_shared_is_panic D 0 slots frames Hs HD). discriminate.
Qed.

Lemma rec_through_code_is_guarded : forall D m slots frames depth,
  1 <= slots -> (guard_limit + 2) * frames <= D ->
  fault_raw code_sites D (FRecThrough m slots frames depth) <> RFatal.
Proof. intros D m slots frames depth. apply rec_through_guarded. reflexivity. Qed.

Lemma rec_through_fresh_fatal : forall S D m slots frames,
  mem_str m (s_fresh S) = true -> 1 <= frames ->
  fault_raw S D (FRecThrough m slots frames (D + 1)) = RFatal.
Proof.
  intros S D m slots frames Hm Hf. cbn [fault_raw]. rewrite Hm.
  destruct (D <? frames * (D + 1)) eqn:E; [reflexivity|nia].
Qed.

Lemma rec_mixed_code_is_guarded : forall D m between slots frames depth,
  1 <= slots -> (guard_limit + 2) * frames <= D ->
  fault_raw code_sites D (FRecMixed m between slots frames depth) <> RFatal.
Proof.
  intros D m between slots frames depth Hs HD. cbn [fault_raw].
  destruct (slots =? 0) eqn:E0; [lia|].
  destruct (depth <=? (guard_limit + 1) / slots) eqn:E1.
  - assert ((guard_limit + 1) / slots <= guard_limit + 1) by (apply N.div_le_upper_bound; nia).
    destruct (D <? frames * depth) eqn:E2; [|discriminate]. unfold guard_limit in *. nia.
  - cbn [mem_str s_fresh code_sites]. rewrite (rec_shared_is_panic D 0 slots frames Hs HD). discriminate.
Qed.

(* a method that forgets its callers' depth lets a mixed recursion with short direct segments run to any depth *)
Lemma rec_mixed_fresh_fatal : forall S D m between slots frames,
  mem_str m (s_fresh S) = true -> 1 <= slots -> 1 <= frames -> (between + 1) * slots <= guard_limit ->
  fault_raw S D (FRecMixed m between slots frames (D + guard_limit + 2)) = RFatal.
Proof.
  intros S D m between slots frames Hm Hs Hf Hb. cbn [fault_raw]. rewrite Hm.
  destruct (slots =? 0) eqn:E0; [lia|].
  assert ((guard_limit + 1) / slots <= guard_limit + 1) by (apply N.div_le_upper_bound; nia).
  destruct (D + guard_limit + 2 <=? (guard_limit + 1) / slots) eqn:E1; [lia|].
  destruct ((between + 1) * slots <=? guard_limit) eqn:E2; [|lia].
  destruct (D <? frames * (D + guard_limit + 2)) eqn:E3; [reflexivity|nia].
Qed.

(* depth bookkeeping: a private stack created below p continues at p's depth; frames keep the depth;
   a successful push happened at a depth <= 10000 and raises it by one *)
Lemma below_inherits_depth : forall p, stk_depth (stk_below p) = stk_depth p.
Proof. intros p. unfold stk_below. unfold stk_depth. cbn [k_base k_offs k_size]. unfold stk_depth. lia. Qed.

Lemma frame_keeps_depth : forall s n, n <= k_size s -> stk_depth (stk_frame s n) = stk_depth s.
Proof. intros s n H. unfold stk_depth, stk_frame. simpl. lia. Qed.

Lemma push_guards_depth : forall s len s' len',
  k_offs s + k_size s = len -> stk_push s len = Some (s', len') ->
  stk_depth s <= guard_limit /\ stk_depth s' = stk_depth s + 1.
Proof.
  intros s len s' len' Hn H. unfold stk_push in H. rewrite Hn in H. rewrite N.eqb_refl in H.
  destruct (guard_limit <? k_base s + len) eqn:E; [discriminate|]. inversion H; subst.
  unfold stk_depth. simpl. lia.
Qed.

Lemma rec_noslot_is_fatal : forall S D top frames, fault_raw S D (FRecShared top 0 frames) = RFatal.
Proof. reflexivity. Qed.

(* ---------- panics, errors and try/catch on the calling goroutine ---------- *)

Lemma settle_not_panic : forall r, r <> RPanic -> settle r <> RPanic.
Proof. destruct r; simpl; congruence. Qed.

Lemma settle_not_fatal : forall r, r <> RFatal -> settle r <> RFatal.
Proof. destruct r; simpl; congruence. Qed.

Lemma try_catches : forall S D sc g p,
  s_try S = true -> (run S D sc g p = RErr \/ run S D sc g p = RPanic) -> run S D sc g (PTry p) = RCatch.
Proof. intros S D sc g p Ht [H|H]; simpl; rewrite H; [reflexivity|rewrite Ht; reflexivity]. Qed.

Lemma try_catches_class : forall S D sc p,
  s_try S = true -> (run S D sc Main p = RErr \/ run S D sc Main p = RPanic) -> class S D sc (PTry p) = CCatch.
Proof. intros S D sc p Ht H. unfold class. rewrite (try_catches S D sc Main p Ht H). reflexivity. Qed.

Lemma try_keeps_values : forall S D sc g p, run S D sc g p = RVal -> run S D sc g (PTry p) = RVal.
Proof. intros S D sc g p H; simpl; rewrite H; reflexivity. Qed.

(* in the calling goroutine's own code a fault of class error or panic is an error of the evaluation *)
Lemma main_fault_is_error : forall S D sc f,
  (fault_raw S D f = RErr \/ fault_raw S D f = RPanic) ->
  class S D sc (PLeaf f) = CErr /\ class S D sc (PCall (PLeaf f)) = CErr.
Proof. intros S D sc f [H|H]; unfold class; simpl; rewrite H; split; reflexivity. Qed.

(* ---------- deep data ---------- *)

Lemma deep_data_bounded_survives : forall S D n frame, n * frame <= D -> fault_raw S D (FDeepData n frame) = RVal.
Proof. intros S D n frame H. cbn [fault_raw]. destruct (D <? n * frame) eqn:E; [lia|reflexivity]. Qed.

Lemma deep_data_unbounded_fatal : forall S D frame, 1 <= frame -> fault_raw S D (FDeepData (D + 1) frame) = RFatal.
Proof. intros S D frame H. cbn [fault_raw]. destruct (D <? (D + 1) * frame) eqn:E; [reflexivity|nia]. Qed.

(* ---------- demand ---------- *)

Lemma demanded_fault_is_error : forall D sc g d i f,
  i < d -> (fault_raw code_sites D f = RErr \/ fault_raw code_sites D f = RPanic) ->
  run code_sites D sc g (demand d i (PCall (PLeaf f))) = RErr /\
  class code_sites D sc (demand d i (PCall (PLeaf f))) = CErr /\
  class code_sites D sc (PTry (demand d i (PCall (PLeaf f)))) = CCatch.
Proof.
  intros D sc g d i f Hi Hf. unfold demand, class.
  destruct (i <? d) eqn:E; [|lia].
  destruct Hf as [Hf|Hf]; cbn [run]; rewrite Hf; cbn; repeat split; reflexivity.
Qed.

Lemma undemanded_fault_invisible : forall S D sc g d i q,
  d <= i -> run S D sc g (demand d i q) = RVal /\ class S D sc (demand d i q) = CVal /\ class S D sc (PTry (demand d i q)) = CVal.
Proof.
  intros S D sc g d i q Hi. unfold demand, class.
  destruct (i <? d) eqn:E; [lia|]. repeat split; reflexivity.
Qed.

(* ---------- no fatal outcome ---------- *)

Lemma existsb_map_false : forall (A : Type) (f : A -> raw) (t : raw -> bool) (l : list A),
  Forall (fun x => t (f x) = false) l -> existsb t (map f l) = false.
Proof.
  intros A f t l H. induction H as [|x r Hx Hr IH]; simpl; [reflexivity|]. rewrite Hx, IH. reflexivity.
Qed.

Lemma panic_free_no_panic : forall S D sc p, panic_free S D p = true -> forall g, run S D sc g p <> RPanic.
Proof.
  intros S D sc p. induction p as [f|q IH|q IH|id q IH|id q IH|q IH|q IH|qs IH] using prog_ind_n;
    simpl; intros Hpf g.
  - destruct (fault_raw S D f); simpl in Hpf; congruence.
  - apply IH; assumption.
  - specialize (IH Hpf g). destruct (run S D sc g q); congruence.
  - specialize (IH Hpf (if sc id then Worker else g)).
    destruct (run S D sc (if sc id then Worker else g) q); simpl; congruence.
  - specialize (IH Hpf (if sc id then Collector else g)).
    destruct (run S D sc (if sc id then Collector else g) q); simpl; congruence.
  - specialize (IH Hpf Producer). destruct (run S D sc Producer q); simpl; congruence.
  - apply settle_not_panic. apply IH; assumption.
  - destruct (existsb is_fatal _); [congruence|]. destruct (existsb is_err _); congruence.
Qed.

Lemma guarded_no_fatal : forall S D sc p,
  leaves_ok S D p = true -> guarded S D p = true -> forall g, run S D sc g p <> RFatal.
Proof.
  intros S D sc p. induction p as [f|q IH|q IH|id q IH|id q IH|q IH|q IH|qs IH] using prog_ind_n;
    simpl; intros Hl Hg g.
  - destruct (fault_raw S D f); simpl in Hl; congruence.
  - apply IH; assumption.
  - specialize (IH Hl Hg g). destruct (run S D sc g q); try congruence. destruct (s_try S); congruence.
  - apply andb_prop in Hg. destruct Hg as [Hs Hg].
    specialize (IH Hl Hg (if sc id then Worker else g)).
    destruct (run S D sc (if sc id then Worker else g) q) eqn:E; simpl; try congruence.
    destruct (s_worker S); [congruence|]. simpl in Hs.
    exfalso. exact (panic_free_no_panic S D sc q Hs _ E).
  - apply andb_prop in Hg. destruct Hg as [Hs Hg].
    specialize (IH Hl Hg (if sc id then Collector else g)).
    destruct (run S D sc (if sc id then Collector else g) q) eqn:E; simpl; try congruence.
    destruct (s_collector S); [destruct (sc id); congruence|]. simpl in Hs.
    exfalso. exact (panic_free_no_panic S D sc q Hs _ E).
  - apply andb_prop in Hg. destruct Hg as [Hs Hg].
    specialize (IH Hl Hg Producer).
    destruct (run S D sc Producer q) eqn:E; simpl; try congruence.
    destruct (s_producer S); [congruence|]. simpl in Hs.
    exfalso. exact (panic_free_no_panic S D sc q Hs _ E).
  - apply settle_not_fatal. apply IH; assumption.
  - rewrite forallb_forall in Hl, Hg.
    rewrite existsb_map_false.
    + destruct (existsb is_err _); congruence.
    + rewrite Forall_forall in *. intros q Hq.
      specialize (Hg q Hq). apply andb_prop in Hg. destruct Hg as [Hs Hg].
      specialize (IH q Hq (Hl q Hq) Hg Consumer).
      destruct (run S D sc Consumer q) eqn:E; simpl; try reflexivity; try congruence.
      destruct (s_consumer S); [reflexivity|]. simpl in Hs.
      exfalso. exact (panic_free_no_panic S D sc q Hs _ E).
Qed.

Lemma guarded_code_sites : forall D p, guarded code_sites D p = true.
Proof.
  intros D p. induction p as [f|q IH|q IH|id q IH|id q IH|q IH|q IH|qs IH] using prog_ind_n; simpl; try assumption; try reflexivity.
  rewrite forallb_forall. rewrite Forall_forall in IH. intros q Hq. apply IH; assumption.
Qed.

(* the property, for the code as it is, except for exhaustion of the Go stack *)
Lemma no_fatal_partial_code : forall D sc p, leaves_ok code_sites D p = true -> class code_sites D sc p <> CFatal.
Proof.
  intros D sc p Hl. unfold class.
  pose proof (guarded_no_fatal code_sites D sc p Hl (guarded_code_sites D p) Main) as H.
  destruct (run code_sites D sc Main p); congruence.
Qed.

(* the property for any placement of recovers: no panic source below an unprotected goroutine boundary *)
Lemma no_fatal_partial_sites : forall S D sc p,
  leaves_ok S D p = true -> guarded S D p = true -> class S D sc p <> CFatal.
Proof.
  intros S D sc p Hl Hg. unfold class.
  pose proof (guarded_no_fatal S D sc p Hl Hg Main) as H.
  destruct (run S D sc Main p); congruence.
Qed.

(* with all recovers in place the outcome depends neither on the schedule nor on the goroutine *)
Lemma run_code_sites_indep : forall D sc sc' p g g', run code_sites D sc g p = run code_sites D sc' g' p.
Proof.
  intros D sc sc' p. induction p as [f|q IH|q IH|id q IH|id q IH|q IH|q IH|qs IH] using prog_ind_n;
    simpl; intros g g'.
  - reflexivity.
  - apply IH.
  - rewrite (IH g g'). reflexivity.
  - rewrite (IH (if sc id then Worker else g) (if sc' id then Worker else g')). reflexivity.
  - rewrite (IH (if sc id then Collector else g) (if sc' id then Collector else g')).
    destruct (run code_sites D sc' (if sc' id then Collector else g') q); try reflexivity.
    destruct (sc id), (sc' id); reflexivity.
  - rewrite (IH Producer Producer). reflexivity.
  - rewrite (IH g g'). reflexivity.
  - rewrite Forall_forall in IH.
    erewrite map_ext_in; [reflexivity|].
    intros q Hq. cbv beta. rewrite (IH q Hq Consumer Consumer). reflexivity.
Qed.

Lemma class_schedule_independent : forall D sc sc' p, class code_sites D sc p = class code_sites D sc' p.
Proof. intros D sc sc' p. unfold class. rewrite (run_code_sites_indep D sc sc' p Main Main). reflexivity. Qed.

(* ---------- what remains: Go stack exhaustion ---------- *)

Lemma no_fatal_refuted_code : forall D sc, exists p, class code_sites D sc p = CFatal.
Proof.
  intros D sc. exists (PLeaf (FRecFresh 1 (D + 1))). unfold class. cbn [run].
  rewrite rec_fresh_exceeds_any_stack by lia. reflexivity.
Qed.

Definition all_par : sched := fun _ => true.

(* the code before the repairs: a panicking host function on a worker, on the collecting goroutine, in a
   merge operand, in a multiUse consumer; and try/catch letting a panic pass *)
Lemma no_fatal_refuted_old :
  class old_sites 0 all_par (PStage 0 (PCall (PLeaf FHostPanic))) = CFatal /\
  class old_sites 0 all_par (PDown 0 (PCall (PLeaf FHostPanic))) = CFatal /\
  class old_sites 0 all_par (PMergeOp (PCall (PLeaf FHostPanic))) = CFatal /\
  class old_sites 0 all_par (PMultiUse [PCall (PLeaf FHostPanic); PLeaf FValue]) = CFatal /\
  class old_sites 0 all_par (PTry (PLeaf FHostPanic)) = CErr.
Proof. repeat split; reflexivity. Qed.
