(* C05 - which runtime faults can terminate the host process.

   The model follows the code after the repairs "fix: a panic in a closure run by map, accept, merge
   or multiUse no longer terminates the process" and "fix: try/catch also catches a panic raised in
   the try expression"; the record [sites] says where the code has a recover, so that the behaviour
   of the code before the repairs ([old_sites]) stays expressible (it is what the ..._old_refuted
   witnesses are about, and what a mutation that deletes a recover turns the code back into).

   Goroutines.  The generated function (funcGen/generator.go generateIntern) has ONE deferred recover:
   it sees a panic only if the panic is raised on the goroutine that called the function [Main].
   Closures are also run
     - on the workers of iterator.MapAuto / FilterAuto once the stage switched to parallel mode
       (value/list.go Map, Accept): [Worker]; whether a stage switches is a timing decision, here one
       schedule bit per stage;
     - on the collecting goroutine of iterator.initParallel, which calls the consumer (yield) of a
       stage that switched: everything DOWNSTREAM of such a stage runs there: [Collector];
     - on the two goroutines of iterator.ToChan that iterate the operands of merge: [Producer];
     - on one goroutine per consumer of multiUse (value/multiUse.go runConsumer): [Consumer].
   A Go panic that reaches the outermost frame of a goroutine other than [Main] terminates the
   process; Go stack exhaustion terminates it on any goroutine and cannot be recovered. *)
From P2 Require Import Base.Prelude.
Local Open Scope N_scope.

Inductive gor := Main | Worker | Collector | Producer | Consumer.

(* what the evaluation of a piece of program amounts to on the goroutine that runs it *)
Inductive raw :=
| RVal            (* a value *)
| RCatch          (* the value of a catch expression *)
| RErr            (* a returned error *)
| RPanic          (* a Go panic travelling up the stack of the current goroutine *)
| RFatal.         (* the process is gone *)

(* what the caller of Func.Eval observes *)
Inductive oclass := CVal | CCatch | CErr | CFatal.

(* ---------- where the code recovers ---------- *)

Record sites := {
  s_worker : bool;      (* value/list.go Map, Accept: deferred recoverAsError around f.Eval in the mapper / acceptor *)
  s_collector : bool;   (* value/list.go Map, Accept: panicOnCaller around MapAuto / FilterAuto *)
  s_producer : bool;    (* value/list.go Merge: recoverInProducer around both operands *)
  s_consumer : bool;    (* value/multiUse.go runConsumer: deferred recover calling done(err) *)
  s_try : bool;         (* value/value.go GenerateCustom (TryCatch): deferred recoverAsError around the try part *)
  s_fresh : list str    (* the methods that run the closure they are given on a fresh storage (funcGen.NewEmptyStack), so
                           that the 10000-slot guard never sees more than one level of a recursion through them *)
}.

Definition m_list_map : str := [108;105;115;116;46;109;97;112].                         (* "list.map" *)
Definition m_list_accept : str := [108;105;115;116;46;97;99;99;101;112;116].            (* "list.accept" *)
Definition m_list_multiUse : str := [108;105;115;116;46;109;117;108;116;105;85;115;101]. (* "list.multiUse" *)

Fixpoint mem_str (x : str) (l : list str) : bool :=
  match l with [] => false | y :: r => str_eqb x y || mem_str x r end.

Definition code_sites : sites := {| s_worker := true; s_collector := true; s_producer := true; s_consumer := true; s_try := true;
     s_fresh := [] |}   (* since "fix: the recursion limit also covers recursion through map, accept and multiUse":
                           their private stacks continue the depth count (funcGen.NewEmptyStackBelow) *).
Definition old_sites : sites := {| s_worker := false; s_collector := false; s_producer := false; s_consumer := false; s_try := false;
     s_fresh := [m_list_map; m_list_accept; m_list_multiUse] |}.

(* ---------- the recursion guard (funcGen/generator.go stackStorage.set) ---------- *)

Definition guard_limit : N := 10000.

(* set(n, v) on a storage holding [len] values: the new length, or None for a panic
   (n = len > 10000: "stack overflow; maybe a recursive function does not terminate";
    n > len: index out of range) *)
Definition storage_set (len n : N) : option N :=
  if n =? len then (if guard_limit <? n then None else Some (len + 1))
  else if n <? len then Some len
  else None.

Fixpoint run_sets (len : N) (idxs : list N) : option N :=
  match idxs with
  | [] => Some len
  | n :: r => match storage_set len n with Some l => run_sets l r | None => None end
  end.

(* ---------- fault sources ---------- *)

Inductive fault :=
| FValue                      (* no fault: the expression has a value *)
| FOpErr                      (* operator fault: type error, x%0, shift by a negative count, incomparable operands *)
| FBuiltinErr                 (* error returned by a built-in function or method, index out of range, missing key, wrong argument count *)
| FHostErr                    (* host function returns an error *)
| FThrow                      (* throw(...) *)
| FBuiltinPanic               (* a built-in that panics *)
| FHostPanic                  (* a host function that panics *)
| FRecShared (top slots frames : N)
      (* runaway recursion through direct calls: every level pushes [slots] values on the caller's
         storage (the first at index [top]) and nests [frames] Go calls *)
| FRecFresh (frames depth : N)
      (* recursion of the given depth through a list method that runs the closure on a fresh storage
         (funcGen.NewEmptyStack in Map/Accept/multiUse): the guard never sees more than one level *)
| FRecThrough (m : str) (slots frames depth : N)
| FRecMixed (m : str) (between slots frames depth : N)
| FDeepData (n frame : N).
      (* no recursion in the program: an ordinary loop of many steps built a data structure (replace / stage
         chain, nested lists or maps) whose observer (get, size, string, =, iteration) recurses n levels in Go,
         [frame] Go calls each.  Chains the code flattens (Map.Replace at depth 10) have n <= 10. *)
      (* recursion of the given depth in which [between] directly recursive levels lie between two hops
         through method m: if m forgets the depth of its callers the guard only ever counts one segment *)
      (* recursion of the given depth whose recursive call sits in the closure handed to method m (as
         "list.cross", "map.map", "static.bisection"): whether the guard counts the levels depends on
         whether m runs the closure in a frame of the caller's storage or on a fresh one *)

(* D = number of nested Go calls the goroutine stack can hold (a parameter: the Go runtime's limit
   is 1 GB by default and can be changed with debug.SetMaxStack) *)
Definition rec_shared_raw (D top slots frames : N) : raw :=
  if slots =? 0 then RFatal                              (* nothing is pushed: the guard never fires *)
  else let levels := (guard_limit + 1 - top) / slots + 1 in   (* levels entered until a push hits the guard *)
       if D <? levels * frames then RFatal else RPanic.

Definition fault_raw (S : sites) (D : N) (f : fault) : raw :=
  match f with
  | FValue => RVal
  | FOpErr | FBuiltinErr | FHostErr | FThrow => RErr
  | FBuiltinPanic | FHostPanic => RPanic
  | FRecShared top slots frames => rec_shared_raw D top slots frames
  | FRecFresh frames depth => if D <? frames * depth then RFatal else RVal
  | FRecThrough m slots frames depth =>
      let unguarded := if D <? frames * depth then RFatal else RVal in
      if mem_str m (s_fresh S) then unguarded
      else if slots =? 0 then unguarded
      else if depth <=? (guard_limit + 1) / slots then unguarded      (* ends before the guard can fire *)
      else rec_shared_raw D 0 slots frames
  | FDeepData n frame => if D <? n * frame then RFatal else RVal
  | FRecMixed m between slots frames depth =>
      let unguarded := if D <? frames * depth then RFatal else RVal in
      if slots =? 0 then unguarded
      else if depth <=? (guard_limit + 1) / slots then unguarded
      else if mem_str m (s_fresh S) then
        (* every hop starts a storage at depth 0: the guard sees at most one segment of direct levels *)
        (if (between + 1) * slots <=? guard_limit then unguarded else rec_shared_raw D 0 slots frames)
      else rec_shared_raw D 0 slots frames
  end.

(* ---------- depth bookkeeping of funcGen.Stack ---------- *)

(* Stack{storage, offs, size, base}: [base] = slots the callers use on other storages *)
Record stk := { k_base : N; k_offs : N; k_size : N }.
Definition stk_depth (s : stk) : N := k_base s + k_offs s + k_size s.
Definition stk_empty : stk := {| k_base := 0; k_offs := 0; k_size := 0 |}.                       (* NewEmptyStack *)
Definition stk_below (p : stk) : stk := {| k_base := stk_depth p; k_offs := 0; k_size := 0 |}.   (* NewEmptyStackBelow *)
Definition stk_frame (s : stk) (n : N) : stk :=                                                 (* CreateFrame n *)
  {| k_base := k_base s; k_offs := k_offs s + k_size s - n; k_size := n |}.
(* Push on a storage holding [len] values: stackStorage.set(offs+size, v, base) *)
Definition stk_push (s : stk) (len : N) : option (stk * N) :=
  let n := k_offs s + k_size s in
  if n =? len then (if guard_limit <? k_base s + n then None else Some ({| k_base := k_base s; k_offs := k_offs s; k_size := k_size s + 1 |}, len + 1))
  else if n <? len then Some ({| k_base := k_base s; k_offs := k_offs s; k_size := k_size s + 1 |}, len)
  else None.

(* ---------- programs: a fault source inside a tree of contexts ---------- *)

Inductive prog :=
| PLeaf (f : fault)
| PCall (p : prog)                 (* body of a closure / func called directly: same goroutine, same storage *)
| PTry (p : prog)                  (* try p catch <value> *)
| PStage (id : nat) (p : prog)     (* l.map(x -> p) / l.accept(x -> p), iterated by some consumer; [id] names the stage in the schedule *)
| PDown (id : nat) (p : prog)      (* p is run by the consumer of stage [id] (a later stage's or a terminal's closure) *)
| PMergeOp (p : prog)              (* p is run while an operand of merge is iterated *)
| PMergeLess (p : prog)            (* the less function of merge: called by the consumer of the merged list *)
| PMultiUse (ps : list prog).      (* the consumer closures of multiUse *)

Definition sched := nat -> bool.   (* did stage [id] switch to parallel mode *)

(* a value computed inside a stage flows on as an ordinary value *)
Definition settle (r : raw) : raw := match r with RCatch => RVal | _ => r end.

Definition is_fatal (r : raw) : bool := match r with RFatal => true | _ => false end.
Definition is_err (r : raw) : bool := match r with RErr => true | _ => false end.
Definition is_panic (r : raw) : bool := match r with RPanic => true | _ => false end.

Section Run.
Variable S : sites.
Variable D : N.
Variable sc : sched.

(* [run g p]: p evaluated on goroutine g.  RPanic as a result means: a panic is travelling up the
   stack of g. *)
Fixpoint run (g : gor) (p : prog) {struct p} : raw :=
  match p with
  | PLeaf f => fault_raw S D f
  | PCall q => run g q
  | PTry q =>
      match run g q with
      | RErr => RCatch
      | RPanic => if s_try S then RCatch else RPanic
      | r => r
      end
  | PStage id q =>
      match run (if sc id then Worker else g) q with
      | RPanic =>
          if s_worker S then RErr           (* the error of that element *)
          else if sc id then RFatal         (* outermost frame of a worker goroutine *)
          else RPanic                       (* sequential mode: still on g *)
      | r => settle r
      end
  | PDown id q =>
      match run (if sc id then Collector else g) q with
      | RPanic =>
          if sc id then (if s_collector S then RPanic   (* raised again on g by panicOnCaller *)
                         else RFatal)
          else RPanic
      | r => settle r
      end
  | PMergeOp q =>
      match run Producer q with
      | RPanic => if s_producer S then RErr else RFatal
      | r => settle r
      end
  | PMergeLess q => settle (run g q)
  | PMultiUse qs =>
      let rs := map (fun q => match run Consumer q with
                              | RPanic => if s_consumer S then RErr else RFatal
                              | r => settle r
                              end) qs in
      if existsb is_fatal rs then RFatal
      else if existsb is_err rs then RErr
      else RVal
  end.

(* the caller of the generated function: its deferred recover turns a panic on Main into an error *)
Definition class (p : prog) : oclass :=
  match run Main p with
  | RVal => CVal
  | RCatch => CCatch
  | RErr => CErr
  | RPanic => CErr
  | RFatal => CFatal
  end.

End Run.

(* ---------- demand: a fault at item i of a lazy list whose consumer demands the first d items ---------- *)

(* Sequential lazy semantics of the list stages: an item is computed only when a consumer asks for it; a
   fault raised while item i is computed is the error of element i and travels down the chain WITH the
   element - a stage that discards the element's value (skip, a rejecting accept, compact) must still pass
   the error on.  So the fault is visible iff i lies in the demanded prefix:
     skip(n), accept, compact, size, sum, [j] (AccessList evaluates the whole list): d = all;
     top(n): d = n;  first(): d = 1;  indexWhere / present stopping at index j: d = j + 1. *)
Definition demand (d i : N) (q : prog) : prog :=
  if i <? d then PStage 1 q else PLeaf FValue.

(* ---------- side conditions of the partial theorems ---------- *)

(* no leaf exhausts the Go stack *)
Fixpoint leaves_ok (S : sites) (D : N) (p : prog) {struct p} : bool :=
  match p with
  | PLeaf f => negb (is_fatal (fault_raw S D f))
  | PCall q | PTry q | PStage _ q | PDown _ q | PMergeOp q | PMergeLess q => leaves_ok S D q
  | PMultiUse qs => forallb (leaves_ok S D) qs
  end.

(* no leaf is a Go panic *)
Fixpoint panic_free (S : sites) (D : N) (p : prog) {struct p} : bool :=
  match p with
  | PLeaf f => negb (is_panic (fault_raw S D f))
  | PCall q | PTry q | PStage _ q | PDown _ q | PMergeOp q | PMergeLess q => panic_free S D q
  | PMultiUse qs => forallb (panic_free S D) qs
  end.

(* every goroutine boundary without a recover has no panic source below it
   ("no panic source in a Worker/Collector/Producer/Consumer context") *)
Fixpoint guarded (S : sites) (D : N) (p : prog) {struct p} : bool :=
  match p with
  | PLeaf _ => true
  | PCall q | PTry q | PMergeLess q => guarded S D q
  | PStage _ q => (s_worker S || panic_free S D q) && guarded S D q
  | PDown _ q => (s_collector S || panic_free S D q) && guarded S D q
  | PMergeOp q => (s_producer S || panic_free S D q) && guarded S D q
  | PMultiUse qs => forallb (fun q => (s_consumer S || panic_free S D q) && guarded S D q) qs
  end.
