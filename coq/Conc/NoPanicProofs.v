(* The operators and the modelled library of value.New() (Sem/Ops.v, Sem/Lib.v) never answer Panic:
   every fault they detect is a returned error.  (The model follows the code after
   "fix: operator faults are returned as errors instead of panicking".) *)
From P2 Require Import Base.Prelude Sem.Num Sem.Syntax Sem.Ops Sem.Lib Sem.StrLibProofs.
Require Import Lia.
Local Open Scope Z_scope.

(* induction over values: elements of lists and maps *)
Section ValInd.
Variable P : value -> Prop.
Hypothesis Hint : forall z, P (VInt z).
Hypothesis Hfloat : forall f, P (VFloat f).
Hypothesis Hstr : forall s, P (VStr s).
Hypothesis Hbool : forall b, P (VBool b).
Hypothesis Hlist : forall l, Forall P l -> P (VList l).
Hypothesis Hmap : forall m, Forall (fun kv => P (snd kv)) m -> P (VMap m).
Hypothesis Hclo : forall ps b c s, P (VClo ps b c s).
Hypothesis Herr : forall t, P (VErrText t).

Fixpoint value_ind_n (v : value) : P v :=
  match v with
  | VInt z => Hint z
  | VFloat f => Hfloat f
  | VStr s => Hstr s
  | VBool b => Hbool b
  | VList l => Hlist l ((fix go (l : list value) : Forall P l :=
                           match l with
                           | [] => Forall_nil P
                           | x :: r => Forall_cons x (value_ind_n x) (go r)
                           end) l)
  | VMap m => Hmap m ((fix go (m : list (str * value)) : Forall (fun kv => P (snd kv)) m :=
                         match m with
                         | [] => Forall_nil _
                         | kv :: r => Forall_cons kv (value_ind_n (snd kv)) (go r)
                         end) m)
  | VClo ps b c s => Hclo ps b c s
  | VErrText t => Herr t
  end.
End ValInd.

Ltac np_step :=
  match goal with
  | |- ?x <> _ => first [discriminate | assumption]
  | |- context [match ?x with _ => _ end] => destruct x eqn:?; try discriminate
  end.
Ltac np := repeat np_step.

Lemma eq_scalar_np : forall a b, eq_scalar a b <> Panic.
Proof. intros a b. unfold eq_scalar. destruct a, b; try discriminate; np. Qed.

Fixpoint veq_list_go (la lb : list value) : res bool :=
  match la, lb with
  | x :: la', y :: lb' => match veq x y with Ok true => veq_list_go la' lb' | r => r end
  | _, _ => Ok true
  end.

Definition veq_map_go (mb : list (str * value)) : list (str * value) -> res bool :=
  fix go (ma : list (str * value)) : res bool :=
  match ma with
  | (k, v) :: ma' =>
      worse (match assoc_v k mb with
             | Some o => veq v o
             | None => Ok false
             end) (go ma')
  | [] => Ok true
  end.

Lemma worse_np : forall r1 r2, r1 <> Panic -> r2 <> Panic -> worse r1 r2 <> Panic.
Proof. intros [[|]| | | |] [[|]| | | |]; cbn; congruence. Qed.

Lemma veq_list_unfold : forall la lb,
  veq (VList la) (VList lb) = if negb (Nat.eqb (length la) (length lb)) then Ok false else veq_list_go la lb.
Proof. intros. reflexivity. Qed.

Lemma veq_map_unfold : forall ma mb,
  veq (VMap ma) (VMap mb) = if negb (Nat.eqb (length ma) (length mb)) then Ok false else veq_map_go mb ma.
Proof. intros. reflexivity. Qed.

Lemma veq_np : forall a b, veq a b <> Panic.
Proof.
  intros a. induction a as [z|f|s|b0|l IH|m IH|ps bd c s|t] using value_ind_n; intros b;
    try (destruct b; apply eq_scalar_np).
  - destruct b as [| | | |lb| | |]; try apply (eq_scalar_np (VList l)).
    rewrite veq_list_unfold. destruct (negb _); [discriminate|].
    revert lb. induction IH as [|x r Hx Hr IHr]; intros lb; simpl; [discriminate|].
    destruct lb as [|y lb']; [discriminate|].
    specialize (Hx y). destruct (veq x y) as [[|]| | | |]; try discriminate; try congruence; try apply IHr.
  - destruct b as [| | | | |mb| |]; try apply (eq_scalar_np (VMap m)).
    rewrite veq_map_unfold. destruct (negb _); [discriminate|].
    induction IH as [|[k v] r Hx Hr IHr]; simpl; [discriminate|].
    fold (veq_map_go mb). apply worse_np; [|exact IHr].
    destruct (assoc_v k mb) as [o|]; [|discriminate].
    simpl in Hx. exact (Hx o).
Qed.

Lemma equal_fg_np : forall a b, equal_fg a b <> Panic.
Proof. exact veq_np. Qed.

Lemma vless_np : forall a b, vless a b <> Panic.
Proof. intros a b. unfold vless. destruct a, b; try discriminate; np. Qed.

Lemma rbool_np : forall r, r <> Panic -> rbool r <> Panic.
Proof. intros r H. destruct r; simpl; congruence. Qed.

Lemma to_string_np : forall v, to_string v <> Panic.
Proof. intros v. unfold to_string. np. Qed.

Lemma contains_item_np : forall l x, contains_item x l <> Panic.
Proof.
  induction l as [|y r IH]; intros x; simpl; [discriminate|].
  pose proof (veq_np x y) as H. unfold equal_fg. destruct (veq x y) as [[|]| | | |]; try discriminate; try congruence; try apply IH.
Qed.

Lemma remove_first_equal_np : forall look v, remove_first_equal look v <> Panic.
Proof.
  induction look as [|lf r IH]; intros v; simpl; [discriminate|].
  pose proof (veq_np lf v) as H. unfold equal_fg. destruct (veq lf v) as [[|]| | | |]; try discriminate; try congruence.
  specialize (IH v). destruct (remove_first_equal r v); try discriminate; congruence.
Qed.

Lemma contains_all_np : forall l look, contains_all l look <> Panic.
Proof.
  induction l as [|v r IH]; intros look; simpl; [discriminate|].
  pose proof (remove_first_equal_np look v) as H.
  destruct (remove_first_equal look v) as [[|x look']| | | |]; try discriminate; try congruence; try apply IH.
Qed.

Lemma arith_np : forall fi ff a b, (forall x y, fi x y <> Panic) -> arith fi ff a b <> Panic.
Proof.
  intros fi ff a b H. unfold arith, ofl, num_f.
  destruct a, b; try discriminate; try apply H; np.
Qed.

Lemma map_merge_np : forall a b, map_merge a b <> Panic.
Proof. intros a b. unfold map_merge. np. Qed.

Lemma int_ops_np : forall a b, int_pow a b <> Panic /\ int_shl a b <> Panic /\ int_shr a b <> Panic /\ int_mod a b <> Panic.
Proof. intros a b. unfold int_pow, int_shl, int_shr, int_mod. repeat split; np. Qed.

Lemma calc_np : forall op a b, calc op a b <> Panic.
Proof.
  intros op a b. unfold calc.
  destruct (str_eqb op op_or). { np. }
  destruct (str_eqb op op_and). { np. }
  destruct (str_eqb op op_eq). { apply rbool_np, veq_np. }
  destruct (str_eqb op op_ne). { pose proof (veq_np a b). destruct (veq a b); try discriminate; congruence. }
  destruct (str_eqb op op_in).
  { destruct b; destruct a; try discriminate;
      first [apply rbool_np; unfold contains_all_repr; destruct (_ && _); [discriminate|apply contains_all_np] | apply rbool_np, contains_item_np | np]. }
  destruct (str_eqb op op_lt). { apply rbool_np, vless_np. }
  destruct (str_eqb op op_gt). { apply rbool_np, vless_np. }
  destruct (str_eqb op op_le).
  { pose proof (vless_np a b). destruct (vless a b) as [[|]| | | |]; try discriminate; try congruence. apply rbool_np, veq_np. }
  destruct (str_eqb op op_ge).
  { pose proof (vless_np b a). destruct (vless b a) as [[|]| | | |]; try discriminate; try congruence. apply rbool_np, veq_np. }
  destruct (str_eqb op op_add).
  { destruct a; try (destruct b; first [discriminate | apply map_merge_np | apply arith_np; discriminate]).
    pose proof (to_string_np b). destruct (to_string b); try discriminate; congruence. }
  destruct (str_eqb op op_sub). { apply arith_np; discriminate. }
  destruct (str_eqb op op_shl). { destruct a, b; try discriminate. apply int_ops_np. }
  destruct (str_eqb op op_shr). { destruct a, b; try discriminate. apply int_ops_np. }
  destruct (str_eqb op op_mul). { apply arith_np; discriminate. }
  destruct (str_eqb op op_mod). { destruct a, b; try discriminate. apply int_ops_np. }
  destruct (str_eqb op op_div). { apply arith_np. intros x y. unfold ofl. np. }
  destruct (str_eqb op op_pow). { destruct a, b; try discriminate; try apply int_ops_np; unfold num_f; np. }
  discriminate.
Qed.

Lemma ucalc_np : forall op a, ucalc op a <> Panic.
Proof. intros op a. unfold ucalc. np. Qed.

Lemma access_list_np : forall l i, access_list l i <> Panic.
Proof. intros l i. unfold access_list. np. Qed.

Lemma access_map_np : forall m k, access_map m k <> Panic.
Proof. intros m k. unfold access_map. np. Qed.

Lemma bind_np : forall (A B : Type) (r : res A) (k : A -> res B),
  r <> Panic -> (forall a, k a <> Panic) -> bind r k <> Panic.
Proof. intros A B r k Hr Hk. destruct r; simpl; try discriminate; try congruence; try apply Hk. Qed.

(* ---------- the library pool ---------- *)

Lemma pick_min_np : forall l m, pick_min m l <> Panic.
Proof.
  induction l as [|v r IH]; intros m; simpl; [discriminate|].
  pose proof (vless_np v m). destruct (vless v m) as [[|]| | | |]; try discriminate; try congruence; try apply IH.
Qed.

Lemma pick_max_np : forall l m, pick_max m l <> Panic.
Proof.
  induction l as [|v r IH]; intros m; simpl; [discriminate|].
  pose proof (vless_np m v). destruct (vless m v) as [[|]| | | |]; try discriminate; try congruence; try apply IH.
Qed.

Lemma fold_calc_np : forall op l acc, fold_calc op acc l <> Panic.
Proof.
  induction l as [|x r IH]; intros acc; simpl; [discriminate|].
  apply bind_np; [apply calc_np|intros; apply IH].
Qed.

Lemma all_avail_np : forall m keys, all_avail m keys <> Panic.
Proof.
  induction keys as [|k r IH]; simpl; [discriminate|].
  destruct k; try discriminate. destruct (assoc_v s m); [apply IH|discriminate].
Qed.

Lemma run_static_np : forall f args, run_static f args <> Panic.
Proof.
  intros f args. unfold run_static.
  repeat match goal with
  | |- (if ?c then _ else _) <> _ => destruct c
  end;
  try (destruct args as [|m r]; [discriminate|first [apply pick_min_np | apply pick_max_np]]);
  try (destruct args as [|v [|? ?]]; try discriminate; apply bind_np; [apply to_string_np|discriminate]);
  unfold ofl; np.
Qed.

Section WithApp.
Variable app : value -> list value -> res value.
Hypothesis app_np : forall c args, app c args <> Panic.

Lemma map_app_np : forall f l, map_app app f l <> Panic.
Proof.
  induction l as [|x r IH]; simpl; [discriminate|].
  apply bind_np; [apply app_np|]. intros y. apply bind_np; [apply IH|discriminate].
Qed.

Lemma accept_app_np : forall f l, accept_app app f l <> Panic.
Proof.
  induction l as [|x r IH]; simpl; [discriminate|].
  apply bind_np; [apply app_np|]. intros b. destruct b; try discriminate.
  apply bind_np; [apply IH|discriminate].
Qed.

Lemma fold_app_np : forall f l acc, fold_app app f acc l <> Panic.
Proof.
  induction l as [|x r IH]; intros acc; simpl; [discriminate|].
  apply bind_np; [apply app_np|intros; apply IH].
Qed.

Lemma index_where_np : forall f l i, index_where app f l i <> Panic.
Proof.
  induction l as [|x r IH]; intros i; simpl; [discriminate|].
  apply bind_np; [apply app_np|]. intros b. destruct b as [| | |[|]| | | |]; try discriminate. apply IH.
Qed.

Lemma mapargs_app_np : forall f a, mapargs_app app f a <> Panic.
Proof.
  induction a as [|x r IH]; simpl; [discriminate|].
  apply bind_np; [apply app_np|]. intros y. apply bind_np; [apply IH|discriminate].
Qed.

Lemma compact_app_np : forall f l last, compact_app app f last l <> Panic.
Proof.
  induction l as [|x r IH]; intros last; simpl; [discriminate|].
  apply bind_np; [apply app_np|]. intros b. destruct b as [| | |[|]| | | |]; try discriminate; [apply IH|].
  apply bind_np; [apply IH|discriminate].
Qed.

Lemma scan_app_np : forall three f l li la, scan_app app three f li la l <> Panic.
Proof.
  induction l as [|x r IH]; intros li la; simpl; [discriminate|].
  apply bind_np; [apply app_np|]. intros o. apply bind_np; [apply IH|discriminate].
Qed.

Lemma iir_app_np : forall three ini f l, iir_app app three ini f l <> Panic.
Proof.
  intros three ini f l. destruct l as [|x r]; simpl; [discriminate|].
  apply bind_np; [apply app_np|]. intros o. apply bind_np; [apply scan_app_np|discriminate].
Qed.

Lemma merge_app_np : forall f l1 l2, merge_app app f l1 l2 <> Panic.
Proof.
  induction l1 as [|a l1 IH1]; intros l2.
  - destruct l2; simpl; discriminate.
  - induction l2 as [|b l2 IH2]; cbn [merge_app]; [discriminate|].
    apply bind_np; [apply app_np|]. intros v. destruct v as [| | |[|]| | | |]; try discriminate.
    + apply bind_np; [apply IH1|discriminate].
    + apply bind_np; [exact IH2|discriminate].
Qed.

Lemma minmax_app_np : forall f l mn mx mni mxi, minmax_app app f mn mx mni mxi l <> Panic.
Proof.
  induction l as [|x r IH]; intros mn mx mni mxi; cbn [minmax_app]; [discriminate|].
  apply bind_np; [apply app_np|]. intros k. apply bind_np; [apply vless_np|]. intros le.
  apply bind_np; [apply vless_np|]. intros gr. apply IH.
Qed.

Ltac lm :=
  repeat first
    [ discriminate
    | apply app_np | apply fold_app_np | apply fold_calc_np | apply pick_min_np | apply pick_max_np
    | apply calc_np | apply minmax_app_np
    | apply bind_np;
        [ first [ apply map_app_np | apply accept_app_np | apply index_where_np | apply mapargs_app_np
                | apply compact_app_np | apply iir_app_np | apply merge_app_np | apply fold_calc_np
                | apply app_np ]
        | intros ]
    | match goal with |- context [match ?x with _ => _ end] => destruct x end ].

Lemma run_list_method_np : forall m l args, run_list_method app m l args <> Panic.
Proof.
  intros m l args. unfold run_list_method.
  repeat match goal with
  | |- (if str_eqb m ?n then _ else _) <> _ => destruct (str_eqb m n)
  end; lm.
Qed.

Lemma run_map_method_np : forall mn m args, run_map_method mn m args <> Panic.
Proof.
  intros mn m args. unfold run_map_method.
  repeat match goal with
  | |- (if ?c then _ else _) <> _ => destruct c
  end; try apply all_avail_np; np.
Qed.

Lemma run_method_np : forall recv m args, run_method app recv m args <> Panic.
Proof.
  intros recv m args. unfold run_method. destruct recv;
    try apply run_list_method_np; try apply run_map_method_np;
    repeat match goal with
    | |- run_str_method _ _ _ <> _ => apply run_str_method_np
    | |- (if ?c then _ else _) <> _ => destruct c
    end; try discriminate; apply bind_np; try discriminate; apply to_string_np.
Qed.

End WithApp.
