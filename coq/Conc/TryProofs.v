(* try/catch in the reference semantics (Sem/Ref.v) intercepts every returned error. *)
From P2 Require Import Base.Prelude Sem.Num Sem.Syntax Sem.Ops Sem.Lib Sem.Ref.

(* ---------- try/catch in the reference semantics intercepts every returned error ---------- *)

Lemma eval_try_catches : forall known f env t c thrown v,
  eval known f env t = Err thrown -> eval known f env c = Ok v ->
  (forall p b cp s, v <> VClo [p] b cp s) ->
  eval known (S f) env (ATry t c) = Ok v.
Proof.
  intros known f env t c thrown v Ht Hc Hv. cbn [eval]. rewrite Ht, Hc. cbn [bind].
  destruct v as [| | | | | |ps b cp s|]; try reflexivity.
  destruct ps as [|p [|q r]]; try reflexivity. exfalso. exact (Hv p b cp s eq_refl).
Qed.

Lemma eval_try_keeps_values : forall known f env t c v,
  eval known f env t = Ok v -> eval known (S f) env (ATry t c) = Ok v.
Proof. intros known f env t c v Ht. cbn [eval]. rewrite Ht. reflexivity. Qed.
