(* Agents (goroutines running stage callbacks) performing  Push...; CreateFrame; call  sequences
   on stack storages, after funcGen/generator.go (stackStorage.set, Stack.Push, Stack.CreateFrame,
   Stack.Get).  A Stack VALUE is (storage pointer, offs, size): every agent has its own offs/size
   copy, the storage may be the same object (value/list.go hands `st` to `l.iterable(st)` and uses
   it in the callbacks) or a private one (funcGen.NewEmptyStack).

   A schedule is a list of agent numbers: the agent named makes its next micro step.
   A data race is represented as two agents writing the same slot of one storage without an
   ordering step between them; what is observable - a callee reading arguments its caller did not
   push - is the `seen` log.  Definitions only; proofs are in ConcProofs.v. *)
From P2 Require Import Base.Prelude.
Set Implicit Arguments.

Section SharedStack.
Context {V : Type}.
Variable limit : nat.     (* 10000 in stackStorage.set *)

Definition storage := list V.

(* stackStorage.set: append at the end (panics above the limit), overwrite inside, index panic beyond *)
Definition sset (n : nat) (v : V) (d : storage) : option storage :=
  if Nat.eqb n (length d)
  then (if Nat.ltb limit n then None else Some (d ++ [v]))
  else if Nat.ltb n (length d) then Some (firstn n d ++ v :: skipn (S n) d)
  else None.

Inductive op : Type :=
| OPush (v : V)      (* st.Push(v) *)
| OCall (k : nat).   (* f.Func(st.CreateFrame(k), nil): the callee reads Get(0..k-1) *)

Record agent : Type := mkAgent {
  sid : nat;                 (* which storage object its Stack value points to *)
  offs : nat;
  size : nat;
  todo : list op;
  seen : list (list V);      (* the arguments every callee found, oldest first *)
  panicked : bool
}.

Record sys : Type := mkSys { stores : nat -> storage; agents : nat -> agent }.

Definition upd {X} (m : nat -> X) (i : nat) (x : X) : nat -> X := fun j => if Nat.eqb j i then x else m j.

Definition agent_step (a : agent) (d : storage) : agent * storage :=
  if panicked a then (a, d) else
  match todo a with
  | [] => (a, d)
  | OPush v :: r =>
      match sset (offs a + size a) v d with
      | Some d' => (mkAgent (sid a) (offs a) (S (size a)) r (seen a) false, d')
      | None => (mkAgent (sid a) (offs a) (size a) r (seen a) true, d)
      end
  | OCall k :: r =>
      if Nat.leb k (size a)
      then let sz := size a - k in
           (mkAgent (sid a) (offs a) sz r (seen a ++ [firstn k (skipn (offs a + sz) d)]) false, d)
      else (mkAgent (sid a) (offs a) (size a) r (seen a) true, d)     (* negative size: index panic *)
  end.

Definition step (s : sys) (i : nat) : sys :=
  let a := agents s i in
  let (a', d') := agent_step a (stores s (sid a)) in
  mkSys (upd (stores s) (sid a) d') (upd (agents s) i a').

Definition run (s : sys) (sched : list nat) : sys := fold_left step sched s.

(* ---- specification side: what every callee must see = the last k values its own caller pushed *)
Fixpoint expect (st : list V) (p : list op) : list (list V) :=
  match p with
  | [] => []
  | OPush v :: r => expect (st ++ [v]) r
  | OCall k :: r => skipn (length st - k) st :: expect (firstn (length st - k) st) r
  end.

(* the agent's logical stack as stored: the window [offs, offs+size) of its storage *)
Definition window (a : agent) (d : storage) : list V := firstn (size a) (skipn (offs a) d).

(* everything the callees of agent i have seen and will see, computed on the current state *)
Definition story (s : sys) (i : nat) : list (list V) :=
  let a := agents s i in seen a ++ expect (window a (stores s (sid a))) (todo a).

(* calls never take more than was pushed *)
Fixpoint wf_prog (n : nat) (p : list op) : Prop :=
  match p with
  | [] => True
  | OPush _ :: r => wf_prog (S n) r
  | OCall k :: r => k <= n /\ wf_prog (n - k) r
  end.

Fixpoint npush (p : list op) : nat :=
  match p with [] => 0 | OPush _ :: r => S (npush r) | OCall _ :: r => npush r end.

Definition wf_agent (a : agent) (d : storage) : Prop :=
  panicked a = false /\ offs a + size a <= length d /\ length d + npush (todo a) <= S limit /\ wf_prog (size a) (todo a).

Definition wf_sys (s : sys) : Prop := forall i, wf_agent (agents s i) (stores s (sid (agents s i))).

(* pairwise different storages *)
Definition private (s : sys) : Prop := forall i j, i <> j -> sid (agents s i) <> sid (agents s j).

End SharedStack.
