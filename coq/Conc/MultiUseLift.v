(* The terminal multiUse of Conc/Pipeline.v ({a: l->l.reduce(f), b: l->l.number(g).sum()}) through the CopyProducer
   protocol with failing consumers (Conc/CopyProdStop.v) against its sequential denotation term_seq TMultiUse. *)
From P2 Require Import Base.Prelude Conc.ParMap Conc.Pipeline Conc.CopyProdStop Conc.CopyProdStopProofs Conc.MapAutoProofs Conc.CopyProdProofs.
From Coq Require Import Lia.
Local Open Scope nat_scope.

Section DriveProofs.
Context {V : Type}.
Variable ncons : nat.
Variable beh : nat -> list (res V) -> cact.
Notation qstate := (@qstate V).
Notation qcons := (@qcons V).

Lemma first_open_some : forall (cs : list qcons) i ch, first_open cs i = Some ch ->
  (exists j log, nth_error cs j = Some (mkQ log QRecv) /\ ch = QEof (i + j)) \/
  (exists j log, nth_error cs j = Some (mkQ log QBusy) /\ ch = QReady (i + j)).
Proof.
  induction cs as [|[log ph] cs IH]; intros i ch H; cbn [first_open qph] in H; [discriminate|].
  destruct ph.
  - injection H as <-. left. exists 0, log. rewrite Nat.add_0_r. split; reflexivity.
  - injection H as <-. right. exists 0, log. rewrite Nat.add_0_r. split; reflexivity.
  - destruct (IH _ _ H) as [(j & l' & Hj & ->)|(j & l' & Hj & ->)]; [left|right]; exists (S j), l'; rewrite Nat.add_succ_r; split; auto.
  - destruct (IH _ _ H) as [(j & l' & Hj & ->)|(j & l' & Hj & ->)]; [left|right]; exists (S j), l'; rewrite Nat.add_succ_r; split; auto.
  - destruct (IH _ _ H) as [(j & l' & Hj & ->)|(j & l' & Hj & ->)]; [left|right]; exists (S j), l'; rewrite Nat.add_succ_r; split; auto.
Qed.

Lemma first_open_none : forall (cs : list qcons) i, first_open cs i = None -> forallb (@qfinal V) cs = true.
Proof.
  induction cs as [|[log ph] cs IH]; intros i H; cbn [first_open qph] in H; [reflexivity|].
  cbn [forallb]. unfold qfinal at 1. cbn [qph]. destruct ph; try discriminate; cbn [andb]; apply (IH _ H).
Qed.

Lemma qpick_enabled : forall (source : list (res V)) (m : qstate), qinv ncons beh source m -> qcomplete m = false ->
  qenabled m (qpick m) = true.
Proof.
  intros source m (Hlen & _ & Hcur & Hcons & _ & _) Hc. unfold qpick. destruct (qpp m) as [|x i|] eqn:Hp.
  - cbn [qenabled]. rewrite Hp. reflexivity.
  - pose proof (Hcur x i eq_refl) as Hi.
    destruct (nth_error (qcs m) i) as [[log ph]|] eqn:Hn; [|apply nth_error_None in Hn; lia].
    destruct ph; cbn [qenabled]; rewrite ?Hp, Hn; try reflexivity.
    specialize (Hcons i _ Hn). unfold cons_ok in Hcons. cbn [qph] in Hcons. destruct Hcons as (Hq & _). congruence.
  - destruct (first_open (qcs m) 0) as [ch|] eqn:Hf.
    + destruct (first_open_some _ _ _ Hf) as [(j & log & Hj & ->)|(j & log & Hj & ->)]; cbn [plus qenabled]; rewrite ?Hp, Hj; reflexivity.
    + unfold qcomplete in Hc. rewrite Hp, (first_open_none _ _ Hf) in Hc. discriminate.
Qed.

Lemma qdrive_complete : forall (source : list (res V)) n (m : qstate), qmeasure ncons m <= n -> qinv ncons beh source m ->
  qcomplete (qdrive ncons beh n m) = true.
Proof.
  intros source. induction n as [|n IH]; intros m Hm Hi; cbn [qdrive].
  - destruct (qcomplete m) eqn:Hc; [reflexivity|].
    pose proof (qstep_enabled ncons beh m _ (proj1 (proj2 (proj2 Hi))) (qpick_enabled source m Hi Hc)). lia.
  - destruct (qcomplete m) eqn:Hc; [exact Hc|].
    pose proof (qstep_enabled ncons beh m _ (proj1 (proj2 (proj2 Hi))) (qpick_enabled source m Hi Hc)).
    apply IH; [lia|apply qinv_step; exact Hi].
Qed.

Lemma qdrive_sched : forall n (m : qstate), exists sched, qdrive ncons beh n m = qrun ncons beh m sched.
Proof.
  induction n as [|n IH]; intro m; cbn [qdrive]; [exists []; reflexivity|].
  destruct (qcomplete m); [exists []; reflexivity|]. destruct (IH (qstep ncons beh m (qpick m))) as (sched & H).
  exists (qpick m :: sched). exact H.
Qed.

(* the protocol as a function of a schedule: complete, and reachable from the initial state by some schedule *)
Lemma qfun_reachable : forall (source : list (res V)) sched,
  let m1 := qrun ncons beh (qinit ncons source) sched in
  exists sched', qdrive ncons beh (qmeasure ncons m1) m1 = qrun ncons beh (qinit ncons source) (sched ++ sched')
                 /\ qcomplete (qrun ncons beh (qinit ncons source) (sched ++ sched')) = true.
Proof.
  intros source sched m1. destruct (qdrive_sched (qmeasure ncons m1) m1) as (sched' & Hs). exists sched'.
  pose proof (qdrive_complete source _ m1 (le_n _) (qinv_run ncons beh source sched _ (qinv_init ncons beh source))) as Hc.
  rewrite Hs in Hc. unfold m1 in *. unfold CopyProdStop.qrun in *. rewrite fold_left_app. split; [exact Hs|exact Hc].
Qed.
End DriveProofs.

(* ---- consumers that go on while a prefix-closed test succeeds and fail otherwise ----------------------------- *)
Section OkBeh.
Variable ok : nat -> list Z -> bool.
Hypothesis ok_closed : forall j a b, ok j a = false -> ok j (a ++ b) = false.
Definition okbeh (j : nat) (log : list (res Z)) : cact := if ok j (ok_prefix log) then AContinue else AFail.

Lemma ok_prefix_oks : forall a : list Z, ok_prefix (map (@ROk Z) a) = a.
Proof. induction a as [|x a IH]; [reflexivity|]. cbn [map ok_prefix]. rewrite IH. reflexivity. Qed.

Lemma view_ok : forall j r lg, ok j lg = true ->
  (ok j (lg ++ r) = true -> view okbeh j (map (@ROk Z) lg) (map (@ROk Z) r) = (map (@ROk Z) (lg ++ r), VEnded)) /\
  (ok j (lg ++ r) = false -> snd (view okbeh j (map (@ROk Z) lg) (map (@ROk Z) r)) = VFailed).
Proof.
  intros j r. induction r as [|y r IH]; intros lg Hlg.
  - rewrite app_nil_r. cbn [map CopyProdStop.view]. split; [reflexivity|congruence].
  - cbn [map CopyProdStop.view]. unfold okbeh at 1 3.
    replace (map (@ROk Z) lg ++ [ROk y]) with (map (@ROk Z) (lg ++ [y])) by (rewrite map_app; reflexivity).
    rewrite ok_prefix_oks. replace (lg ++ y :: r) with ((lg ++ [y]) ++ r) by (rewrite <- app_assoc; reflexivity).
    destruct (ok j (lg ++ [y])) eqn:E.
    + apply IH. exact E.
    + split; [intro H; rewrite (ok_closed _ _ r E) in H; discriminate|reflexivity].
Qed.
End OkBeh.

(* ---- the two consumers of the generated multiUse terminal ---------------------------------------------------- *)
Lemma foldM_app_none : forall (g : Z -> Z -> option Z) a b s, foldM g s a = None -> foldM g s (a ++ b) = None.
Proof.
  intros g a. induction a as [|x a IH]; intros b s H; [discriminate|]. cbn [app foldM] in *.
  destruct (g s x); cbn [bind] in *; [apply IH; exact H|reflexivity].
Qed.

Lemma number_from_app_none : forall (g : Z -> Z -> option Z) a b i, number_from g i a = None -> number_from g i (a ++ b) = None.
Proof.
  intros g a. induction a as [|x a IH]; intros b i H; [discriminate|]. cbn [app number_from] in *.
  destruct (g i x); cbn [bind] in *; [|reflexivity].
  destruct (number_from g (i + 1)%Z a) eqn:E; [discriminate|]. rewrite (IH b _ E). reflexivity.
Qed.

Lemma mu_ok_closed : forall p j a b, mu_ok p j a = false -> mu_ok p j (a ++ b) = false.
Proof.
  intros p j a b H. destruct j; cbn [mu_ok] in *.
  - destruct a as [|x a]; [discriminate|]. cbn [app]. destruct (foldM (mu_g1 p) x a) eqn:E; [discriminate|].
    rewrite (foldM_app_none _ _ b _ E). reflexivity.
  - destruct (number_from (mu_g2 p) 0 a) eqn:E; [discriminate|]. rewrite (number_from_app_none _ _ b _ E). reflexivity.
Qed.

Lemma mu_ok_nil : forall p j, mu_ok p j [] = true.
Proof. intros p [|j]; reflexivity. Qed.

Lemma par_multiuse_with_seq : forall sched p l, par_multiuse_with sched p l = term_seq TMultiUse p l.
Proof.
  intros sched p l. unfold par_multiuse_with. destruct l as [|x0 r0]; [reflexivity|]. set (l := x0 :: r0).
  set (source := map (@ROk Z) l).
  destruct (qfun_reachable 2 (mu_beh p) source sched) as (sched' & -> & Hc).
  set (m := qrun 2 (mu_beh p) (qinit 2 source) (sched ++ sched')) in *.
  pose proof (qinv_run 2 (mu_beh p) source (sched ++ sched') _ (qinv_init 2 (mu_beh p) source)) as (Hlen & _). fold m in Hlen.
  assert (Hview : forall j, (mu_ok p j l = true -> view (mu_beh p) j [] source = (source, VEnded)) /\
                            (mu_ok p j l = false -> snd (view (mu_beh p) j [] source) = VFailed)).
  { intro j. exact (view_ok (mu_ok p) (mu_ok_closed p) j l [] (mu_ok_nil p j)). }
  assert (Hseq : term_seq TMultiUse p l = if mu_ok p 0 l && mu_ok p 1 l
            then bind (foldM (mu_g1 p) x0 r0) (fun a => bind (number_from (mu_g2 p) 0 l) (fun nl => Some [a; zsum nl])) else None).
  { unfold l. cbn [term_seq mu_ok]. fold (mu_g1 p). fold (mu_g2 p).
    destruct (foldM (mu_g1 p) x0 r0); cbn [is_some bind andb]; [|reflexivity].
    destruct (number_from (mu_g2 p) 0 (x0 :: r0)); reflexivity. }
  rewrite Hseq. destruct (qresult_fails m) eqn:Hf.
  - apply (multi_use_error_reported_lem 2 (mu_beh p) source (sched ++ sched') Hc) in Hf. destruct Hf as (j & Hj & Hv).
    destruct (mu_ok p j l) eqn:E; [rewrite (proj1 (Hview j) E) in Hv; discriminate|].
    destruct j as [|[|j]]; [rewrite E; reflexivity|rewrite E, andb_false_r; reflexivity|lia].
  - pose proof (multi_use_sequential_views_lem 2 (mu_beh p) source (sched ++ sched') Hc Hf) as Hv. fold m in Hv.
    assert (Hnofail : forall j, j < 2 -> mu_ok p j l = true).
    { intros j Hj. destruct (mu_ok p j l) eqn:E; [reflexivity|].
      assert (qresult_fails m = true); [|congruence].
      apply (multi_use_error_reported_lem 2 (mu_beh p) source (sched ++ sched') Hc). exists j. split; [exact Hj|apply (proj2 (Hview j) E)]. }
    destruct (qcs m) as [|c0 [|c1 [|c2 cs]]] eqn:Hcs; cbn in Hlen; try lia.
    pose proof (Hv 0 c0 eq_refl) as H0. pose proof (Hv 1 c1 eq_refl) as H1.
    rewrite (proj1 (Hview 0) (Hnofail 0 ltac:(lia))) in H0. rewrite (proj1 (Hview 1) (Hnofail 1 ltac:(lia))) in H1.
    injection H0 as H0 _. injection H1 as H1 _. rewrite <- H0, <- H1. unfold source. rewrite ok_prefix_oks.
    rewrite (Hnofail 0), (Hnofail 1) by lia. reflexivity.
Qed.
