(* LAZY (demand-driven) deep embedding of list pipelines in front of a short-circuit consumer
   (first, top(n), present, indexWhere, single, ~ ...).

   Streams are `list (res Z)`: an element is a value or an error; a Producer of github.com/hneemann/iterator goes on
   after an error for as long as its consumer's yield answers true.

     lazy_seq  : SPECIFICATION side - the element sequence of strictly sequential evaluation
                 (iterator.Map / iterator.Filter on the calling goroutine), errors in place
     lazy_par  : MODEL of the implementation - every map / accept stage runs through the MapAuto / FilterAuto protocol
                 of Conc/ParMap.v (k items on the caller, the timing decision, the worker count, a schedule of feeder /
                 workers / collector) in front of a consumer that stops at a moment `lp_stop` chosen per stage;
                 a closure stage without workers of its own (LScan; number) runs inside the yield of its upstream, i.e. on
                 the collector goroutine of the parallel stage in front of it, and stops when its consumer stops.
                 The source of a stage is what its upstream has delivered (the feeder of a downstream MapAuto runs
                 inside the upstream collector's yield).  The moments at which the stages' consumers stop are INPUTS
                 (like the schedules): in the library the consumer of an inner stage is the feeder of the next stage,
                 which stops when it sees its `done` channel closed - at some moment that depends on the downstream
                 schedule.  Quantifying over all stop moments of all stages covers all of these.
     verdict   : what a short-circuit consumer concludes from what it has been given: a function from the delivered
                 prefix to `continue | stop result`; an error element makes the evaluation fail.

   Definitions only; proofs are in LazyPipeProofs.v. *)
From P2 Require Import Base.Prelude Conc.ParMap Conc.Pipeline.
Local Open Scope Z_scope.

Inductive lstage :=
| LMap (p : sp)        (* map(x -> h(lin1 a b x)): iterator.MapAuto *)
| LAccept (p : sp)     (* accept(x -> h(lin1 a b x) mod k != 0): iterator.FilterAuto *)
| LScan (init : list Z) (step : list Z -> Z -> list Z * list (res Z)).  (* a closure stage on the calling goroutine, see lstep below *)

(* a closure stage that runs on the goroutine calling its yield: a state (a list of integers), a step from state and
   element to the new state and the elements it emits (each a value or the error of a failing closure call); an error
   element of the input is passed on and leaves the state alone.  list.go Number is exactly of this form (number_step:
   the index advances for values only).  iterator.Combine / IirMap / the fsm stage are of this form up to what they do
   BEHIND an error element (they overwrite their `last` with the zero value of the failed element) - elements behind the
   first error never reach a verdict; they are not instantiated here.  A stage that DROPS errors of its input (top, skip)
   is not of this form, and lazy_rel is not preserved by it. *)
Definition lstep := list Z -> Z -> list Z * list (res Z).

Fixpoint scan_stage (step : lstep) (st : list Z) (items : list (res Z)) : list (res Z) :=
  match items with
  | [] => []
  | RErr :: r => RErr :: scan_stage step st r
  | ROk x :: r => let (st', outs) := step st x in outs ++ scan_stage step st' r
  end.

(* what a consumer that stops when `stopf` says so is handed of l, and whether it has stopped *)
Fixpoint take_until (stopf : list (res Z) -> bool) (seen l : list (res Z)) : list (res Z) * bool :=
  match l with
  | [] => (seen, false)
  | x :: r => if stopf (seen ++ [x]) then (seen ++ [x], true) else take_until stopf (seen ++ [x]) r
  end.

(* number exactly as list.go does it, as a closure stage: state [n] *)
Definition number_step (p : sp) : lstep :=
  fun st x => let n := hd 0 st in ([n + 1], [to_res (hf (pfail p) (lin2 (pa p) (pb p) n x))]).
Definition lmap_fn (p : sp) (_ : nat) (x : Z) : res Z := to_res (map_fn p x).
Definition laccept_fn (p : sp) (x : Z) : res bool := to_res (accept_fn p x).

(* ---- specification side: strictly sequential evaluation ---------------------------------------------- *)
Definition lstage_seq (s : lstage) (items : list (res Z)) : list (res Z) :=
  match s with
  | LMap p => fst (seq_map (lmap_fn p) log_yield 0 items [])
  | LAccept p => seq_filter (laccept_fn p) items
  | LScan init step => scan_stage step init items
  end.

Fixpoint lazy_seq (stages : list lstage) (items : list (res Z)) : list (res Z) :=
  match stages with
  | [] => items
  | s :: r => lazy_seq r (lstage_seq s items)
  end.

(* ---- model side --------------------------------------------------------------------------------------- *)
(* the schedule inputs of one stage: those of Pipeline.par_params and the moment its consumer stops, as a predicate
   on what the consumer has been given so far *)
Record lparams : Type := mkLP { lp_pp : par_params; lp_stop : list (res Z) -> bool }.

Definition lstage_par (lp : lparams) (s : lstage) (items : list (res Z)) : list (res Z) :=
  let pp := lp_pp lp in
  match s with
  | LMap p => ma_cst (map_auto_run (lmap_fn p) (stop_yield (lp_stop lp))
                                   (pp_k pp) (pp_decide pp) (pp_nw pp) (pp_sched pp) items [])
  | LAccept p => ma_cst (map_auto_run (filter_mapper (laccept_fn p)) (filter_stop_yield (lp_stop lp))
                                      (pp_k pp) (pp_decide pp) (pp_nw pp) (pp_sched pp) items [])
  | LScan init step => fst (take_until (lp_stop lp) [] (scan_stage step init items))
  end.

(* an assignment gives every stage (by position; it may depend on the traversal, i.e. on the stage's input) its inputs *)
Definition lassignment := nat -> list (res Z) -> lparams.

Fixpoint lazy_par_from (asg : lassignment) (pos : nat) (stages : list lstage) (items : list (res Z)) : list (res Z) :=
  match stages with
  | [] => items
  | s :: r => lazy_par_from asg (S pos) r (lstage_par (asg pos items) s items)
  end.
Definition lazy_par (asg : lassignment) := lazy_par_from asg 0.

(* ---- the same, run to completion and with the stop moments COUPLED as in the library ---------------------------------
   ma_final: the given schedule, then the canonical completion (ParMap.drive).  A stage's consumer stops (its yield
   answers false) when the next stage has closed its `done` channel - because ITS consumer stopped or because an error
   reached its collector - or, for a stage on the calling goroutine, when its consumer has stopped. *)
Definition ma_final {A B C : Type} (f : nat -> A -> res B) (yield : C -> res B -> C * bool) (k : nat) (decide : bool)
           (nw : nat) (sched : list choice) (items : list (res A)) (c : C) :=
  match map_auto_run f yield k decide nw sched items c with
  | MASeq c' go => MASeq c' go
  | MAPar s => MAPar (drive f yield (measure s) s)
  end.

Definition ma_closed {A B C : Type} (m : @ma_state A B C) : bool :=
  match m with MASeq _ go => negb go | MAPar s => negb (doneOpen (col s)) end.

(* what the stage has delivered at the end, and whether it answers false to its upstream *)
Definition lstage_fin (lp : lparams) (s : lstage) (items : list (res Z)) : list (res Z) * bool :=
  let pp := lp_pp lp in
  match s with
  | LMap p => let m := ma_final (lmap_fn p) (stop_yield (lp_stop lp))
                                (pp_k pp) (pp_decide pp) (pp_nw pp) (pp_sched pp) items [] in (ma_cst m, ma_closed m)
  | LAccept p => let m := ma_final (filter_mapper (laccept_fn p)) (filter_stop_yield (lp_stop lp))
                                   (pp_k pp) (pp_decide pp) (pp_nw pp) (pp_sched pp) items [] in (ma_cst m, ma_closed m)
  | LScan init step => take_until (lp_stop lp) [] (scan_stage step init items)
  end.

(* schedule inputs per stage position and traversal *)
Definition passignment := nat -> list (res Z) -> par_params.

Fixpoint lazy_stops (pps : passignment) (cstop : list (res Z) -> bool) (pos : nat) (stages : list lstage) : list (res Z) -> bool :=
  match stages with
  | [] => cstop
  | s :: r => fun L => snd (lstage_fin (mkLP (pps pos L) (lazy_stops pps cstop (S pos) r)) s L)
  end.

Fixpoint lazy_run_from (pps : passignment) (cstop : list (res Z) -> bool) (pos : nat) (stages : list lstage) (items : list (res Z)) : list (res Z) :=
  match stages with
  | [] => items
  | s :: r => lazy_run_from pps cstop (S pos) r (fst (lstage_fin (mkLP (pps pos items) (lazy_stops pps cstop (S pos) r)) s items))
  end.
Definition lazy_run (pps : passignment) (cstop : list (res Z) -> bool) := lazy_run_from pps cstop 0.

Definition passignment_ok (pps : passignment) : Prop := forall pos l, (1 <= pp_nw (pps pos l))%nat.

(* ---- the short-circuit consumer ------------------------------------------------------------------------ *)
Inductive verdict (R : Type) : Type :=
| VResult (r : R)     (* the consumer has seen enough: it stops with r *)
| VFail               (* it was handed an error: evaluation fails *)
| VMore.              (* what was delivered does not decide it (the stream ended, or the run was cut) *)
Arguments VResult {R} r.
Arguments VFail {R}.
Arguments VMore {R}.

Fixpoint scan_from {R : Type} (cons : list Z -> option R) (seen : list Z) (l : list (res Z)) : verdict R :=
  match l with
  | [] => VMore
  | RErr :: _ => VFail
  | ROk x :: r => match cons (seen ++ [x]) with
                  | Some v => VResult v
                  | None => scan_from cons (seen ++ [x]) r
                  end
  end.
Definition scan {R : Type} (cons : list Z -> option R) (l : list (res Z)) : verdict R := scan_from cons [] l.

(* the stop predicate of a consumer `cons` as seen by the stage in front of it: it returns from yield with false when it
   has a result or was handed an error *)
Definition cons_stop {R : Type} (cons : list Z -> option R) (log : list (res Z)) : bool :=
  match scan cons log with VMore => false | _ => true end.

(* consumers of the library *)
Definition c_first (l : list Z) : option Z := match l with x :: _ => Some x | [] => None end.
Definition c_top (n : nat) (l : list Z) : option (list Z) := if Nat.leb n (length l) then Some l else None.
Definition c_index_where (q : Z -> bool) (l : list Z) : option Z :=
  if q (last l 0) then Some (Z.of_nat (length l) - 1) else None.
Definition c_present (q : Z -> bool) (l : list Z) : option bool := if q (last l 0) then Some true else None.
Definition c_contains (v : Z) (l : list Z) : option bool := c_present (Z.eqb v) l.
(* single: the second element decides (an error), a result needs the end of the stream *)
Definition c_second (l : list Z) : option unit := if Nat.leb 2 (length l) then Some tt else None.

(* the relation every stage preserves: the values delivered before the first error are a prefix of the sequential
   ones, and an error is delivered only if the sequential stream contains one *)
Definition lazy_rel (S L : list (res Z)) : Prop :=
  is_prefix (ok_prefix L) (ok_prefix S) /\ (noerr S = true -> noerr L = true).
