(* Protocol model of multiUse = iterator.CopyProducer: `run` (the calling goroutine) takes the items of the source one
   by one and hands each item to every consumer in turn over that consumer's unbuffered channel (`h.c <- d`, in holder
   order); every consumer (a goroutine of its own, running its closure over the copied list) records the item and is
   busy with it until it comes back to its receive.  After the last item the channels are closed.
   Modelled for consumers that consume their list completely and do not fail (then errorTerm is never closed and no
   h.stop fires before the end; the 5 s timeout branch is a liveness guard outside the model).  An item is a value or an
   error: errors travel to the consumers like values.  `fed` is a ghost: the items every consumer has been given.
   A schedule is a list of choices; a choice that is not enabled leaves the state unchanged. *)
From P2 Require Import Base.Prelude Conc.ParMap.
Set Implicit Arguments.

Section CopyProd.
Context {V : Type}.
Variable ncons : nat.      (* number of consumers = functions in the map given to multiUse *)

Record cstate : Type := mkCS {
  csrc : list (res V);                          (* what the source has not produced yet *)
  ccur : option (res V * nat);                  (* the item being distributed and the next holder to receive it *)
  ccs : list (list (res V) * bool);             (* per consumer: what it has received, and whether it is busy with the last item *)
  cclosed : bool;                               (* the source is exhausted and all channels are closed *)
  cfed : list (res V)                           (* ghost: items handed to ALL consumers *)
}.

Inductive cchoice : Type :=
| CPull               (* run: next iteration of `for v, err := range in` (or the loop ends: close all channels) *)
| CSend               (* `h.c <- d` received by the holder whose turn it is *)
| CReady (j : nat).   (* consumer j has processed its item and is back at its receive *)

Definition norm (x : res V) (j : nat) (fed : list (res V)) : option (res V * nat) * list (res V) :=
  if Nat.ltb j ncons then (Some (x, j), fed) else (None, fed ++ [x]).

Definition cstep (m : cstate) (ch : cchoice) : cstate :=
  match ch with
  | CPull =>
      match ccur m, cclosed m with
      | None, false =>
          match csrc m with
          | [] => mkCS [] None (ccs m) true (cfed m)
          | x :: r => let (cur, fed) := norm x 0 (cfed m) in mkCS r cur (ccs m) false fed
          end
      | _, _ => m
      end
  | CSend =>
      match ccur m with
      | Some (x, j) =>
          match nth_error (ccs m) j with
          | Some (log, false) =>
              let (cur, fed) := norm x (S j) (cfed m) in
              mkCS (csrc m) cur (set_nth j (log ++ [x], true) (ccs m)) (cclosed m) fed
          | _ => m
          end
      | None => m
      end
  | CReady j =>
      match nth_error (ccs m) j with
      | Some (log, true) => mkCS (csrc m) (ccur m) (set_nth j (log, false) (ccs m)) (cclosed m) (cfed m)
      | _ => m
      end
  end.

Definition crun (m : cstate) (sched : list cchoice) : cstate := fold_left cstep sched m.

Definition cinit (source : list (res V)) : cstate := mkCS source None (repeat ([], false) ncons) false [].

(* everything is handed out, the channels are closed and every consumer has finished *)
Definition ccomplete (m : cstate) : bool :=
  cclosed m && match ccur m with None => true | Some _ => false end && forallb (fun c => negb (snd c)) (ccs m).

Definition cenabled (m : cstate) (ch : cchoice) : bool :=
  match ch with
  | CPull => match ccur m with None => negb (cclosed m) | Some _ => false end
  | CSend => match ccur m with
             | Some (_, j) => match nth_error (ccs m) j with Some (_, false) => true | _ => false end
             | None => false
             end
  | CReady j => match nth_error (ccs m) j with Some (_, true) => true | _ => false end
  end.

Definition nbusy (cs : list (list (res V) * bool)) : nat := length (filter (fun c => snd c) cs).
Definition cmeasure (m : cstate) : nat :=
  (2 * ncons + 2) * length (csrc m)
  + match ccur m with Some (_, j) => 2 * (ncons - j) | None => 0 end
  + nbusy (ccs m) + (if cclosed m then 0 else 1).

End CopyProd.
