(* Proofs about the protocol models of Conc/ParMap.v, Conc/SharedStack.v and the ownership map of Conc/Pipeline.v. *)
From P2 Require Import Base.Prelude Conc.ParMap Conc.SharedStack Conc.Pipeline.
From Coq Require Import Lia Permutation.

(* ------------------------------------------------------------------------------------------------
   SharedStack: two agents on ONE storage.  Agent 0 = downstream callback (reduce: Push a; Push b; call),
   agent 1 = upstream callback (number: Push n; Push e; call).  Both Stack values start at offs 0, size 0 of the
   same storage, as when value/list.go passes `st` on to `l.iterable(st)`. *)
Definition shared_sys (a b n e : nat) : sys (V := nat) :=
  mkSys (fun _ => []) (fun i => match i with
                                | 0 => mkAgent 0 0 0 [OPush a; OPush b; OCall 2] [] false
                                | 1 => mkAgent 0 0 0 [OPush n; OPush e; OCall 2] [] false
                                | S (S j) => mkAgent (S (S j)) 0 0 [] [] false
                                end).

(* the four-step schedule: downstream pushes a, upstream pushes n over it, downstream pushes b and calls *)
Lemma shared_stack_interference :
  seen (agents (SharedStack.run 100 (shared_sys 11 22 33 44) [0; 1; 0; 0]) 0) = [[33; 22]]
  /\ story (shared_sys 11 22 33 44) 0 = [[11; 22]].
Proof. vm_compute. split; reflexivity. Qed.

(* ------------------------------------------------------------------------------------------------
   Ownership map: with the repaired code (fixed = true) no stack storage is used by two goroutines,
   whatever the pipeline and whichever map/accept stages switch to parallel execution. *)
Lemma own_bounds : forall l g pos u, In u (own true g pos l) ->
  match ugor u, ustk u with
  | GMain g', SEval s => g <= g' /\ g' + s <= g + nalloc l
  | GBranch p, SFresh q => p = q /\ pos <= p
  | _, _ => False
  end.
Proof.
  induction l as [|k r IH]; intros g pos u Hin; [destruct Hin|].
  destruct k as [sw|c| |]; cbn [own nalloc allocs] in Hin |- *.
  - apply IH in Hin. destruct (ugor u), (ustk u); try exact Hin; destruct sw; lia.
  - apply in_app_or in Hin. destruct Hin as [Hin|Hin].
    + destruct c; [|destruct Hin]. destruct Hin as [<-|[]]. cbn. lia.
    + destruct Hin as [<-|Hin]; [cbn; lia|].
      apply IH in Hin. destruct (ugor u), (ustk u); try exact Hin; lia.
  - destruct Hin as [<-|Hin]; [cbn; lia|].
    apply IH in Hin. destruct (ugor u), (ustk u); try exact Hin; lia.
  - apply IH in Hin. destruct (ugor u), (ustk u); try exact Hin; lia.
Qed.

Lemma sp_cons : forall x us,
  (forall v, In v us -> ustk x = ustk v -> ugor x = ugor v) -> stacks_private us -> stacks_private (x :: us).
Proof.
  intros x us Hx Hus u v [<-|Hu] [<-|Hv] Heq; auto.
  symmetry. apply Hx; auto.
Qed.

Lemma stacks_private_fixed_gen : forall l g pos, stacks_private (own true g pos l).
Proof.
  induction l as [|k r IH]; intros g pos; [intros u v []|].
  destruct k as [sw|c| |]; cbn [own].
  - apply IH.
  - assert (Hmain : stacks_private (mkUse (GMain (S g)) (SEval (nalloc r)) :: own true (S g) (S pos) r)).
    { apply sp_cons; [|apply IH]. intros v Hv Heq. cbn in Heq |- *.
      apply own_bounds in Hv. destruct (ugor v), (ustk v); try discriminate; try contradiction.
      injection Heq as <-. f_equal. lia. }
    destruct c; cbn [app]; [|exact Hmain].
    apply sp_cons; [|exact Hmain].
    intros v [<-|Hv] Heq; [discriminate|]. cbn in Heq.
    apply own_bounds in Hv. destruct (ugor v), (ustk v); try discriminate; try contradiction.
    injection Heq as <-. lia.
  - apply sp_cons; [|apply IH]. intros v Hv Heq. cbn in Heq |- *.
    apply own_bounds in Hv. destruct (ugor v), (ustk v); try discriminate; try contradiction.
    injection Heq as <-. f_equal. lia.
  - apply IH.
Qed.

(* the discipline before the repair: number -> map (switched) -> reduce puts two goroutines on the evaluation's stack *)
Lemma stacks_shared_witness : ~ stacks_private (own false 0 0 [OCalls; OPar true; OCalls]).
Proof.
  intro H. specialize (H (mkUse (GMain 0) (SEval 0)) (mkUse (GMain 1) (SEval 0))).
  cbn in H. assert (GMain 0 = GMain 1) by (apply H; auto). discriminate.
Qed.

(* ------------------------------------------------------------------------------------------------
   SharedStack: agents on pairwise different storages never see anything but their own arguments. *)
Section Private.
Context {V : Type}.
Variable limit : nat.

Lemma skipn_skipn' : forall (X : Type) (a b : nat) (l : list X), skipn a (skipn b l) = skipn (b + a) l.
Proof.
  intros X a b; revert a. induction b as [|b IH]; intros a l; [reflexivity|].
  destruct l as [|x l]; cbn [skipn plus]; [destruct a; reflexivity|apply IH].
Qed.

Lemma window_len : forall (a : agent (V := V)) d, offs a + size a <= length d -> length (window a d) = size a.
Proof. intros a d H. unfold window. rewrite firstn_length_le; [reflexivity|]. rewrite skipn_length. lia. Qed.

(* both successful branches of stackStorage.set write slot n and keep everything below *)
Lemma sset_shape : forall n (v : V) d d', sset limit n v d = Some d' ->
  n <= length d /\ d' = firstn n d ++ v :: skipn (S n) d.
Proof.
  intros n v d d' H. unfold sset in H.
  destruct (Nat.eqb n (length d)) eqn:E.
  - apply Nat.eqb_eq in E. destruct (Nat.ltb limit n); [discriminate|]. injection H as <-.
    split; [lia|]. subst n. rewrite firstn_all, skipn_all2 by lia. reflexivity.
  - destruct (Nat.ltb n (length d)) eqn:E2; [|discriminate]. apply Nat.ltb_lt in E2. injection H as <-. split; [lia|reflexivity].
Qed.

Lemma push_window : forall o sz (v : V) d, o + sz <= length d ->
  firstn (S sz) (skipn o (firstn (o + sz) d ++ v :: skipn (S (o + sz)) d)) = firstn sz (skipn o d) ++ [v].
Proof.
  intros o sz v d H.
  rewrite skipn_app, firstn_length_le by lia.
  replace (o - (o + sz)) with 0 by lia. cbn [skipn].
  rewrite skipn_firstn_comm. replace (o + sz - o) with sz by lia.
  assert (Hw : length (firstn sz (skipn o d)) = sz) by (rewrite firstn_length_le; [reflexivity|rewrite skipn_length; lia]).
  rewrite firstn_app, Hw. rewrite firstn_all2 by lia.
  replace (S sz - sz) with 1 by lia. reflexivity.
Qed.

Lemma agent_step_ok : forall (a : agent (V := V)) d, wf_agent limit a d ->
  let (a', d') := agent_step limit a d in
  wf_agent limit a' d' /\ sid a' = sid a /\
  seen a' ++ expect (window a' d') (todo a') = seen a ++ expect (window a d) (todo a).
Proof.
  intros a d (Hp & Hlen & Hlim & Hwf). unfold agent_step. rewrite Hp.
  destruct (todo a) as [|[v|k] r] eqn:Htodo.
  - split; [unfold wf_agent; rewrite Htodo; auto|]. split; [reflexivity|]. rewrite Htodo. reflexivity.
  - cbn [npush wf_prog] in Hlim, Hwf.
    destruct (sset limit (offs a + size a) v d) as [d'|] eqn:Hs.
    + destruct (sset_shape _ _ _ _ Hs) as (_ & ->).
      assert (Hl : length (firstn (offs a + size a) d ++ v :: skipn (S (offs a + size a)) d) <= S (length d) /\
                   offs a + S (size a) <= length (firstn (offs a + size a) d ++ v :: skipn (S (offs a + size a)) d)).
      { rewrite app_length, firstn_length_le by lia. cbn [length]. rewrite skipn_length. lia. }
      split; [|split; [reflexivity|]].
      * unfold wf_agent. cbn [panicked offs size todo]. repeat split; try lia. exact Hwf.
      * cbn [seen todo expect]. unfold window at 1. cbn [size offs].
        rewrite push_window by lia. reflexivity.
    + exfalso. unfold sset in Hs.
      destruct (Nat.eqb (offs a + size a) (length d)) eqn:E.
      * apply Nat.eqb_eq in E. destruct (Nat.ltb limit (offs a + size a)) eqn:E2; [|discriminate].
        apply Nat.ltb_lt in E2. lia.
      * apply Nat.eqb_neq in E. destruct (Nat.ltb (offs a + size a) (length d)) eqn:E2; [discriminate|].
        apply Nat.ltb_ge in E2. lia.
  - cbn [npush wf_prog] in Hlim, Hwf. destruct Hwf as (Hk & Hwf).
    destruct (Nat.leb k (size a)) eqn:E; [|apply Nat.leb_gt in E; lia].
    split; [|split; [reflexivity|]].
    + unfold wf_agent. cbn [panicked offs size todo]. repeat split; try lia. exact Hwf.
    + cbn [seen todo expect]. rewrite <- app_assoc. f_equal. cbn [app].
      rewrite (window_len a d Hlen). f_equal.
      * unfold window. rewrite skipn_firstn_comm, skipn_skipn'.
        replace (size a - (size a - k)) with k by lia. reflexivity.
      * unfold window. cbn [size offs]. rewrite firstn_firstn.
        replace (Nat.min (size a - k) (size a)) with (size a - k) by lia. reflexivity.
Qed.

Lemma step_ok : forall (s : sys (V := V)) i, wf_sys limit s -> private s ->
  wf_sys limit (SharedStack.step limit s i) /\ private (SharedStack.step limit s i) /\
  (forall j, story (SharedStack.step limit s i) j = story s j) /\
  (forall j, sid (agents (SharedStack.step limit s i) j) = sid (agents s j)).
Proof.
  intros s i Hwf Hpriv. unfold SharedStack.step.
  pose proof (agent_step_ok (agents s i) (stores s (sid (agents s i))) (Hwf i)) as H.
  destruct (agent_step limit (agents s i) (stores s (sid (agents s i)))) as [a' d'].
  destruct H as (Hwa & Hsid & Hstory).
  assert (Hsids : forall j, sid (upd (agents s) i a' j) = sid (agents s j)).
  { intro j. unfold upd. destruct (Nat.eqb j i) eqn:E; [apply Nat.eqb_eq in E; subst; exact Hsid|reflexivity]. }
  assert (Hother : forall j, j <> i -> upd (stores s) (sid (agents s i)) d' (sid (agents s j)) = stores s (sid (agents s j))).
  { intros j Hj. unfold upd. destruct (Nat.eqb (sid (agents s j)) (sid (agents s i))) eqn:E; [|reflexivity].
    apply Nat.eqb_eq in E. exfalso. exact (Hpriv j i Hj E). }
  split; [|split; [|split]].
  - intro j. cbn [stores agents]. rewrite Hsids. unfold upd at 1.
    destruct (Nat.eqb j i) eqn:E.
    + apply Nat.eqb_eq in E. subst j. unfold upd. rewrite Nat.eqb_refl. exact Hwa.
    + apply Nat.eqb_neq in E. rewrite Hother by exact E. apply Hwf.
  - intros j1 j2 Hj. cbn [agents]. rewrite !Hsids. apply Hpriv. exact Hj.
  - intro j. unfold story. cbn [stores agents]. rewrite Hsids.
    destruct (Nat.eq_dec j i) as [->|Hne].
    + assert (Ha : upd (agents s) i a' i = a') by (unfold upd; rewrite Nat.eqb_refl; reflexivity).
      assert (Hd : upd (stores s) (sid (agents s i)) d' (sid (agents s i)) = d') by (unfold upd; rewrite Nat.eqb_refl; reflexivity).
      rewrite Ha, Hd. exact Hstory.
    + assert (Ha : upd (agents s) i a' j = agents s j).
      { unfold upd. apply Nat.eqb_neq in Hne. rewrite Hne. reflexivity. }
      rewrite Ha, Hother by exact Hne. reflexivity.
  - exact Hsids.
Qed.

Lemma private_noninterference : forall sched (s : sys (V := V)), wf_sys limit s -> private s ->
  forall i, story (SharedStack.run limit s sched) i = story s i
            /\ panicked (agents (SharedStack.run limit s sched) i) = false.
Proof.
  induction sched as [|c sched IH]; intros s Hwf Hpriv i.
  - split; [reflexivity|]. destruct (Hwf i) as (Hp & _). exact Hp.
  - cbn [SharedStack.run fold_left].
    destruct (step_ok s c Hwf Hpriv) as (Hwf' & Hpriv' & Hst & _).
    destruct (IH _ Hwf' Hpriv' i) as (H1 & H2). split; [|exact H2].
    unfold SharedStack.run in H1. rewrite H1. apply Hst.
Qed.

(* when an agent has finished, its callees saw exactly what the specification side says *)
Lemma private_finished : forall sched (s : sys (V := V)) i, wf_sys limit s -> private s ->
  todo (agents (SharedStack.run limit s sched) i) = [] ->
  seen (agents (SharedStack.run limit s sched) i) = story s i.
Proof.
  intros sched s i Hwf Hpriv Hdone. destruct (private_noninterference sched s Hwf Hpriv i) as (H & _).
  unfold story at 1 in H. rewrite Hdone in H. cbn [expect] in H. rewrite app_nil_r in H. exact H.
Qed.
End Private.

(* ------------------------------------------------------------------------------------------------
   The collector of initParallel restores the index order, whatever the order of arrival. *)
Section Collector.
Context {B : Type}.
Variable out : nat -> res B.     (* the result that belongs to index k *)
Variable i0 : nat.               (* first index handled in parallel (nextOut := i) *)

Definition le_res (o e : res B) : Prop := e = o \/ e = RErr.

Notation coll := (coll (B := B) (C := list (res B))).

(* P = the indices that have arrived so far; `strict` = the inner for-loop has run to its break *)
Definition cinv (strict : bool) (P : list nat) (s : coll) : Prop :=
  alive s = true /\ stuck s = false /\ i0 <= nextOut s /\
  (forall k, i0 <= k < nextOut s -> In k P) /\
  (strict = true -> ~ In (nextOut s) P) /\
  (forall k v, In (k, v) (buffer s) <-> (In k P /\ (if strict then nextOut s < k else nextOut s <= k) /\ v = out k)) /\
  Forall2 le_res (map out (seq i0 (nextOut s - i0))) (cst s) /\
  (cerr s = false -> cst s = map out (seq i0 (nextOut s - i0))) /\
  (cerr s = false <-> (forall k, In k P -> is_err (out k) = false)) /\
  (doneOpen s = negb (cerr s)).

Lemma seq_snoc : forall a n, a <= n -> seq a (S n - a) = seq a (n - a) ++ [n].
Proof. intros a n H. replace (S n - a) with (S (n - a)) by lia. rewrite seq_S. f_equal. f_equal. lia. Qed.

Lemma filter_length_le' : forall (X : Type) (p : X -> bool) (l : list X), length (filter p l) <= length l.
Proof. intros X p l. induction l as [|y l IH]; [reflexivity|]. cbn [filter length]. destruct (p y); cbn [length]; lia. Qed.

Lemma filter_length_lt : forall (X : Type) (p : X -> bool) (l : list X) x, In x l -> p x = false -> length (filter p l) < length l.
Proof.
  intros X p l x. induction l as [|y l IH]; intros Hin Hp; [destruct Hin|].
  cbn [filter length]. destruct Hin as [->|Hin].
  - rewrite Hp. pose proof (filter_length_le' _ p l). lia.
  - specialize (IH Hin Hp). destruct (p y); cbn [length]; lia.
Qed.

Lemma cinv_strict : forall P (s : coll), cinv false P s -> lookup (nextOut s) (buffer s) = None -> cinv true P s.
Proof.
  intros P s (Ha & Hs & Hi & Hall & _ & Hbuf & Hf & Hex & Herr & Hd) Hl. unfold lookup in Hl.
  assert (Hnot : ~ In (nextOut s) P).
  { intro HinP. assert (Hb : In (nextOut s, out (nextOut s)) (buffer s)) by (apply Hbuf; repeat split; auto).
    apply (find_none _ _ Hl) in Hb. cbn [fst] in Hb. rewrite Nat.eqb_refl in Hb. discriminate. }
  unfold cinv. split; [exact Ha|]. split; [exact Hs|]. split; [exact Hi|]. split; [exact Hall|].
  split; [intros _; exact Hnot|]. split; [|split; [exact Hf|split; [exact Hex|split; [exact Herr|exact Hd]]]].
  intros k v. rewrite Hbuf. split.
  - intros (HkP & Hle & Hv). repeat split; auto.
    destruct (Nat.eq_dec k (nextOut s)) as [->|Hne]; [contradiction|lia].
  - intros (HkP & Hlt & Hv). repeat split; auto. lia.
Qed.

Lemma flush_ok : forall fuel P (s : coll), cinv false P s -> length (buffer s) <= fuel -> cinv true P (flush log_yield fuel s).
Proof.
  induction fuel as [|fuel IH]; intros P s Hinv Hlen.
  - assert (Hl : lookup (nextOut s) (buffer s) = None).
    { destruct (buffer s); [reflexivity|cbn in Hlen; lia]. }
    cbn [flush]. rewrite Hl. apply cinv_strict; assumption.
  - cbn [flush]. destruct (lookup (nextOut s) (buffer s)) as [e|] eqn:Hl; [|apply cinv_strict; assumption].
    unfold lookup in Hl. apply find_some in Hl. destruct Hl as (Hin & Hk). apply Nat.eqb_eq in Hk.
    destruct Hinv as (Ha & Hs & Hi & Hall & _ & Hbuf & Hf & Hex & Herr & Hd).
    destruct e as [k v]. cbn [fst snd] in *. subst k.
    pose proof (proj1 (Hbuf _ _) Hin) as (HinP & _ & Hv).
    unfold log_yield. apply IH.
    + unfold cinv. cbn [alive stuck nextOut buffer cst cerr doneOpen].
      split; [reflexivity|]. split; [exact Hs|]. split; [lia|]. split.
      { intros k Hk. destruct (Nat.eq_dec k (nextOut s)) as [->|Hne]; [exact HinP|apply Hall; lia]. }
      split; [discriminate|]. split.
      { intros k w. unfold remove. rewrite filter_In. cbn [fst]. rewrite Hbuf. split.
        - intros ((Hk & Hle & Hw) & Hne). apply negb_true_iff, Nat.eqb_neq in Hne. repeat split; auto. lia.
        - intros (Hk & Hle & Hw). repeat split; auto; try lia. apply negb_true_iff, Nat.eqb_neq. lia. }
      split.
      { rewrite seq_snoc by exact Hi. rewrite map_app. apply Forall2_app; [exact Hf|]. constructor; [left; exact Hv|constructor]. }
      split.
      { intro Hc. rewrite seq_snoc by exact Hi. rewrite map_app, (Hex Hc), Hv. reflexivity. }
      split; [exact Herr|exact Hd].
    + cbn [buffer]. unfold remove.
      assert (length (filter (fun e : nat * res B => negb (fst e =? nextOut s)) (buffer s)) < length (buffer s)).
      { apply filter_length_lt with (x := (nextOut s, v)); [exact Hin|]. cbn [fst]. rewrite Nat.eqb_refl. reflexivity. }
      lia.
Qed.

Lemma arrive_ok : forall P (s : coll) k, cinv true P s -> ~ In k P -> i0 <= k ->
  cinv true (k :: P) (arrive log_yield s (k, out k)).
Proof.
  intros P s k (Ha & Hs & Hi & Hall & Hnot & Hbuf & Hf & Hex & Herr & Hd) HkP Hk0.
  specialize (Hnot eq_refl).
  assert (Hge : nextOut s <= k).
  { destruct (Nat.le_gt_cases (nextOut s) k) as [H|H]; [exact H|]. exfalso. apply HkP, Hall. lia. }
  unfold arrive. cbn [fst snd].
  set (s1 := if is_err (out k) && negb (cerr s) then mkColl (nextOut s) (buffer s) true false (cst s) (alive s) (stuck s) else s).
  rewrite Ha. cbn [negb].
  assert (H1 : nextOut s1 = nextOut s /\ buffer s1 = buffer s /\ cst s1 = cst s /\ alive s1 = true /\ stuck s1 = false
               /\ (cerr s1 = false -> cerr s = false /\ is_err (out k) = false)
               /\ (cerr s = false -> is_err (out k) = false -> cerr s1 = false)
               /\ doneOpen s1 = negb (cerr s1)).
  { unfold s1. destruct (is_err (out k)) eqn:E1, (cerr s) eqn:E2; cbn; repeat split; auto; try discriminate; intros; try discriminate; try congruence; try (rewrite E2; exact Hd). }
  destruct H1 as (Hn1 & Hb1 & Hc1 & Ha1 & Hs1 & He1 & He1' & Hd1). clearbody s1.
  assert (Herr' : cerr s1 = false <-> (forall k', In k' (k :: P) -> is_err (out k') = false)).
  { split.
    - intros Hc k' [<-|Hin]; [apply He1; exact Hc|]. apply Herr; [apply He1; exact Hc|exact Hin].
    - intro Hall'. apply He1'; [apply Herr; intros; apply Hall'; right; assumption|apply Hall'; left; reflexivity]. }
  rewrite Hn1. destruct (Nat.eqb k (nextOut s)) eqn:E.
  - apply Nat.eqb_eq in E. subst k. unfold log_yield at 1. apply flush_ok; [|cbn [buffer]; lia].
    unfold cinv. cbn [alive stuck nextOut buffer cst cerr doneOpen].
    split; [reflexivity|]. split; [exact Hs1|]. split; [lia|]. split.
    { intros j Hj. destruct (Nat.eq_dec j (nextOut s)) as [->|Hne]; [left; reflexivity|right; apply Hall; lia]. }
    split; [discriminate|]. split.
    { intros j w. rewrite Hb1, Hbuf. cbn [In]. split.
      - intros (HjP & Hlt & Hw). repeat split; auto. 
      - intros ([Hj|HjP] & Hle & Hw); [lia|]. repeat split; auto. }
    rewrite Hc1. split.
    { rewrite seq_snoc by exact Hi. rewrite map_app. apply Forall2_app; [exact Hf|]. constructor; [|constructor].
      destruct (cerr s1); [right; reflexivity|left; reflexivity]. }
    split; [|split; [exact Herr'|exact Hd1]].
    intro Hc. rewrite Hc. rewrite seq_snoc by exact Hi. rewrite map_app, (Hex (proj1 (He1 Hc))). reflexivity.
  - apply Nat.eqb_neq in E.
    unfold cinv. cbn [alive stuck nextOut buffer cst cerr doneOpen]. rewrite Hb1, Hc1.
    split; [exact Ha1|]. split; [exact Hs1|]. split; [exact Hi|]. split.
    { intros j Hj. right. apply Hall. exact Hj. }
    split. { intros _ [Hj|Hj]; [lia|contradiction]. }
    split.
    { intros j w. cbn [In]. rewrite Hbuf. split.
      - intros [Heq|(HjP & Hlt & Hw)]; [injection Heq as <- <-; repeat split; auto; lia|repeat split; auto].
      - intros ([<-|HjP] & Hlt & Hw); [left; subst w; reflexivity|right; repeat split; auto]. }
    split; [exact Hf|]. split; [|split; [exact Herr'|exact Hd1]].
    intro Hc. apply Hex. apply He1. exact Hc.
Qed.

Lemma cinv_init : cinv true [] (coll_init i0 ([] : list (res B))).
Proof.
  unfold cinv, coll_init. cbn [alive stuck nextOut buffer cst cerr doneOpen].
  replace (i0 - i0) with 0 by lia. cbn [seq map negb].
  split; [reflexivity|]. split; [reflexivity|]. split; [lia|]. split; [intros k Hk; lia|].
  split; [intros _ []|]. split.
  { intros k v. split; [intros []|intros ([] & _)]. }
  split; [constructor|]. split; [reflexivity|]. split; [|reflexivity].
  split; [intros _ k []|reflexivity].
Qed.

(* arrivals: distinct indices >= i0, each carrying the result that belongs to its index *)
Definition arrivals_ok (arr : list (nat * res B)) : Prop :=
  NoDup (map fst arr) /\ forall k v, In (k, v) arr -> i0 <= k /\ v = out k.

Lemma collect_inv : forall arr P (s : coll), cinv true P s ->
  NoDup (map fst arr) -> (forall k v, In (k, v) arr -> i0 <= k /\ v = out k /\ ~ In k P) ->
  cinv true (rev (map fst arr) ++ P) (fold_left (arrive log_yield) arr s).
Proof.
  induction arr as [|[k v] arr IH]; intros P s Hinv Hnd Hok; [exact Hinv|].
  cbn [fold_left map rev fst]. rewrite <- app_assoc. cbn [app].
  destruct (Hok k v (or_introl eq_refl)) as (Hk0 & -> & HkP).
  inversion Hnd as [|? ? Hnotin Hnd']; subst.
  apply IH; [apply arrive_ok; assumption|exact Hnd'|].
  intros k' v' Hin. destruct (Hok k' v' (or_intror Hin)) as (H1 & H2 & H3). repeat split; auto.
  intros [<-|H]; [|contradiction]. apply Hnotin. apply in_map_iff. exists (k, v'). split; [reflexivity|exact Hin].
Qed.

Lemma collect_final : forall n arr, Permutation (map fst arr) (seq i0 n) ->
  (forall k v, In (k, v) arr -> v = out k) ->
  let s := collect log_yield i0 [] arr in
  stuck s = false /\ nextOut s = i0 + n /\ buffer s = [] /\
  Forall2 le_res (map out (seq i0 n)) (cst s) /\
  ((forall k, i0 <= k < i0 + n -> is_err (out k) = false) -> cst s = map out (seq i0 n) /\ doneOpen s = true).
Proof.
  intros n arr Hperm Hval s.
  assert (Hnd : NoDup (map fst arr)) by (apply (Permutation_NoDup (Permutation_sym Hperm)), seq_NoDup).
  assert (Hrange : forall k, In k (map fst arr) <-> i0 <= k < i0 + n).
  { intro k. rewrite <- in_seq. split; apply Permutation_in; [exact Hperm|apply Permutation_sym; exact Hperm]. }
  assert (Hinv : cinv true (rev (map fst arr) ++ []) s).
  { apply collect_inv; [apply cinv_init|exact Hnd|]. intros k v Hin. repeat split; [|apply Hval; exact Hin|intros []].
    apply (Hrange k). apply in_map_iff. exists (k, v). split; [reflexivity|exact Hin]. }
  rewrite app_nil_r in Hinv.
  destruct Hinv as (Ha & Hs & Hi & Hall & Hnot & Hbuf & Hf & Hex & Herr & Hd).
  assert (HP : forall k, In k (rev (map fst arr)) <-> i0 <= k < i0 + n) by (intro k; rewrite <- in_rev; apply Hrange).
  assert (Hn : nextOut s = i0 + n).
  { specialize (Hnot eq_refl). rewrite HP in Hnot.
    destruct (Nat.lt_ge_cases (i0 + n) (nextOut s)) as [Hlt|Hge]; [|lia].
    assert (In (i0 + n) (rev (map fst arr))) by (apply Hall; lia). apply HP in H. lia. }
  rewrite Hn in *. replace (i0 + n - i0) with n in * by lia.
  split; [exact Hs|]. split; [reflexivity|]. split.
  { destruct (buffer s) as [|[k v] b] eqn:Hb; [reflexivity|].
    assert (Hin : In (k, v) ((k, v) :: b)) by (left; reflexivity).
    apply Hbuf in Hin. destruct Hin as (HkP & Hlt & _). apply HP in HkP. lia. }
  split; [exact Hf|].
  intro Hok. assert (Hc : cerr s = false) by (apply Herr; intros k Hk; apply Hok, HP, Hk).
  split; [apply Hex; exact Hc|]. rewrite Hd, Hc. reflexivity.
Qed.

(* any order of arrival of results that are all values is emitted in index order *)
Lemma collector_restores_order_lem : forall n arr, Permutation (map fst arr) (seq i0 n) ->
  (forall k v, In (k, v) arr -> v = out k) ->
  (forall k, i0 <= k < i0 + n -> is_err (out k) = false) ->
  cst (collect log_yield i0 [] arr) = map out (seq i0 n) /\ stuck (collect log_yield i0 [] arr) = false.
Proof.
  intros n arr Hp Hv Hok. destruct (collect_final n arr Hp Hv) as (Hs & _ & _ & _ & Hex). split; [apply Hex; exact Hok|exact Hs].
Qed.

Lemma forall2_le_err : forall xs ys j, Forall2 le_res xs ys -> nth_error xs j = Some RErr -> nth_error ys j = Some RErr.
Proof.
  intros xs ys j H. revert j. induction H as [|x y xs ys Hxy _ IH]; intros j Hj; [destruct j; discriminate|].
  destruct j as [|j]; cbn [nth_error] in *; [|apply IH; exact Hj].
  injection Hj as ->. destruct Hxy as [->| ->]; reflexivity.
Qed.

Lemma outcome_err : forall (X : Type) (l : list (res X)) j, nth_error l j = Some RErr -> outcome l = None.
Proof.
  intros X l. induction l as [|x l IH]; intros j Hj; [destruct j; discriminate|].
  destruct j as [|j]; cbn [nth_error] in Hj.
  - injection Hj as ->. reflexivity.
  - cbn [outcome]. destruct x; [|reflexivity]. rewrite (IH j Hj). reflexivity.
Qed.

(* a failing item makes the completely consumed output fail, at the position of that item at the latest *)
Lemma collector_reports_failure_lem : forall n arr k, Permutation (map fst arr) (seq i0 n) ->
  (forall k v, In (k, v) arr -> v = out k) ->
  i0 <= k < i0 + n -> out k = RErr ->
  nth_error (cst (collect log_yield i0 [] arr)) (k - i0) = Some RErr /\ outcome (cst (collect log_yield i0 [] arr)) = None.
Proof.
  intros n arr k Hp Hv Hk Hout. destruct (collect_final n arr Hp Hv) as (_ & _ & _ & Hf & _).
  assert (H : nth_error (cst (collect log_yield i0 [] arr)) (k - i0) = Some RErr).
  { apply (forall2_le_err _ _ _ Hf). rewrite nth_error_map.
    replace (nth_error (seq i0 n) (k - i0)) with (Some k); [cbn; rewrite Hout; reflexivity|].
    symmetry. rewrite nth_error_nth' with (d := 0) by (rewrite seq_length; lia). rewrite seq_nth by lia. f_equal. lia. }
  split; [exact H|]. exact (outcome_err _ _ _ H).
Qed.
End Collector.

(* ------------------------------------------------------------------------------------------------
   Feeder + any number of workers + collector under any schedule = the sequential map. *)
Section Protocol.
Context {A B : Type}.
Variable f : nat -> A -> res B.
Variable i0 : nat.
Variable items : list (res A).

Notation pstate := (pstate (A := A) (B := B) (C := list (res B))).

Definition out_of (k : nat) : res B :=
  match nth_error items (k - i0) with Some x => snd (work f (k, x)) | None => RErr end.

Definition indexed (l : list (res A)) : list (nat * res A) := combine (seq i0 (length l)) l.

Definition held (s : pstate) : list (nat * res B) :=
  flat_map (fun w => match w with Some r => [r] | None => [] end) (workers s).

Lemma held_set_some : forall (ws : list (option (nat * res B))) w r, nth_error ws w = Some None ->
  Permutation (flat_map (fun w => match w with Some r => [r] | None => [] end) (set_nth w (Some r) ws))
              (r :: flat_map (fun w => match w with Some r => [r] | None => [] end) ws).
Proof.
  induction ws as [|x ws IH]; intros w r H; [destruct w; discriminate|].
  destruct w as [|w]; cbn [nth_error set_nth flat_map] in *.
  - injection H as ->. reflexivity.
  - destruct x as [r'|]; cbn [app].
    + rewrite (IH _ r H). apply perm_swap.
    + apply IH. exact H.
Qed.

Lemma held_set_none : forall (ws : list (option (nat * res B))) w r, nth_error ws w = Some (Some r) ->
  Permutation (flat_map (fun w => match w with Some r => [r] | None => [] end) ws)
              (r :: flat_map (fun w => match w with Some r => [r] | None => [] end) (set_nth w None ws)).
Proof.
  induction ws as [|x ws IH]; intros w r H; [destruct w; discriminate|].
  destruct w as [|w]; cbn [nth_error set_nth flat_map] in *.
  - injection H as ->. reflexivity.
  - destruct x as [r'|]; cbn [app].
    + rewrite (IH _ r H). apply perm_swap.
    + apply IH. exact H.
Qed.

Lemma combine_app' : forall (X Y : Type) (a1 a2 : list X) (b1 b2 : list Y), length a1 = length b1 ->
  combine (a1 ++ a2) (b1 ++ b2) = combine a1 b1 ++ combine a2 b2.
Proof.
  intros X Y a1. induction a1 as [|x a1 IH]; intros a2 b1 b2 H; destruct b1 as [|y b1]; try discriminate; [reflexivity|].
  cbn [app combine]. f_equal. apply IH. cbn in H. lia.
Qed.

Lemma indexed_snoc : forall l x, indexed (l ++ [x]) = indexed l ++ [(i0 + length l, x)].
Proof.
  intros l x. unfold indexed. rewrite app_length. cbn [length]. rewrite Nat.add_1_r, seq_S.
  rewrite combine_app' by (rewrite seq_length; reflexivity). reflexivity.
Qed.

Definition pinv (s : pstate) : Prop :=
  (exists fed, items = fed ++ src s /\ nexti s = i0 + length fed /\
               Permutation (held s ++ trace s) (map (work f) (indexed fed))) /\
  col s = collect log_yield i0 [] (trace s) /\
  (feederDone s = true -> src s = [] \/ doneOpen (col s) = false).

Lemma flush_doneOpen : forall fu (st : coll (B := B) (C := list (res B))),
  doneOpen st = false -> doneOpen (flush log_yield fu st) = false.
Proof.
  induction fu as [|fu IH]; intros st Hst; cbn [flush]; destruct (lookup (nextOut st) (buffer st)); auto.
  unfold log_yield. apply IH. exact Hst.
Qed.

Lemma arrive_doneOpen : forall (st : coll (B := B) (C := list (res B))) r,
  doneOpen st = false -> doneOpen (arrive log_yield st r) = false.
Proof.
  intros st r H. unfold arrive. destruct (negb (alive st)); [exact H|].
  destruct (is_err (snd r) && negb (cerr st)); cbn [nextOut buffer cerr doneOpen cst alive stuck].
  - destruct (fst r =? nextOut st); unfold log_yield; [apply flush_doneOpen|]; reflexivity.
  - destruct (fst r =? nextOut st); unfold log_yield; [apply flush_doneOpen|]; exact H.
Qed.

Lemma pinv_step : forall s c, pinv s -> pinv (ParMap.step f log_yield s c).
Proof.
  intros s c Hs. pose proof Hs as ((fed & Hitems & Hnext & Hperm) & Hcol & Hdone).
  destruct c as [w|w|]; cbn [ParMap.step].
  - destruct (feederDone s) eqn:Hfd; [exact Hs|].
    destruct (src s) as [|x rest] eqn:Hsrc.
    + split; [exists fed; cbn [src nexti trace]; auto|].
      split; [exact Hcol|]. intros _. left. reflexivity.
    + destruct (nth_error (workers s) w) as [[r|]|] eqn:Hw; [exact Hs| |exact Hs].
      split.
      { exists (fed ++ [x]). cbn [src nexti trace]. rewrite <- app_assoc. split; [exact Hitems|].
        split; [rewrite app_length; cbn [length]; lia|].
        unfold held. cbn [workers]. rewrite indexed_snoc, map_app. cbn [map].
        rewrite (held_set_some _ _ _ Hw). cbn [app].
        rewrite Hnext. apply Permutation_cons_app. rewrite app_nil_r. exact Hperm. }
      split; [exact Hcol|]. cbn [feederDone]. discriminate.
  - destruct (nth_error (workers s) w) as [[r|]|] eqn:Hw; [|exact Hs|exact Hs].
    destruct (alive (col s)) eqn:Hal; [|exact Hs].
    split.
    { exists fed. cbn [src nexti trace]. split; [exact Hitems|]. split; [exact Hnext|].
      unfold held in *. cbn [workers]. rewrite <- Hperm. rewrite (held_set_none _ _ _ Hw).
      cbn [app]. rewrite app_assoc. symmetry. apply Permutation_cons_append. }
    split.
    { cbn [col trace]. unfold collect. rewrite fold_left_app. cbn [fold_left]. unfold collect in Hcol. rewrite <- Hcol. reflexivity. }
    cbn [feederDone src col]. intro Hfd. destruct (Hdone Hfd) as [H|H]; [left; exact H|].
    right. apply arrive_doneOpen. exact H.
  - destruct (feederDone s) eqn:Hfd; [exact Hs|].
    destruct (src s) as [|x rest] eqn:Hsrc; [exact Hs|].
    destruct (doneOpen (col s)) eqn:Hdo; [exact Hs|].
    split; [exists fed; cbn [src nexti trace]; auto|]. split; [exact Hcol|].
    cbn [col]. intros _. right. exact Hdo.
Qed.

Lemma pinv_run : forall sched s, pinv s -> pinv (ParMap.run f log_yield s sched).
Proof. induction sched as [|c sched IH]; intros s H; [exact H|]. cbn [ParMap.run fold_left]. apply IH, pinv_step, H. Qed.

Lemma pinv_init : forall nw, pinv (par_init i0 nw items ([] : list (res B))).
Proof.
  intro nw. unfold pinv, par_init. cbn [src nexti workers trace col feederDone]. split; [|split; [reflexivity|discriminate]].
  exists []. cbn [app length]. split; [reflexivity|]. split; [lia|].
  unfold held. cbn [workers]. rewrite app_nil_r. induction nw as [|nw IH]; [constructor|exact IH].
Qed.
End Protocol.

Section ProtocolFinal.
Context {A B : Type}.
Variable f : nat -> A -> res B.

Lemma work_pair : forall c : nat * res A, work f c = (fst c, snd (work f c)).
Proof. intros [k [a|]]; reflexivity. Qed.

Lemma work_indexed : forall (g : nat -> res B) l a,
  (forall j x, nth_error l j = Some x -> g (a + j) = snd (work f (a + j, x))) ->
  map (work f) (combine (seq a (length l)) l) = map (fun k => (k, g k)) (seq a (length l)).
Proof.
  intros g l. induction l as [|x l IH]; intros a H; [reflexivity|].
  cbn [length seq combine map]. rewrite work_pair. cbn [fst]. f_equal.
  - f_equal. specialize (H 0 x eq_refl). rewrite Nat.add_0_r in H. symmetry. exact H.
  - apply IH. intros j y Hj. specialize (H (S j) y Hj). rewrite Nat.add_succ_r in H. exact H.
Qed.

Lemma seq_map_log : forall l a (c : list (res B)),
  seq_map f log_yield a l c = (c ++ map (fun p => snd (work f p)) (combine (seq a (length l)) l), true).
Proof.
  induction l as [|x l IH]; intros a c; cbn [seq_map length seq combine map]; [rewrite app_nil_r; reflexivity|].
  unfold log_yield at 1. rewrite IH. rewrite <- app_assoc. reflexivity.
Qed.

Lemma exists_or_all : forall (q : nat -> bool) l, (forall k, In k l -> q k = false) \/ (exists k, In k l /\ q k = true).
Proof.
  intros q l. induction l as [|x l [IH|(k & Hk & Hq)]].
  - left. intros k [].
  - destruct (q x) eqn:E; [right; exists x; split; [left; reflexivity|exact E]|].
    left. intros k [<-|Hk]; [exact E|apply IH, Hk].
  - right. exists k. split; [right; exact Hk|exact Hq].
Qed.

Lemma nodup_app_r : forall (X : Type) (a b : list X), NoDup (a ++ b) -> NoDup b.
Proof. intros X a. induction a as [|x a IH]; intros b H; [exact H|]. inversion H; subst. apply IH. assumption. Qed.

Lemma is_err_true : forall (X : Type) (r : res X), is_err r = true -> r = RErr.
Proof. intros X [x|] H; [discriminate|reflexivity]. Qed.

(* the parallel phase started at any index, with any number of workers, under any schedule that has run to
   completion, gives the outcome of the sequential map: the same values in the same order, or "fails" *)
Lemma par_map_eq_seq_lem : forall i0 nw (items : list (res A)) sched,
  let s := ParMap.run f log_yield (par_init i0 nw items ([] : list (res B))) sched in
  complete s = true ->
  stuck (col s) = false /\
  outcome (cst (col s)) = outcome (fst (seq_map f log_yield i0 items [])).
Proof.
  intros i0 nw items sched s Hcomplete.
  pose proof (pinv_run f i0 items sched _ (pinv_init f i0 items nw)) as Hinv. fold s in Hinv.
  destruct Hinv as ((fed & Hitems & Hnext & Hperm) & Hcol & Hdone).
  set (out := out_of f i0 items).
  assert (Hout : forall l rest, items = l ++ rest ->
            map (work f) (indexed i0 l) = map (fun k => (k, out k)) (seq i0 (length l))).
  { intros l rest Hl. unfold indexed. apply work_indexed. intros j x Hj. unfold out, out_of.
    replace (i0 + j - i0) with j by lia. rewrite Hl, nth_error_app1 by (apply nth_error_Some; congruence).
    rewrite Hj. reflexivity. }
  (* the collector's invariant for what has arrived; in particular it is still running *)
  assert (Hnd : NoDup (map fst (held s ++ trace s)) /\ forall k v, In (k, v) (held s ++ trace s) -> i0 <= k < i0 + length fed /\ v = out k).
  { rewrite (Hout fed (src s) Hitems) in Hperm. split.
    - apply (Permutation_NoDup (l := map fst (map (fun k => (k, out k)) (seq i0 (length fed))))).
      + apply Permutation_map, Permutation_sym, Hperm.
      + rewrite map_map. cbn [fst]. rewrite map_id. apply seq_NoDup.
    - intros k v Hin. apply (Permutation_in _ Hperm) in Hin. apply in_map_iff in Hin.
      destruct Hin as (k' & Heq & Hk'). injection Heq as <- <-. apply in_seq in Hk'. split; [lia|reflexivity]. }
  destruct Hnd as (Hnd & Hvals).
  assert (Halive : alive (col s) = true).
  { assert (Hc : cinv out i0 true (rev (map fst (trace s)) ++ []) (col s)).
    { rewrite Hcol. apply collect_inv; [apply cinv_init| |].
      - rewrite map_app in Hnd. apply nodup_app_r in Hnd. exact Hnd.
      - intros k v Hin. destruct (Hvals k v) as (H1 & H2); [apply in_or_app; right; exact Hin|]. repeat split; [lia|exact H2|intros []]. }
    destruct Hc as (Ha & _). exact Ha. }
  unfold complete in Hcomplete. rewrite Halive in Hcomplete. cbn [negb orb] in Hcomplete.
  apply andb_true_iff in Hcomplete. destruct Hcomplete as (Hfd & Hidle).
  assert (Hheld : held s = []).
  { unfold held. clear -Hidle. induction (workers s) as [|w ws IH]; [reflexivity|].
    cbn [forallb] in Hidle. apply andb_true_iff in Hidle. destruct Hidle as (Hw & Hws).
    destruct w; [discriminate|]. cbn [flat_map app]. apply IH, Hws. }
  rewrite Hheld in *. cbn [app] in *.
  rewrite (Hout fed (src s) Hitems) in Hperm.
  assert (Hp1 : Permutation (map fst (trace s)) (seq i0 (length fed))).
  { apply (Permutation_map fst) in Hperm. rewrite map_map in Hperm. cbn [fst] in Hperm. rewrite map_id in Hperm. exact Hperm. }
  assert (Hv1 : forall k v, In (k, v) (trace s) -> v = out k) by (intros k v Hin; apply (Hvals k v Hin)).
  destruct (collect_final out i0 (length fed) (trace s) Hp1 Hv1) as (Hstuck & _ & _ & Hle & Hexact).
  rewrite <- Hcol in *. split; [exact Hstuck|].
  rewrite seq_map_log. cbn [fst app].
  assert (Hseq : map (fun p => snd (work f p)) (combine (seq i0 (length items)) items) = map out (seq i0 (length items))).
  { pose proof (Hout items [] (eq_sym (app_nil_r items))) as H. unfold indexed in H.
    apply (f_equal (map snd)) in H. rewrite !map_map in H. cbn [snd] in H. exact H. }
  rewrite Hseq.
  destruct (exists_or_all (fun k => is_err (out k)) (seq i0 (length items))) as [Hall|(k0 & Hk0 & Herr0)].
  - (* no item fails: done is never closed, everything is fed, the output is exact *)
    assert (Hlen : length items = length fed + length (src s)) by (rewrite Hitems at 1; apply app_length).
    destruct Hexact as (Hcst & Hopen).
    { intros k Hk. apply Hall. apply in_seq. lia. }
    destruct (Hdone Hfd) as [Hsrc|Hclosed]; [|congruence].
    rewrite Hsrc, app_nil_r in Hitems. rewrite Hcst, Hitems. reflexivity.
  - (* some item fails: both outcomes are "fails" *)
    apply in_seq in Hk0. apply is_err_true in Herr0.
    assert (Hs : outcome (map out (seq i0 (length items))) = None).
    { apply outcome_err with (j := k0 - i0). rewrite nth_error_map.
      rewrite nth_error_nth' with (d := 0) by (rewrite seq_length; lia). rewrite seq_nth by lia.
      replace (i0 + (k0 - i0)) with k0 by lia. cbn. rewrite Herr0. reflexivity. }
    rewrite Hs.
    destruct (exists_or_all (fun k => is_err (out k)) (seq i0 (length fed))) as [Hallf|(k1 & Hk1 & Herr1)].
    + (* nothing that was fed failed: then done is open, so everything was fed - contradiction with k0 *)
      destruct Hexact as (_ & Hopen). { intros k Hk. apply Hallf. apply in_seq. lia. }
      destruct (Hdone Hfd) as [Hsrc|Hclosed]; [|congruence].
      rewrite Hsrc, app_nil_r in Hitems. subst fed.
      exfalso. specialize (Hallf k0 (proj2 (in_seq _ _ _) Hk0)). rewrite Herr0 in Hallf. discriminate.
    + apply in_seq in Hk1. apply is_err_true in Herr1.
      apply outcome_err with (j := k1 - i0). apply (forall2_le_err _ _ _ Hle). rewrite nth_error_map.
      rewrite nth_error_nth' with (d := 0) by (rewrite seq_length; lia). rewrite seq_nth by lia.
      replace (i0 + (k1 - i0)) with k1 by lia. cbn. rewrite Herr1. reflexivity.
Qed.
End ProtocolFinal.

Lemma shared_stack_refuted_lem :
  exists sched, seen (agents (SharedStack.run 100 (shared_sys 11 22 33 44) sched) 0) <> story (shared_sys 11 22 33 44) 0.
Proof. exists [0; 1; 0; 0]. destruct shared_stack_interference as [H1 H2]. rewrite H1, H2. discriminate. Qed.

(* A second traversal of the same parallel map - new feeder, workers and collector state, another worker count,
   another schedule - gives the outcome of the first one. *)
Lemma iteration_is_repeatable_lem : forall (A B : Type) (f : nat -> A -> res B) (i0 nw1 nw2 : nat) (items : list (res A)) (sched1 sched2 : list choice),
  let s1 := ParMap.run f log_yield (par_init i0 nw1 items ([] : list (res B))) sched1 in
  let s2 := ParMap.run f log_yield (par_init i0 nw2 items ([] : list (res B))) sched2 in
  complete s1 = true -> complete s2 = true ->
  outcome (cst (col s1)) = outcome (cst (col s2)).
Proof.
  intros A B f i0 nw1 nw2 items sched1 sched2 s1 s2 H1 H2.
  destruct (par_map_eq_seq_lem f i0 nw1 items sched1 H1) as (_ & E1).
  destruct (par_map_eq_seq_lem f i0 nw2 items sched2 H2) as (_ & E2).
  fold s1 in E1. fold s2 in E2. rewrite E1, E2. reflexivity.
Qed.

(* ------------------------------------------------------------------------------------------------
   The index operator as an evaluation context: `list[i]` on a lazy list evaluates the list's stages (their closure
   calls) on a stack.  fresh = true: the stack is created by the access (value.go AccessList), so every access - by a
   worker of a parallel stage, or nested inside another access - is an agent on a storage of its own.
   fresh = false: one generator-wide stack; every access starts at offs 0, size 0 of the same storage. *)
Definition index_access_sys (fresh : bool) (progs : nat -> list (op (V := nat))) : sys (V := nat) :=
  mkSys (fun _ => []) (fun i => mkAgent (if fresh then i else 0) 0 0 (progs i) [] false).

Lemma index_access_private_lem : forall limit progs sched,
  (forall i, wf_prog 0 (progs i) /\ npush (progs i) <= S limit) ->
  forall i, story (SharedStack.run limit (index_access_sys true progs) sched) i = story (index_access_sys true progs) i
            /\ panicked (agents (SharedStack.run limit (index_access_sys true progs) sched) i) = false.
Proof.
  intros limit progs sched Hwf. apply private_noninterference.
  - intro i. destruct (Hwf i) as (H1 & H2). unfold wf_agent. cbn. repeat split; auto; lia.
  - intros i j Hij. cbn. exact Hij.
Qed.

(* the outer access (agent 0: number pushes i=7, x=8 and calls its closure) is re-entered by an inner access (agent 1,
   pushes 1, 4 and calls) before its callee reads its arguments: strictly sequential, one goroutine *)
Lemma index_access_shared_witness :
  let progs := fun i => match i with 0 => [OPush 7; OPush 8; OCall 2] | 1 => [OPush 1; OPush 4; OCall 2] | _ => [] end in
  seen (agents (SharedStack.run 100 (index_access_sys false progs) [0; 0; 1; 1; 1; 0]) 0) = [[1; 4]]
  /\ story (index_access_sys false progs) 0 = [[7; 8]]
  /\ seen (agents (SharedStack.run 100 (index_access_sys true progs) [0; 0; 1; 1; 1; 0]) 0) = [[7; 8]].
Proof. vm_compute. repeat split. Qed.

Lemma index_access_shared_refuted_lem :
  exists progs sched, seen (agents (SharedStack.run 100 (index_access_sys false progs) sched) 0) <> story (index_access_sys false progs) 0.
Proof.
  exists (fun i => match i with 0 => [OPush 7; OPush 8; OCall 2] | 1 => [OPush 1; OPush 4; OCall 2] | _ => [] end), [0; 0; 1; 1; 1; 0].
  destruct index_access_shared_witness as (H1 & H2 & _). rewrite H1, H2. discriminate.
Qed.
