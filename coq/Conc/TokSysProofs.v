(* The tokenizer goroutine of the real scanner model (Lex/Tok.v) as the producer of Conc/TokChan.v:
   instances of the protocol theorems for the token list Tok.tokenize cfg rs.  Used by Props/C04.v, Props/C12.v. *)
From P2 Require Import Base.Prelude Lex.Token Lex.Tok Lex.TokProofs.
From P2 Require Conc.TokChan Conc.TokChanProofs.
Require Import Lia.

(* the linear fuel suffices and the result is the list `tokenize` returns *)
Lemma tokenize_fuel_tokenize : forall cfg rs, ops_ok cfg ->
  tokenize_fuel (length rs + 2) cfg rs = Some (tokenize cfg rs).
Proof.
  intros cfg rs Hok. destruct (tokenize_total_lemma cfg rs Hok) as [ts E]. unfold tokenize. rewrite E. reflexivity.
Qed.

(* C04: scanning terminates with a token list (linear fuel), and whatever the parser does with it - any number k of
   receives - every interleaving of the two goroutines is bounded and can always go on until both have returned *)
Lemma parse_cannot_deadlock_lem : forall cfg rs, ops_ok cfg ->
  exists toks, tokenize_fuel (length rs + 2) cfg rs = Some toks /\
  forall k tr s, TokChan.run true (TokChan.init toks k) tr = Some s ->
    length tr <= Nat.max (length toks) k + 3
    /\ (TokChan.final s = true \/ exists a s', TokChan.step true s a = Some s').
Proof.
  intros cfg rs Hok. exists (tokenize cfg rs). split; [apply tokenize_fuel_tokenize; exact Hok|].
  intros k tr s Hr. split.
  - exact (proj1 (proj1 (TokChanProofs.drain_terminates_producer_lem _ (tokenize cfg rs) k) tr s Hr)).
  - exact (TokChanProofs.parse_cannot_deadlock_lem _ (tokenize cfg rs) k tr s Hr).
Qed.

(* the witness of the unrepaired Parse: "1 ) )", the parser stops after two tokens *)
Definition leak_cfg : tcfg :=
  mkCfg [[43%N]; [45%N]] [] [] false false MSimple (fun _ => false) (fun c => N.leb 48 c && N.leb c 57).
Definition leak_input : list N := [49; 32; 41; 32; 41]%N.

Lemma leak_witness_tokens : tokenize leak_cfg leak_input =
  [mkTok tNumber [49%N] 1; mkTok tClose [41%N] 1; mkTok tClose [41%N] 1].
Proof. vm_compute. reflexivity. Qed.

Lemma no_goroutine_left_before_repair_refuted_lem :
  exists cfg rs k tr s, k < length (tokenize cfg rs)
    /\ TokChan.run false (TokChan.init (tokenize cfg rs) k) tr = Some s
    /\ TokChan.producer_blocked_forever false s.
Proof.
  exists leak_cfg, leak_input, 2.
  assert (Hlt : 2 < length (tokenize leak_cfg leak_input)) by (rewrite leak_witness_tokens; cbn; lia).
  destruct (TokChanProofs.no_goroutine_left_before_repair_refuted_lem _ (tokenize leak_cfg leak_input) 2 Hlt) as [tr [s [Hr Hb]]].
  exists tr, s. split; [exact Hlt|]. split; assumption.
Qed.

(* C12 for the tokenizer goroutine: with the drain no reachable state has the tokenizer blocked forever *)
Lemma no_goroutine_left_lem : forall cfg rs (k : nat) tr s, ops_ok cfg ->
  TokChan.run true (TokChan.init (tokenize cfg rs) k) tr = Some s -> ~ TokChan.producer_blocked_forever true s.
Proof.
  intros cfg rs k tr s _ Hr [Hst Hc].
  destruct (proj1 (TokChanProofs.drain_terminates_producer_lem _ (tokenize cfg rs) k) tr s Hr) as [_ [_ H]].
  destruct (H Hst) as [Hc' _]. rewrite Hc in Hc'. discriminate.
Qed.
